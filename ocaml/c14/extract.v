From Coq Require Import Extraction ExtrOcamlBasic.
From RB Require Import Base.Prelude Conn.Rpc.
Extraction Language OCaml.
Set Extraction Output Directory ".".
Extraction "gen_model.ml" rpc0 step filter_family unknown_method.
