(* I/O wrapper around the extracted RpcConn model of C14 (Conn/Rpc.v). No logic of its own beyond
   parsing/printing and choosing the timeout mode of blocking operations from the model's state:
   I (Infinite) when the model finds the message, N (Nonblock) when it does not and the socket holds
   something, D (Duration 1ms) when the socket is empty.
   stdin:  run <filter index> <op>,<op>,...     ops as in harness/src/bin/c14.rs, without modes
   stdout: <ops with modes> <results>            results in the harness's format *)
open Gen_model

let rec pos_of_int n = if n = 1 then XH else if n land 1 = 0 then XO (pos_of_int (n lsr 1)) else XI (pos_of_int (n lsr 1))
let n_of_int n = if n = 0 then N0 else Npos (pos_of_int n)
let rec int_of_pos = function XH -> 1 | XO p -> 2 * int_of_pos p | XI p -> 2 * int_of_pos p + 1
let int_of_n = function N0 -> 0 | Npos p -> int_of_pos p
let rec nat_of_int n = if n = 0 then O else S (nat_of_int (n - 1))

let bytes_of_string s = List.init (String.length s) (fun i -> n_of_int (Char.code s.[i]))
let string_of_bytes l = String.concat "" (List.map (fun n -> String.make 1 (Char.chr (int_of_n n))) l)
let hex_of_bytes l = if l = [] then "-" else String.concat "" (List.map (fun n -> Printf.sprintf "%02x" (int_of_n n)) l)

let kind_of_char = function "c" -> KCall | "s" -> KSignal | "r" -> KReply | _ -> KError
let char_of_kind = function KCall -> "c" | KSignal -> "s" | KReply -> "r" | KError -> "e" | KInvalid -> "i"

(* the same message the harness builds from the spec *)
let msg_of_spec spec =
  match String.split_on_char '.' spec with
  | k :: serial :: reply :: member :: sender :: iface :: _ ->   (* further fields (flags, byte order, destination) are not looked at by RpcConn *)
      let kind = kind_of_char k in
      let reply = int_of_string reply in
      { r_kind = kind;
        r_serial = n_of_int (int_of_string serial);
        r_reply = (if reply = 0 then None else Some (n_of_int reply));
        r_sender = (if sender = "1" then Some (bytes_of_string ":1.5") else None);
        r_iface = (match kind with KCall -> if iface = "1" then Some (bytes_of_string "i.f") else None
                                 | KSignal -> Some (bytes_of_string "s.i") | _ -> None);
        r_member = (if member = "-" then None else Some (bytes_of_string member));
        r_object = (match kind with KCall -> Some (bytes_of_string "/o") | KSignal -> Some (bytes_of_string "/s") | _ -> None);
        r_tag = N0 }
  | _ -> failwith "bad spec"

let ident m =
  Printf.sprintf "%s.%d.%d.%s" (char_of_kind m.r_kind) (int_of_n m.r_serial)
    (match m.r_reply with Some s -> int_of_n s | None -> 0)
    (match m.r_member with Some s -> string_of_bytes s | None -> "-")

let show_err e =
  Printf.sprintf "%d~%s~%s~%s" (int_of_n e.e_reply)
    (match e.e_dest with Some d -> hex_of_bytes d | None -> "_")
    (hex_of_bytes e.e_name) (hex_of_bytes e.e_text)

let show_res = function
  | RNothing -> "?"
  | RNone -> "N"
  | RMsg m -> "M" ^ ident m
  | RFail RTimedOut -> "T"
  | RFail RUnexpectedMessageType -> "EUnexpectedMessageTypeReceived"
  | RType k -> "Y" ^ char_of_kind k
  | RErrors l -> "R" ^ String.concat ";" (List.map show_err l)

let rec drop n l = if n = 0 then l else match l with [] -> [] | _ :: t -> drop (n - 1) t

let big = nat_of_int 1000

let run fidx ops =
  (* index 16: the filter RpcConn::new installs (accepts everything) = table entry 0; `sf:<j>` installs entry j from then on *)
  let filter_ref = ref (filter_family (n_of_int (if fidx = 16 then 0 else fidx))) in
  let st = ref rpc0 in
  let ops_out = ref [] and res_out = ref [] in
  List.iter (fun o ->
    if o <> "" then begin
      let parts = String.split_on_char ':' o in
      let empty = (!st).avail = [] in
      (* a mode b<n> gives the wait a budget of n refills (its time-out strikes after them); b<n> and B make the
         result carry #<number of arrivals read> like the harness's tiny-deadline operations *)
      let mode = match parts with
        | ["wr"; _; m] | ["ws"; m] | ["wc"; m] | ["ro"; m] | ["tro"; m] -> m
        | _ -> "" in
      let counted = String.length mode > 0 && (mode.[0] = 'b' || mode = "B") in
      let budget = if String.length mode > 1 && mode.[0] = 'b'
        then nat_of_int (int_of_string (String.sub mode 1 (String.length mode - 1))) else big in
      let avail_before = List.length (!st).avail in
      let filter = !filter_ref in
      if parts = ["nop"] then begin
        ops_out := o :: !ops_out; res_out := "T#0|" :: !res_out
      end else if List.hd parts = "sf" then begin
        filter_ref := filter_family (n_of_int (int_of_string (List.nth parts 1)));
        ops_out := o :: !ops_out; res_out := "S|" :: !res_out
      end else
      let (op, arrival) = match parts with
        | ["a"; spec] -> let m = msg_of_spec spec in (Arrive m, Some m)
        | ["tr"; s] -> (TryResp (n_of_int (int_of_string s)), None)
        | ["ts"] -> (TrySignal, None)
        | ["tc"] -> (TryCall, None)
        | "wr" :: s :: _ -> (WaitResp (n_of_int (int_of_string s), budget), None)
        | "ws" :: _ -> (WaitSignal budget, None)
        | "wc" :: _ -> (WaitCall budget, None)
        | "ro" :: _ -> (RefillOnce, None)
        (* try_refill_once is the one iteration refill_once's loop makes (Rpc.v: refill_once = refill_once_loop 1) *)
        | "tro" :: _ -> (RefillOnce, None)
        | ["ra"] -> (RefillAll, None)
        | _ -> failwith ("bad op " ^ o) in
      let before = List.length (!st).wire in
      match step filter op !st with
      | Ok (r, st') ->
          let sent = drop before st'.wire in
          st := st';
          let found = (match r with RMsg _ | RType _ -> true | _ -> false) in
          let mode = if found then "I" else if empty then "D" else "N" in
          let o' = match parts with
            | "wr" :: s :: _ -> "wr:" ^ s ^ ":" ^ mode
            | "ws" :: _ -> "ws:" ^ mode
            | "wc" :: _ -> "wc:" ^ mode
            | "ro" :: _ -> "ro:" ^ mode
            | "tro" :: _ -> "tro:" ^ mode
            | _ -> o in
          let tok = match arrival with
            | Some m -> if filter m then "+" else "-"
            | None -> show_res r in
          let tok = if counted then Printf.sprintf "%s#%d" tok (avail_before - List.length st'.avail) else tok in
          ops_out := o' :: !ops_out;
          res_out := (tok ^ "|" ^ String.concat ";" (List.map show_err sent)) :: !res_out
      | _ -> ops_out := o :: !ops_out; res_out := "PANIC|" :: !res_out
    end) ops;
  String.concat "," (List.rev !ops_out) ^ " " ^ String.concat "," (List.rev !res_out)

let () =
  try
    while true do
      let line = input_line stdin in
      (match String.split_on_char ' ' line with
       | ["run"; f; ops] -> print_endline (run (int_of_string f) (String.split_on_char ',' ops))
       | _ -> print_endline "?");
      flush stdout
    done
  with End_of_file -> ()
