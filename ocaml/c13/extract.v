From Coq Require Import Extraction ExtrOcamlBasic.
From RB Require Import Base.Prelude Conn.Serial Conn.SerialProofs.
Extraction Language OCaml.
Set Extraction Output Directory ".".
Extraction "gen_model.ml" conn_init step run_ops wire_serial issued make_response make_error_response unknown_method invalid_args dh_default nallocs alloc_many hello_matches.
