(* I/O wrapper around the extracted model of C13 (Conn/Serial.v).
   stdin lines:
     hist <op> <op> ...        op := a | s:<l|B>:<preset|->:<g|b>     (b: a header field fails validation)
                                     | p:<l|B>:<preset|->:<g|b>:<k>  send suspended after a partial write, k allocations, resumed
                                     | z:<l|B>:<preset|->  send dropped at zero bytes      q:..  force_finish after a partial write
                                     | f:<l|B>:<preset|->  write fails with an I/O error   x<n>  n allocations at once
     hello pre=<k> reply=<same|other|none>
     reply <resp|err|unk|inv|rawunk|rawinv> serial=<n|-> sender=<hex|-|none> iface=.. member=.. object=.. sig=.. name=<hex> text=<hex|-|none>
   stdout:
     hist:  a:<serial> | s:<reported>:<serial on the wire>:<byte order flag> | e   ... (PANIC ends the line)
            p:<reported after resume>:<serial on the wire>:<flag>:<serials allocated in between, +-separated|-> | e:<in between>
            followed by  issued=<serials handed out by the connection, in order> nallocs=<n>
     reply: T:<type code> RS:<n|-> D:<hex|-|none> OWN:<n|-> E:<hex|-|none>   or PANIC *)
open Gen_model

let rec pos_of_int n = if n = 1 then XH else if n land 1 = 0 then XO (pos_of_int (n lsr 1)) else XI (pos_of_int (n lsr 1))
let n_of_int n = if n = 0 then N0 else Npos (pos_of_int n)
let rec int_of_pos = function XH -> 1 | XO p -> 2 * int_of_pos p | XI p -> 2 * int_of_pos p + 1
let int_of_n = function N0 -> 0 | Npos p -> int_of_pos p
let hex_of_list l = if l = [] then "-" else String.concat "" (List.map (fun n -> Printf.sprintf "%02x" (int_of_n n)) l)
let list_of_hex s =
  if s = "-" then [] else List.init (String.length s / 2) (fun i -> n_of_int (int_of_string ("0x" ^ String.sub s (2 * i) 2)))
let opt_of s = if s = "none" then None else Some (list_of_hex s)
let show_opt = function None -> "none" | Some l -> hex_of_list l
let show_on = function None -> "-" | Some n -> string_of_int (int_of_n n)

let plus l = if l = [] then "-" else String.concat "+" (List.map (fun s -> string_of_int (int_of_n s)) l)

let kv_of toks =
  List.filter_map (fun t -> match String.index_opt t '=' with
    | Some i -> Some (String.sub t 0 i, String.sub t (i + 1) (String.length t - i - 1))
    | None -> None) toks

let msg_of bo preset =
  { msg_typ = MCall; msg_flags = N0; msg_dyn = { dh_default with dh_serial = preset }; msg_bo = bo; msg_body = []; msg_raw_fds = [] }

let typ_code = function MCall -> 1 | MReply -> 2 | MError -> 3 | MSignal -> 4 | MInvalid -> 0

let () =
  try
    while true do
      let line = input_line stdin in
      match String.split_on_char ' ' line with
      | "hist" :: ops ->
          let conn = ref conn_init in
          let out = ref [] in
          let evs = ref [] in
          let mops = ref [] in
          (try
            List.iter (fun o ->
              if o <> "" then begin
                if o.[0] = 'x' then begin
                  (* n allocations at once: alloc_many, proved equal to n calls of alloc_serial (C13_alloc_many) *)
                  let k = int_of_string (String.sub o 1 (String.length o - 1)) in
                  match alloc_many (n_of_int k) !conn with
                  | Ok (c, last) -> conn := c; out := ("x:" ^ string_of_int (int_of_n last)) :: !out
                  | _ -> out := "PANIC" :: !out; raise Exit
                end else
                let (mop, fields) =
                  if o = "a" then (OpAlloc, Some [])
                  else match String.split_on_char ':' o with
                    | [("z" | "q" | "f") as kind; bo; preset] ->
                        let p = if preset = "-" then None else Some (n_of_int (int_of_string preset)) in
                        (OpSendAbandoned (msg_of (if bo = "B" then BE else LE) p,
                                          (if kind = "z" then DroppedAtZero else if kind = "q" then ForceFinished else IoError)), Some [])
                    | ["s"; bo; preset; g] ->
                        let p = if preset = "-" then None else Some (n_of_int (int_of_string preset)) in
                        (OpSend (msg_of (if bo = "B" then BE else LE) p), if g = "b" then None else Some [])
                    | ["p"; bo; preset; g; k] ->
                        let p = if preset = "-" then None else Some (n_of_int (int_of_string preset)) in
                        let rec nat_of_int n = if n = 0 then O else S (nat_of_int (n - 1)) in
                        (OpSendResumed (msg_of (if bo = "B" then BE else LE) p, nat_of_int (int_of_string k)),
                         if g = "b" then None else Some [])
                    | _ -> failwith "bad op" in
                mops := mop :: !mops;
                match step (fun _ -> fields) !conn mop with
                | Ok (c, e) ->
                    conn := c; evs := e :: !evs;
                    (match e with
                     | EvAlloc s -> out := ("a:" ^ string_of_int (int_of_n s)) :: !out
                     | EvSent (_, rep, hb) ->
                         let flag = match hb with b :: _ -> int_of_n b | [] -> 0 in
                         out := (Printf.sprintf "s:%d:%s:%c" (int_of_n rep) (show_on (wire_serial hb)) (Char.chr flag)) :: !out
                     | EvSentResumed (_, between, rep, hb) ->
                         let flag = match hb with b :: _ -> int_of_n b | [] -> 0 in
                         out := (Printf.sprintf "p:%d:%s:%c:%s" (int_of_n rep) (show_on (wire_serial hb)) (Char.chr flag) (plus between)) :: !out
                     | EvAbandoned (_, ser, hb) ->
                         let flag = match hb with b :: _ -> int_of_n b | [] -> 0 in
                         let kind = (match mop with OpSendAbandoned (_, DroppedAtZero) -> "z" | OpSendAbandoned (_, ForceFinished) -> "q" | _ -> "f") in
                         out := (if kind = "q" then Printf.sprintf "q:%d:%s:%c" (int_of_n ser) (show_on (wire_serial hb)) (Char.chr flag)
                                 else Printf.sprintf "%s:%d" kind (int_of_n ser)) :: !out
                     | EvSendErr (_, []) -> out := "e" :: !out
                     | EvSendErr (_, between) -> out := ("e:" ^ plus between) :: !out)
                | _ -> out := "PANIC" :: !out; raise Exit
              end) ops
          with Exit -> ());
          Printf.printf "%s issued=%s nallocs=%d\n" (String.concat " " (List.rev !out))
            (String.concat "," (List.map (fun s -> string_of_int (int_of_n s)) (issued (List.rev !evs))))
            (int_of_n (nallocs (List.rev !mops)))
      | "hello" :: rest ->
          (* DuplexConn::send_hello after pre allocations: the serial of the Hello and whether the reply is accepted *)
          let kv = kv_of rest in
          let pre = int_of_string (List.assoc "pre" kv) in
          let c0 = if pre = 0 then Ok (conn_init, N0) else alloc_many (n_of_int pre) conn_init in
          (match c0 with
           | Ok (c, _) ->
               (match step (fun _ -> Some []) c (OpSend (msg_of LE None)) with
                | Ok (_, EvSent (_, ser, _)) ->
                    let rs = match List.assoc "reply" kv with
                      | "same" -> Some ser | "other" -> Some (n_of_int (int_of_n ser + 1)) | _ -> None in
                    Printf.printf "hello serial=%d result=%s\n" (int_of_n ser)
                      (if hello_matches ser { dh_default with dh_response_serial = rs } then "ok" else "err")
                | _ -> print_endline "PANIC")
           | _ -> print_endline "PANIC")
      | "reply" :: kind :: rest ->
          let kv = kv_of rest in
          let g k = List.assoc k kv in
          let call = { dh_default with
                       dh_serial = (if g "serial" = "-" then None else Some (n_of_int (int_of_string (g "serial"))));
                       dh_sender = opt_of (g "sender"); dh_interface = opt_of (g "iface"); dh_member = opt_of (g "member");
                       dh_object = opt_of (g "object"); dh_destination = opt_of (g "dest") } in
          let r = match kind with
            | "resp" -> Ok (make_response call)
            | "err" -> make_error_response call (list_of_hex (g "name")) (opt_of (g "text"))
            | "unk" | "rawunk" -> unknown_method call
            | _ -> invalid_args call (opt_of (g "sig")) in
          (match r with
           | Ok m -> Printf.printf "T:%d RS:%s D:%s OWN:%s E:%s\n" (typ_code m.msg_typ) (show_on m.msg_dyn.dh_response_serial)
                       (show_opt m.msg_dyn.dh_destination) (show_on m.msg_dyn.dh_serial) (show_opt m.msg_dyn.dh_error_name)
           | _ -> print_endline "PANIC")
      | _ -> print_endline "?"
    done
  with End_of_file -> ()
