(* C11: I/O wrapper around the extracted model (gen_model.ml, from coq/Fd/Table.v + coq/Fd/History.v).
   No logic of its own beyond parsing the history line and printing [observe].
   stdin line = operations separated by ';' (same syntax as harness/src/bin/c11.rs; shape letters and
   the ":big" suffix, and the byte-order marks "Bb" / "I..:b" are for the harness only and ignored here: the model's
   indices are numbers):
     O            Open                      K<c>  CallerClose c        W<c>  Wrap c        B  NewBody
     P<b>:<shape>:<items>   Push b items    items = comma separated  h<n> | r<n> | x   ("-" = none)
     R<b>  Reset    D<b>  DropBody    S<b>  Send    I<cs>:<idxs>  Inject (comma separated, "-" = none)
     G<b>:<k>  Decode (first k stored descriptors)    M<b>  DecodeOwned
     V  Recv    U<b>:<idx>  Unmarshal    A<b>:<j>  Parse    C<h> Clone   Y<h> DupH   T<h> Take   X<h> DropHandle
   modes (argv.(1)):
     run    (default) -> one JSON array per line: per operation {"res","ev","tab","cfds","hnd","bods","wire"}
     encode           -> [encode (observe ..)] as space separated integers (compared with vm_compute in Coq) *)
open Gen_model

let rec pos_of_int n = if n <= 1 then XH else if n land 1 = 0 then XO (pos_of_int (n lsr 1)) else XI (pos_of_int (n lsr 1))
let n_of_int n = if n <= 0 then N0 else Npos (pos_of_int n)
let rec int_of_pos = function XH -> 1 | XO p -> 2 * int_of_pos p | XI p -> 2 * int_of_pos p + 1
let int_of_n = function N0 -> 0 | Npos p -> int_of_pos p
let rec nat_of_int n = if n <= 0 then O else S (nat_of_int (n - 1))
let rec int_of_nat = function O -> 0 | S n -> 1 + int_of_nat n

let split c s = String.split_on_char c s
let num s = int_of_string (String.trim s)
let tail s = String.sub s 1 (String.length s - 1)
let list_of s f = let s = String.trim s in if s = "-" || s = "" then [] else List.map f (split ',' s)

let parse_item s =
  let s = String.trim s in
  match s.[0] with
  | 'h' -> PH (nat_of_int (num (tail s)))
  | 'r' -> PR (nat_of_int (num (tail s)))
  | 'x' -> PBad
  | _ -> failwith "item"

let parse_op s =
  let s = String.trim s in
  let arg = tail s in
  let nat1 () = nat_of_int (num arg) in
  match s.[0] with
  | 'O' -> Open
  | 'K' -> CallerClose (nat1 ())
  | 'W' -> Wrap (nat1 ())
  | 'B' -> NewBody
  | 'P' -> (match split ':' arg with
            | [b; _; items] -> Push (nat_of_int (num b), list_of items parse_item)
            | _ -> failwith "push")
  | 'R' -> Reset (nat1 ())
  | 'D' -> DropBody (nat1 ())
  | 'S' -> (match split ':' arg with b :: _ -> Send (nat_of_int (num b)) | [] -> failwith "send")
  | 'I' -> (match split ':' arg with
            | cs :: idxs :: _ -> Inject (list_of cs (fun x -> nat_of_int (num x)), list_of idxs (fun x -> n_of_int (num x)))
            | _ -> failwith "inject")
  | 'V' -> Recv
  | 'U' -> (match split ':' arg with [b; i] -> Unmarshal (nat_of_int (num b), n_of_int (num i)) | _ -> failwith "unmarshal")
  | 'A' -> (match split ':' arg with [b; j] -> Parse (nat_of_int (num b), nat_of_int (num j)) | _ -> failwith "parse")
  | 'G' -> (match split ':' arg with [b; k] -> Decode (nat_of_int (num b), nat_of_int (num k)) | _ -> failwith "decode")
  | 'M' -> DecodeOwned (nat1 ())
  | 'C' -> Clone (nat1 ())
  | 'Y' -> DupH (nat1 ())
  | 'T' -> Take (nat1 ())
  | 'X' -> DropHandle (nat1 ())
  | _ -> failwith "op"

let parse_line line =
  List.map parse_op (List.filter (fun s -> String.trim s <> "") (split ';' line))

let ints l = "[" ^ String.concat "," (List.map (fun n -> string_of_int (int_of_n n)) l) ^ "]"
let arr f l = "[" ^ String.concat "," (List.map f l) ^ "]"

let show_res = function
  | RInvalid -> "invalid" | RUnit -> "ok" | RErr -> "err"
  | RCfd c -> Printf.sprintf "cfd:%d" (int_of_nat c)
  | RHandle h -> Printf.sprintf "h:%d" (int_of_nat h)
  | RBody b -> Printf.sprintf "b:%d" (int_of_nat b)
  | RHandles l -> "hs:" ^ String.concat "," (List.map (fun h -> string_of_int (int_of_nat h)) l)
  | RPushed l -> "pushed:" ^ String.concat "," (List.map (fun n -> string_of_int (int_of_n n)) l)
  | RSent (h, n) -> Printf.sprintf "sent:%d:%d" (int_of_n h) (int_of_n n)
  | RTaken None -> "taken:none"
  | RTaken (Some c) -> Printf.sprintf "taken:%d" (int_of_nat c)

let show_ev = function
  | EvOpen (f, o) -> Printf.sprintf "\"open:%d:%d\"" (int_of_n f) (int_of_n o)
  | EvCallerClose f -> Printf.sprintf "\"cclose:%d\"" (int_of_n f)
  | EvWrap f -> Printf.sprintf "\"wrap:%d\"" (int_of_n f)
  | EvDup (a, f, o) -> Printf.sprintf "\"dup:%d:%d:%d\"" (int_of_n a) (int_of_n f) (int_of_n o)
  | EvRecvFd (f, o) -> Printf.sprintf "\"recvfd:%d:%d\"" (int_of_n f) (int_of_n o)
  | EvClose f -> Printf.sprintf "\"close:%d\"" (int_of_n f)
  | EvTake f -> Printf.sprintf "\"take:%d\"" (int_of_n f)
  | EvSend (h, l) -> Printf.sprintf "\"send:%d\"" (int_of_n h)
  | EvInject l -> "\"inject\""
  | EvRecv (b, l) -> Printf.sprintf "\"recv:%d\"" (int_of_nat b)

let opt_fd = function Some f -> string_of_int (int_of_n f) | None -> "-1"

let show_snap n =
  Printf.sprintf "\"tab\":%s,\"cfds\":%s,\"hnd\":%s,\"bods\":%s,\"wire\":%s"
    (arr (fun (f, o) -> Printf.sprintf "[%d,%d]" (int_of_n f) (int_of_n o)) n.sn_tab)
    (arr (function Some f -> string_of_int (int_of_n f) | None -> "null") n.sn_cfds)
    (arr (function Some c -> opt_fd c | None -> "null") n.sn_hnd)
    (arr (function
          | Some (l, ix) -> Printf.sprintf "{\"fds\":%s,\"idx\":%s}" (arr opt_fd l) (ints ix)
          | None -> "null") n.sn_bods)
    (arr (fun (ofds, ix) -> Printf.sprintf "{\"ofds\":%s,\"idx\":%s}" (ints ofds) (ints ix)) n.sn_wire)

let run_line line =
  let obs = observe (parse_line line) in
  arr (fun ((r, evs), n) ->
        Printf.sprintf "{\"res\":\"%s\",\"ev\":%s,%s}" (show_res r) (arr show_ev evs) (show_snap n)) obs

let encode_line line =
  String.concat " " (List.map (fun n -> string_of_int (int_of_n n)) (encode (observe (parse_line line))))

let () =
  let mode = if Array.length Sys.argv > 1 then Sys.argv.(1) else "run" in
  try
    while true do
      let line = input_line stdin in
      let r =
        try
          match mode with
          | "run" -> run_line line
          | "encode" -> encode_line line
          | _ -> "BADMODE"
        with Failure m -> "BADLINE " ^ m | Invalid_argument m -> "BADLINE " ^ m | Not_found -> "BADLINE"
      in
      print_string r; print_newline ()
    done
  with End_of_file -> ()
