(* extraction of the C11 model (coq/Fd/Table.v, coq/Fd/History.v) for the differential check *)
From Coq Require Import Extraction ExtrOcamlBasic.
From RB Require Import Base.Prelude Fd.Table Fd.History.
Extraction Language OCaml.
Set Extraction Output Directory ".".
Extraction "gen_model.ml" observe encode.
