(* I/O wrapper around the extracted model of C10 (Conn/Send.v on Conn/Serial.v). It replays, call by
   call, what the harness did with the real API and prints what the model says.
   stdin, one case per line:
     case pre=<k> | <msg> | <msg> ...
     <msg>  := bo=<l|B> typ=<0..4> flags=<n> preset=<n|-> fields=<hex|-|none> prefix=<hex|-> pay=<len> seed=<n> nfds=<n> calls=<c;c;...>
     <call> := o<k>  write_once, kernel takes up to k      oE  write_once, EAGAIN
               s     into_progress                        r   resume
               X     drop the context (X:ok / X:panic)     Q   force_finish
               W<d,d,...>  write() with the iteration decisions d := a<k> | e | t   (accept / EAGAIN / timed out)
   stdout: pre=<serials> | <result> ...
     <result> := serial=<reported|-> senderr=<0|1> total=<n> hdr=<hex> bodycrc=<crc32> trace=<r@bytes_sent,...>
                 wire_len=<n> wire_crc=<crc32> fds=<i.j.k|-> completed=<0|1> wire_serial=<n|-> sum=<accepted_sum of the flattened schedule>
                 closed=<1 when run_send on the flattened schedule gives the same wire/position/completion> *)
open Gen_model

let rec pos_of_int n = if n = 1 then XH else if n land 1 = 0 then XO (pos_of_int (n lsr 1)) else XI (pos_of_int (n lsr 1))
let n_of_int n = if n = 0 then N0 else Npos (pos_of_int n)
let rec int_of_pos = function XH -> 1 | XO p -> 2 * int_of_pos p | XI p -> 2 * int_of_pos p + 1
let int_of_n = function N0 -> 0 | Npos p -> int_of_pos p

let hex_of_list l =
  if l = [] then "-" else String.concat "" (List.map (fun n -> Printf.sprintf "%02x" (int_of_n n)) l)
let list_of_hex s =
  if s = "-" then [] else
  List.init (String.length s / 2) (fun i -> n_of_int (int_of_string ("0x" ^ String.sub s (2 * i) 2)))

(* same formula as harness/src/bin/c10.rs *)
let payload len seed =
  List.init len (fun i ->
    let x = (i * 2654435761 + seed * 40503) land 0xFFFFFFFF in
    n_of_int (((x lsr 11) lxor (x lsr 23)) land 0xff))

let crc_table = Array.init 256 (fun i ->
  let c = ref i in
  for _ = 0 to 7 do
    c := if !c land 1 <> 0 then 0xEDB88320 lxor (!c lsr 1) else !c lsr 1
  done; !c)
let crc32 (l : n list) =
  let c = ref 0xFFFFFFFF in
  List.iter (fun b -> c := crc_table.((!c lxor (int_of_n b)) land 0xff) lxor (!c lsr 8)) l;
  !c lxor 0xFFFFFFFF

let kv_of s =
  List.filter_map (fun t -> match String.index_opt t '=' with
    | Some i -> Some (String.sub t 0 i, String.sub t (i + 1) (String.length t - i - 1))
    | None -> None) (String.split_on_char ' ' s)

let status = function Ok _ -> "ok" | Err -> "E" | Panic -> "PANIC" | UB -> "UB" | OutOfFuel -> "FUEL"

type st = Active of send_ctx | Suspended of send_conn * message * send_state | Done of n | Broken
        | Abandoned of send_ctx     (* the caller dropped the context (X) or called force_finish (Q) *)

let dh preset =
  { dh_interface = None; dh_member = None; dh_object = None; dh_destination = None; dh_serial = preset;
    dh_sender = None; dh_signature = None; dh_error_name = None; dh_response_serial = None; dh_num_fds = None }

let run_msg (conn : send_conn) (w0 : world) (kv : (string * string) list) : send_conn * world * string =
  let g k = List.assoc k kv in
  let bo = if g "bo" = "B" then BE else LE in
  let typ = match g "typ" with "1" -> MCall | "2" -> MReply | "3" -> MError | "4" -> MSignal | _ -> MInvalid in
  let preset = if g "preset" = "-" then None else Some (n_of_int (int_of_string (g "preset"))) in
  let fields = if g "fields" = "none" then None else Some (list_of_hex (g "fields")) in
  let nfds = int_of_string (g "nfds") in
  let body = list_of_hex (g "prefix") @ payload (int_of_string (g "pay")) (int_of_string (g "seed")) in
  let m = { msg_typ = typ; msg_flags = n_of_int (int_of_string (g "flags")); msg_dyn = dh preset; msg_bo = bo;
            msg_body = body; msg_raw_fds = List.init nfds n_of_int } in
  let parse_ds c =
    List.map (fun d ->
      if d = "e" then WKernel KAgain else if d = "t" then WTimedOut
      else WKernel (KAccept (n_of_int (int_of_string (String.sub d 1 (String.length d - 1))))))
      (List.filter (fun s -> s <> "") (String.split_on_char ',' (String.sub c 1 (String.length c - 1)))) in
  if (try List.assoc "api" kv = "wall" with Not_found -> false) then begin
    (* the public wrapper: send_message_write_all(msg) with the decisions of its write_all loop *)
    let ds = match List.filter (fun s -> s <> "") (String.split_on_char ';' (g "calls")) with
      | [c] when c.[0] = 'W' -> parse_ds c | _ -> [] in
    let ((c', w'), r) = send_message_write_all (fun _ -> fields) conn m w0 ds in
    let rec drop n l = if n = 0 then l else match l with [] -> [] | _ :: t -> drop (n - 1) t in
    let wire_new = drop (List.length w0.wire) w'.wire in
    let fds_new = drop (List.length w0.fds_delivered) w'.fds_delivered in
    let hb = c'.header_buf in
    let total = List.length hb + List.length body in
    (* the same through send_message + write, as the theorem C10_send_message_write_all unfolds it *)
    let closed = match send_message (fun _ -> fields) conn m with
      | Ok (_, Some x0) -> let ((_, w2), r2) = write x0 w0 ds in w2.wire = w'.wire && w2.fds_delivered = w'.fds_delivered && r2 = r
      | _ -> false in
    match r with
    | Ok s ->
        (c', w', Printf.sprintf
          "serial=%d senderr=0 total=%d hdr=%s bodycrc=%d trace=W:ok@%d wire_len=%d wire_crc=%d fds=%s completed=1 wire_serial=%s sum=%d closed=%d"
          (int_of_n s) total (hex_of_list hb) (crc32 body) (List.length wire_new) (List.length wire_new) (crc32 wire_new)
          (if fds_new = [] then "-" else String.concat "." (List.map (fun f -> string_of_int (int_of_n f)) fds_new))
          (match wire_serial hb with Some s -> string_of_int (int_of_n s) | None -> "-")
          (List.length wire_new) (if closed then 1 else 0))
    | Err -> (c', w', "serial=- senderr=1")
    | o -> (c', w', "serial=- senderr=" ^ status o)
  end else
  match send_message (fun _ -> fields) conn m with
  | Ok (conn', None) -> (conn', w0, "serial=- senderr=1")
  | Ok (conn', Some x0) ->
      let hb = conn'.header_buf in
      let total = int_of_n (bytes_total x0) in
      let w = ref w0 in
      let state = ref (Active x0) in
      let trace = ref [] in
      let flat = ref [] in                       (* the same history as a wev schedule *)
      let calls = List.filter (fun s -> s <> "") (String.split_on_char ';' (g "calls")) in
      let finish x r =
        (* what the harness does after Ok: all_bytes_written -> the context is dropped *)
        ignore r;
        if all_bytes_written x then
          (match drop_ctx x with Ok _ -> state := Done (ctx_serial x) | _ -> state := Broken)
        else state := Active x in
      List.iter (fun c ->
        let bs_of () = match !state with
          | Active x -> int_of_n x.cx_state.bytes_sent
          | Suspended (_, _, p) -> int_of_n p.bytes_sent
          | Done _ -> total
          | Abandoned x -> int_of_n x.cx_state.bytes_sent
          | Broken -> -1 in
        let res =
          match !state, c.[0] with
          | Active x, 'o' ->
              let d = if c = "oE" then (flat := Again :: !flat; KAgain)
                      else (let k = n_of_int (int_of_string (String.sub c 1 (String.length c - 1))) in
                            flat := Accept k :: !flat; KAccept k) in
              let ((x', w'), r) = write_once x !w d in
              w := w';
              (match r with
               | Ok k -> finish x' r; "w:" ^ string_of_int (int_of_n k)
               | Err -> state := Active x'; "w:E"
               | o -> state := Broken; "w:" ^ status o)
          | Active x, 's' -> flat := Suspend :: !flat; state := Suspended (x.cx_conn, x.cx_msg, into_progress x); "s"
          | Suspended (cn, mm, p), 'r' -> flat := Resume :: !flat; state := Active (resume cn mm p); "r"
          | Active x, 'W' ->
              let ds = List.filter (fun s -> s <> "") (String.split_on_char ',' (String.sub c 1 (String.length c - 1))) in
              let ds = List.map (fun d ->
                if d = "e" then (flat := Again :: !flat; WKernel KAgain)
                else if d = "t" then (flat := Again :: !flat; WTimedOut)
                else (let k = n_of_int (int_of_string (String.sub d 1 (String.length d - 1))) in
                      flat := Accept k :: !flat; WKernel (KAccept k))) ds in
              let ((x', w'), r) = write x !w ds in
              w := w';
              (match r with
               | Ok s -> state := Done s; "W:ok"
               | Err -> state := Active x'; "W:E"
               | o -> state := Broken; "W:" ^ status o)
          | Active x, 'X' -> state := Abandoned x; (match drop_ctx x with Ok _ -> "X:ok" | Panic -> "X:panic" | o -> "X:" ^ status o)
          | Active x, 'Q' -> state := Abandoned x; "Q"
          | _, _ -> "-" in
        trace := (res ^ "@" ^ string_of_int (bs_of ())) :: !trace) calls;
      let completed, serial = match !state with Done s -> (1, string_of_int (int_of_n s)) | _ -> (0, "-") in
      let wire_new =
        (* the part of the wire that belongs to this message *)
        let rec drop n l = if n = 0 then l else match l with [] -> [] | _ :: t -> drop (n - 1) t in
        drop (List.length w0.wire) !w.wire in
      let fds_new =
        let rec drop n l = if n = 0 then l else match l with [] -> [] | _ :: t -> drop (n - 1) t in
        drop (List.length w0.fds_delivered) !w.fds_delivered in
      (* cross-check: the proved closed form / run_send on the flattened schedule *)
      let sched = List.rev !flat in
      let r = run_send x0 w0 sched in
      let closed =
        r.r_world.wire = !w.wire && r.r_world.fds_delivered = !w.fds_delivered
        && (if r_completed r then 1 else 0) = completed
        && int_of_n (r_state r).bytes_sent = (match !state with
             | Active x -> int_of_n x.cx_state.bytes_sent
             | Suspended (_, _, p) -> int_of_n p.bytes_sent
             | Done _ -> total | Abandoned x -> int_of_n x.cx_state.bytes_sent | Broken -> -1) in
      let out = Printf.sprintf
        "serial=%s senderr=0 total=%d hdr=%s bodycrc=%d trace=%s wire_len=%d wire_crc=%d fds=%s completed=%d wire_serial=%s sum=%d closed=%d"
        serial total (hex_of_list hb) (crc32 body)
        (if !trace = [] then "-" else String.concat "," (List.rev !trace))
        (List.length wire_new) (crc32 wire_new)
        (if fds_new = [] then "-" else String.concat "." (List.map (fun f -> string_of_int (int_of_n f)) fds_new))
        completed
        (match wire_serial hb with Some s -> string_of_int (int_of_n s) | None -> "-")
        (int_of_n (accepted_sum true sched))
        (if closed then 1 else 0) in
      let conn_after = match !state with
        | Active x | Abandoned x -> x.cx_conn | Suspended (cn, _, _) -> cn | _ -> conn' in
      (conn_after, !w, out)
  | o -> (conn, w0, "serial=- senderr=" ^ status o)

let () =
  try
    while true do
      let line = input_line stdin in
      let parts = List.map String.trim (String.split_on_char '|' line) in
      match parts with
      | head :: msgs ->
          let pre = int_of_string (List.assoc "pre" (kv_of head)) in
          let conn = ref conn_init in
          let serials = ref [] in
          let panicked = ref false in
          for _ = 1 to pre do
            match alloc_serial !conn with
            | Ok (s, c) -> conn := c; serials := string_of_int (int_of_n s) :: !serials
            | _ -> panicked := true
          done;
          let w = ref world0 in
          let outs = List.map (fun ms ->
            let (c, w', o) = run_msg !conn !w (kv_of ms) in
            conn := c; w := w'; o) msgs in
          print_endline (String.concat " | "
            (("pre=" ^ (if !panicked then "PANIC" else if !serials = [] then "-" else String.concat "," (List.rev !serials))) :: outs))
      | [] -> print_endline "?"
    done
  with End_of_file -> ()
