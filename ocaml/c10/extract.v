From Coq Require Import Extraction ExtrOcamlBasic.
From RB Require Import Base.Prelude Conn.Serial Conn.SerialProofs Conn.Send Conn.SendProofs.
Extraction Language OCaml.
Set Extraction Output Directory ".".
Extraction "gen_model.ml" conn_init alloc_serial send_message ctx_serial write_once write into_progress resume
  send_message_write_all all_bytes_written drop_ctx bytes_total world0 wire_serial accepted_sum run_send r_state r_completed r_reported.
