From Coq Require Import Extraction ExtrOcamlBasic.
From RB Require Import Base.Prelude Sig.Types Sig.Parser Sig.Validator Sig.Iter.
Extraction Language OCaml.
Set Extraction Output Directory ".".
Extraction "gen_model.ml" parse_description validate_signature iter_all to_str_list.
