(* I/O wrapper around the extracted model of C07 (no logic of its own beyond parsing/printing).
   stdin lines:  "s <hex>"                         one string
                 "enum <alphabet-hex> <len> <first-index or -1>"   all strings of that length (optionally
                                                    only those starting with alphabet[first-index])
   stdout: one result line per string (enum: only strings accepted by parser or validator, then a
   summary line "total <n>"). Format: "<hex> P:<ok|err|panic|fuel> V:<..> R:<hex|-> S:<hex;hex|panic|fuel|->" *)
open Gen_model

let rec pos_of_int n = if n = 1 then XH else if n land 1 = 0 then XO (pos_of_int (n lsr 1)) else XI (pos_of_int (n lsr 1))
let n_of_int n = if n = 0 then N0 else Npos (pos_of_int n)
let rec int_of_pos = function XH -> 1 | XO p -> 2 * int_of_pos p | XI p -> 2 * int_of_pos p + 1
let int_of_n = function N0 -> 0 | Npos p -> int_of_pos p

let hex_of_list l =
  if l = [] then "-" else String.concat "" (List.map (fun n -> Printf.sprintf "%02x" (int_of_n n)) l)
let list_of_hex s =
  if s = "-" then [] else
  List.init (String.length s / 2) (fun i -> n_of_int (int_of_string ("0x" ^ String.sub s (2 * i) 2)))

let rec nat_of_int n = if n = 0 then O else S (nat_of_int (n - 1))

let status = function Ok _ -> "ok" | Err -> "err" | Panic -> "panic" | UB -> "ub" | OutOfFuel -> "fuel"

let eval (l : n list) : bool * string =
  let p = parse_description l in
  let v = validate_signature l in
  let r = match p with Ok tys -> hex_of_list (to_str_list tys) | _ -> "-" in
  let s = match v with
    | Ok _ -> (match iter_all (nat_of_int (List.length l + 1)) l with
               | Ok parts -> "ok:" ^ String.concat ";" (List.map hex_of_list parts)
               | o -> status o)
    | _ -> "-" in
  let accepted = (match p with Ok _ -> true | _ -> false) || (match v with Ok _ -> true | _ -> false) in
  (* W: SignatureWrapper::new / TryFrom = validate_signature; X: new_at_idx at the top-level boundaries is consistent
     with new (checked inside the harness against the splitter's own output) *)
  let x = match v with Ok _ -> "ok" | _ -> "-" in
  (accepted, Printf.sprintf "%s P:%s V:%s R:%s S:%s W:%s X:%s" (hex_of_list l) (status p) (status v) r s (status v) x)

let () =
  try
    while true do
      let line = input_line stdin in
      match String.split_on_char ' ' line with
      | ["s"; h] -> let (_, out) = eval (list_of_hex h) in print_endline out
      | ["enum"; ah; len; first] ->
          let alpha = Array.of_list (list_of_hex ah) in
          let k = Array.length alpha in
          let len = int_of_string len and first = int_of_string first in
          let idx = Array.make len 0 in
          let total = ref 0 in
          let nontrivial = ref 0 in
          if len > 0 && first >= 0 then idx.(0) <- first;
          let continue = ref true in
          while !continue do
            let l = Array.to_list (Array.map (fun i -> alpha.(i)) idx) in
            incr total;
            if List.exists (fun c -> List.mem (int_of_n c) [40; 41; 97; 123; 125]) l then incr nontrivial;
            let (acc, out) = eval l in
            if acc then print_endline out;
            (* increment from the last position; position 0 is fixed when first >= 0 *)
            let lo = if first >= 0 then 1 else 0 in
            let j = ref (len - 1) in
            let carry = ref true in
            while !carry && !j >= lo do
              idx.(!j) <- idx.(!j) + 1;
              if idx.(!j) < k then carry := false else (idx.(!j) <- 0; decr j)
            done;
            if !carry then continue := false
          done;
          Printf.printf "total %d nontrivial %d\n" !total !nontrivial
      | _ -> print_endline "?"
    done
  with End_of_file -> ()
