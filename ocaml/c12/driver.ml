(* C12: I/O wrapper around the extracted model (gen_model.ml, from coq/Fd/Concurrent.v).
   stdin line  = fd0;prog|prog|...;sched      (same syntax as harness/src/bin/c12.rs)
   modes (argv.(1)):
     run    (default) -> the line the harness prints: results;syscalls;open;steps (steps on the cell named
                         after the atomic operation); run-legacy: named after the label points
     encode           -> [encode (observe ..)] as space separated integers (compared with vm_compute in Coq)
     enum <limit>     -> all maximal interleavings of the programs (schedule part ignored), space separated,
                         each a comma separated list of thread ids; TOOMANY if there are more than <limit> *)
open Gen_model

let rec nat_of_int n = if n <= 0 then O else S (nat_of_int (n - 1))
let rec int_of_nat = function O -> 0 | S n -> 1 + int_of_nat n
let rec pos_of_int n = if n <= 1 then XH else if n land 1 = 0 then XO (pos_of_int (n lsr 1)) else XI (pos_of_int (n lsr 1))
let rec int_of_pos = function XH -> 1 | XO p -> 2 * int_of_pos p | XI p -> 2 * int_of_pos p + 1
let z_of_int n = if n = 0 then Z0 else if n > 0 then Zpos (pos_of_int n) else Zneg (pos_of_int (-n))
let int_of_z = function Z0 -> 0 | Zpos p -> int_of_pos p | Zneg p -> - (int_of_pos p)

let split_on c s = String.split_on_char c s
let trim = String.trim

let parse_op s =
  let s = trim s in
  let h = nat_of_int (int_of_string (String.sub s 1 (String.length s - 1))) in
  match s.[0] with
  | 'T' -> Take h | 'G' -> Get h | 'D' -> Dup h | 'C' -> Clone h | 'X' -> Drop h
  | 'E' | 'N' -> DupFail h   (* the dup(2) call fails with EMFILE / ENFILE: the model does not distinguish them *)
  | _ -> failwith "op"

let parse_prog s =
  let s = trim s in
  if s = "-" || s = "" then [] else List.map parse_op (split_on ',' s)

let parse_sched s =
  let s = trim s in
  if s = "-" || s = "" then [] else List.map (fun x -> nat_of_int (int_of_string (trim x))) (split_on ',' s)

let parse_line line =
  match split_on ';' line with
  | [a; b; c] -> (z_of_int (int_of_string (trim a)), List.map parse_prog (split_on '|' b), parse_sched c)
  | [a; b] -> (z_of_int (int_of_string (trim a)), List.map parse_prog (split_on '|' b), [])
  | _ -> failwith "line"

let show_opt tag gone = function
  | Some v -> Printf.sprintf "%s=%d" tag (int_of_z v)
  | None -> Printf.sprintf "%s=%s" tag gone

let show_res = function
  | RTake o -> show_opt "T" "none" o
  | RGet o -> show_opt "G" "none" o
  | RDup o -> show_opt "D" "gone" o
  | RDupErr -> "D=err"
  | RClone -> "C"
  | RDrop -> "X"
  | RSkipped -> "S"
  | RInvalid -> "INVALID"

let show_ev = function
  | EvDupSys (t, _, s, n) -> Printf.sprintf "dup(%d)=%d@%d" (int_of_z s) (int_of_z n) (int_of_nat t)
  | EvDupFail (t, _, s) -> Printf.sprintf "dup(%d)=ERR@%d" (int_of_z s) (int_of_nat t)
  | EvClose (t, _, fd) -> Printf.sprintf "close(%d)@%d" (int_of_z fd) (int_of_nat t)
  | _ -> "?"

let join sep l = if l = [] then "-" else String.concat sep l

(* with the atomic shim in the crate a step on the cell is named after the atomic operation it
   performs; in legacy mode after the label point in front of it *)
let shim_names = ref true
let show_point p =
  if !shim_names then
    (match p with
     | PGetLoad | PTakeLoad -> "atomic.load" | PTakeCas -> "atomic.compare_exchange" | PHandleDrop -> "handle.drop"
     | PDupSys -> "dup.syscall" | PCloneInc -> "clone.inc" | PDropClose -> "drop.close" | PSkip -> "skip")
  else match p with
  | PGetLoad -> "get.load" | PTakeLoad -> "take.load" | PTakeCas -> "take.cas" | PHandleDrop -> "handle.drop"
  | PDupSys -> "dup.syscall" | PCloneInc -> "clone.inc" | PDropClose -> "drop.close" | PSkip -> "skip"

(* a system call inside the merged sequence: "<thread>:dup(7)=8", "<thread>:close(7)" *)
let show_obs = function
  | OPoint (t, i, p) -> Printf.sprintf "%d.%d:%s" (int_of_nat t) (int_of_nat i) (show_point p)
  | OSys e ->
    (match e with
     | EvDupSys (t, _, s, n) -> Printf.sprintf "%d:dup(%d)=%d" (int_of_nat t) (int_of_z s) (int_of_z n)
     | EvDupFail (t, _, s) -> Printf.sprintf "%d:dup(%d)=ERR" (int_of_nat t) (int_of_z s)
     | EvClose (t, _, fd) -> Printf.sprintf "%d:close(%d)" (int_of_nat t) (int_of_z fd)
     | _ -> "?")

let run_line line =
  let (fd0, progs, sched) = parse_line line in
  let (((rs, sys), opn), pts) = observe fd0 progs sched in
  String.concat "|" (List.map (fun l -> join "," (List.map show_res l)) rs)
  ^ ";" ^ join "," (List.map show_ev sys)
  ^ ";" ^ join "," (List.map (fun z -> string_of_int (int_of_z z)) opn)
  ^ ";" ^ join "," (List.map show_obs pts)

let encode_line line =
  let (fd0, progs, sched) = parse_line line in
  String.concat " " (List.map (fun z -> string_of_int (int_of_z z)) (encode (observe fd0 progs sched)))

exception Too_many

let enum_line limit line =
  let (fd0, progs, _) = parse_line line in
  let n = List.length progs in
  let out = Buffer.create 1024 in
  let count = ref 0 in
  let rec go c acc =
    if all_finished c then begin
      incr count;
      if !count > limit then raise Too_many;
      if Buffer.length out > 0 then Buffer.add_char out ' ';
      Buffer.add_string out (join "," (List.rev_map string_of_int acc))
    end else
      for t = 0 to n - 1 do
        match nth_error c.threads (nat_of_int t) with
        | Some th when not (finished th) -> go (step (nat_of_int t) c) (t :: acc)
        | _ -> ()
      done
  in
  try go (init fd0 progs) []; Buffer.contents out with Too_many -> "TOOMANY"

let () =
  let mode = if Array.length Sys.argv > 1 then Sys.argv.(1) else "run" in
  let mode = if mode = "run-legacy" then (shim_names := false; "run") else mode in
  let limit = if Array.length Sys.argv > 2 then int_of_string Sys.argv.(2) else 100000 in
  try
    while true do
      let line = input_line stdin in
      let r =
        try
          match mode with
          | "run" -> run_line line
          | "encode" -> encode_line line
          | "enum" -> enum_line limit line
          | _ -> "BADMODE"
        with Failure m -> "BADLINE " ^ m | Invalid_argument m -> "BADLINE " ^ m
      in
      print_string r; print_newline ()
    done
  with End_of_file -> ()
