(* extraction of the C12 model (coq/Fd/Concurrent.v) for the differential check *)
From RB Require Import Base.Prelude Fd.Concurrent.
Require Import ExtrOcamlBasic.
Extraction "gen_model.ml" observe encode init step exec run finished all_finished completion.
