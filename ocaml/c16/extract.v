From Coq Require Import Extraction ExtrOcamlBasic.
From RB Require Import Base.Prelude Sig.Types Sig.Parser Wire.Value Wire.Unmarshal Wire.Derive Wire.Enums Wire.EnumsIn Wire.C16Ops.
Extraction Language OCaml.
Set Extraction Output Directory ".".
Extraction "gen_model.ml" parse_description to_str sig_r ty_of op_struct op_hassig op_enum op_outside op_container.
