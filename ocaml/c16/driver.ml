(* I/O wrapper around the extracted C16 model (coq/Wire/C16Ops.v). Same line protocol and the same
   output format as harness/src/bin/c16.rs; no logic beyond parsing and printing. *)
open Gen_model

let rec pos_of_int n = if n = 1 then XH else if n land 1 = 0 then XO (pos_of_int (n lsr 1)) else XI (pos_of_int (n lsr 1))
let n_of_int n = if n = 0 then N0 else Npos (pos_of_int n)
let n_of_string s =
  let ten = n_of_int 10 in
  let acc = ref N0 in
  String.iter (fun ch -> acc := N.add (N.mul !acc ten) (n_of_int (Char.code ch - 48))) s;
  !acc
let rec string_of_n_rec n acc =
  match n with
  | N0 -> if acc = "" then "0" else acc
  | _ -> let (q, r) = N.div_eucl n (n_of_int 10) in
         let d = (match r with N0 -> 0 | Npos p -> let rec ip = function XH -> 1 | XO p -> 2 * ip p | XI p -> 2 * ip p + 1 in ip p) in
         string_of_n_rec q (String.make 1 (Char.chr (48 + d)) ^ acc)
let string_of_n n = string_of_n_rec n ""
let rec int_of_pos = function XH -> 1 | XO p -> 2 * int_of_pos p | XI p -> 2 * int_of_pos p + 1
let int_of_n = function N0 -> 0 | Npos p -> int_of_pos p
let rec nat_of_int n = if n = 0 then O else S (nat_of_int (n - 1))
let rec int_of_nat = function O -> 0 | S n -> 1 + int_of_nat n

let hex_of_list l = if l = [] then "-" else String.concat "" (List.map (fun n -> Printf.sprintf "%02x" (int_of_n n)) l)
let list_of_hex s = if s = "-" then [] else List.init (String.length s / 2) (fun i -> n_of_int (int_of_string ("0x" ^ String.sub s (2 * i) 2)))
let list_of_str s = List.init (String.length s) (fun i -> n_of_int (Char.code s.[i]))
let str_of_list l = String.concat "" (List.map (fun n -> String.make 1 (Char.chr (int_of_n n))) l)

exception Bad of string
let one_type (s : string) : ty =
  match parse_description (list_of_str s) with Ok [t] -> t | _ -> raise (Bad ("sig " ^ s))
let base_of_type = function TBase b -> b | _ -> raise (Bad "base expected")

(* type names: D-Bus signature characters, <..> derived struct, (..) tuple, v[..] variant of known content.
   Parses a sequence of types up to the end of the string or a closing bracket. *)
let parse_rtys (s : string) : rty list =
  let n = String.length s in
  let pos = ref 0 in
  let rec one () : rty =
    let c = s.[!pos] in
    incr pos;
    match c with
    | 'a' ->
        if !pos < n && s.[!pos] = '{' then begin
          incr pos;
          let k = base_of_type (one_type (String.make 1 s.[!pos])) in
          incr pos;
          let v = one () in
          if s.[!pos] <> '}' then raise (Bad "}");
          incr pos;
          RDict (k, v)
        end else RArray (one ())
    | '(' -> let fs = many ')' in RTuple fs
    | '<' -> let fs = many '>' in RDerived fs
    | 'v' ->
        if !pos >= n || s.[!pos] <> '[' then raise (Bad "[");
        incr pos;
        let e = one () in
        if s.[!pos] <> ']' then raise (Bad "]");
        incr pos;
        RVar e
    | c -> RBase (base_of_type (one_type (String.make 1 c)))
  and many close =
    let fields = ref [] in
    while s.[!pos] <> close do fields := one () :: !fields done;
    incr pos;
    List.rev !fields
  in
  let out = ref [] in
  while !pos < n do out := one () :: !out done;
  List.rev !out
let parse_rty s = match parse_rtys s with [r] -> r | _ -> raise (Bad ("type " ^ s))

(* enum descriptor: cases separated by '|': 1:<type>  m:<types>  n:<types> *)
let parse_cases (s : string) : ecase list =
  List.map (fun c ->
      let body = String.sub c 2 (String.length c - 2) in
      match c.[0] with
      | '1' -> CSingle (parse_rty body)
      | 'm' -> CFields (false, parse_rtys body)
      | 'n' -> CFields (true, parse_rtys body)
      | _ -> raise (Bad ("case " ^ c)))
    (String.split_on_char '|' s)

(* container types over the enum of the line: rty syntax plus E (the enum) at the leaves *)
let parse_cty (cs : ecase list) (s : string) : cty =
  let n = String.length s in
  let pos = ref 0 in
  let rec one () : cty =
    let c = s.[!pos] in
    incr pos;
    match c with
    | 'E' -> CEnum (GDerive, cs)
    | 'a' ->
        if !pos < n && s.[!pos] = '{' then begin
          incr pos;
          let k = base_of_type (one_type (String.make 1 s.[!pos])) in
          incr pos;
          let v = one () in
          if s.[!pos] <> '}' then raise (Bad "}");
          incr pos;
          CMap (k, v)
        end else CVec (one ())
    | '(' -> let fs = many ')' in CTuple fs
    | '<' -> let fs = many '>' in CDerived fs
    | c -> CPlain (RBase (base_of_type (one_type (String.make 1 c))))
  and many close =
    let fields = ref [] in
    while s.[!pos] <> close do fields := one () :: !fields done;
    incr pos;
    List.rev !fields
  in
  let x = one () in
  if !pos <> n then raise (Bad ("container type " ^ s)) else x

let parse_val (toks : string array) (pos : int ref) : val0 =
  let next () = let t = toks.(!pos) in incr pos; t in
  let rec go () : val0 =
    let tag = next () in
    match tag with
    | "a" -> let t = one_type (next ()) in let n = int_of_string (next ()) in
             let vs = List.init n (fun _ -> ()) |> List.map (fun () -> go ()) in VArray (t, vs)
    | "r" -> let n = int_of_string (next ()) in
             let vs = List.init n (fun _ -> ()) |> List.map (fun () -> go ()) in VStruct vs
    | "e" -> let k = base_of_type (one_type (next ())) in let vt = one_type (next ()) in
             let n = int_of_string (next ()) in
             let kvs = List.init n (fun _ -> ()) |> List.map (fun () -> let a = go () in let b = go () in (a, b)) in
             VDict (k, vt, kvs)
    | "v" -> let t = one_type (next ()) in let x = go () in VVariant (t, x)
    | "s" | "o" | "g" -> VText (base_of_type (one_type tag), list_of_hex (next ()))
    | _ -> VBase (base_of_type (one_type tag), n_of_string (next ()))
  in
  go ()

let rec tok_of_val (v : val0) : string list =
  match v with
  | VBase (b, n) -> [str_of_list (to_str (TBase b)); string_of_n n]
  | VText (b, s) -> [str_of_list (to_str (TBase b)); hex_of_list s]
  | VArray (t, vs) -> ["a"; str_of_list (to_str t); string_of_int (List.length vs)] @ List.concat_map tok_of_val vs
  | VStruct vs -> ["r"; string_of_int (List.length vs)] @ List.concat_map tok_of_val vs
  | VDict (k, vt, kvs) ->
      let entries = List.map (fun (a, b) -> tok_of_val a @ tok_of_val b) kvs in
      ["e"; str_of_list (to_str (TBase k)); str_of_list (to_str vt); string_of_int (List.length kvs)] @ List.concat entries
  | VVariant (t, x) -> ["v"; str_of_list (to_str t)] @ tok_of_val x
let vtoks v = String.concat "_" (tok_of_val v)

let be_of = function "be" -> true | "le" -> false | s -> raise (Bad ("bo " ^ s))
let enc_field name (e : enc0) = Printf.sprintf "enc:%s=%s,%s,%s" name (if e.e_ok then "ok" else "err") (hex_of_list e.e_sig) (hex_of_list e.e_buf)
let tr b = if b then "t1" else "t0"
let af b = if b then "a1" else "a0"
let dres_str = function
  | DVal (v, t) -> Printf.sprintf "ok,%s,%s" (tr t) (vtoks v)
  | DWrongSig -> "wrongsig" | DEnd -> "end" | DErr -> "err" | DBad -> "bad"
let sapi_name = function ApiT -> "T" | ApiD -> "D" | ApiP -> "P"
let eapi_name = function ApiV -> "V" | ApiED -> "D" | ApiS -> "S" | ApiM -> "M" | ApiEP -> "P"
let inner_str = function Ok v -> "ok_" ^ vtoks v | _ -> "err"
(* flag: how "what follows" is printed (trailer for EN, AFTER+trailer given separately for EO) *)
let edres_str ?(inner = false) (flag : bool -> string) (d : edres) =
  match d with
  | EDCase (Some i, v, t) -> Printf.sprintf "ok,%s,c%d,%s" (flag t) (int_of_nat i) (vtoks v)
  | EDCase (None, v, t) -> Printf.sprintf "ok,%s,%s" (flag t) (vtoks v)
  | EDCatchSig (t, f) -> Printf.sprintf "ok,%s,catch,%s" (flag f) (str_of_list (to_str t))
  | EDCatchVar (t, x, f) -> Printf.sprintf "ok,%s,catch,%s,%s" (flag f) (str_of_list (to_str t)) (if inner then inner_str x else "-")
  | EDWrongSig -> "wrongsig" | EDEnd -> "end" | EDErr -> "err" | EDBad -> "bad"

let eval (line : string) : string =
  let toks = Array.of_list (List.filter (fun s -> s <> "") (String.split_on_char ' ' line)) in
  let pos = ref 0 in
  let next () = let t = toks.(!pos) in incr pos; t in
  let op = next () in
  match op with
  | "ST" ->
      let r = parse_rty (next ()) in
      let be = be_of (next ()) in
      let prefix = int_of_string (next ()) in
      let v = parse_val toks pos in
      let res = op_struct be (nat_of_int prefix) r v in
      String.concat " " (List.concat_map (fun ((a, e), decs) ->
          enc_field (sapi_name a) e :: List.map (fun (d, x) -> Printf.sprintf "dec:%s%s=%s" (sapi_name a) (sapi_name d) (dres_str x)) decs) res)
  | "HS" ->
      let r = parse_rty (next ()) in
      let be = be_of (next ()) in
      let other = parse_rty (next ()) in
      let v = parse_val toks pos in
      let (((e, d), t), o) = op_hassig be r other v in
      if not e.e_ok then enc_field "O" e else
      Printf.sprintf "%s get:D=%s get:T=%s get:O=%s" (enc_field "O" e) (dres_str d) (dres_str t) (dres_str o)
  | "EN" ->
      let cs = parse_cases (next ()) in
      let be = be_of (next ()) in
      let prefix = int_of_string (next ()) in
      let i = int_of_string (next ()) in
      let v = parse_val toks pos in
      let p = (match List.nth cs i, v with
               | CSingle _, _ -> PSingle v
               | CFields _, VStruct vs -> PFields vs
               | _ -> raise (Bad "payload")) in
      let res = op_enum be (nat_of_int prefix) cs (nat_of_int i) p in
      String.concat " " (List.concat_map (fun ((a, e), decs) ->
          enc_field (eapi_name a) e :: List.map (fun (d, x) -> Printf.sprintf "dec:%s%s=%s" (eapi_name a) (eapi_name d) (edres_str tr x)) decs) res)
  | "EO" ->
      let cs = parse_cases (next ()) in
      let be = be_of (next ()) in
      let prefix = int_of_string (next ()) in
      let out = parse_rty (next ()) in
      let v = parse_val toks pos in
      let r = op_outside be (nat_of_int prefix) cs out v in
      if not r.eo_body.e_ok then enc_field "V" r.eo_body else
      let d = (match r.eo_d with
               | EDErr | EDWrongSig | EDEnd ->
                   let name = (match r.eo_d with EDErr -> "err" | EDWrongSig -> "wrongsig" | _ -> "end") in
                   (match r.eo_d_next with
                    | DVal (v, _) -> Printf.sprintf "%s,next=ok,%s,%s" name (af r.eo_d_next_after) (vtoks v)
                    | x -> Printf.sprintf "%s,next=%s" name (dres_str x))
               | x -> edres_str ~inner:true (fun _ -> af r.eo_d_after) x) in
      Printf.sprintf "%s read:D=%s read:S=%s read:M=%s" (enc_field "V" r.eo_body) d
        (edres_str ~inner:true (fun _ -> af r.eo_s_after) r.eo_s) (edres_str ~inner:true (fun _ -> af r.eo_m_after) r.eo_m)
  | "EC" ->
      let cs = parse_cases (next ()) in
      let x = parse_cty cs (next ()) in
      let be = be_of (next ()) in
      let prefix = int_of_string (next ()) in
      let v = parse_val toks pos in
      let name = function CApiD -> "D" | CApiS -> "S" | CApiM -> "M" | CApiPV -> "Q" | CApiP -> "P" in
      let cd = function
        | CDVal (Some v, t) -> Printf.sprintf "ok,%s,%s" (tr t) (vtoks v)
        | CDVal (None, t) -> Printf.sprintf "ok,%s,CATCH" (tr t)
        | CDWrongSig -> "wrongsig" | CDEnd -> "end" | CDErr -> "err" | CDBad -> "bad" in
      let res = op_container be (nat_of_int prefix) x v in
      String.concat " " (List.concat_map (fun ((a, e), decs) ->
          enc_field (name a) e :: List.map (fun (d, r) -> Printf.sprintf "dec:%s%s=%s" (name a) (name d) (cd r)) decs) res)
  | _ -> "?"

let () =
  try
    while true do
      let line = input_line stdin in
      (try print_endline (eval line) with
       | Bad m -> print_endline ("BAD " ^ m)
       | Invalid_argument m -> print_endline ("BAD " ^ m)
       | Failure m -> print_endline ("BAD " ^ m)
       | Not_found -> print_endline "BAD not found")
    done
  with End_of_file -> ()
