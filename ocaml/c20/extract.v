From Coq Require Import Extraction ExtrOcamlBasic.
From RB Require Import Base.Prelude Conn.DispatchMsg Conn.Peer.
Extraction Language OCaml.
Set Extraction Output Directory ".".
Extraction "gen_model.ml" filter_peer handle_peer_message get_machine_id format_uuid rand1_of rand2_of ascii_only fs_write machine_id_path.
