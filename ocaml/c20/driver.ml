(* I/O wrapper around the extracted model of C20 (no logic of its own beyond parsing and printing).
   Same output format as the "R " lines of harness/src/bin/c20.rs:
     p <iface|-> <member|-> <typ> <serial> <sender|-> <reply serial|-> <pre: stored id hex | none> <draw hex> <secs>
     u <12 bytes hex> <12 bytes hex> <secs>
     g <stored id hex> <draw hex> <secs>       GetMachineId twice on a file system that already holds the id
   The stored id before the call, the draw and the clock are the environment the implementation ran in
   (read off by the harness / from the id's tail) and are the explicit arguments of the model. *)
open Gen_model

let rec pos_of_int n = if n = 1 then XH else if n land 1 = 0 then XO (pos_of_int (n lsr 1)) else XI (pos_of_int (n lsr 1))
let n_of_int n = if n = 0 then N0 else Npos (pos_of_int n)
let rec int_of_pos = function XH -> 1 | XO p -> 2 * int_of_pos p | XI p -> 2 * int_of_pos p + 1
let int_of_n = function N0 -> 0 | Npos p -> int_of_pos p

let hex_of_list l =
  if l = [] then "-" else String.concat "" (List.map (fun n -> Printf.sprintf "%02x" (int_of_n n)) l)
let list_of_hex s =
  if s = "-" then [] else
  List.init (String.length s / 2) (fun i -> n_of_int (int_of_string ("0x" ^ String.sub s (2 * i) 2)))
let opt_of_hex s = if s = "-" then None else Some (list_of_hex s)

let show_reply (r : msg) =
  let typ = match r.m_typ with MCall -> 1 | MReply -> 2 | MError -> 3 | MSignal -> 4 | MInvalid -> 0 in
  let codes =
    (if r.m_dh.dh_object <> None then [ 1 ] else [])
    @ (if r.m_dh.dh_interface <> None then [ 2 ] else [])
    @ (if r.m_dh.dh_member <> None then [ 3 ] else [])
    @ (if r.m_dh.dh_error_name <> None then [ 4 ] else [])
    @ (if r.m_dh.dh_response_serial <> None then [ 5 ] else [])
    @ (if r.m_dh.dh_destination <> None then [ 6 ] else [])
    @ (if r.m_dh.dh_sender <> None then [ 7 ] else [])
    @ (if r.m_body <> [] then [ 8 ] else []) in
  let body = match r.m_body with
    | [] -> "-"
    | [ s ] -> "s:" ^ hex_of_list s
    | l -> "multi:" ^ String.concat "+" (List.map hex_of_list l) in
  Printf.sprintf "%d;%s;%s;%s;%s" typ
    (match r.m_dh.dh_response_serial with Some s -> string_of_int (int_of_n s) | None -> "-")
    (match r.m_dh.dh_destination with Some d -> hex_of_list d | None -> "-")
    (String.concat "." (List.map string_of_int codes))
    body

let show_written = function [] -> "-" | l -> String.concat "|" (List.map show_reply l)

let empty_fs : fs = fun _ -> None
let show_file (f : fs) = match f machine_id_path with Some b -> hex_of_list b | None -> "none"

let make_msg iface member typ serial sender rs =
  { m_typ = (match typ with "c" -> MCall | "s" -> MSignal | "r" -> MReply | "i" -> MInvalid | _ -> MError);
    m_dh = { dh_interface = opt_of_hex iface; dh_member = opt_of_hex member;
             dh_object = Some (list_of_hex "2f78"); dh_destination = None;
             dh_serial = (if serial = 0 then None else Some (n_of_int serial)); dh_sender = opt_of_hex sender;
             dh_signature = None; dh_error_name = None;
             dh_response_serial = (if rs = "-" then None else Some (n_of_int (int_of_string rs))); dh_num_fds = None };
    m_flags = N0; m_body = [] }

let handled_str = function
  | Ok ((h, _), _) -> if h then "true" else "false"
  | Err -> "err"
  | _ -> "panic"

let peer_iface = "6f72672e667265656465736b746f702e444275732e50656572"
let get_id = "4765744d616368696e654964"

let () =
  try
    while true do
      let line = input_line stdin in
      match String.split_on_char ' ' line with
      | [ "p"; iface; member; typ; serial; sender; rs; pre; draw; secs ] ->
          let m = make_msg iface member typ (int_of_string serial) sender rs in
          let f0 = if pre = "none" then empty_fs else fs_write machine_id_path (list_of_hex pre) empty_fs in
          let e = { e_now = n_of_int (int_of_string secs); e_rand = list_of_hex draw; e_write_ok = true } in
          let r = handle_peer_message ascii_only e f0 m in
          let written, post = match r with Ok ((_, w), f1) -> (show_written w, show_file f1) | _ -> ("-", show_file f0) in
          Printf.printf "handled=%s filter=%b written=%s pre=%s post=%s\n" (handled_str r) (filter_peer m.m_dh) written pre post
      | [ "u"; d1; d2; secs ] ->
          let m = make_msg peer_iface get_id "c" 77 "3a312e39" "-" in
          let e1 = { e_now = n_of_int (int_of_string secs); e_rand = list_of_hex d1; e_write_ok = true } in
          (* the second call runs with another draw and a later clock: neither may matter *)
          let e2 = { e_now = n_of_int (int_of_string secs + 1000); e_rand = list_of_hex d2; e_write_ok = true } in
          let r1 = handle_peer_message ascii_only e1 empty_fs m in
          let w1, f1 = match r1 with Ok ((_, w), f) -> (show_written w, f) | _ -> ("-", empty_fs) in
          let r2 = handle_peer_message ascii_only e2 f1 m in
          let w2, f2 = match r2 with Ok ((_, w), f) -> (show_written w, f) | _ -> ("-", f1) in
          Printf.printf "handled1=%s r1=%s file1=%s handled2=%s r2=%s file2=%s\n"
            (handled_str r1) w1 (show_file f1) (handled_str r2) w2 (show_file f2)
      | [ "g"; pre; draw; secs ] ->
          let m = make_msg peer_iface get_id "c" 77 "3a312e39" "-" in
          let f0 = if pre = "none" then empty_fs else fs_write machine_id_path (list_of_hex pre) empty_fs in
          let e1 = { e_now = n_of_int (int_of_string secs); e_rand = list_of_hex draw; e_write_ok = true } in
          let r1 = handle_peer_message ascii_only e1 f0 m in
          let w1, f1 = match r1 with Ok ((_, w), f) -> (show_written w, f) | _ -> ("-", f0) in
          let r2 = handle_peer_message ascii_only e1 f1 m in
          let w2, f2 = match r2 with Ok ((_, w), f) -> (show_written w, f) | _ -> ("-", f1) in
          Printf.printf "pre=%s handled1=%s r1=%s file1=%s handled2=%s r2=%s file2=%s\n" pre
            (handled_str r1) w1 (show_file f1) (handled_str r2) w2 (show_file f2)
      | _ -> print_endline "?"
    done
  with End_of_file -> ()
