(* I/O wrapper around the extracted model of C20 (no logic of its own beyond parsing and printing).
   Same output format as the "R " lines of harness/src/bin/c20.rs:
     p <iface|-> <member|-> <typ> <serial> <sender|-> <reply serial|-> <flags> <destination|-> <body string|-> [<object path|-> <num_fds|->] <pre: stored id hex | none> <draw hex> <secs>
     n <draw> <draw> <draw> <secs>             first call with the disk full (write of the temporary file fails), then two with space
     u <12 bytes hex> <12 bytes hex> <secs>
     g <stored id hex> <draw hex> <secs>       GetMachineId twice on a file system that already holds the id
   The stored id before the call, the draw and the clock are the environment the implementation ran in
   (read off by the harness / from the id's tail) and are the explicit arguments of the model. *)
open Gen_model

let rec pos_of_int n = if n = 1 then XH else if n land 1 = 0 then XO (pos_of_int (n lsr 1)) else XI (pos_of_int (n lsr 1))
let n_of_int n = if n = 0 then N0 else Npos (pos_of_int n)
let rec int_of_pos = function XH -> 1 | XO p -> 2 * int_of_pos p | XI p -> 2 * int_of_pos p + 1
let int_of_n = function N0 -> 0 | Npos p -> int_of_pos p

let hex_of_list l =
  if l = [] then "-" else String.concat "" (List.map (fun n -> Printf.sprintf "%02x" (int_of_n n)) l)
let list_of_hex s =
  if s = "-" then [] else
  List.init (String.length s / 2) (fun i -> n_of_int (int_of_string ("0x" ^ String.sub s (2 * i) 2)))
let opt_of_hex s = if s = "-" then None else Some (list_of_hex s)

let show_reply (r : msg) =
  let typ = match r.m_typ with MCall -> 1 | MReply -> 2 | MError -> 3 | MSignal -> 4 | MInvalid -> 0 in
  let codes =
    (if r.m_dh.dh_object <> None then [ 1 ] else [])
    @ (if r.m_dh.dh_interface <> None then [ 2 ] else [])
    @ (if r.m_dh.dh_member <> None then [ 3 ] else [])
    @ (if r.m_dh.dh_error_name <> None then [ 4 ] else [])
    @ (if r.m_dh.dh_response_serial <> None then [ 5 ] else [])
    @ (if r.m_dh.dh_destination <> None then [ 6 ] else [])
    @ (if r.m_dh.dh_sender <> None then [ 7 ] else [])
    @ (if r.m_body <> [] then [ 8 ] else []) in
  let body = match r.m_body with
    | [] -> "-"
    | [ s ] -> "s:" ^ hex_of_list s
    | l -> "multi:" ^ String.concat "+" (List.map hex_of_list l) in
  Printf.sprintf "%d;%s;%s;%s;%s" typ
    (match r.m_dh.dh_response_serial with Some s -> string_of_int (int_of_n s) | None -> "-")
    (match r.m_dh.dh_destination with Some d -> hex_of_list d | None -> "-")
    (String.concat "." (List.map string_of_int codes))
    body

let show_written = function [] -> "-" | l -> String.concat "|" (List.map show_reply l)

let empty_fs : fs = fun _ -> None
let show_file (f : fs) = match f machine_id_path with Some b -> hex_of_list b | None -> "none"

let make_msg ?(flags = 0) ?(dest = "-") ?(body = "-") ?(obj = "2f78") ?(fds = "-") iface member typ serial sender rs =
  { m_typ = (match typ with "c" -> MCall | "s" -> MSignal | "r" -> MReply | "i" -> MInvalid | _ -> MError);
    m_dh = { dh_interface = opt_of_hex iface; dh_member = opt_of_hex member;
             dh_object = opt_of_hex obj; dh_destination = opt_of_hex dest;
             dh_serial = (if serial = 0 then None else Some (n_of_int serial)); dh_sender = opt_of_hex sender;
             dh_signature = (if body = "-" then None else Some (list_of_hex "73")); dh_error_name = None;
             dh_response_serial = (if rs = "-" then None else Some (n_of_int (int_of_string rs))); dh_num_fds = (if fds = "-" then None else Some (n_of_int (int_of_string fds))) };
    m_flags = n_of_int flags; m_body = (if body = "-" then [] else [ list_of_hex body ]) }

let handled_str (r, _) = match r with
  | Ok (h, _) -> if h then "true" else "false"
  | Err -> "err"
  | _ -> "panic"
let written_of (r, _) = match r with Ok (_, w) -> show_written w | _ -> "-"

let peer_iface = "6f72672e667265656465736b746f702e444275732e50656572"
let get_id = "4765744d616368696e654964"

(* file operations succeed unless the line says otherwise *)
let env ?(write = WriteDone) secs draw =
  { e_now = n_of_int secs; e_rand = list_of_hex draw; e_tmp_tag = list_of_hex "312e30";
    e_write = write; e_link = LinkDone; e_remove_ok = true }

let get_id_msg () = make_msg peer_iface get_id "c" 77 "3a312e39" "-"

let () =
  try
    while true do
      let line = input_line stdin in
      match String.split_on_char ' ' line with
      | [ "p"; iface; member; typ; serial; sender; rs; flags; dest; body; pre; draw; secs ] ->
          let m = make_msg ~flags:(int_of_string flags) ~dest ~body iface member typ (int_of_string serial) sender rs in
          let f0 = if pre = "none" then empty_fs else fs_write machine_id_path (list_of_hex pre) empty_fs in
          let r = handle_peer_message ascii_only (env (int_of_string secs) draw) f0 m in
          Printf.printf "handled=%s filter=%b written=%s pre=%s post=%s\n" (handled_str r) (filter_peer m.m_dh)
            (written_of r) pre (show_file (snd r))
      | [ "p"; iface; member; typ; serial; sender; rs; flags; dest; body; obj; fds; pre; draw; secs ] ->
          let m = make_msg ~flags:(int_of_string flags) ~dest ~body ~obj ~fds iface member typ (int_of_string serial) sender rs in
          let f0 = if pre = "none" then empty_fs else fs_write machine_id_path (list_of_hex pre) empty_fs in
          let r = handle_peer_message ascii_only (env (int_of_string secs) draw) f0 m in
          Printf.printf "handled=%s filter=%b written=%s pre=%s post=%s\n" (handled_str r) (filter_peer m.m_dh)
            (written_of r) pre (show_file (snd r))
      | [ "u"; d1; d2; secs ] ->
          let m = get_id_msg () in
          (* the second call runs with another draw and a later clock: neither may matter *)
          let r1 = handle_peer_message ascii_only (env (int_of_string secs) d1) empty_fs m in
          let r2 = handle_peer_message ascii_only (env (int_of_string secs + 1000) d2) (snd r1) m in
          Printf.printf "handled1=%s r1=%s file1=%s handled2=%s r2=%s file2=%s\n"
            (handled_str r1) (written_of r1) (show_file (snd r1)) (handled_str r2) (written_of r2) (show_file (snd r2))
      | [ "g"; pre; draw; secs ] ->
          let m = get_id_msg () in
          let f0 = if pre = "none" then empty_fs else fs_write machine_id_path (list_of_hex pre) empty_fs in
          let r1 = handle_peer_message ascii_only (env (int_of_string secs) draw) f0 m in
          let r2 = handle_peer_message ascii_only (env (int_of_string secs) draw) (snd r1) m in
          Printf.printf "pre=%s handled1=%s r1=%s file1=%s handled2=%s r2=%s file2=%s\n" pre
            (handled_str r1) (written_of r1) (show_file (snd r1)) (handled_str r2) (written_of r2) (show_file (snd r2))
      | [ "n"; d1; d2; d3; secs ] ->
          (* no space left: the temporary file is created but the write fails; then space is freed *)
          let m = get_id_msg () in
          let r1 = handle_peer_message ascii_only (env ~write:(WriteFailed (Some [])) (int_of_string secs) d1) empty_fs m in
          let r2 = handle_peer_message ascii_only (env (int_of_string secs) d2) (snd r1) m in
          let r3 = handle_peer_message ascii_only (env (int_of_string secs) d3) (snd r2) m in
          Printf.printf "handled1=%s r1=%s file1=%s handled2=%s r2=%s handled3=%s r3=%s file3=%s\n"
            (handled_str r1) (written_of r1) (show_file (snd r1)) (handled_str r2) (written_of r2)
            (handled_str r3) (written_of r3) (show_file (snd r3))
      | _ -> print_endline "?"
    done
  with End_of_file -> ()
