From Coq Require Import Extraction ExtrOcamlBasic.
From RB Require Import Base.Prelude Conn.DispatchMsg Conn.Dispatch.
Extraction Language OCaml.
Set Extraction Output Directory ".".
Extraction "gen_model.ml" pattern_new matches get_match_in add_handler run_loop make_response push_str.
