(* I/O wrapper around the extracted model of C19 (no logic of its own beyond parsing, printing and
   building the oracles from the input line).  Same protocol and output format as
   harness/src/bin/c19.rs:
     m <pattern-hex> <query-hex>
     mm <choice> <query-hex> <pattern-hex>...   choice = handler the implementation returned (0: none):
                                                the iteration-order oracle puts its entry first
     mmset <query-hex> <pattern-hex>...         all matching entries "id:caps/id:caps" (or N)
     enum <seg,seg,..> <maxseg> <shard> <n>
     run <routes> <msgs> <choices>              choices = handler per message as the implementation logged it;
                                                run() is called again after every failing handler
     runsets <routes> <msgs>                    per message: the matching entries under the specified routing *)
open Gen_model

let rec pos_of_int n = if n = 1 then XH else if n land 1 = 0 then XO (pos_of_int (n lsr 1)) else XI (pos_of_int (n lsr 1))
let n_of_int n = if n = 0 then N0 else Npos (pos_of_int n)
let rec int_of_pos = function XH -> 1 | XO p -> 2 * int_of_pos p | XI p -> 2 * int_of_pos p + 1
let int_of_n = function N0 -> 0 | Npos p -> int_of_pos p
let rec int_of_nat = function O -> 0 | S n -> 1 + int_of_nat n

let hex_of_list l =
  if l = [] then "-" else String.concat "" (List.map (fun n -> Printf.sprintf "%02x" (int_of_n n)) l)
let list_of_hex s =
  if s = "-" then [] else
  List.init (String.length s / 2) (fun i -> n_of_int (int_of_string ("0x" ^ String.sub s (2 * i) 2)))
let opt_of_hex s = if s = "-" then None else Some (list_of_hex s)

let show_caps (c : caps) =
  let l = List.sort compare (List.map (fun (k, v) -> hex_of_list k ^ "=" ^ hex_of_list v) c) in
  if l = [] then "-" else String.concat "," l

let split c s = String.split_on_char c s

(* ---------------------------------------------------------------- matcher *)
let show_match p q =
  match matches (pattern_new p) q with
  | Ok c -> "M:" ^ show_caps c
  | Err -> "N"
  | _ -> "PANIC"

let build_routes pats =
  let rec go i acc = function
    | [] -> acc
    | p :: r -> go (i + 1) (add_handler (list_of_hex p) (n_of_int i) acc) r in
  go 1 [] pats

(* the iteration-order oracle: the entries of handler [choice] first, the rest in list order *)
let order_first choice (l : routes) : routes =
  let a, b = List.partition (fun (_, h) -> int_of_n h = choice) l in a @ b

let all_strings segs maxseg =
  let out = ref [] in
  let cur = ref [ [] ] in
  for _ = 1 to maxseg do
    let next = List.concat_map (fun c -> List.map (fun s -> c @ [ s ]) segs) !cur in
    List.iter (fun n -> out := String.concat "/" n :: !out) next;
    cur := next
  done;
  List.rev !out

let bytes_of_string s = List.init (String.length s) (fun i -> n_of_int (Char.code s.[i]))
let string_of_hex h = String.concat "" (List.map (fun n -> String.make 1 (Char.chr (int_of_n n))) (list_of_hex h))

let nontrivial p q =
  let ps = split '/' p and qs = split '/' q in
  List.length qs >= List.length ps
  && List.exists (fun s -> (String.length s > 0 && s.[0] = ':') || s = "*") ps

(* ---------------------------------------------------------------- run *)
type behaviour = { res : char; body : str; newroutes : (str * n) list }

let parse_routes s =
  if s = "-" then [] else
  List.map (fun r -> match split ':' r with
      | [ p; id ] -> (list_of_hex p, n_of_int (int_of_string id))
      | _ -> failwith "route") (split ',' s)

let parse_msgs s =
  if s = "-" then [] else
  List.map (fun m -> match split ';' m with
      (* the trailing field (signals the handler sends itself through env.conn) is not part of the model:
         the check strips those signals from the implementation's trace and judges them apart *)
      | serial :: typ :: obj :: sender :: res :: body :: nr :: flags :: dest :: inbody :: _byteorder :: ([] | [ _ ]) ->
          let call = typ = "c" || typ = "k" in
          let dh = { dh_interface = (if typ = "s" then Some (bytes_of_string "verif.I") else None);
                     dh_member = (if call || typ = "s" then Some (bytes_of_string "M") else None);
                     dh_object = opt_of_hex obj; dh_destination = opt_of_hex dest;
                     dh_serial = Some (n_of_int (int_of_string serial)); dh_sender = opt_of_hex sender;
                     dh_signature = (if inbody = "-" then None else Some (bytes_of_string "s")); dh_error_name = (if typ = "e" then Some (bytes_of_string "verif.Err") else None);
                     dh_response_serial = (if typ = "c" || typ = "s" then None else Some (n_of_int 999)); dh_num_fds = None } in
          ({ m_typ = (if call then MCall else if typ = "s" then MSignal else if typ = "e" then MError else MReply);
             m_dh = dh; m_flags = n_of_int (int_of_string flags);
             m_body = (if inbody = "-" then [] else [ list_of_hex inbody ]) },
           { res = res.[0]; body = list_of_hex body; newroutes = parse_routes nr })
      | _ -> failwith "msg") (split '|' s)

let oracle_of script (i : nat) (_ : handler_id) (_ : caps) (m : msg) =
  match List.nth_opt script (int_of_nat i) with
  | None -> (HNone, [])
  | Some b ->
      let r = match b.res with
        | 'S' -> HSome (push_str b.body (make_response m.m_dh))
        | 'N' -> HNone
        | _ -> HErr in
      (r, b.newroutes)

let show_who = function HDefault -> "D" | HRoute h -> string_of_int (int_of_n h)

let show_reply (r : msg) =
  let typ = match r.m_typ with MCall -> 1 | MReply -> 2 | MError -> 3 | MSignal -> 4 | MInvalid -> 0 in
  let codes =
    (if r.m_dh.dh_object <> None then [ 1 ] else [])
    @ (if r.m_dh.dh_interface <> None then [ 2 ] else [])
    @ (if r.m_dh.dh_member <> None then [ 3 ] else [])
    @ (if r.m_dh.dh_error_name <> None then [ 4 ] else [])
    @ (if r.m_dh.dh_response_serial <> None then [ 5 ] else [])
    @ (if r.m_dh.dh_destination <> None then [ 6 ] else [])
    @ (if r.m_dh.dh_sender <> None then [ 7 ] else [])
    @ (if r.m_body <> [] then [ 8 ] else []) in
  let body = match r.m_body with
    | [] -> "-"
    | [ s ] -> "s:" ^ hex_of_list s
    | l -> "multi:" ^ String.concat "+" (List.map hex_of_list l) in
  Printf.sprintf "%d;%s;%s;%s;%s" typ
    (match r.m_dh.dh_response_serial with Some s -> string_of_int (int_of_n s) | None -> "-")
    (match r.m_dh.dh_destination with Some d -> hex_of_list d | None -> "-")
    (String.concat "." (List.map string_of_int codes))
    body

let serial_of (m : msg) = match m.m_dh.dh_serial with Some s -> int_of_n s | None -> 0

let id_perm _ l = l

(* run() is called again after every failing handler (as the harness does) until the input is used up;
   message numbers for the oracles continue *)
let rec nat_of_int n = if n = 0 then O else S (nat_of_int (n - 1))
let rec drop k l = if k = 0 then l else match l with [] -> [] | _ :: r -> drop (k - 1) r

let run_all oracle perm routes (msgs : msg list) =
  let rec go i routes msgs logs wrs ends =
    match run_loop oracle perm id_perm (nat_of_int i) msgs routes with
    | Ok (((log, wr), rf), e) ->
        let logs = logs @ log and wrs = wrs @ wr in
        (match e with
         | EndRecv -> Some (logs, wrs, rf, ends @ [ "conn" ])
         | EndHandlerErr ->
             let k = List.length log in
             go (i + k) rf (drop k msgs) logs wrs (ends @ [ "handler" ]))
    | _ -> None in
  go 0 routes msgs [] [] []

let do_run routes msgs choices =
  let routes = List.fold_left (fun acc (p, id) -> add_handler p id acc) [] (parse_routes routes) in
  let ms = parse_msgs msgs in
  let choices = if choices = "-" then [] else split ',' choices in
  let perm (i : nat) l =
    match List.nth_opt choices (int_of_nat i) with
    | Some c when c <> "D" -> order_first (int_of_string c) l
    | _ -> l in
  match run_all (oracle_of (List.map snd ms)) perm routes (List.map fst ms) with
  | Some (log, wr, _, ends) ->
      let logs = List.map (fun ev -> Printf.sprintf "%s;%d;%s" (show_who ev.ev_handler) (serial_of ev.ev_msg) (show_caps ev.ev_caps)) log in
      Printf.sprintf "log=%s replies=%s end=%s"
        (if logs = [] then "-" else String.concat "|" logs)
        (if wr = [] then "-" else String.concat "|" (List.map show_reply wr))
        (String.concat "," ends)
  | None -> "log=PANIC replies=PANIC end=PANIC"

let matching_set (rt : routes) q =
  let l = List.filter_map (fun (p, h) -> match matches p q with
      | Ok c -> Some (Printf.sprintf "%d:%s" (int_of_n h) (show_caps c))
      | _ -> None) rt in
  if l = [] then "N" else String.concat "/" (List.sort compare l)

let rec take k = function [] -> [] | x :: r -> if k = 0 then [] else x :: take (k - 1) r

let do_runsets routes msgs =
  let routes = List.fold_left (fun acc (p, id) -> add_handler p id acc) [] (parse_routes routes) in
  let ms = parse_msgs msgs in
  let n = List.length ms in
  let sets = List.init n (fun k ->
      let pre = take k ms in
      match run_all (oracle_of (List.map snd pre)) id_perm routes (List.map fst pre) with
      | Some (_, _, rf, _) ->
          (match (fst (List.nth ms k)).m_dh.dh_object with
           | Some obj -> matching_set rf obj
           | None -> "N")
      | None -> "X") in
  if sets = [] then "-" else String.concat "|" sets

let () =
  try
    while true do
      let line = input_line stdin in
      match split ' ' line with
      | [ "m"; p; q ] -> Printf.printf "%s %s %s\n" p q (show_match (list_of_hex p) (list_of_hex q))
      | "mm" :: choice :: q :: pats ->
          let rt = order_first (int_of_string choice) (build_routes pats) in
          (match get_match_in rt (list_of_hex q) with
           | Ok (Some (c, h)) -> Printf.printf "H:%d:%s\n" (int_of_n h) (show_caps c)
           | Ok None -> print_endline "N"
           | _ -> print_endline "PANIC")
      | "mmset" :: q :: pats -> print_endline (matching_set (build_routes pats) (list_of_hex q))
      | [ "enum"; segs; maxseg; shard; n ] ->
          let segs = List.map string_of_hex (split ',' segs) in
          let maxseg = int_of_string maxseg and shard = int_of_string shard and n = int_of_string n in
          let strings = all_strings segs maxseg in
          let arr = Array.of_list (List.map (fun s -> (s, bytes_of_string s)) strings) in
          let total = ref 0 and matched = ref 0 and nt = ref 0 in
          Array.iteri (fun i (ps, pb) ->
              if i mod n = shard then begin
                let pat = pattern_new pb in
                Array.iter (fun (qs, qb) ->
                    incr total;
                    if nontrivial ps qs then incr nt;
                    match matches pat qb with
                    | Ok c -> incr matched; Printf.printf "%s %s M:%s\n" (hex_of_list pb) (hex_of_list qb) (show_caps c)
                    | Err -> ()
                    | _ -> Printf.printf "%s %s PANIC\n" (hex_of_list pb) (hex_of_list qb)) arr
              end) arr;
          Printf.printf "total %d matched %d nontrivial %d\n" !total !matched !nt
      | [ "run"; routes; msgs; choices ] -> print_endline (do_run routes msgs choices)
      | [ "runsets"; routes; msgs ] -> print_endline (do_runsets routes msgs)
      | _ -> print_endline "?"
    done
  with End_of_file -> ()
