(* I/O wrapper around the extracted model of C08 (no logic of its own beyond parsing/printing).
   stdin lines:
     "s <hex of UTF-8 bytes | ->"                       one string
     "enum <cp,cp,...> <len> <first-index or -1>"       all strings of that length over the alphabet of
                                                        code points (hex), optionally only those starting
                                                        with alphabet[first-index]
     "rep <prefix-hex|-> <unit-hex> <count> <suffix-hex|->"  the string prefix ++ unit * count ++ suffix (long strings);
                                                        the first field of the answer is rep/<prefix>/<unit>/<count>/<suffix>
     "scan <lo> <hi> <prefix-hex|-> <suffix-hex|->"     prefix ++ [c] ++ suffix for every Unicode scalar
                                                        value lo <= c < hi (decimal; surrogates skipped)
   stdout: one line per string
     "<hex> P:<v> I:<v> E:<v> B:<v> M:<v> O:<v> W:<6 letters> Y:<6 letters> T:<6 letters> R:<2 letters> N:<15 letters> H:<6 letters>[ WD:<pos>=<8 letters>,..][ HD:<pos>=<8 letters>,..]"
   v = ok|err|panic (validate_object_path, _interface, _errorname, _busname, _membername, ObjectPath::new;
   O:bad = Ok with a different string); W = header marshalling with the string as path, interface,
   member, error name, destination, sender (o = Ok and exactly the given names written, e = Err,
   x = Ok but other names, p = anything else; each letter summarises 8 configurations = message type Call/Signal/
   Reply/Error x (only the fields the type requires + the one under test | all six); m = they differ, then WD lists
   the 8 letters); Y = the string as an object path pushed into a message body with the Param API: Base::ObjectPath,
   Base::ObjectPathRef, inside an array, a variant, as a dict key, inside a struct;
   T = ObjectPath::<String>::new, TryFrom<&str>, TryFrom<String>, new(&str)+to_owned, and decoding the wrapper from
   body bytes as ObjectPath<&str> and ObjectPath<String> (impl Unmarshal), each followed by the typed
   Marshal impl of the wrapper (e = constructor Err, o = Ok/same string/marshalled as that string, n = Ok but
   marshal refuses, x = other). R = body bytes holding the string with signature "o" decoded with get_param and
   checked with MarshalledMessageBody::validate; N = body bytes holding the string as an object path nested in a
   container (second array element "ao", struct field "(yo)", dict key "a{oy}", dict value "a{yo}", variant content),
   per route the three letters of validate(), get_param() and the typed get::<..>(); H = a hand-encoded header carrying the string in each name
   position decoded with unmarshal_header + unmarshal_dynamic_header (same 8 configurations, HD like WD).
   enum/scan print only lines where something is not err/e, then "total <n> nontrivial <k>". *)
open Gen_model

let rec pos_of_int n = if n = 1 then XH else if n land 1 = 0 then XO (pos_of_int (n lsr 1)) else XI (pos_of_int (n lsr 1))
let n_of_int n = if n = 0 then N0 else Npos (pos_of_int n)
let rec int_of_pos = function XH -> 1 | XO p -> 2 * int_of_pos p | XI p -> 2 * int_of_pos p + 1
let int_of_n = function N0 -> 0 | Npos p -> int_of_pos p

let hex_of_ints l =
  if l = [] then "-" else String.concat "" (List.map (fun n -> Printf.sprintf "%02x" n) l)
let ints_of_hex s =
  if s = "-" then [] else
  List.init (String.length s / 2) (fun i -> int_of_string ("0x" ^ String.sub s (2 * i) 2))

(* strict UTF-8 decoder (Unicode table 3-7): None when the bytes are not well-formed *)
let decode_utf8 (b : int list) : int list option =
  let rec go b acc =
    match b with
    | [] -> Some (List.rev acc)
    | b0 :: r when b0 < 0x80 -> go r (b0 :: acc)
    | b0 :: b1 :: r when b0 >= 0xC2 && b0 <= 0xDF && b1 land 0xC0 = 0x80 ->
        go r ((((b0 land 0x1F) lsl 6) lor (b1 land 0x3F)) :: acc)
    | b0 :: b1 :: b2 :: r when b0 land 0xF0 = 0xE0 && b1 land 0xC0 = 0x80 && b2 land 0xC0 = 0x80 ->
        let c = ((b0 land 0x0F) lsl 12) lor ((b1 land 0x3F) lsl 6) lor (b2 land 0x3F) in
        if c < 0x800 || (c >= 0xD800 && c <= 0xDFFF) then None else go r (c :: acc)
    | b0 :: b1 :: b2 :: b3 :: r when b0 land 0xF8 = 0xF0 && b1 land 0xC0 = 0x80 && b2 land 0xC0 = 0x80 && b3 land 0xC0 = 0x80 ->
        let c = ((b0 land 0x07) lsl 18) lor ((b1 land 0x3F) lsl 12) lor ((b2 land 0x3F) lsl 6) lor (b3 land 0x3F) in
        if c < 0x10000 || c > 0x10FFFF then None else go r (c :: acc)
    | _ -> None
  in
  go b []

let status = function Ok _ -> "ok" | Err -> "err" | _ -> "panic"

let ascii s = List.init (String.length s) (fun i -> n_of_int (Char.code s.[i]))
let base = { dh_interface = Some (ascii "a.b"); dh_member = Some (ascii "m"); dh_object = Some (ascii "/x");
             dh_destination = Some (ascii "c.d"); dh_sender = Some (ascii ":1.2"); dh_error_name = Some (ascii "e.f") }

let canon w = List.sort compare (List.map (fun (c, s) -> (int_of_n c, List.map int_of_n s)) w)

(* header positions: 0 path, 1 interface, 2 member, 3 error name, 4 destination, 5 sender.
   configurations: message type (Call, Signal, Reply, Error: the name fields the type requires) x
   (minimal = required fields + the one under test | full = all six) *)
let required = [| [0; 2]; [0; 1; 2]; []; [3] |]
let default_of k = match k with
  | 0 -> ascii "/x" | 1 -> ascii "a.b" | 2 -> ascii "m" | 3 -> ascii "e.f" | 4 -> ascii "c.d" | _ -> ascii ":1.2"

let wire1 k s typ full =
  let present j = full || j = k || List.mem j required.(typ) in
  let v j = if present j then Some (if j = k then s else default_of j) else None in
  let h = { dh_object = v 0; dh_interface = v 1; dh_member = v 2; dh_error_name = v 3;
            dh_destination = v 4; dh_sender = v 5 } in
  let (mt, rs) = match typ with 0 -> (MCall, false) | 1 -> (MSignal, false) | 2 -> (MReply, true) | _ -> (MError, true) in
  match marshal_header_msg mt rs h with
  | Ok w -> if canon w = canon (names_of h) then 'o' else 'x'
  | Err -> 'e'
  | _ -> 'p'

(* (summary letter, detail): the letter common to all 8 configurations, or 'm' with the 8 letters *)
let wire k s =
  let d = String.init 8 (fun c -> wire1 k s (c / 2) (c mod 2 = 1)) in
  if String.for_all (fun ch -> ch = d.[0]) d then (d.[0], None) else ('m', Some (Printf.sprintf "%d=%s" k d))

(* the wrapper constructors followed by the typed Marshal impl:
   e = constructor Err, o = Ok, same string, marshals to that string, n = Ok but marshal refuses, x = other *)
let ctor_letter (f : n list -> n list outcome) (owned : bool) s =
  match f s with
  | Err -> 'e'
  | Ok p ->
      let m q = match marshal_objectpath_typed q with Ok w -> if w = s then 'o' else 'x' | Err -> 'n' | _ -> 'p' in
      if p <> s then 'x'
      else if owned then (let a = m p and b = m (objectpath_to_owned p) in if a = b then a else 'x')
      else m p
  | _ -> 'p'

let is_name_char c =
  (c >= 48 && c <= 57) || (c >= 65 && c <= 90) || (c >= 97 && c <= 122) || c = 95 || c = 45
let is_sep c = c = 47 || c = 46 || c = 58

(* returns (interesting, nontrivial, line) for a list of scalar values *)
let eval ?label (cps : int list) : bool * bool * string =
  let s = List.map n_of_int cps in
  let first = match label with Some l -> l | None -> hex_of_ints (List.map int_of_n (utf8_bytes s)) in
  let p = status (validate_object_path s) and i = status (validate_interface s)
  and e = status (validate_errorname s) and b = status (validate_busname s)
  and m = status (validate_membername s) in
  let o = match objectpath_new s with Ok r -> if r = s then "ok" else "bad" | Err -> "err" | _ -> "panic" in
  let ws = List.init 6 (fun k -> wire k s) in
  let w = String.init 6 (fun k -> fst (List.nth ws k)) in
  let wd = List.filter_map snd ws in
  let decode x = objectpath_unmarshal (Ok x) in
  let t = String.init 6 (fun k -> match k with
    | 0 -> ctor_letter objectpath_new false s
    | 1 -> ctor_letter objectpath_try_from_str false s
    | 2 -> ctor_letter objectpath_try_from_string false s
    | 3 -> ctor_letter objectpath_new true s
    | _ -> ctor_letter decode false s) in
  (* every Param route of an object path into a body is marshal_base_param -> marshal_objectpath *)
  let y1 = match marshal_objectpath s with Ok r -> if r = s then 'o' else 'x' | Err -> 'e' | _ -> 'p' in
  let y = String.make 6 y1 in
  let r = String.init 2 (fun k -> match k with
    | 0 -> (match unmarshal_param_objectpath (Ok s) with Ok x -> if x = s then 'o' else 'x' | Err -> 'e' | _ -> 'p')
    | _ -> (match validate_raw_objectpath (Ok s) with Ok _ -> 'o' | Err -> 'e' | _ -> 'p')) in
  (* an object path nested in a container (array element, struct field, dict key, dict value, variant content): every
     container decoder hands the position to the decoder of the base type o - validate_raw.rs validate_marshalled_base
     (the Dict arm calls it directly with *key_sig), unmarshal/param unmarshal_base, impl Unmarshal for ObjectPath<S> -
     so per route the three letters are those of validate(), get_param() and the typed get::<..>() on the bare string *)
  let r3 = [| r.[1];
              (match unmarshal_param_objectpath (Ok s) with Ok x -> if x = s then 'o' else 'x' | Err -> 'e' | _ -> 'p');
              (match objectpath_unmarshal (Ok s) with Ok x -> if x = s then 'o' else 'x' | Err -> 'e' | _ -> 'p') |] in
  let nn = String.init 15 (fun k -> r3.(k mod 3)) in
  let codes = [| 1; 2; 3; 4; 6; 7 |] in
  let hl = String.init 6 (fun k -> match name_field_decoder (n_of_int codes.(k)) with
    | Some f -> (match f (Ok s) with Ok x -> if x = s then 'o' else 'x' | Err -> 'e' | _ -> 'p')
    | None -> '?') in
  let interesting = List.exists (fun v -> v <> "err") [p; i; e; b; m; o] || w <> "eeeeee" || y <> "eeeeee" || t <> "eeeeee"
                    || r <> "ee" || nn <> "eeeeeeeeeeeeeee" || hl <> "eeeeee" in
  let nontrivial = interesting || (List.exists is_sep cps && List.exists is_name_char cps) in
  (interesting, nontrivial,
   Printf.sprintf "%s P:%s I:%s E:%s B:%s M:%s O:%s W:%s Y:%s T:%s R:%s N:%s H:%s%s" first p i e b m o w y t r nn hl
     (if wd = [] then "" else " WD:" ^ String.concat "," wd))

let () =
  let out = Buffer.create 65536 in
  let flush_out () = print_string (Buffer.contents out); Buffer.clear out in
  let emit s = Buffer.add_string out s; Buffer.add_char out '\n'; if Buffer.length out > 60000 then flush_out () in
  (try
    while true do
      let line = input_line stdin in
      (match String.split_on_char ' ' line with
      | ["s"; h] ->
          let bytes = ints_of_hex h in
          (match decode_utf8 bytes with
           | None -> emit (Printf.sprintf "%s NOTUTF8" (hex_of_ints bytes))
           | Some cps ->
               let (_, _, l) = eval cps in
               (* the extracted specification encoder must reproduce the input bytes *)
               if List.map int_of_n (utf8_bytes (List.map n_of_int cps)) <> bytes then emit (h ^ " ?ENC") else emit l)
      | ["rep"; pfx; unit; count; sfx] ->
          let label = Printf.sprintf "rep/%s/%s/%s/%s" pfx unit count sfx in
          (match decode_utf8 (ints_of_hex pfx), decode_utf8 (ints_of_hex unit), decode_utf8 (ints_of_hex sfx) with
           | Some a, Some u, Some z ->
               let rec go k acc = if k = 0 then acc else go (k - 1) (List.rev_append u acc) in
               let cps = List.rev_append (List.rev a) (List.rev (List.rev_append z (go (int_of_string count) []))) in
               let (_, _, l) = eval ~label cps in emit l
           | _ -> emit (label ^ " NOTUTF8"))
      | ["enum"; al; len; first] ->
          let alpha = Array.of_list (List.map (fun x -> int_of_string ("0x" ^ x)) (String.split_on_char ',' al)) in
          let k = Array.length alpha in
          let len = int_of_string len and first = int_of_string first in
          let idx = Array.make len 0 in
          let total = ref 0 and nontriv = ref 0 in
          if len > 0 && first >= 0 then idx.(0) <- first;
          let continue = ref true in
          while !continue do
            let cps = Array.to_list (Array.map (fun i -> alpha.(i)) idx) in
            incr total;
            let (interesting, nt, l) = eval cps in
            if nt then incr nontriv;
            if interesting then emit l;
            let lo = if first >= 0 then 1 else 0 in
            let j = ref (len - 1) in
            let carry = ref true in
            while !carry && !j >= lo do
              idx.(!j) <- idx.(!j) + 1;
              if idx.(!j) < k then carry := false else (idx.(!j) <- 0; decr j)
            done;
            if !carry then continue := false
          done;
          emit (Printf.sprintf "total %d nontrivial %d" !total !nontriv)
      | ["scan"; lo; hi; pfx; sfx] ->
          let lo = int_of_string lo and hi = int_of_string hi in
          let dec h = match decode_utf8 (ints_of_hex h) with Some l -> l | None -> failwith "bad frame" in
          let pfx = dec pfx and sfx = dec sfx in
          let total = ref 0 and nontriv = ref 0 in
          for c = lo to hi - 1 do
            if c < 0xD800 || c > 0xDFFF then begin
              incr total;
              let (interesting, nt, l) = eval (pfx @ [c] @ sfx) in
              if nt then incr nontriv;
              if interesting then emit l
            end
          done;
          emit (Printf.sprintf "total %d nontrivial %d" !total !nontriv)
      | _ -> emit "?")
    done
  with End_of_file -> ());
  flush_out ()
