From Coq Require Import Extraction ExtrOcamlBasic.
From RB Require Import Base.Prelude Names.Str Names.Spec Names.Model Names.Wire.
Extraction Language OCaml.
Set Extraction Output Directory ".".
Extraction "gen_model.ml" validate_object_path validate_interface validate_errorname validate_busname
  validate_membername objectpath_new marshal_header_names marshal_objectpath names_of utf8_bytes
  objectpath_try_from_str objectpath_try_from_string objectpath_to_owned marshal_objectpath_typed
  marshal_header_msg name_field_decoder objectpath_unmarshal unmarshal_param_objectpath validate_raw_objectpath.
