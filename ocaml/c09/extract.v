From Coq Require Import Extraction ExtrOcamlBasic.
From RB Require Import Base.Prelude Conn.Recv.
Extraction Language OCaml.
Set Extraction Output Directory ".".
Extraction "gen_model.ml" rstate0 kwrite kavail klimit krecv krecv0 linux_choices step.
