(* I/O wrapper around the extracted receive-path model of C09 (Conn/Recv.v). No logic of its own
   beyond parsing, printing and choosing the kernel's answers by the model's own [linux_choices].
   stdin lines (same as harness/src/bin/c09.rs):
     run <streamhex> <n0.n1...> <events>      events: w<len> | w<len>f<i> | g | t | r
        -> one token per client op: M<serial>;<bodyhex>~<fd labels> | T | K | E<kind> ;
           g t r as in the harness; T = get_next_message(Duration 5 s), i = Infinite.
           a token is prefixed with ^ when a `t` (1 ms) op finds a whole message that still has to be read from
           the socket (the caller turns it into `T`), and with ! when a `T`/`i` op does not find a whole message
           (the caller turns it into `g`); likewise R/j (read_once with 5 s / Infinite) -> r. z/Z = get_next_message
           with Duration(0)/(1 ns): the model's KTimeUp choice; % marks one that met a partly filled buffer.
           Outcomes must not depend on timing
     kprobe <hex:nfds;...> <req.req...>       -> <bytes>:<nfds> | A  per request (Linux choice) *)
open Gen_model

let rec pos_of_int n = if n = 1 then XH else if n land 1 = 0 then XO (pos_of_int (n lsr 1)) else XI (pos_of_int (n lsr 1))
let n_of_int n = if n = 0 then N0 else Npos (pos_of_int n)
let rec int_of_pos = function XH -> 1 | XO p -> 2 * int_of_pos p | XI p -> 2 * int_of_pos p + 1
let int_of_n = function N0 -> 0 | Npos p -> int_of_pos p
let rec nat_of_int n = if n = 0 then O else S (nat_of_int (n - 1))

let hex_of_list l =
  if l = [] then "-" else begin
    let b = Buffer.create 1024 in
    List.iter (fun n -> Buffer.add_string b (Printf.sprintf "%02x" (int_of_n n))) l; Buffer.contents b end
let byte_table = Array.init 256 n_of_int
let hexval c = match c with '0'..'9' -> Char.code c - 48 | 'a'..'f' -> Char.code c - 87 | _ -> Char.code c - 55
let list_of_hex s =
  if s = "-" then [] else begin
    let acc = ref [] in
    for i = String.length s / 2 - 1 downto 0 do
      acc := byte_table.(16 * hexval s.[2 * i] + hexval s.[2 * i + 1]) :: !acc
    done; !acc end

(* the header-field array is kept as raw bytes: its decoding is not C09's subject *)
let dec _ b = Some b

let label fd = let v = int_of_n fd in Printf.sprintf "%d.%d" (v / 1000) (v mod 1000)
let fds_of_msg nfds i = List.init (List.nth nfds i) (fun j -> n_of_int (i * 1000 + j))

let err_name = function
  | ENotEnoughBytes -> "ENotEnoughBytes" | ETimedOut -> "T" | EConnectionClosed -> "EConnectionClosed"
  | EOther -> "EOther" | EBlocked -> "EBlocked"

let show_obs = function
  | OMsg m -> Printf.sprintf "M%d;%s~%s" (int_of_n m.m_hdr.h_serial) (hex_of_list m.m_body)
                (String.concat "+" (List.map label m.m_fds))
  | ODone -> "K"
  | OErr e -> err_name e

let rec sub l pos len = match l with
  | [] -> []
  | x :: tl -> if pos > 0 then sub tl (pos - 1) len else if len > 0 then x :: sub tl 0 (len - 1) else []

let run stream nfds events =
  let stream = Array.of_list stream in
  let pos = ref 0 in
  let st = ref rstate0 and q = ref [] in
  let out = ref [] in
  List.iter (fun ev ->
    if ev <> "" then
    match ev.[0] with
    | 'w' ->
        let body = String.sub ev 1 (String.length ev - 1) in
        let (len, fi) = match String.index_opt body 'f' with
          | Some k -> (int_of_string (String.sub body 0 k), Some (int_of_string (String.sub body (k + 1) (String.length body - k - 1))))
          | None -> (int_of_string body, None) in
        let bytes = Array.to_list (Array.sub stream !pos len) in
        pos := !pos + len;
        let fds = match fi with Some i -> fds_of_msg nfds i | None -> [] in
        q := kwrite !q bytes fds
    | 'g' | 't' | 'T' | 'i' | 'r' | 'z' | 'Z' | 'R' | 'j' | 'q' ->
        let fuel = nat_of_int (int_of_n (kavail !q) + 3) in
        let cs = linux_choices fuel !st !q in
        let nonempty = !q <> [] in
        let partial = int_of_n (!st).filled > 0 in
        let e = match ev.[0] with
          | 'g' -> GetNext (Nonblock, cs) | 't' | 'T' | 'i' -> GetNext (Timed, cs)
          (* Duration(0) / Duration(1 ns): the clock check of the first loop iteration fails *)
          | 'z' | 'Z' -> GetNext (Timed, [KTimeUp])
          | 'r' -> ReadOnce (Nonblock, cs)
          | _ -> ReadOnce (Timed, cs) in
        let ((st', q'), os) = step dec e !st !q in
        st := st'; q := q';
        let is_msg = List.exists (function OMsg _ -> true | _ -> false) os in
        (* a short time-out may only run where the bytes for a whole message are NOT there (the result is a
           time-out whatever the timing); a long one / Infinite only where they are (the result is the message) *)
        let mark = match ev.[0] with
          | 't' -> if is_msg && nonempty then "^" else ""
          | 'T' | 'i' -> if is_msg then "" else "!"
          (* read_once with a real deadline / none: only where it returns at once *)
          | 'R' | 'j' -> if List.exists (function ODone -> true | _ -> false) os then "" else "!"
          (* an expired deadline met a partly filled buffer: the time-up branch with something to lose *)
          | 'z' | 'Z' -> if partial && not is_msg then "%" else ""
          | _ -> "" in
        List.iter (fun o -> out := (mark ^ show_obs o) :: !out) os
    | _ -> out := "?" :: !out) events;
  if !out = [] then "-" else String.concat "," (List.rev !out)

let kprobe segs reqs =
  let q = List.fold_left (fun q s ->
    match String.split_on_char ':' s with
    | [h; n] -> kwrite q (list_of_hex h) (List.init (int_of_string n) (fun j -> n_of_int j))
    | _ -> q) [] segs in
  let q = ref q in
  String.concat "," (List.map (fun r ->
    if !q = [] then "A"
    else if r = 0 then (let (fds, q') = krecv0 !q in q := q'; Printf.sprintf "0:%d" (List.length fds))
    else begin
      let lim = int_of_n (klimit !q) in
      let k = if r < lim then r else lim in
      let ((d, f), q') = krecv !q (n_of_int k) in
      q := q'; Printf.sprintf "%d:%d" (List.length d) (List.length f)
    end) reqs)

let () =
  try
    while true do
      let line = input_line stdin in
      (match String.split_on_char ' ' line with
       | "run" :: s :: n :: rest ->
           let nfds = if n = "-" then [] else List.map int_of_string (String.split_on_char '.' n) in
           let events = match rest with [] -> [] | e :: _ -> String.split_on_char ',' e in
           print_endline (run (list_of_hex s) nfds events)
       | ["kprobe"; segs; reqs] ->
           print_endline (kprobe (String.split_on_char ';' segs) (List.map int_of_string (String.split_on_char '.' reqs)))
       | _ -> print_endline "?");
      flush stdout
    done
  with End_of_file -> ()
