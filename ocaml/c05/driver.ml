(* I/O wrapper around the extracted models and specification of C05/C06 (coq/Msg/Ops.v). Same line
   protocol as harness/src/bin/c05.rs (see there); differences:
     m <mode> ... <body>   body is always  B:<bodyhex>:<sighex>:<nfds> [L:<live>]  (what the harness reported for the message); mode b =
                       the message is built by the models of the builders (build_call / build_signal via op_build)
       -> H:<hex|err> S:<hex> D:<decoded>      H = model of marshal, S = the specification's header
     s <name> <args>   -> M:<message as the harness prints it> B:<body>:<sig>:<nfds> | M:PANIC   (constructor models of
                       Msg/StdMsgs.v incl. the pushed body; PANIC = a pushed string argument contains NUL, known finding D24)
     d <hex> <nfds>    -> D:<decoded>
     n <hex>           -> N:<n|err>
     f                 -> same line as the harness
     e <bo> <typ> <flags> <blen> <serial> <nfields> { <code> <value tokens of a variant: v <sig> ...> }
       -> E:<hex of the header up to the end of the field array> V:<0|1>   specification only *)
open Gen_model

let rec pos_of_int n = if n = 1 then XH else if n land 1 = 0 then XO (pos_of_int (n lsr 1)) else XI (pos_of_int (n lsr 1))
let n_of_int n = if n = 0 then N0 else Npos (pos_of_int n)
let n_of_string s =
  let ten = n_of_int 10 in
  let acc = ref N0 in
  String.iter (fun ch -> acc := N.add (N.mul !acc ten) (n_of_int (Char.code ch - 48))) s;
  !acc
let rec int_of_pos = function XH -> 1 | XO p -> 2 * int_of_pos p | XI p -> 2 * int_of_pos p + 1
let int_of_n = function N0 -> 0 | Npos p -> int_of_pos p
let string_of_n n = string_of_int (int_of_n n)           (* all printed numbers are below 2^62 *)

let hex_of_list l =
  if l = [] then "-" else begin
    let b = Buffer.create (2 * List.length l) in
    List.iter (fun n -> Buffer.add_string b (Printf.sprintf "%02x" (int_of_n n))) l;
    Buffer.contents b
  end
let list_of_hex s = if s = "-" then [] else List.init (String.length s / 2) (fun i -> n_of_int (int_of_string ("0x" ^ String.sub s (2 * i) 2)))
let list_of_str s = List.init (String.length s) (fun i -> n_of_int (Char.code s.[i]))
let str_of_list l = String.concat "" (List.map (fun n -> String.make 1 (Char.chr (int_of_n n))) l)

exception Bad of string
let one_type (s : string) : ty =
  match parse_description (list_of_str s) with Ok [t] -> t | _ -> raise (Bad ("sig " ^ s))
let base_of_type = function TBase b -> b | _ -> raise (Bad "base expected")

(* value tokens -> val (same syntax as ocaml/wire/driver.ml) *)
let parse_val (toks : string array) (pos : int ref) : val0 =
  let next () = let t = toks.(!pos) in incr pos; t in
  let rec go () : val0 =
    let tag = next () in
    match tag with
    | "a" -> let t = one_type (next ()) in let n = int_of_string (next ()) in
             let vs = List.init n (fun _ -> ()) |> List.map (fun () -> go ()) in VArray (t, vs)
    | "r" -> let n = int_of_string (next ()) in
             let vs = List.init n (fun _ -> ()) |> List.map (fun () -> go ()) in VStruct vs
    | "e" -> let k = base_of_type (one_type (next ())) in let vt = one_type (next ()) in
             let n = int_of_string (next ()) in
             let kvs = List.init n (fun _ -> ()) |> List.map (fun () -> let a = go () in let b = go () in (a, b)) in
             VDict (k, vt, kvs)
    | "v" -> let t = one_type (next ()) in let x = go () in VVariant (t, x)
    | "s" | "o" | "g" -> VText (base_of_type (one_type tag), list_of_hex (next ()))
    | _ -> VBase (base_of_type (one_type tag), n_of_string (next ()))
  in
  go ()

let ostr = function "-" -> None | "e" -> Some [] | h -> Some (list_of_hex h)
let shex = function None -> "-" | Some [] -> "e" | Some l -> hex_of_list l
let onum = function "-" -> None | s -> Some (n_of_string s)
let snum = function None -> "-" | Some n -> string_of_n n
let typ_of = function "1" -> MCall | "2" -> MReply | "3" -> MError | "4" -> MSignal | _ -> MInvalid
let typ_no = function MCall -> 1 | MReply -> 2 | MError -> 3 | MSignal -> 4 | MInvalid -> 0

let decoded (r : (hdr * n) outcome) (m : dmsg outcome) : string =
  match r with
  | Ok (h, used) ->
      Printf.sprintf "ok be:%d t:%s f:%s bl:%s ser:%s used:%s rs:%s i:%s d:%s sn:%s m:%s p:%s e:%s g:%s fd:%s dser:%s N:%s"
        (if h.h_be then 1 else 0) (string_of_n h.h_typ) (string_of_n h.h_flags) (string_of_n h.h_body_len)
        (string_of_n h.h_serial) (string_of_n used) (snum h.h_reply_serial) (shex h.h_interface) (shex h.h_destination)
        (shex h.h_sender) (shex h.h_member) (shex h.h_object) (shex h.h_error_name) (shex h.h_signature)
        (snum h.h_unix_fds) (string_of_n h.h_serial)
        (match m with
         | Ok d -> Printf.sprintf "ok:%s:%s:%s:%s:%s" (hex_of_list d.dm_body) (hex_of_list d.dm_sig) (string_of_n d.dm_nfds)
                     (string_of_n d.dm_hdr.h_typ) (string_of_n d.dm_hdr.h_flags)
         | Err -> "err" | Panic -> "panic" | UB -> "ub" | OutOfFuel -> "fuel")
  | Err -> "err"
  | Panic -> "panic" | UB -> "ub" | OutOfFuel -> "fuel"

let msg_args (m : msg) : string =
  String.concat "," [ (if m.m_be then "B" else "l"); string_of_int (typ_no m.m_typ); string_of_n m.m_flags;
                      snum m.m_reply_serial; shex m.m_interface; shex m.m_destination; shex m.m_sender;
                      shex m.m_member; shex m.m_object; shex m.m_error_name ]

let eval (line : string) : string =
  let toks = Array.of_list (List.filter (fun s -> s <> "") (String.split_on_char ' ' line)) in
  let pos = ref 0 in
  let next () = let t = toks.(!pos) in incr pos; t in
  let op = next () in
  match op with
  | "m" ->
      let _mode = next () in
      let be = (next () = "B") in
      let typ = typ_of (next ()) in
      let flags = n_of_string (next ()) in
      let serial = n_of_string (next ()) in
      let rs = onum (next ()) in
      let iface = ostr (next ()) in let dest = ostr (next ()) in let sender = ostr (next ()) in
      let member = ostr (next ()) in let path = ostr (next ()) in let err = ostr (next ()) in
      let body = next () in
      let (bb, sg, nf) = (match String.split_on_char ':' body with
        | ["B"; b; s; n] -> (list_of_hex b, list_of_hex s, n_of_string n)
        | _ -> raise (Bad "body")) in
      let live = if !pos < Array.length toks && String.length toks.(!pos) > 2 && String.sub toks.(!pos) 0 2 = "L:"
                 then n_of_string (let t = next () in String.sub t 2 (String.length t - 2)) else nf in
      let m = op_build (_mode = "b") be typ flags rs iface dest sender member path err bb sg nf live in
      let (r, spec) = op_marshal m serial in
      (match r with
       | Ok hb ->
           let (dh, dm) = op_decode (hb @ bb) nf in
           Printf.sprintf "H:%s S:%s D:%s" (hex_of_list hb) (hex_of_list spec) (decoded dh dm)
       | Err -> Printf.sprintf "H:err S:%s D:-" (hex_of_list spec)
       | Panic -> "H:panic" | UB -> "H:ub" | OutOfFuel -> "H:fuel")
  | "s" ->
      let name = next () in
      let _serial = next () in
      let arg () = list_of_hex (next ()) in
      let call () =
        let i = ostr (next ()) in let m = ostr (next ()) in let o = ostr (next ()) in
        let sender = ostr (next ()) in
        let ser = (match next () with "-" | "0" -> None | s -> Some (n_of_string s)) in
        { c_interface = i; c_member = m; c_object = o; c_sender = sender; c_serial = ser } in
      let r = (match name with
        | "hello" -> std_hello
        | "ping" -> std_ping_msg (Some (arg ()))
        | "ping_bus" -> std_ping_msg None
        | "list_names" -> std_list_names
        | "request_name" -> let a = arg () in std_request_name a (n_of_string (next ()))
        | "release_name" -> std_release_name (arg ())
        | "add_match" -> std_add_match (arg ())
        | "remove_match" -> std_remove_match (arg ())
        | "unknown_method" -> std_unknown_method_msg (call ())
        | "invalid_args" -> let c = call () in std_invalid_args_msg c (ostr (next ()))
        | "make_response" -> std_make_response (call ())
        | "make_error_response" -> let c = call () in let nm = arg () in std_make_error_response c nm (ostr (next ()))
        | _ -> raise (Bad "constructor")) in
      (match r with
       | Ok m -> Printf.sprintf "M:%s B:%s:%s:%s" (msg_args m) (hex_of_list m.m_body) (hex_of_list m.m_sig) (string_of_n m.m_nfds)
       | Panic -> "M:PANIC"
       | Err -> "M:err" | UB -> "M:ub" | OutOfFuel -> "M:fuel")
  | "d" ->
      let bs = list_of_hex (next ()) in
      let nf = if !pos < Array.length toks then n_of_string (next ()) else N0 in
      let (dh, dm) = op_decode bs nf in
      "D:" ^ decoded dh dm
  | "n" ->
      (match op_needed (list_of_hex (next ())) with
       | Ok n -> "N:" ^ string_of_n n | Err -> "N:err" | Panic -> "N:panic" | UB -> "N:ub" | OutOfFuel -> "N:fuel")
  | "f" ->
      let b = Buffer.create 8192 in
      Buffer.add_string b "F";
      List.iter (fun (f, raw) ->
        Buffer.add_string b (Printf.sprintf " %d " raw);
        for x = 0 to 255 do
          let (((is, s), u), t) = op_flags f (n_of_int x) in
          Buffer.add_string b (Printf.sprintf "%d%02x%02x%02x" (if is then 1 else 0) (int_of_n s) (int_of_n u) (int_of_n t))
        done) [ (NoReplyExpected, 1); (NoAutoStart, 2); (AllowInteractiveAuthorization, 4) ];
      Buffer.contents b
  | "e" ->
      let be = (next () = "B") in
      let typ = n_of_string (next ()) in
      let flags = n_of_string (next ()) in
      let blen = n_of_string (next ()) in
      let serial = n_of_string (next ()) in
      let nf = int_of_string (next ()) in
      let fs = List.init nf (fun _ -> ()) |> List.map (fun () ->
        let code = n_of_string (next ()) in
        match parse_val toks pos with
        | VVariant (t, x) -> { hf_code = code; hf_ty = t; hf_val = x }
        | _ -> raise (Bad "variant expected")) in
      let (bytes, ok) = op_spec_header be typ flags blen serial fs in
      Printf.sprintf "E:%s V:%d" (hex_of_list bytes) (if ok then 1 else 0)
  | _ -> "?"

let () =
  try
    while true do
      let line = input_line stdin in
      (try print_endline (eval line) with
       | Bad m -> print_endline ("BAD " ^ m)
       | Invalid_argument m -> print_endline ("BAD " ^ m)
       | Failure m -> print_endline ("BAD " ^ m));
      flush stdout
    done
  with End_of_file -> ()
