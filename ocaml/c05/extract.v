From Coq Require Import Extraction ExtrOcamlBasic.
From RB Require Import Base.Prelude Sig.Types Sig.Parser Wire.Value Msg.Flags Msg.Header Msg.HeaderSpec Msg.MsgSpec Msg.HeaderDecode Msg.StdMsgs Msg.Ops.
Extraction Language OCaml.
Set Extraction Output Directory ".".
Extraction "gen_model.ml" parse_description to_str op_marshal op_decode op_needed op_spec_header op_flags
  op_build std_hello std_list_names std_request_name std_release_name std_add_match std_remove_match std_ping_msg
  std_make_response std_make_error_response std_unknown_method_msg std_invalid_args_msg.
