From Coq Require Import Extraction ExtrOcamlBasic.
From RB Require Import Base.Prelude Sig.Types Sig.Parser Wire.Value Msg.Flags Msg.Header Msg.HeaderSpec Msg.MsgSpec Msg.HeaderDecode Msg.Ops.
Extraction Language OCaml.
Set Extraction Output Directory ".".
Extraction "gen_model.ml" parse_description to_str op_marshal op_decode op_needed op_spec_header op_flags
  make_standard_msg std_ping std_unknown_method std_invalid_args make_response make_error_response
  s_Hello s_ListNames s_RequestName s_ReleaseName s_AddMatch s_RemoveMatch build_call build_signal with_body.
