(* I/O wrapper around the extracted wire model (coq/Wire/Ops.v). Same line protocol as
   harness/src/bin/wire.rs; prints the fields the harness prints plus the specification's verdict. *)
open Gen_model

let rec pos_of_int n = if n = 1 then XH else if n land 1 = 0 then XO (pos_of_int (n lsr 1)) else XI (pos_of_int (n lsr 1))
let n_of_int n = if n = 0 then N0 else Npos (pos_of_int n)
(* decimal string -> N, arbitrary size (values are up to 2^64-1, beyond OCaml's 63-bit ints) *)
let n_of_string s =
  let ten = n_of_int 10 in
  let acc = ref N0 in
  String.iter (fun ch -> acc := N.add (N.mul !acc ten) (n_of_int (Char.code ch - 48))) s;
  !acc
let rec string_of_n_rec n acc =
  match n with
  | N0 -> if acc = "" then "0" else acc
  | _ -> let (q, r) = N.div_eucl n (n_of_int 10) in
         let d = (match r with N0 -> 0 | Npos p -> let rec ip = function XH -> 1 | XO p -> 2 * ip p | XI p -> 2 * ip p + 1 in ip p) in
         string_of_n_rec q (String.make 1 (Char.chr (48 + d)) ^ acc)
let string_of_n n = string_of_n_rec n ""
let rec int_of_pos = function XH -> 1 | XO p -> 2 * int_of_pos p | XI p -> 2 * int_of_pos p + 1
let int_of_n = function N0 -> 0 | Npos p -> int_of_pos p
let rec nat_of_int n = if n = 0 then O else S (nat_of_int (n - 1))

let hex_of_list l = if l = [] then "-" else String.concat "" (List.map (fun n -> Printf.sprintf "%02x" (int_of_n n)) l)
let list_of_hex s = if s = "-" then [] else List.init (String.length s / 2) (fun i -> n_of_int (int_of_string ("0x" ^ String.sub s (2 * i) 2)))
let list_of_str s = List.init (String.length s) (fun i -> n_of_int (Char.code s.[i]))
let str_of_list l = String.concat "" (List.map (fun n -> String.make 1 (Char.chr (int_of_n n))) l)

exception Bad of string
let one_type (s : string) : ty =
  match parse_description (list_of_str s) with Ok [t] -> t | _ -> raise (Bad ("sig " ^ s))
let base_of_type = function TBase b -> b | _ -> raise (Bad "base expected")

(* extended signature (variants as v[...]) -> ety. The flavour markers of gen/catalogue.py select another Rust type for
   the same D-Bus type and do not exist in the model: D S O G H V are d s o g h v, a marker C R N B after 'a' is skipped. *)
let parse_ety (s : string) : ety =
  let s = String.map (function 'D' -> 'd' | 'S' -> 's' | 'O' -> 'o' | 'G' -> 'g' | 'H' -> 'h' | 'V' -> 'v' | c -> c) s in
  let n = String.length s in
  let pos = ref 0 in
  let rec go () : ety =
    let c = s.[!pos] in
    incr pos;
    match c with
    | 'a' ->
        if !pos < n && String.contains "CRNB" s.[!pos] then incr pos;
        if !pos < n && s.[!pos] = '{' then begin
          incr pos;
          let k = base_of_type (one_type (String.make 1 s.[!pos])) in
          incr pos;
          let v = go () in
          if s.[!pos] <> '}' then raise (Bad "}");
          incr pos;
          EDict (k, v)
        end else EArray (go ())
    | '(' ->
        let fields = ref [] in
        while s.[!pos] <> ')' do fields := go () :: !fields done;
        incr pos;
        EStruct (List.rev !fields)
    | 'v' ->
        if s.[!pos] <> '[' then raise (Bad "[");
        incr pos;
        let e = go () in
        if s.[!pos] <> ']' then raise (Bad "]");
        incr pos;
        EVar e
    | c -> EBase (base_of_type (one_type (String.make 1 c)))
  in
  let e = go () in
  if !pos <> n then raise (Bad "trailing") else e

(* value tokens -> val *)
let parse_val (toks : string array) (pos : int ref) : val0 =
  let next () = let t = toks.(!pos) in incr pos; t in
  let rec go () : val0 =
    let tag = next () in
    match tag with
    | "a" -> let t = one_type (next ()) in let n = int_of_string (next ()) in
             let vs = List.init n (fun _ -> ()) |> List.map (fun () -> go ()) in VArray (t, vs)
    | "r" -> let n = int_of_string (next ()) in
             let vs = List.init n (fun _ -> ()) |> List.map (fun () -> go ()) in VStruct vs
    | "e" -> let k = base_of_type (one_type (next ())) in let vt = one_type (next ()) in
             let n = int_of_string (next ()) in
             let kvs = List.init n (fun _ -> ()) |> List.map (fun () -> let a = go () in let b = go () in (a, b)) in
             VDict (k, vt, kvs)
    | "v" -> (* a typed variant can hold a Rust type whose signature is not a valid one (256 characters, 33 nested arrays):
                the declared type is then built without the validity check of parse_description *)
             let sg = next () in
             let t = (try one_type sg with Bad _ -> erase (parse_ety sg)) in
             let x = go () in VVariant (t, x)
    | "s" | "o" | "g" -> VText (base_of_type (one_type tag), list_of_hex (next ()))
    | _ -> VBase (base_of_type (one_type tag), n_of_string (next ()))
  in
  go ()

(* val -> tokens *)
let rec tok_of_val (v : val0) : string list =
  match v with
  | VBase (b, n) -> [str_of_list (to_str (TBase b)); string_of_n n]
  | VText (b, s) -> [str_of_list (to_str (TBase b)); hex_of_list s]
  | VArray (t, vs) -> ["a"; str_of_list (to_str t); string_of_int (List.length vs)] @ List.concat_map tok_of_val vs
  | VStruct vs -> ["r"; string_of_int (List.length vs)] @ List.concat_map tok_of_val vs
  | VDict (k, vt, kvs) ->
      (* wire order; the check canonicalises (sorts, last duplicate key wins) *)
      let entries = List.map (fun (a, b) -> tok_of_val a @ tok_of_val b) kvs in
      ["e"; str_of_list (to_str (TBase k)); str_of_list (to_str vt); string_of_int (List.length kvs)] @ List.concat entries
  | VVariant (t, x) -> ["v"; str_of_list (to_str t)] @ tok_of_val x

let status = function Ok _ -> "ok" | Err -> "err" | Panic -> "panic" | UB -> "ub" | OutOfFuel -> "fuel"
let be_of = function "be" -> true | "le" -> false | s -> raise (Bad ("bo " ^ s))
let b2s b = if b then "true" else "false"

(* C15: the body / parser the B* and P* operations work on *)
let cur_body = ref (new_body false)
let cur_parser = ref (new_parser (new_body false))
let body_state () =
  Printf.sprintf "sig=%s buf=%s nfds=%d" (hex_of_list !cur_body.bsig) (hex_of_list !cur_body.bbuf) (int_of_n !cur_body.bfds)
let parser_state () =
  let nx = match get_next_sig !cur_parser with Ok (Some s) -> hex_of_list s | Ok None -> "none" | o -> status o in
  let left = match sigs_left !cur_parser with Ok n -> string_of_n n | o -> status o in
  Printf.sprintf "next=%s left=%s" nx left
let gres_str = function
  | GVal v -> "ok " ^ String.concat " " (tok_of_val v)
  | GWrongSig -> "wrongsig" | GEnd -> "end" | GErr -> "err"

let eval (line : string) : string =
  let toks = Array.of_list (List.filter (fun s -> s <> "") (String.split_on_char ' ' line)) in
  let pos = ref 0 in
  let next () = let t = toks.(!pos) in incr pos; t in
  let op = next () in
  (* "RT@112", "BV@recv": where the harness puts the body it reads; the model has no offsets *)
  let op = (match String.index_opt op '@' with Some i -> String.sub op 0 i | None -> op) in
  match op with
  | "MT" | "MA" | "MP" | "MPR" | "MPX" | "MV" | "MVR" | "MVX" | "MPC" | "MPCR" | "MPCX" ->
      (* MA: message_builder::marshal_as_variant = the typed marshaller on the variant (the harness prints the value wrapped);
         MPC: marshal_container_param = the dynamic marshaller's entry on a container *)
      let typed = (op = "MT" || op = "MA") in
      (* MV: impl Marshal for params::Variant = the dynamic marshaller's entry on the variant (marshal_param_top) *)
      let _ty = if typed then next () else "" in
      let be = be_of (next ()) in
      let prefix = int_of_string (next ()) in
      let v = parse_val toks pos in
      let r = op_marshal typed be (nat_of_int prefix) v in
      Printf.sprintf "%s buf=%s nfds=%d spec=%s encodable=%s" (if r.mt_ok then "ok" else "err") (hex_of_list r.mt_buf)
        (int_of_n r.mt_nfds) (hex_of_list r.mt_spec) (b2s r.mt_encodable)
  | "RT" | "RP" | "RPR" | "RPX" | "RV" | "RVR" | "RVX" ->
      (* RV: params::Variant written and read through the typed API = the dynamic marshaller / decoder on the variant *)
      let typed = (op = "RT") in
      let e = if typed then parse_ety (next ()) else EBase BByte in
      let be = be_of (next ()) in
      let prefix = int_of_string (next ()) in
      let v = parse_val toks pos in
      (* for the dynamic API the expected type is the value's own type; variants decode dynamically *)
      let e = if typed then e else
          let rec ety_of_ty = function
            | TBase b -> EBase b | TArray t -> EArray (ety_of_ty t) | TStruct ts -> EStruct (List.map ety_of_ty ts)
            | TDict (k, t) -> EDict (k, ety_of_ty t) | TVariant -> EVar (EBase BByte) in
          ety_of_ty (ty_of v) in
      let r = op_roundtrip typed be (nat_of_int prefix) e v in
      if not r.rt_pushed then "pusherr" else
      (match r.rt_res with
       | Ok (x, _) -> Printf.sprintf "ok validate=%s trailer=%s val=%s" (b2s r.rt_valid) (if r.rt_trailer then "ok" else "bad")
                        (String.concat " " (tok_of_val x))
       | o -> Printf.sprintf "%s validate=%s" (status o) (b2s r.rt_valid))
  | "UT" ->
      let e = parse_ety (next ()) in
      let be = be_of (next ()) in
      let offset = n_of_string (next ()) in
      let nfds = n_of_string (next ()) in
      let _phase = next () in
      let buf = list_of_hex (next ()) in
      (match op_unmarshal_t be offset nfds e buf with
       | Ok (x, n) -> Printf.sprintf "ok %s %s" (string_of_n n) (String.concat " " (tok_of_val x))
       | o -> status o)
  | "BNEW" -> cur_body := new_body (be_of (next ())); "ok " ^ body_state ()
  | "BRESET" | "BPUSH" | "BPUSHV" | "BPUSHN" | "BOLD" | "BOLDS" ->
      let bop =
        match op with
        | "BRESET" -> Reset
        | "BPUSH" -> let t = erase (parse_ety (next ())) in Push (t, parse_val toks pos)
        | "BPUSHV" -> let t = erase (parse_ety (next ())) in PushVariant (t, parse_val toks pos)
        | "BPUSHN" -> let t = erase (parse_ety (next ())) in
                      let k = int_of_string (next ()) in
                      let items = List.init k (fun _ -> ()) |> List.map (fun () -> (t, parse_val toks pos)) in
                      if k >= 2 && k <= 5 then PushN items else PushParams items
        | "BOLD" -> PushOld (parse_val toks pos)
        | _ -> let k = int_of_string (next ()) in
               PushOlds (List.init k (fun _ -> ()) |> List.map (fun () -> parse_val toks pos)) in
      let (b', ok) = step_body !cur_body bop in
      cur_body := b';
      (if ok then "ok " else "err ") ^ body_state ()
  | "PNEW" -> cur_parser := new_parser !cur_body; "ok " ^ parser_state ()
  | "PGET" ->
      let e = parse_ety (next ()) in
      (match get !cur_parser e with
       | Ok (p', r) -> cur_parser := p'; gres_str r ^ " " ^ parser_state ()
       | o -> status o)
  | "PGETN" ->
      let e = parse_ety (next ()) in
      let k = int_of_string (next ()) in
      (match get_n !cur_parser (List.init k (fun _ -> e)) with
       | Ok (p', Some vs) -> cur_parser := p'; "ok " ^ String.concat " " (List.concat_map tok_of_val vs) ^ " " ^ parser_state ()
       | Ok (p', None) -> cur_parser := p'; "fail " ^ parser_state ()
       | o -> status o)
  | "PGETP" ->
      (match get_param !cur_parser with
       | Ok (p', r) -> cur_parser := p'; gres_str r ^ " " ^ parser_state ()
       | o -> status o)
  | "SE" ->
      let be = be_of (next ()) in
      let p = n_of_string (next ()) in
      let v = parse_val toks pos in
      let (bytes, ok) = op_spec be p v in
      Printf.sprintf "spec=%s encodable=%s" (hex_of_list bytes) (b2s ok)
  | "BV" | "BA" ->
      (* whole-body decoders on (signature hex, body hex): MarshalledMessageBody::validate, MarshalledMessage::unmarshall_all *)
      let be = be_of (next ()) in
      let nfds = n_of_string (next ()) in
      let sg = list_of_hex (next ()) in
      let buf = list_of_hex (next ()) in
      if op = "BV" then (if op_body_validate be sg buf then "ok" else "err")
      else (match body_unmarshall_all be nfds sg buf with
            | Ok xs -> Printf.sprintf "ok %d %s" (List.length xs) (String.concat " " (List.concat_map tok_of_val xs))
            | o -> status o)
  | "VR" | "UP" ->
      let be = be_of (next ()) in
      let offset = n_of_string (next ()) in
      let nfds = if op = "UP" then n_of_string (next ()) else N0 in
      let sg = next () in
      let buf = list_of_hex (next ()) in
      (match parse_description (list_of_str sg) with
       | Ok tys ->
           if op = "VR" then
             (match op_validate be offset tys buf with Ok n -> "ok " ^ string_of_n n | o -> status o)
           else
             (match op_unmarshal_p be offset nfds tys buf with
              | Ok (xs, n) -> Printf.sprintf "ok %s %s" (string_of_n n) (String.concat " " (List.concat_map tok_of_val xs))
              | o -> status o)
       | _ -> "badsig")
  (* ---- BEGIN C15 block (owner of C15; uses only functions already extracted). PNEWX: parser over the current body's
     signature/descriptors with OTHER bytes; PCUR: both cursors; PGETM/BPUSHM: get / get2..5 and push_param / push_param2..5
     with a different type per slot ---- *)
  | "PNEWX" ->
      let buf = list_of_hex (next ()) in
      cur_parser := new_parser { !cur_body with bbuf = buf };
      "ok " ^ parser_state ()
  | "PCUR" -> Printf.sprintf "cur=%s,%s" (string_of_n !cur_parser.pbuf_idx) (string_of_n !cur_parser.psig_idx)
  | "PGETM" ->
      let k = int_of_string (next ()) in
      let es = List.init k (fun _ -> ()) |> List.map (fun () -> parse_ety (next ())) in
      if k = 1 then
        (match get !cur_parser (List.hd es) with
         | Ok (p', r) -> cur_parser := p'; gres_str r ^ " " ^ parser_state ()
         | o -> status o)
      else
        (match get_n !cur_parser es with
         | Ok (p', Some vs) -> cur_parser := p'; "ok " ^ String.concat " " (List.concat_map tok_of_val vs) ^ " " ^ parser_state ()
         | Ok (p', None) -> cur_parser := p'; "fail " ^ parser_state ()
         | o -> status o)
  (* BPUSHVI v[T] v T <val>: push_variant of the content of the harness's variant wrapper (T's own signature may be one a
     variant must not carry) *)
  | "BPUSHVI" ->
      let e = parse_ety (next ()) in
      (match e, parse_val toks pos with
       | EVar inner, VVariant (_, x) ->
           let (b', ok) = step_body !cur_body (PushVariant (erase inner, x)) in
           cur_body := b';
           (if ok then "ok " else "err ") ^ body_state ()
       | _ -> "?")
  | "BPUSHM" ->
      let k = int_of_string (next ()) in
      let items = List.init k (fun _ -> ()) |> List.map (fun () -> let t = erase (parse_ety (next ())) in (t, parse_val toks pos)) in
      let (b', ok) = step_body !cur_body (if k = 1 then Push (List.hd items) else PushN items) in
      cur_body := b';
      (if ok then "ok " else "err ") ^ body_state ()
  (* BOFF <n> / BRECV: the harness re-makes the same body at another buf_offset / through the receive path; the model's
     body has no offset (bbuf is what get_buf() returns), so nothing changes *)
  | "BOFF" | "BRECV" -> "ok " ^ body_state ()
  (* BBEYOND: from_parts with an offset at or beyond the end of the buffer: same signature and descriptors, no bytes *)
  | "BBEYOND" -> cur_body := { !cur_body with bbuf = [] }; "ok " ^ body_state ()
  (* BVALID: MarshalledMessageBody::validate (empty signature and no bytes: ok; else every type of the parsed signature in
     turn, all bytes used) *)
  | "BVALID" ->
      let b = !cur_body in
      let ok =
        if b.bsig = [] && b.bbuf = [] then true
        else (match parse_description b.bsig with
              | Ok tys -> (match op_validate b.bbe N0 tys b.bbuf with Ok n -> int_of_n n = List.length b.bbuf | _ -> false)
              | _ -> false) in
      "valid=" ^ b2s ok
  (* ---- END C15 block ---- *)
  | _ -> "?"

let () =
  try
    while true do
      let line = input_line stdin in
      (try print_endline (eval line) with Bad m -> print_endline ("BAD " ^ m) | Invalid_argument m -> print_endline ("BAD " ^ m))
    done
  with End_of_file -> ()
