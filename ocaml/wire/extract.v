From Coq Require Import Extraction ExtrOcamlBasic.
From RB Require Import Base.Prelude Sig.Types Sig.Parser Wire.Value Wire.Unmarshal Wire.Ops Wire.Body.
Extraction Language OCaml.
Set Extraction Output Directory ".".
Extraction "gen_model.ml" parse_description to_str erase op_marshal op_roundtrip op_unmarshal_t op_unmarshal_p op_validate op_spec ty_of new_body step_body new_parser get get_n get_param get_next_sig sigs_left body_unmarshall_all op_body_validate.
