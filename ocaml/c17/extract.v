From Coq Require Import Extraction ExtrOcamlBasic.
From RB Require Import Base.Prelude Conn.AddrBase Conn.Addr Conn.Auth.
Extraction Language OCaml.
Set Extraction Output Directory ".".
Extraction "gen_model.ml" get_session_bus_path parse_dbus_addr_str parse_pre utf8_valid get_uid_as_hex
  connect_to_bus sent received unread segments has_line_ending find_line_ending.
