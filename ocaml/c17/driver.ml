(* I/O wrapper around the extracted model of C17 (no logic of its own beyond parsing/printing).
   stdin lines:
     a <hex|-|none>          bus address from the environment: prints "<hex> T:<r> F:<r> Q:<hex|none>" where T/F is
                             get_session_bus_path with exists_ = const true / const false and Q the path whose
                             existence the parser asks for (none when it does not ask);
                             r = P:<hex> | A:<hex> | E | panic
     u <hex|->               utf8_valid: "1" | "0"
     h <uid> <0|1> <script>  handshake; script = steps separated by ';', first = greeting, each step
                             "k", "l" or "c" (keeps open / keeps open, lockstep / closes) followed by ",<chunk>"*;
                             chunk = "<hex>" | "<hh>*<n>" joined by '+', optionally "/<piece size>"
                             prints "<res> S:<hex sent> R:<hex received> U:<hex unread> L:<hex reply1>/<hex reply2>"
     x <uid>                 get_uid_as_hex: hex of the result or "panic" *)
open Gen_model

let rec pos_of_int n = if n = 1 then XH else if n land 1 = 0 then XO (pos_of_int (n lsr 1)) else XI (pos_of_int (n lsr 1))
let n_of_int n = if n = 0 then N0 else Npos (pos_of_int n)
let rec int_of_pos = function XH -> 1 | XO p -> 2 * int_of_pos p | XI p -> 2 * int_of_pos p + 1
let int_of_n = function N0 -> 0 | Npos p -> int_of_pos p

let hex_of_list l =
  if l = [] then "-" else String.concat "" (List.map (fun n -> Printf.sprintf "%02x" (int_of_n n)) l)
let list_of_hex s =
  if s = "-" then [] else
  List.init (String.length s / 2) (fun i -> n_of_int (int_of_string ("0x" ^ String.sub s (2 * i) 2)))

let addr_res = function
  | Ok (Path p) -> "P:" ^ hex_of_list p
  | Ok (Abstract k) -> "A:" ^ hex_of_list k
  | Err -> "E"
  | _ -> "panic"

(* chunk = segments joined by '+': "<hex>" or "<hh>*<n>" (a byte repeated n times); "<chunk>/<s>" delivers the
   chunk in pieces of s bytes *)
let bytes_of_seg seg =
  match String.index_opt seg '*' with
  | Some i -> let b = n_of_int (int_of_string ("0x" ^ String.sub seg 0 i)) in
              let n = int_of_string (String.sub seg (i + 1) (String.length seg - i - 1)) in
              List.init n (fun _ -> b)
  | None -> list_of_hex seg
let rec take n l = if n = 0 then [] else match l with [] -> [] | x :: r -> x :: take (n - 1) r
let rec drop n l = if n = 0 then l else match l with [] -> [] | _ :: r -> drop (n - 1) r
let rec split_every s l = if l = [] then [] else take s l :: split_every s (drop s l)
let chunks_of_token tok =
  let body, piece = match String.index_opt tok '/' with
    | Some i -> String.sub tok 0 i, Some (int_of_string (String.sub tok (i + 1) (String.length tok - i - 1)))
    | None -> tok, None in
  let bytes = List.concat (List.map bytes_of_seg (String.split_on_char '+' body)) in
  match piece with Some s -> split_every s bytes | None -> [bytes]
(* step tags: k keeps the socket open, c closes, l = k with every chunk delivered as its own read (the model
   always reads chunk by chunk) *)
let parse_step s =
  match String.split_on_char ',' s with
  | [] -> { chunks = []; closes = false }
  | tag :: cs -> { chunks = List.concat (List.map chunks_of_token cs); closes = (tag = "c") }

let res_name = function
  | COk -> "ok" | CAuthFailed -> "authfailed" | CFdFailed -> "fdfailed" | CErr -> "err"
  | CBlocked -> "blocked" | CPanic -> "panic" | CFuel -> "fuel"

let () =
  try
    while true do
      let line = input_line stdin in
      (match String.split_on_char ' ' line with
      | ["a"; h] ->
          let env = if h = "none" then None else Some (list_of_hex h) in
          let t = get_session_bus_path (fun _ -> true) env and f = get_session_bus_path (fun _ -> false) env in
          let q = match env with
            | Some b when utf8_valid b -> (match parse_pre b with PPath p -> hex_of_list p | _ -> "none")
            | _ -> "none" in
          Printf.printf "%s T:%s F:%s Q:%s\n" h (addr_res t) (addr_res f) q
      | ["u"; h] -> print_endline (if utf8_valid (list_of_hex h) then "1" else "0")
      | ["x"; uid] ->
          print_endline (match get_uid_as_hex (n_of_int (int_of_string uid)) with Ok l -> hex_of_list l | _ -> "panic")
      | ["h"; uid; fd; scr] ->
          let steps = List.map parse_step (String.split_on_char ';' scr) in
          let script = match steps with g :: r -> { greeting = g; replies = r } | [] -> { greeting = { chunks = []; closes = false }; replies = [] } in
          let (res, s) = connect_to_bus (n_of_int (int_of_string uid)) (fd = "1") script in
          let segs = segments s.log in
          let reply i = match List.nth_opt segs i with Some (_, r) -> hex_of_list r | None -> "none" in
          Printf.printf "%s S:%s R:%s U:%s L:%s/%s\n" (res_name res) (hex_of_list (sent s.log)) (hex_of_list (received s.log))
            (hex_of_list (unread s)) (reply 1) (reply 2)
      | _ -> print_endline "?");
      flush stdout
    done
  with End_of_file -> ()
