"""Cross-check of the extracted wire driver (ocaml/wire/driver.ml + extraction) against Coq's own evaluation.

The wire checks (C01-C04, C15, C16) run the model through the extracted OCaml driver.  That driver (token parser, printer,
extraction itself) is part of the trusted base.  This module removes most of that trust for a sample of every run: the
same input lines are turned - by an independent converter written here, not by the driver - into Gallina terms, evaluated
by `Eval vm_compute` on the compiled model (Wire/Ops.vo: the very definitions the theorems are about), and the result is
compared with what the driver printed.  A difference is a broken tie (the model as run is not the model as proved),
never a property verdict.

    cross(ctx, pairs, rng, n)     pairs: [(model input line, driver output line)]

Every value is flattened to a list of numbers by the Gallina function `flat` below and by `flat_tokens` here.
"""
import re

import vlib

BASE = {"y": "BByte", "n": "BInt16", "q": "BUint16", "i": "BInt32", "u": "BUint32", "h": "BUnixFd", "x": "BInt64",
        "t": "BUint64", "d": "BDouble", "s": "BString", "g": "BSignature", "o": "BObjectPath", "b": "BBoolean"}
MARK = {"D": "d", "S": "s", "O": "o", "G": "g", "H": "h", "V": "v"}

HEADER = r"""From RB Require Import Base.Prelude Sig.Types Sig.Parser Wire.Value Wire.Unmarshal Wire.Ops Wire.Body.
Open Scope N_scope.
Definition b2n (b : bool) : N := if b then 1 else 0.
Fixpoint flat (v : val) : list N :=
  match v with
  | VBase b n => [0; base_char b; n]
  | VText b s => [1; base_char b; len s] ++ s
  | VArray t vs => [2; len (to_str t)] ++ to_str t ++ [len vs] ++
      (fix go (l : list val) : list N := match l with [] => [] | x :: r => flat x ++ go r end) vs
  | VStruct vs => [3; len vs] ++
      (fix go (l : list val) : list N := match l with [] => [] | x :: r => flat x ++ go r end) vs
  | VDict k vt kvs => [4; base_char k; len (to_str vt)] ++ to_str vt ++ [len kvs] ++
      (fix go (l : list (val * val)) : list N := match l with [] => [] | (a, b) :: r => flat a ++ flat b ++ go r end) kvs
  | VVariant t x => [5; len (to_str t)] ++ to_str t ++ flat x
  end.
Definition code {A} (o : outcome A) : N := match o with Ok _ => 0 | Err => 1 | Panic => 2 | UB => 3 | OutOfFuel => 4 end.
Definition r_marshal (r : mt_result) : list N :=
  [b2n (mt_ok r); mt_nfds r; b2n (mt_encodable r); len (mt_buf r)] ++ mt_buf r ++ mt_spec r.
Definition r_val (o : outcome (val * N)) : list N := match o with Ok (x, n) => 0 :: n :: flat x | _ => [code o] end.
Definition r_vals (o : outcome (list val * N)) : list N :=
  match o with Ok (xs, n) => 0 :: n :: len xs :: flat_map flat xs | _ => [code o] end.
Definition r_n (o : outcome N) : list N := match o with Ok n => [0; n] | _ => [code o] end.
Definition r_all (o : outcome (list val)) : list N := match o with Ok xs => 0 :: len xs :: flat_map flat xs | _ => [code o] end.
Definition r_rt (r : rt_result) : list N :=
  if negb (rt_pushed r) then [9] else
  match rt_res r with
  | Ok (x, _) => [0; b2n (rt_valid r); b2n (rt_trailer r)] ++ flat x
  | o => [code o; b2n (rt_valid r)]
  end.
Definition ety_of_ty := fix go (t : ty) : ety :=
  match t with
  | TBase b => EBase b | TArray t => EArray (go t) | TStruct ts => EStruct (map go ts)
  | TDict k t => EDict k (go t) | TVariant => EVar (EBase BByte)
  end.
"""


class Unsupported(Exception):
    pass


def _norm(sig):
    return "".join(MARK.get(c, c) for c in sig)


def parse_sig(sig, ext):
    """signature (optionally with flavour markers and, when ext, variants as v[...]) -> list of trees
    ('b', ch) | ('a', t) | ('r', [t]) | ('e', kch, t) | ('v', inner or None)"""
    s = _norm(sig)
    pos = 0

    def go():
        nonlocal pos
        if pos >= len(s):
            raise Unsupported("sig " + sig)
        c = s[pos]
        pos += 1
        if c == "a":
            if pos < len(s) and s[pos] in "CRNB":
                pos += 1
            if pos < len(s) and s[pos] == "{":
                pos += 1
                k = s[pos]
                if k not in BASE:
                    raise Unsupported("sig " + sig)
                pos += 1
                v = go()
                if pos >= len(s) or s[pos] != "}":
                    raise Unsupported("sig " + sig)
                pos += 1
                return ("e", k, v)
            return ("a", go())
        if c == "(":
            fs = []
            while pos < len(s) and s[pos] != ")":
                fs.append(go())
            if pos >= len(s):
                raise Unsupported("sig " + sig)
            pos += 1
            return ("r", fs)
        if c == "v":
            if ext:
                if pos >= len(s) or s[pos] != "[":
                    raise Unsupported("sig " + sig)
                pos += 1
                e = go()
                if pos >= len(s) or s[pos] != "]":
                    raise Unsupported("sig " + sig)
                pos += 1
                return ("v", e)
            return ("v", None)
        if c in BASE:
            return ("b", c)
        raise Unsupported("sig " + sig)

    out = []
    while pos < len(s):
        out.append(go())
    return out


def ty_term(t):
    k = t[0]
    if k == "b":
        return "(TBase %s)" % BASE[t[1]]
    if k == "a":
        return "(TArray %s)" % ty_term(t[1])
    if k == "r":
        return "(TStruct [%s])" % "; ".join(ty_term(x) for x in t[1])
    if k == "e":
        return "(TDict %s %s)" % (BASE[t[1]], ty_term(t[2]))
    return "TVariant"


def ety_term(t):
    k = t[0]
    if k == "b":
        return "(EBase %s)" % BASE[t[1]]
    if k == "a":
        return "(EArray %s)" % ety_term(t[1])
    if k == "r":
        return "(EStruct [%s])" % "; ".join(ety_term(x) for x in t[1])
    if k == "e":
        return "(EDict %s %s)" % (BASE[t[1]], ety_term(t[2]))
    if t[1] is None:
        raise Unsupported("plain variant in an ety")
    return "(EVar %s)" % ety_term(t[1])


def one_ty(sig):
    """the driver: one_type sg, else erase (parse_ety sg)"""
    try:
        ts = parse_sig(sig, False)
    except Unsupported:
        ts = parse_sig(sig, True)
    if len(ts) != 1:
        raise Unsupported("not one type: " + sig)
    return ts[0]


def to_str(t):
    k = t[0]
    if k == "b":
        return t[1]
    if k == "a":
        return "a" + to_str(t[1])
    if k == "r":
        return "(" + "".join(to_str(x) for x in t[1]) + ")"
    if k == "e":
        return "a{" + t[1] + to_str(t[2]) + "}"
    return "v"


def hexlist(h):
    if h == "-":
        return []
    return list(bytes.fromhex(h))


def nlist(xs):
    return "[" + "; ".join(str(x) for x in xs) + "]"


def val_term(toks, pos):
    """value tokens -> (Gallina term, flat number list, next position)"""
    tag = toks[pos]
    if tag == "a":
        t = one_ty(toks[pos + 1])
        n = int(toks[pos + 2])
        pos += 3
        terms, fl = [], []
        for _ in range(n):
            a, f, pos = val_term(toks, pos)
            terms.append(a)
            fl += f
        s = to_str(t).encode()
        return "(VArray %s [%s])" % (ty_term(t), "; ".join(terms)), [2, len(s)] + list(s) + [n] + fl, pos
    if tag == "r":
        n = int(toks[pos + 1])
        pos += 2
        terms, fl = [], []
        for _ in range(n):
            a, f, pos = val_term(toks, pos)
            terms.append(a)
            fl += f
        return "(VStruct [%s])" % "; ".join(terms), [3, n] + fl, pos
    if tag == "e":
        k = toks[pos + 1]
        if k not in BASE:
            raise Unsupported("dict key " + k)
        vt = one_ty(toks[pos + 2])
        n = int(toks[pos + 3])
        pos += 4
        terms, fl = [], []
        for _ in range(n):
            a, fa, pos = val_term(toks, pos)
            b, fb, pos = val_term(toks, pos)
            terms.append("(%s, %s)" % (a, b))
            fl += fa + fb
        s = to_str(vt).encode()
        return ("(VDict %s %s [%s])" % (BASE[k], ty_term(vt), "; ".join(terms)),
                [4, ord(k), len(s)] + list(s) + [n] + fl, pos)
    if tag == "v":
        t = one_ty(toks[pos + 1])
        a, f, pos = val_term(toks, pos + 2)
        s = to_str(t).encode()
        return "(VVariant %s %s)" % (ty_term(t), a), [5, len(s)] + list(s) + f, pos
    if tag in ("s", "o", "g"):
        bs = hexlist(toks[pos + 1])
        return "(VText %s %s)" % (BASE[tag], nlist(bs)), [1, ord(tag), len(bs)] + bs, pos + 2
    if tag not in BASE:
        raise Unsupported("tag " + tag)
    n = int(toks[pos + 1])
    return "(VBase %s %d)" % (BASE[tag], n), [0, ord(tag), n], pos + 2


def vals_flat(toks, pos=0):
    out = []
    while pos < len(toks):
        _, f, pos = val_term(toks, pos)
        out += f
    return out


def bool_term(b):
    return "true" if b else "false"


CODE = {"ok": 0, "err": 1, "panic": 2, "ub": 3, "fuel": 4}
MARSHAL_OPS = ("MT", "MA", "MP", "MPR", "MPX", "MV", "MVR", "MVX", "MPC", "MPCR", "MPCX")
RT_OPS = ("RT", "RP", "RPR", "RPX", "RV", "RVR", "RVX")


def _fields(line):
    d = {}
    for t in line.split(" "):
        if "=" in t:
            k, v = t.split("=", 1)
            d[k] = v
    return d


def convert(line, out):
    """(input line, driver output) -> (Gallina term of type list N, expected number list); Unsupported otherwise"""
    toks = [t for t in line.split(" ") if t]
    op = toks[0].split("@")[0]
    if out.startswith("BAD") or out == "?" or out == "badsig":
        raise Unsupported("driver refused the line")
    if op in MARSHAL_OPS:
        typed = op in ("MT", "MA")
        p = 2 if typed else 1
        be = toks[p] == "be"
        prefix = int(toks[p + 1])
        v, _, end = val_term(toks, p + 2)
        if end != len(toks):
            raise Unsupported("trailing tokens")
        term = "r_marshal (op_marshal %s %s %d%%nat %s)" % (bool_term(typed), bool_term(be), prefix, v)
        f = _fields(out)
        buf = hexlist(f["buf"])
        exp = [1 if out.startswith("ok") else 0, int(f["nfds"]), 1 if f["encodable"] == "true" else 0, len(buf)] + buf + hexlist(f["spec"])
        return term, exp
    if op in RT_OPS:
        typed = op == "RT"
        p = 1
        ety = None
        if typed:
            es = parse_sig(toks[1], True)
            if len(es) != 1:
                raise Unsupported("ety")
            ety = ety_term(es[0])
            p = 2
        be = toks[p] == "be"
        prefix = int(toks[p + 1])
        v, _, end = val_term(toks, p + 2)
        if end != len(toks):
            raise Unsupported("trailing tokens")
        if ety is None:
            ety = "(ety_of_ty (ty_of %s))" % v
        term = "r_rt (op_roundtrip %s %s %d%%nat %s %s)" % (bool_term(typed), bool_term(be), prefix, ety, v)
        if out == "pusherr":
            return term, [9]
        f = _fields(out)
        st = out.split(" ")[0]
        if st == "ok":
            vt = out.split(" val=", 1)[1].split(" ")
            exp = [0, 1 if f["validate"] == "true" else 0, 1 if f["trailer"] == "ok" else 0] + vals_flat(vt)
        else:
            exp = [CODE[st], 1 if f["validate"] == "true" else 0]
        return term, exp
    if op == "UT":
        es = parse_sig(toks[1], True)
        if len(es) != 1:
            raise Unsupported("ety")
        be = toks[2] == "be"
        term = "r_val (op_unmarshal_t %s %s %s %s %s)" % (bool_term(be), toks[3], toks[4], ety_term(es[0]), nlist(hexlist(toks[6])))
        o = out.split(" ")
        exp = [0, int(o[1])] + vals_flat(o[2:]) if o[0] == "ok" else [CODE[o[0]]]
        return term, exp
    if op in ("VR", "UP"):
        be = toks[1] == "be"
        offset = toks[2]
        p = 3
        nfds = "0"
        if op == "UP":
            nfds = toks[3]
            p = 4
        tys = "[" + "; ".join(ty_term(t) for t in parse_sig(toks[p], False)) + "]"
        if any(c in toks[p] for c in "DSOGHVCRNB"):
            raise Unsupported("markers in a plain signature")
        buf = nlist(hexlist(toks[p + 1]))
        o = out.split(" ")
        if op == "VR":
            term = "r_n (op_validate %s %s %s %s)" % (bool_term(be), offset, tys, buf)
            exp = [0, int(o[1])] if o[0] == "ok" else [CODE[o[0]]]
        else:
            term = "r_vals (op_unmarshal_p %s %s %s %s %s)" % (bool_term(be), offset, nfds, tys, buf)
            if o[0] == "ok":
                fl = vals_flat(o[2:])
                # number of values = number of types
                exp = [0, int(o[1]), len(parse_sig(toks[p], False))] + fl
            else:
                exp = [CODE[o[0]]]
        return term, exp
    if op == "SE":
        be = toks[1] == "be"
        v, _, end = val_term(toks, 3)
        if end != len(toks):
            raise Unsupported("trailing tokens")
        term = "(let r := op_spec %s %s %s in b2n (snd r) :: fst r)" % (bool_term(be), toks[2], v)
        f = _fields(out)
        return term, [1 if f["encodable"] == "true" else 0] + hexlist(f["spec"])
    if op in ("BV", "BA"):
        be = toks[1] == "be"
        sg = nlist(hexlist(toks[3]))
        buf = nlist(hexlist(toks[4]))
        if op == "BV":
            return "[b2n (op_body_validate %s %s %s)]" % (bool_term(be), sg, buf), [1 if out == "ok" else 0]
        o = out.split(" ")
        term = "r_all (body_unmarshall_all %s %s %s %s)" % (bool_term(be), toks[2], sg, buf)
        exp = [0, int(o[1])] + vals_flat(o[2:]) if o[0] == "ok" else [CODE[o[0]]]
        return term, exp
    raise Unsupported("op " + op)


def cross(ctx, pairs, rng, n, max_len=700, name="wire_cross"):
    """Evaluate a sample of at most n of the (line, driver output) pairs inside Coq and compare."""
    seen = set()
    cand = []
    for line, out in pairs:
        if line is None or out is None or len(line) > max_len or line in seen:
            continue
        seen.add(line)
        cand.append((line, out))
    rng.shuffle(cand)
    # every operation kind gets its share
    by_op = {}
    for line, out in cand:
        by_op.setdefault(line.split(" ", 1)[0].split("@")[0], []).append((line, out))
    picked = []
    while len(picked) < n and any(by_op.values()):
        for op in sorted(by_op):
            if by_op[op] and len(picked) < n:
                picked.append(by_op[op].pop())
    terms, exps, kept = [], [], []
    for line, out in picked:
        try:
            t, e = convert(line, out)
        except Unsupported:
            ctx.count("in_coq_vm_compute:not-convertible")
            continue
        except (IndexError, KeyError, ValueError) as ex:
            ctx.count("in_coq_vm_compute:not-convertible")
            continue
        terms.append("Eval vm_compute in (%s)." % t)
        exps.append(e)
        kept.append((line, out))
    if not terms:
        ctx.count("in_coq_vm_compute_cases", 0)
        return 0
    vlib.coq_make(["Wire/Ops.vo", "Wire/Body.vo"])
    res = vlib.coq_eval(name, HEADER + "\n".join(terms) + "\n", timeout=1200)
    blocks = re.split(r"^\s*= ", res, flags=re.M)[1:]
    if len(blocks) != len(terms):
        ctx.tie_broken("in-Coq evaluation printed %d results for %d terms" % (len(blocks), len(terms)), res[-1500:])
        return 0
    for blk, exp, (line, out) in zip(blocks, exps, kept):
        body = blk.split(": list N")[0]
        got = [int(x) for x in re.findall(r"\d+", body)]
        ctx.count("in_coq_vm_compute_cases")
        ctx.count("in_coq_vm_compute:" + line.split(" ", 1)[0].split("@")[0])
        if got != exp:
            ctx.tie_broken("extracted wire driver and Coq's own vm_compute evaluation of the model differ",
                           "line: %s\ndriver: %s\ncoq: %s\nexpected numbers: %s" % (line[:600], out[:600], " ".join(body.split())[:600], exp[:200]))
            break
    return len(terms)


# ----------------------------------------------------------------------------- C15: histories on a body / parser

HIST_HEADER = r"""
Inductive hop := HNew (be : bool) | HB (o : bop) | HNop | HBeyond | HValid | HPNew | HPNewX (buf : list N) | HCur
  | HGet (e : ety) | HGetN (es : list ety) | HGetP.
Definition enc_body (b : body) : list N := [len (bsig b)] ++ bsig b ++ [bfds b; len (bbuf b)] ++ bbuf b.
Definition enc_pstate (p : parser) : list N :=
  (match get_next_sig p with Ok (Some s) => [0; len s] ++ s | Ok None => [1] | o => [2 + code o] end) ++
  (match sigs_left p with Ok n => [0; n] | o => [1 + code o] end).
Definition enc_gres (r : gres) : list N := match r with GVal v => 0 :: flat v | GWrongSig => [1] | GEnd => [2] | GErr => [3] end.
Definition h_valid (b : body) : bool :=
  match bsig b, bbuf b with
  | [], [] => true
  | _, _ => match parse_description (bsig b) with
            | Ok tys => match op_validate (bbe b) 0 tys (bbuf b) with Ok n => N.eqb n (len (bbuf b)) | _ => false end
            | _ => false
            end
  end.
Definition h_step (st : body * parser) (o : hop) : (body * parser) * list N :=
  let '(b, p) := st in
  match o with
  | HNew be => let b' := new_body be in ((b', p), 1 :: enc_body b')
  | HB o => let '(b', ok) := step_body b o in ((b', p), b2n ok :: enc_body b')
  | HNop => ((b, p), 1 :: enc_body b)
  | HBeyond => let b' := {| bbe := bbe b; bsig := bsig b; bbuf := []; bfds := bfds b |} in ((b', p), 1 :: enc_body b')
  | HValid => ((b, p), [b2n (h_valid b)])
  | HPNew => let p' := new_parser b in ((b, p'), enc_pstate p')
  | HPNewX buf => let p' := new_parser {| bbe := bbe b; bsig := bsig b; bbuf := buf; bfds := bfds b |} in ((b, p'), enc_pstate p')
  | HCur => ((b, p), [pbuf_idx p; psig_idx p])
  | HGet e => match get p e with
              | Ok (p', r) => ((b, p'), enc_gres r ++ enc_pstate p')
              | o => ((b, p), [100 + code o])
              end
  | HGetN es => match get_n p es with
                | Ok (p', Some vs) => ((b, p'), [0; len vs] ++ flat_map flat vs ++ enc_pstate p')
                | Ok (p', None) => ((b, p'), 1 :: enc_pstate p')
                | o => ((b, p), [100 + code o])
                end
  | HGetP => match get_param p with
             | Ok (p', r) => ((b, p'), enc_gres r ++ enc_pstate p')
             | o => ((b, p), [100 + code o])
             end
  end.
Fixpoint h_run (st : body * parser) (ops : list hop) : list N :=
  match ops with
  | [] => []
  | o :: r => let '(st', out) := h_step st o in len out :: out ++ h_run st' r
  end.
Definition h_start : body * parser := (new_body false, new_parser (new_body false)).
"""


def _erase_term(sig):
    es = parse_sig(sig, True)
    if len(es) != 1:
        raise Unsupported("ety " + sig)
    return ty_term(es[0]), es[0]


def _ety_of(sig):
    es = parse_sig(sig, True)
    if len(es) != 1:
        raise Unsupported("ety " + sig)
    return ety_term(es[0])


def hist_op(line):
    """one history line -> Gallina hop term"""
    toks = [t for t in line.split(" ") if t]
    op = toks[0].split("@")[0]
    if op == "BNEW":
        return "HNew %s" % bool_term(toks[1] == "be")
    if op == "BRESET":
        return "HB Reset"
    if op in ("BPUSH", "BPUSHV"):
        t, _ = _erase_term(toks[1])
        v, _, end = val_term(toks, 2)
        if end != len(toks):
            raise Unsupported("trailing")
        return "HB (%s (%s, %s))" % ("Push" if op == "BPUSH" else "PushVariant", t, v)
    if op == "BPUSHVI":
        _, e = _erase_term(toks[1])
        if e[0] != "v" or toks[2] != "v":
            raise Unsupported("BPUSHVI on a non-variant")
        x, _, end = val_term(toks, 4)
        if end != len(toks):
            raise Unsupported("trailing")
        return "HB (PushVariant (%s, %s))" % (ty_term(e[1]), x)
    if op == "BPUSHN":
        t, _ = _erase_term(toks[1])
        k = int(toks[2])
        pos = 3
        items = []
        for _ in range(k):
            v, _, pos = val_term(toks, pos)
            items.append("(%s, %s)" % (t, v))
        if pos != len(toks):
            raise Unsupported("trailing")
        return "HB (%s [%s])" % ("PushN" if 2 <= k <= 5 else "PushParams", "; ".join(items))
    if op == "BPUSHM":
        k = int(toks[1])
        pos = 2
        items = []
        for _ in range(k):
            t, _ = _erase_term(toks[pos])
            v, _, pos = val_term(toks, pos + 1)
            items.append("(%s, %s)" % (t, v))
        if pos != len(toks):
            raise Unsupported("trailing")
        return "HB (Push %s)" % items[0] if k == 1 else "HB (PushN [%s])" % "; ".join(items)
    if op == "BOLD":
        v, _, end = val_term(toks, 1)
        if end != len(toks):
            raise Unsupported("trailing")
        return "HB (PushOld %s)" % v
    if op == "BOLDS":
        k = int(toks[1])
        pos = 2
        vs = []
        for _ in range(k):
            v, _, pos = val_term(toks, pos)
            vs.append(v)
        if pos != len(toks):
            raise Unsupported("trailing")
        return "HB (PushOlds [%s])" % "; ".join(vs)
    if op in ("BOFF", "BRECV"):
        return "HNop"
    if op == "BBEYOND":
        return "HBeyond"
    if op == "BVALID":
        return "HValid"
    if op == "PNEW":
        return "HPNew"
    if op == "PNEWX":
        return "HPNewX %s" % nlist(hexlist(toks[1]))
    if op == "PCUR":
        return "HCur"
    if op == "PGET":
        return "HGet %s" % _ety_of(toks[1])
    if op == "PGETN":
        return "HGetN [%s]" % "; ".join([_ety_of(toks[1])] * int(toks[2]))
    if op == "PGETM":
        k = int(toks[1])
        es = [_ety_of(t) for t in toks[2:2 + k]]
        return "HGet %s" % es[0] if k == 1 else "HGetN [%s]" % "; ".join(es)
    if op == "PGETP":
        return "HGetP"
    raise Unsupported("op " + op)


def _enc_body(f):
    sg, buf = hexlist(f["sig"]), hexlist(f["buf"])
    return [len(sg)] + sg + [int(f["nfds"]), len(buf)] + buf


def _enc_pstate(f):
    nx, left = f["next"], f["left"]
    a = [1] if nx == "none" else [2 + CODE[nx]] if nx in CODE else [0, len(hexlist(nx))] + hexlist(nx)
    b = [1 + CODE[left]] if left in CODE else [0, int(left)]
    return a + b


def hist_expect(line, out):
    """the numbers h_step prints for this line, computed from the driver's output line"""
    op = line.split(" ", 1)[0].split("@")[0]
    f = _fields(out)
    first = out.split(" ")[0]
    if op[0] == "B" and op != "BVALID":
        if first not in ("ok", "err"):
            raise Unsupported("driver: " + out[:40])
        return [1 if first == "ok" else 0] + _enc_body(f)
    if op == "BVALID":
        return [1 if f["valid"] == "true" else 0]
    if op in ("PNEW", "PNEWX"):
        return _enc_pstate(f)
    if op == "PCUR":
        a, b = f["cur"].split(",")
        return [int(a), int(b)]
    if "next" not in f:
        if first not in CODE:
            raise Unsupported("driver: " + out[:40])
        return [100 + CODE[first]]
    body = out.split(" ")[:-2]
    single = op in ("PGET", "PGETP") or (op == "PGETM" and line.split(" ")[1] == "1")
    if single:
        if first == "ok":
            return [0] + vals_flat(body[1:]) + _enc_pstate(f)
        return [{"wrongsig": 1, "end": 2, "err": 3}[first]] + _enc_pstate(f)
    if first == "ok":
        # the number of values = the number of slots asked for
        toks = line.split(" ")
        k = int(toks[2]) if op == "PGETN" else int(toks[1])
        return [0, k] + vals_flat(body[1:]) + _enc_pstate(f)
    if first == "fail":
        return [1] + _enc_pstate(f)
    raise Unsupported("driver: " + out[:40])


def hist_cross(ctx, histories, outputs, rng, n, max_chars=6000, name="c15_cross"):
    """histories: lists of lines, outputs: the driver's lines; only self-contained histories (BNEW first, PNEW before any
    other parser operation) are evaluated"""
    cand = []
    for h, o in zip(histories, outputs):
        if not h or o is None or len(o) != len(h) or not h[0].startswith("BNEW") or sum(len(x) for x in h) > max_chars:
            continue
        pn = [i for i, l in enumerate(h) if l.startswith("PNEW")]
        firstp = [i for i, l in enumerate(h) if l[0] == "P"]
        if firstp and (not pn or pn[0] != firstp[0]):
            continue
        cand.append((h, o))
    rng.shuffle(cand)
    terms, exps, kept = [], [], []
    for h, o in cand:
        if len(terms) >= n:
            break
        try:
            ops = [hist_op(l) for l in h]
            exp = []
            for l, x in zip(h, o):
                e = hist_expect(l, x)
                exp += [len(e)] + e
        except (Unsupported, IndexError, KeyError, ValueError):
            ctx.count("in_coq_vm_compute:history-not-convertible")
            continue
        terms.append("Eval vm_compute in (h_run h_start [%s])." % "; ".join(ops))
        exps.append(exp)
        kept.append((h, o))
    if not terms:
        return 0
    vlib.coq_make(["Wire/Ops.vo", "Wire/Body.vo"])
    res = vlib.coq_eval(name, HEADER + HIST_HEADER + "\n".join(terms) + "\n", timeout=1500)
    blocks = re.split(r"^\s*= ", res, flags=re.M)[1:]
    if len(blocks) != len(terms):
        ctx.tie_broken("in-Coq evaluation printed %d results for %d histories" % (len(blocks), len(terms)), res[-1500:])
        return 0
    for blk, exp, (h, o) in zip(blocks, exps, kept):
        got = [int(x) for x in re.findall(r"\d+", blk.split(": list N")[0])]
        ctx.count("in_coq_vm_compute_histories")
        ctx.count("in_coq_vm_compute_history_ops", len(h))
        if got != exp:
            # locate the first differing operation
            at, pos = 0, 0
            for k in range(len(h)):
                ln = exp[pos] + 1
                if got[pos:pos + ln] != exp[pos:pos + ln]:
                    at = k
                    break
                pos += ln
            ctx.tie_broken("extracted wire driver and Coq's own vm_compute evaluation of the body model differ",
                           "history: %s\nat op %d: %s\ndriver: %s" % ([x[:120] for x in h[:at + 1]][-6:], at, h[at][:400], o[at][:400]))
            break
    return len(terms)
