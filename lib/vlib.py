"""Common machinery for the rustbus property checks (see DESIGN.md sections 2 and 6).

Every check module under checks/ exposes

    def run(ctx):      # ctx: Ctx ; uses the helpers below ; returns nothing
    def replay(ctx, data):   # optional: re-run one recorded case

and reports through ctx.violation(...) / ctx.add_cases(...) / ctx.proof(...).
"""
import fcntl
import hashlib
import json
import os
import random
import re
import shutil
import subprocess
import sys
import time

VERIF = os.path.dirname(os.path.dirname(os.path.abspath(__file__)))
REPO = os.environ.get("VERIF_REPO", "/repo")
COQ = os.path.join(VERIF, "coq")
HARNESS = os.path.join(VERIF, "harness")
SCRATCH = os.path.join(VERIF, "scratch")
NPROC = os.cpu_count() or 4

# axioms of the standard library a theorem may depend on (DESIGN.md section 5); anything else
# reported by Print Assumptions fails the audit.
AXIOM_ALLOW = {
    "functional_extensionality_dep",
    "FunctionalExtensionality.functional_extensionality_dep",
    "proof_irrelevance",
    "ProofIrrelevance.proof_irrelevance",
    "Eqdep.Eq_rect_eq.eq_rect_eq",
    "eq_rect_eq",
    "JMeq_eq",
    "JMeq.JMeq_eq",
    "classic",
    "Classical_Prop.classic",
}
FORBIDDEN = re.compile(
    r"\b(Admitted|admit|Axiom|Axioms|Parameter|Parameters|Conjecture|Conjectures|Admit Obligations|"
    r"Unset Guard Checking|Unset Positivity Checking|Unset Universe Checking|bypass_check|"
    r"type-in-type|impredicative-set)\b"
)

ENV = dict(os.environ)
ENV.update({"CARGO_NET_OFFLINE": "true", "GOPROXY": "off", "PIP_NO_INDEX": "1"})


class BrokenTie(Exception):
    """the model can no longer be tied to /repo (build failure, proof failure, harness crash)"""

    def __init__(self, what, detail=""):
        super().__init__(what)
        self.what = what
        self.detail = detail


def sh(cmd, cwd=None, timeout=None, env=None, inp=None):
    e = dict(ENV)
    if env:
        e.update(env)
    p = subprocess.run(cmd, cwd=cwd, env=e, input=inp, stdout=subprocess.PIPE,
                       stderr=subprocess.STDOUT, timeout=timeout,
                       shell=isinstance(cmd, str), text=isinstance(inp, str) or inp is None)
    return p.returncode, p.stdout


class Lock:
    def __init__(self, name):
        self.path = os.path.join(VERIF, name)

    def __enter__(self):
        self.f = open(self.path, "w")
        fcntl.flock(self.f, fcntl.LOCK_EX)
        return self

    def __exit__(self, *a):
        fcntl.flock(self.f, fcntl.LOCK_UN)
        self.f.close()


# ----------------------------------------------------------------------------- Coq

def coq_files():
    out = []
    for root, _, files in os.walk(COQ):
        for f in files:
            if f.endswith(".v"):
                out.append(os.path.relpath(os.path.join(root, f), COQ))
    return sorted(out)


def coq_prepare():
    """(re)generate _CoqProject and Makefile when the set of .v files changed"""
    files = coq_files()
    proj = "-Q . RB\n-arg -w -arg -notation-overridden,-deprecated-hint-without-locality,-deprecated-instance-without-locality\n" + "\n".join(files) + "\n"
    pp = os.path.join(COQ, "_CoqProject")
    old = open(pp).read() if os.path.exists(pp) else None
    if old != proj or not os.path.exists(os.path.join(COQ, "Makefile")):
        open(pp, "w").write(proj)
        rc, out = sh(["coq_makefile", "-f", "_CoqProject", "-o", "Makefile"], cwd=COQ, timeout=120)
        if rc != 0:
            raise BrokenTie("coq_makefile failed", out)


def coq_make(targets, timeout=900):
    """full .vo build of the given targets (paths relative to coq/, '.vo'); returns the log.
    The build lock is global: a single file may take at most 5 minutes of coqc time (TIMED below),
    so that one runaway proof cannot block everybody else for long."""
    with Lock(".build.lock"):
        coq_prepare()
        cmd = ["make", "-j%d" % NPROC, "COQC=timeout 330 coqc"] + list(targets)
        try:
            rc, out = sh(cmd, cwd=COQ, timeout=timeout)
        except subprocess.TimeoutExpired:
            sh("pkill -f 'coqc .*-Q . RB' || true")
            raise BrokenTie("coq build timed out", " ".join(cmd))
    if rc != 0:
        raise BrokenTie("coq build failed: " + " ".join(targets), out[-6000:])
    return out


def coq_closure(roots):
    """the .v files (relative to coq/) that the given .v files depend on, transitively (via coqdep)"""
    rc, out = sh(["coqdep", "-Q", ".", "RB"] + coq_files(), cwd=COQ, timeout=300)
    deps = {}
    for line in out.split("\n"):
        if ":" not in line:
            continue
        lhs, rhs = line.split(":", 1)
        tgt = [t for t in lhs.split() if t.endswith(".vo")]
        if not tgt:
            continue
        src = tgt[0][:-1]
        deps[src] = [d[:-1] for d in rhs.split() if d.endswith(".vo")]
    seen = set()
    todo = list(roots)
    while todo:
        f = os.path.normpath(todo.pop())
        if f in seen:
            continue
        seen.add(f)
        todo += deps.get(f, [])
    return sorted(seen)


def coq_source_audit(roots=None):
    """no Admitted/Axiom/... in the development the given files depend on (all files when roots is None);
    comments are stripped first"""
    bad = []
    for f in (coq_closure(roots) if roots else coq_files()):
        txt = open(os.path.join(COQ, f)).read()
        txt = strip_coq_comments(txt)
        for i, line in enumerate(txt.split("\n"), 1):
            if FORBIDDEN.search(line):
                bad.append("%s:%d: %s" % (f, i, line.strip()))
            if re.match(r"\s*(Variable|Variables|Hypothesis|Hypotheses|Context)\b", line) and not in_section(txt, i):
                bad.append("%s:%d: %s (outside a Section)" % (f, i, line.strip()))
    return bad


def strip_coq_comments(txt):
    out = []
    depth = 0
    i = 0
    instr = False
    while i < len(txt):
        c2 = txt[i:i + 2]
        if depth == 0 and txt[i] == '"':
            instr = not instr
            out.append(txt[i])
            i += 1
        elif not instr and c2 == "(*":
            depth += 1
            i += 2
        elif not instr and depth > 0 and c2 == "*)":
            depth -= 1
            i += 2
        else:
            if depth == 0:
                out.append(txt[i])
            elif txt[i] == "\n":
                out.append("\n")
            i += 1
    return "".join(out)


def in_section(txt, lineno):
    depth = 0
    for i, line in enumerate(txt.split("\n"), 1):
        if i >= lineno:
            break
        if re.match(r"\s*Section\s+\w+", line):
            depth += 1
        elif re.match(r"\s*End\s+\w+", line) and depth > 0:
            depth -= 1
        # Module ... End also matches End; sections inside modules are rare here, so count Modules too
        if re.match(r"\s*Module\s+(Type\s+)?\w+\s*\.", line):
            depth += 1
    return depth > 0


def coq_property(prop_file, timeout=1500):
    """Build Properties/<prop_file>.vo with make, then re-run coqc on it to capture the
    `Print Assumptions` output.  Returns dict(theorems=[(name, [axioms])...], log=...)."""
    vo = "Properties/%s.vo" % prop_file
    coq_make([vo], timeout=timeout)
    src = os.path.join(COQ, "Properties", prop_file + ".v")
    os.makedirs(SCRATCH, exist_ok=True)
    tmpd = os.path.join(SCRATCH, "pa_%s_%d" % (prop_file, os.getpid()))
    os.makedirs(tmpd, exist_ok=True)
    tmpvo = os.path.join(tmpd, prop_file + ".vo")
    try:
        rc, out = sh(["coqc", "-q", "-noglob", "-Q", COQ, "RB", "-w", "none", "-o", tmpvo, src], cwd=COQ, timeout=timeout)
    finally:
        shutil.rmtree(tmpd, ignore_errors=True)
    if rc != 0:
        raise BrokenTie("coqc failed on Properties/%s.v" % prop_file, out[-4000:])
    txt = strip_coq_comments(open(src).read())
    names = re.findall(r"^\s*(?:Theorem|Corollary)\s+(\w+)", txt, re.M)
    pa = re.findall(r"^\s*Print Assumptions\s+(\w+)\s*\.", txt, re.M)
    missing = [n for n in names if n not in pa]
    # parse output: blocks start either with "Closed under the global context" or "Axioms:"
    blocks = []
    cur = None
    for line in out.split("\n"):
        if line.startswith("Closed under the global context"):
            blocks.append([])
            cur = None
        elif line.startswith("Axioms:"):
            cur = []
            blocks.append(cur)
        elif cur is not None:
            m = re.match(r"^(\S+)\s*:", line)
            if m and not line.startswith(" "):
                cur.append(m.group(1))
            elif line.strip() == "":
                pass
    theorems = []
    for i, n in enumerate(pa):
        ax = blocks[i] if i < len(blocks) else ["<no Print Assumptions output>"]
        theorems.append((n, ax))
    return {"theorems": theorems, "missing_print_assumptions": missing, "log": out,
            "source_lines": len(txt.split("\n"))}


def coq_eval(name, vtext, timeout=900):
    """Evaluate a harness-written .v file (imports RB.* and prints with Eval vm_compute / Compute).
    Returns stdout."""
    os.makedirs(SCRATCH, exist_ok=True)
    d = os.path.join(SCRATCH, "cases_%s_%d" % (name, os.getpid()))
    os.makedirs(d, exist_ok=True)
    p = os.path.join(d, name + ".v")
    open(p, "w").write(vtext)
    try:
        rc, out = sh(["coqc", "-q", "-noglob", "-Q", COQ, "RB", "-w", "none", p], cwd=d, timeout=timeout)
    finally:
        shutil.rmtree(d, ignore_errors=True)
    if rc != 0:
        raise BrokenTie("coqc failed on generated cases file " + name, out[-4000:])
    return out


# ----------------------------------------------------------------------------- OCaml (extracted model)

def ocaml_build(group, timeout=900):
    """ocaml/<group>/ holds extract.v (Extraction "gen_model.ml" ...) and driver.ml.  Runs the
    extraction (needs the .vo files built) in a private directory, and only when the extracted code or
    driver.ml changed recompiles ./driver (atomically replaced, so a concurrently running driver is not
    disturbed).  Returns path of the binary."""
    d = os.path.join(VERIF, "ocaml", group)
    exe = os.path.join(d, "driver")
    os.makedirs(SCRATCH, exist_ok=True)
    tmp = os.path.join(SCRATCH, "ocaml_%s_%d" % (group, os.getpid()))
    shutil.rmtree(tmp, ignore_errors=True)
    os.makedirs(tmp)
    try:
        shutil.copy(os.path.join(d, "extract.v"), tmp)
        shutil.copy(os.path.join(d, "driver.ml"), tmp)
        # the modules extract.v imports have to be compiled (a fresh checkout has no .vo files, and they need not be in
        # the dependency closure of any Properties file)
        import re as _re
        mods = []
        for m in _re.finditer(r"From\s+RB\s+Require\s+(?:Import\s+|Export\s+)?(.*?)\.(?:\s|$)", open(os.path.join(d, "extract.v")).read(), _re.S):
            mods += m.group(1).split()
        targets = [x.replace(".", "/") + ".vo" for x in mods if os.path.exists(os.path.join(COQ, x.replace(".", "/") + ".v"))]
        if targets:
            coq_make(targets, timeout=3000)
        with Lock(".build.lock"):
            rc, out = sh(["coqc", "-q", "-noglob", "-Q", COQ, "RB", "-w", "none", "extract.v"], cwd=tmp, timeout=timeout)
        if rc != 0:
            raise BrokenTie("extraction failed for " + group, out[-4000:])

        def rd(path):
            try:
                return open(path, "rb").read()
            except OSError:
                return None
        same = all(rd(os.path.join(tmp, f)) == rd(os.path.join(d, f)) for f in ("gen_model.ml", "gen_model.mli"))
        stamp = os.path.join(d, ".driver.stamp")
        want = hashlib.blake2b((rd(os.path.join(tmp, "gen_model.ml")) or b"") + (rd(os.path.join(tmp, "gen_model.mli")) or b"")
                               + rd(os.path.join(d, "driver.ml")), digest_size=16).hexdigest()
        if same and os.path.exists(exe) and rd(stamp) == want.encode():
            return exe
        rc, out = sh("ocamlfind ocamlopt -O2 -w -a -package str -linkpkg gen_model.mli gen_model.ml driver.ml -o driver",
                     cwd=tmp, timeout=timeout)
        if rc != 0 or not os.path.exists(os.path.join(tmp, "driver")):
            raise BrokenTie("ocaml build failed for " + group, out[-4000:])
        with Lock(".ocaml.lock"):
            for f in ("gen_model.ml", "gen_model.mli"):
                shutil.copy(os.path.join(tmp, f), os.path.join(d, f))
            tmpexe = exe + ".new.%d" % os.getpid()
            shutil.copy(os.path.join(tmp, "driver"), tmpexe)
            os.chmod(tmpexe, 0o755)
            os.replace(tmpexe, exe)
            open(stamp, "w").write(want)
        return exe
    finally:
        shutil.rmtree(tmp, ignore_errors=True)


# ----------------------------------------------------------------------------- Rust harness

def harness_dir():
    """/verif/harness, or - when VERIF_REPO points at another checkout (mutant testing) - a shadow
    copy under scratch/ whose Cargo.toml depends on that checkout, with its own target dir."""
    if os.path.realpath(REPO) == "/repo":
        return HARNESS
    tag = hashlib.blake2b(os.path.realpath(REPO).encode(), digest_size=5).hexdigest()
    d = os.path.join(SCRATCH, "harness_" + tag)
    os.makedirs(d, exist_ok=True)
    toml = open(os.path.join(HARNESS, "Cargo.toml")).read().replace("/repo/", os.path.realpath(REPO) + "/")
    tp = os.path.join(d, "Cargo.toml")
    if not os.path.exists(tp) or open(tp).read() != toml:
        open(tp, "w").write(toml)
    for name in ("src", ".cargo", "Cargo.lock"):
        dst = os.path.join(d, name)
        if not os.path.lexists(dst):
            os.symlink(os.path.join(HARNESS, name), dst)
    return d


def harness_build(bins, profile="release", features=(), timeout=1800):
    """cargo build of harness binaries against /repo's working tree. Returns {bin: path}."""
    hdir = harness_dir()
    lock_src = os.path.join(REPO, "Cargo.lock")
    lock_dst = os.path.join(HARNESS, "Cargo.lock")
    if os.path.exists(lock_src) and not os.path.exists(lock_dst):
        shutil.copy(lock_src, lock_dst)
    cmd = ["cargo", "build", "--offline", "-q"]
    if profile == "release":
        cmd.append("--release")
    for b in bins:
        cmd += ["--bin", b]
    # binaries that use the type catalogue / wire helpers need the (slow to compile) `catalogue` feature of the crate
    def _needs_catalogue(b):
        try:
            src = open(os.path.join(HARNESS, "src", "bin", b + ".rs")).read()
        except OSError:
            return True
        return "wirelib" in src or "catalogue" in src
    if any(_needs_catalogue(b) for b in bins) and "catalogue" not in features:
        features = tuple(features) + ("catalogue",)
    if features:
        cmd += ["--features", ",".join(features)]
    try:
        rc, out = sh(cmd, cwd=hdir, timeout=timeout, env={"VERIF_REPO": REPO})
    except subprocess.TimeoutExpired:
        raise BrokenTie("cargo build timed out")
    if rc != 0:
        raise BrokenTie("harness does not build against /repo (%s)" % profile, out[-6000:])
    sub = "release" if profile == "release" else "debug"
    return {b: os.path.join(hdir, "target", sub, b) for b in bins}


def run_lines(exe, args, lines, timeout=1800, env=None):
    """feed one case per line, get one result per line"""
    inp = "\n".join(lines) + "\n"
    e = dict(ENV)
    if env:
        e.update(env)
    p = subprocess.run([exe] + list(args), input=inp, stdout=subprocess.PIPE, stderr=subprocess.PIPE,
                       timeout=timeout, text=True, env=e)
    out = p.stdout.split("\n")
    if out and out[-1] == "":
        out.pop()
    return p.returncode, out, p.stderr


def run_lines_robust(exe, args, lines, timeout=1800, env=None, max_crashes=25):
    """run_lines, surviving crashes of the harness: when the process dies (signal, abort) or hangs, the line it
    was working on gets the result "CRASH <status>" and the remaining lines are run in a fresh process."""
    outs = []
    pos = 0
    crashes = 0
    errtxt = ""
    while pos < len(lines):
        try:
            rc, o, e = run_lines(exe, args, lines[pos:], timeout, env)
        except subprocess.TimeoutExpired:
            return False, outs, "timeout after %d lines" % len(outs)
        if rc == 0 and len(o) == len(lines) - pos:
            outs += o
            return True, outs, errtxt
        if len(o) >= len(lines) - pos or crashes >= max_crashes:
            return False, outs + o, "rc=%s lines=%d/%d stderr=%s" % (rc, len(outs) + len(o), len(lines), e[-1500:])
        # the line after the last complete answer killed the process
        crashes += 1
        outs += o
        outs.append("CRASH rc=%s" % rc)
        errtxt += "crash (rc=%s) on line: %s\n" % (rc, lines[pos + len(o)][:300])
        pos += len(o) + 1
    return True, outs, errtxt


def par_run_lines(exe, args, lines, shards=NPROC, timeout=1800, env=None, robust=False):
    """run_lines sharded over processes, results in input order; returns (ok, outs, errtext).
    With robust=True a line that crashes the harness yields the result "CRASH rc=.." instead of failing the run."""
    import concurrent.futures as cf
    if not lines:
        return True, [], ""
    n = max(1, min(shards, (len(lines) + 199) // 200))
    chunks = [lines[i::n] for i in range(n)]
    outs = [None] * len(lines)
    errs = []
    ok = True

    def one(ch):
        if robust:
            good, o, e = run_lines_robust(exe, args, ch, timeout, env)
            return (0 if good else 1), o, e
        return run_lines(exe, args, ch, timeout, env)
    with cf.ThreadPoolExecutor(n) as ex:
        futs = {ex.submit(one, ch): i for i, ch in enumerate(chunks)}
        for f in cf.as_completed(futs):
            i = futs[f]
            rc, o, e = f.result()
            if rc != 0 or len(o) != len(chunks[i]):
                ok = False
                errs.append("shard %d rc=%s lines=%d/%d stderr=%s" % (i, rc, len(o), len(chunks[i]), e[-2000:]))
                continue
            for k, r in enumerate(o):
                outs[i + k * n] = r
    return ok, outs, "\n".join(errs)


# ----------------------------------------------------------------------------- known findings

def known_findings():
    p = os.path.join(VERIF, "known_findings.json")
    if not os.path.exists(p):
        return []
    return json.load(open(p)).get("findings", [])


# ----------------------------------------------------------------------------- context / evidence / verdict

class Ctx:
    def __init__(self, prop, tier, seed):
        self.prop = prop
        self.tier = tier
        self.seed = seed
        self.rng = random.Random(seed)
        self.t0 = time.time()
        self.violations = []      # (replay_path, suffix)
        self.known_hits = {}      # finding id -> count
        self.evaluations = 0
        self.distinct = set()
        self.samples = []
        self.rule = ""
        self.histogram = {}
        self.obligations = []     # (name, ok, axioms)
        self.checker_cmd = ""
        self.trusted = []
        self.assumptions = []
        self.extra = {}
        self.disagreements_checked = 0
        self.exhaustive = None
        self.broken = []          # BrokenTie instances seen (proof / build / correspondence)
        self.extra_distinct = 0   # distinct non-trivial cases counted inside harness enumerations

    # ---- bookkeeping
    def count(self, key, n=1):
        self.histogram[key] = self.histogram.get(key, 0) + n

    def case(self, canon, nontrivial=True, sample=None):
        """register one explored case; canon is any hashable canonical form"""
        self.evaluations += 1
        if nontrivial:
            self.distinct.add(hashlib.blake2b(repr(canon).encode(), digest_size=8).digest())
        if sample is not None and len(self.samples) < 8:
            self.samples.append(sample)

    def sub_rng(self, name):
        return random.Random("%d/%s" % (self.seed, name))

    # ---- proofs
    def proof(self, prop_file=None, timeout=1500):
        """build Properties/<Cxx>.vo, audit, record obligations. Raises BrokenTie when a proof fails."""
        prop_file = prop_file or self.prop
        if os.environ.get("VERIF_SKIP_PROOF") and os.environ.get("VERIF_REPO"):
            # mutant runs against a scratch checkout only (tools/seeded_regress.py): the proofs do not depend on
            # the checkout, so they are not rebuilt for each of several hundred runs. Never honoured for /repo itself.
            return None
        bad = coq_source_audit(["Properties/%s.v" % prop_file])
        if bad:
            raise BrokenTie("source audit: forbidden declarations in coq/", "\n".join(bad))
        res = coq_property(prop_file, timeout=timeout)
        self.checker_cmd = "make -C coq Properties/%s.vo (full .vo build, coqc 8.16.1) ; coqc Properties/%s.v for Print Assumptions" % (prop_file, prop_file)
        if res["missing_print_assumptions"]:
            raise BrokenTie("theorems without Print Assumptions in Properties/%s.v" % prop_file,
                            ", ".join(res["missing_print_assumptions"]))
        for name, axioms in res["theorems"]:
            notallowed = [a for a in axioms if a not in AXIOM_ALLOW and a.split(".")[-1] not in AXIOM_ALLOW]
            self.obligations.append((name, not notallowed, axioms))
            if notallowed:
                raise BrokenTie("theorem %s depends on axioms outside the allow-list" % name, ", ".join(notallowed))
        if not res["theorems"]:
            raise BrokenTie("no theorems found in Properties/%s.v" % prop_file)
        if self.tier == "thorough" and not os.environ.get("VERIF_NO_COQCHK"):
            # second, independent checker over the property's .vo and everything it depends on
            try:
                rc, out = sh(["coqchk", "-silent", "-o", "-Q", ".", "RB", "RB.Properties.%s" % prop_file], cwd=COQ, timeout=3000)
            except subprocess.TimeoutExpired:
                raise BrokenTie("coqchk timed out on Properties/%s" % prop_file)
            if rc != 0:
                raise BrokenTie("coqchk rejects Properties/%s.vo" % prop_file, out[-3000:])
            ax = []
            grab = False
            for line in out.split("\n"):
                if line.startswith("* Axioms:"):
                    grab = True
                    rest = line.split(":", 1)[1].strip()
                    if rest and rest != "<none>":
                        ax.append(rest)
                    continue
                if grab:
                    if line.startswith("*"):
                        grab = False
                    elif line.strip():
                        ax.append(line.strip())
            bad = [a for a in ax if a.split()[0].split(".")[-1] not in AXIOM_ALLOW and a.split()[0] not in AXIOM_ALLOW]
            self.extra["coqchk"] = {"axioms": ax or "<none>", "ok": not bad}
            unsafe = [l for l in out.split("\n") if ("type-in-type" in l or "unsafe" in l or "positivity is assumed" in l) and "<none>" not in l]
            if bad or unsafe:
                raise BrokenTie("coqchk reports axioms/unsafe features outside the allow-list", "\n".join(bad + unsafe))
            self.checker_cmd += " ; coqchk -silent -o -Q coq RB RB.Properties.%s" % prop_file
        return res

    def try_proof(self, prop_file=None, timeout=1500):
        """like proof(), but a failure is recorded (the check goes on to search for a failing input)"""
        try:
            return self.proof(prop_file, timeout)
        except BrokenTie as bt:
            self.broken.append(bt)
            return None

    def tie_broken(self, what, detail=""):
        self.broken.append(BrokenTie(what, detail))

    # ---- verdicts
    def violation(self, what, data, no_input=False):
        """record a violation with a replay file; filtered through known_findings by the caller
        (use self.known(...) first)."""
        self.nviol = getattr(self, "nviol", 0) + 1
        if self.nviol > 5 and not no_input:
            return None                     # further failing inputs are counted, not written out
        os.makedirs(os.path.join(VERIF, "replays"), exist_ok=True)
        body = {"property": self.prop, "what": what, "seed": self.seed, "tier": self.tier, "data": data,
                "replay_cmd": "./check replay replays/<this file>"}
        h = hashlib.blake2b(json.dumps(body, sort_keys=True, default=str).encode(), digest_size=6).hexdigest()
        path = os.path.join("replays", "%s-%s.json" % (self.prop, h))
        body["replay_cmd"] = "./check replay " + path
        with open(os.path.join(VERIF, path), "w") as f:
            json.dump(body, f, indent=1, default=str)
        self.violations.append((path, " no-failing-input-found" if no_input else ""))
        return path

    def known(self, finding_id, what):
        """a failing input that falls into a class listed in known_findings.json (status known)"""
        for f in known_findings():
            if f.get("status") == "known" and f.get("id") == finding_id and f.get("property") == self.prop:
                if finding_id not in self.known_hits:
                    self.known_hits[finding_id] = what
                return True
        return False

    def finish(self):
        wall = time.time() - self.t0
        if self.broken and not [v for v in self.violations if not v[1]]:
            # a proof obligation or the correspondence no longer checks and the search found no
            # failing input: still a violation (the property is no longer shown to hold)
            self.violation("no longer shown to hold: " + "; ".join(b.what for b in self.broken),
                           {"broken": [{"what": b.what, "detail": b.detail[-3000:]} for b in self.broken],
                            "searched": self.evaluations}, no_input=True)
        for fid, what in self.known_hits.items():
            print("KNOWN-FINDING: property=%s %s" % (self.prop, what))
        nobl = len(self.obligations)
        ndis = sum(1 for o in self.obligations if o[1])
        cov = {}
        if nobl > 0 and ndis > 0:
            cov.update({"obligations": nobl, "discharged": ndis})
        cov.update({
            "checker_cmd": self.checker_cmd or "none (proof step did not run)",
            "trusted_base": self.trusted,
            "theorems": [{"name": n, "axioms": ax if ax else "Closed under the global context"} for n, _, ax in self.obligations],
            "evaluations": self.evaluations,
            "distinct_nontrivial": len(self.distinct) + self.extra_distinct,
            "rule": self.rule,
            "samples": self.samples if self.samples else ["<none>"],
            "input_distribution": self.histogram,
            "disagreements_checked": self.disagreements_checked,
        })
        if self.exhaustive is not None:
            cov["exhaustive"] = self.exhaustive
        cov.update(self.extra)
        ev = {
            "property_id": self.prop,
            "tier": self.tier,
            "seed": self.seed,
            "level": "proof",
            "coverage": cov,
            "assumptions": self.assumptions,
            "wall_s": round(wall, 2),
            "violations": max(len(self.violations), getattr(self, "nviol", 0)),
        }
        evdir = os.environ.get("VERIF_EVIDENCE_DIR", os.path.join(VERIF, "evidence"))
        os.makedirs(evdir, exist_ok=True)
        with open(os.path.join(evdir, self.prop + ".json"), "w") as f:
            json.dump(ev, f, indent=1, default=str)
        for path, suffix in self.violations:
            print("VIOLATION property=%s replay=%s%s" % (self.prop, path, suffix))
        sys.stdout.flush()
        return 1 if self.violations else 0


def broken_tie_search_default(ctx, bt):
    """fallback when a check module has no search of its own"""
    ctx.violation("broken tie: %s" % bt.what, {"detail": bt.detail[-3000:], "search": "none available"}, no_input=True)
