"""Generators for the wire checks (C01, C02, C03, C15, C16): catalogue types, boundary-biased values in
the token syntax of harness/src/wirelib.rs, unencodable values, corruptions of encodings.
Every random choice comes from the random.Random instance passed in."""
import os

HERE = os.path.dirname(os.path.dirname(os.path.abspath(__file__)))
BASES = "ybnqiuxtdhsog"


def catalogue():
    return [l.strip() for l in open(os.path.join(HERE, "gen", "catalogue.txt")) if l.strip()]


# ----------------------------------------------------------------------------- extended signatures
def parse_ext(s):
    """extended signature -> tree: ('b', c) | ('a', t) | ('r', [t..]) | ('e', k, t) | ('v', t)"""
    t, rest = _parse(s)
    assert rest == "", s
    return t


def _parse(s):
    c = s[0]
    if c == "a":
        if s[1] == "{":
            k = s[2]
            v, rest = _parse(s[3:])
            assert rest[0] == "}"
            return ("e", k, v), rest[1:]
        e, rest = _parse(s[1:])
        return ("a", e), rest
    if c == "(":
        parts = []
        rest = s[1:]
        while rest[0] != ")":
            p, rest = _parse(rest)
            parts.append(p)
        return ("r", parts), rest[1:]
    if c == "v":
        if len(s) > 1 and s[1] == "[":
            inner, rest = _parse(s[2:])
            assert rest[0] == "]"
            return ("v", inner), rest[1:]
        return ("v", None), s[1:]
    return ("b", c), s[1:]


def erased(t):
    """D-Bus signature of a type tree"""
    k = t[0]
    if k == "b":
        return t[1]
    if k == "a":
        return "a" + erased(t[1])
    if k == "r":
        return "(" + "".join(erased(x) for x in t[1]) + ")"
    if k == "e":
        return "a{" + t[1] + erased(t[2]) + "}"
    return "v"


def type_align(t):
    k = t[0]
    if k == "b":
        return {"y": 1, "b": 4, "n": 2, "q": 2, "i": 4, "u": 4, "x": 8, "t": 8, "d": 8, "h": 4, "s": 4, "o": 4, "g": 1}[t[1]]
    return {"a": 4, "e": 4, "r": 8, "v": 1}[k]


def depth_of(t):
    k = t[0]
    if k == "b":
        return 0
    if k in ("a", "v"):
        return 1 + (depth_of(t[1]) if t[1] else 0)
    if k == "e":
        return 1 + depth_of(t[2])
    return 1 + max(depth_of(x) for x in t[1])


# ----------------------------------------------------------------------------- values
def hx(b):
    return b.hex() if b else "-"


STRINGS = [b"", b"a", b"ab", b"abc", b"abcd", b"abcde", b"abcdefg", b"abcdefgh", "é".encode(), "€uro".encode(),
           "😀".encode(), b"with space", b"x" * 31, b"y" * 64]
PATHS = [b"/", b"/a", b"/a/b", b"/a_b/C9/d", b"/org/freedesktop/DBus", b"/x" * 9]
SIGS = [b"", b"y", b"s", b"ai", b"a{sv}", b"(ii)", b"a(ya{sv})", b"v", b"aaaa(tt)"]
BAD_STRINGS = [b"a\x00b", b"\x00", b"abc\x00"]
BAD_PATHS = [b"", b"a", b"/a/", b"//", b"/a-b", "/é".encode(), b"/a//b", b"a/b", b"/a b"]
BAD_SIGS = [b"a", b"(", b"{sv}", b"()", b"a{vs}", b"z", b"a{s}", b"y" * 256]


def gen_base(r, c, bad=None):
    """tokens for a base value; bad in (None, 'nul', 'path', 'sig', 'fd') produces an unencodable one where it applies"""
    if c == "y":
        return ["y", str(r.choice([0, 1, 127, 128, 255, r.randrange(256)]))]
    if c == "b":
        return ["b", str(r.randrange(2))]
    if c in "nq":
        return [c, str(r.choice([0, 1, 0x7FFF, 0x8000, 0xFFFF, r.randrange(1 << 16)]))]
    if c in "iu":
        return [c, str(r.choice([0, 1, 0x7FFFFFFF, 0x80000000, 0xFFFFFFFF, r.randrange(1 << 32)]))]
    if c in "xt":
        return [c, str(r.choice([0, 1, (1 << 63) - 1, 1 << 63, (1 << 64) - 1, r.randrange(1 << 64)]))]
    if c == "d":
        return ["d", str(r.choice([0, 1 << 63, 0x3FF8000000000000, 0x7FF8000000000001, 0x7FF0000000000000,
                                   0xFFF0000000000000, 0x7FF0000000000001, r.randrange(1 << 64)]))]
    if c == "h":
        return ["h", "1" if bad == "fd" else "0"]
    if c == "s":
        return ["s", hx(r.choice(BAD_STRINGS) if bad == "nul" else r.choice(STRINGS))]
    if c == "o":
        return ["o", hx(r.choice(BAD_PATHS) if bad == "path" else r.choice(PATHS))]
    if c == "g":
        return ["g", hx(r.choice(BAD_SIGS) if bad == "sig" else r.choice(SIGS))]
    raise ValueError(c)


BAD_KIND = {"s": "nul", "o": "path", "g": "sig", "h": "fd"}


def count_leaves(t, chars):
    k = t[0]
    if k == "b":
        return 1 if t[1] in chars else 0
    if k in ("a", "v"):
        return count_leaves(t[1], chars) if t[1] else 0
    if k == "e":
        return (1 if t[1] in chars else 0) + count_leaves(t[2], chars)
    return sum(count_leaves(x, chars) for x in t[1])


class ValGen:
    """generates one value of a type tree; if bad_at is not None, the bad_at-th text/fd leaf visited gets an
    unencodable content (containers on the way are forced non-empty)"""

    def __init__(self, r, bad_at=None, sizes=(0, 1, 1, 2, 2, 3), dict_sizes=None):
        self.r = r
        self.bad_at = bad_at
        self.seen = 0
        self.sizes = sizes
        self.dict_sizes = dict_sizes or sizes
        self.made_bad = False

    def gen(self, t):
        r = self.r
        k = t[0]
        if k == "b":
            bad = None
            if t[1] in BAD_KIND and self.bad_at is not None:
                if self.seen == self.bad_at and not self.made_bad:
                    bad = BAD_KIND[t[1]]
                    self.made_bad = True
                self.seen += 1
            return gen_base(r, t[1], bad)
        if k == "a":
            n = r.choice(self.sizes)
            if self.bad_at is not None and not self.made_bad and count_leaves(t[1], "sogh"):
                n = max(n, 1)
            out = ["a", erased(t[1]), str(n)]
            for _ in range(n):
                out += self.gen(t[1])
            return out
        if k == "r":
            out = ["r", str(len(t[1]))]
            for f in t[1]:
                out += self.gen(f)
            return out
        if k == "e":
            n = r.choice(self.dict_sizes)
            if self.bad_at is not None and not self.made_bad and (t[1] in "sogh" or count_leaves(t[2], "sogh")):
                n = max(n, 1)
            entries = []
            keys = set()
            tries = 0
            while len(entries) < n and tries < 20:
                tries += 1
                kt = self.gen(("b", t[1]))
                if tuple(kt) in keys:
                    continue
                keys.add(tuple(kt))
                entries.append(kt + self.gen(t[2]))
            out = ["e", t[1], erased(t[2]), str(len(entries))]
            for e in entries:
                out += e
            return out
        if k == "v":
            return ["v", erased(t[1])] + self.gen(t[1])
        raise ValueError(t)


def gen_value(r, t, bad=False, dict_sizes=None):
    nleaves = count_leaves(t, "sogh")
    if bad and nleaves:
        # which leaf: the container sizes are random, so pick among the first few visited
        g = ValGen(r, bad_at=r.randrange(min(nleaves, 3)), dict_sizes=dict_sizes)
        toks = g.gen(t)
        return toks, g.made_bad
    return ValGen(r, dict_sizes=dict_sizes).gen(t), False


# ----------------------------------------------------------------------------- corruptions of encodings
def corruptions(r, buf, limit=24):
    """single-fault corruptions of a valid encoding (bytes): yields (kind, bytes)"""
    n = len(buf)
    out = []
    zero_pos = [i for i, b in enumerate(buf) if b == 0]
    for i in r.sample(zero_pos, min(len(zero_pos), 6)):
        b = bytearray(buf)
        b[i] = r.choice([1, 255, 0x80])
        out.append(("nonzero@%d" % i, bytes(b)))
    for _ in range(4):
        if n:
            i = r.randrange(n)
            b = bytearray(buf)
            b[i] = (b[i] + r.choice([1, 255, 4, 8, 128])) % 256
            out.append(("bump@%d" % i, bytes(b)))
    for _ in range(3):
        if n >= 4:
            i = r.randrange(0, n - 3) & ~3
            b = bytearray(buf)
            b[i:i + 4] = r.choice([b"\xff\xff\xff\xff", b"\x00\x00\x00\x04", b"\x01\x00\x00\x04", b"\x00\x00\x00\x00"])
            out.append(("len@%d" % i, bytes(b)))
    # length fields off by a few bytes (an array length that is not a whole number of elements, a string one
    # byte short/long): every 4-aligned u32 whose value is plausible as a length gets -1, -2, -3, +1
    cands = []
    for i in range(0, n - 3, 4):
        for order in ("little", "big"):
            v = int.from_bytes(buf[i:i + 4], order)
            if 1 <= v <= n:
                cands.append((i, order, v))
    for (i, order, v) in r.sample(cands, min(len(cands), 3)):
        d = r.choice([-1, -2, -3, 1, 2])
        if v + d >= 0:
            b = bytearray(buf)
            b[i:i + 4] = (v + d).to_bytes(4, order)
            out.append(("lenoff@%d" % i, bytes(b) + (bytes(4) if d > 0 else b"")))
    for k in sorted(set([0, 1, 2, 3, n // 2, n - 1, n - 2, n - 4] + [r.randrange(n + 1) for _ in range(3)])):
        if 0 <= k < n:
            out.append(("trunc@%d" % k, buf[:k]))
    for _ in range(2):
        if n:
            i = r.randrange(n)
            b = bytearray(buf)
            b[i] = r.choice([0xC0, 0xFF, 0x80, 0xED])
            out.append(("utf8@%d" % i, bytes(b)))
    out.append(("extend", buf + bytes([r.randrange(256)])))
    r.shuffle(out)
    # the off-by-a-few length corruptions are rare among the rest and find their own class of defects: keep them
    first = [x for x in out if x[0].startswith("lenoff")]
    rest = [x for x in out if not x[0].startswith("lenoff")]
    return (first + rest)[:max(limit, len(first))]


# ----------------------------------------------------------------------------- canonical form of value tokens
def parse_tokens(toks, pos=0):
    """value tokens -> (tree, next pos); tree: ('b', tag, payload) | ('a', sig, [..]) | ('r', [..]) | ('e', k, v, [(k,v)..]) | ('v', sig, x)"""
    tag = toks[pos]
    if tag == "a":
        sig, n = toks[pos + 1], int(toks[pos + 2])
        pos += 3
        items = []
        for _ in range(n):
            x, pos = parse_tokens(toks, pos)
            items.append(x)
        return ("a", sig, items), pos
    if tag == "r":
        n = int(toks[pos + 1])
        pos += 2
        items = []
        for _ in range(n):
            x, pos = parse_tokens(toks, pos)
            items.append(x)
        return ("r", items), pos
    if tag == "e":
        k, v, n = toks[pos + 1], toks[pos + 2], int(toks[pos + 3])
        pos += 4
        items = []
        for _ in range(n):
            a, pos = parse_tokens(toks, pos)
            b, pos = parse_tokens(toks, pos)
            items.append((a, b))
        return ("e", k, v, items), pos
    if tag == "v":
        sig = toks[pos + 1]
        x, pos = parse_tokens(toks, pos + 2)
        return ("v", sig, x), pos
    return ("b", tag, toks[pos + 1]), pos + 2


def print_tree(t, canonical):
    k = t[0]
    if k == "b":
        return [t[1], t[2]]
    if k == "a":
        out = ["a", t[1], str(len(t[2]))]
        for x in t[2]:
            out += print_tree(x, canonical)
        return out
    if k == "r":
        out = ["r", str(len(t[1]))]
        for x in t[1]:
            out += print_tree(x, canonical)
        return out
    if k == "e":
        entries = [(print_tree(a, canonical), print_tree(b, canonical)) for a, b in t[3]]
        if canonical:
            last = {}
            for a, b in entries:          # a map: the last occurrence of a key wins
                last[tuple(a)] = b
            entries = sorted(([list(a), b] for a, b in last.items()), key=lambda e: e[0] + e[1])
        out = ["e", t[1], t[2], str(len(entries))]
        for a, b in entries:
            out += list(a) + b
        return out
    return ["v", t[1]] + print_tree(t[2], canonical)


def canon(tokstr):
    """canonical form of a (sequence of) value(s): dict entries deduplicated (last wins) and sorted"""
    toks = tokstr.split()
    out = []
    pos = 0
    while pos < len(toks):
        t, pos = parse_tokens(toks, pos)
        out += print_tree(t, True)
    return " ".join(out)


def map_leaves(t, f):
    """apply f(tag, payload) -> payload to every base leaf of a parsed token tree"""
    k = t[0]
    if k == "b":
        return ("b", t[1], f(t[1], t[2]))
    if k == "a":
        return ("a", t[1], [map_leaves(x, f) for x in t[2]])
    if k == "r":
        return ("r", [map_leaves(x, f) for x in t[1]])
    if k == "e":
        return ("e", t[1], t[2], [(map_leaves(a, f), map_leaves(b, f)) for a, b in t[3]])
    return ("v", t[1], map_leaves(t[2], f))


def renumber_fds(toks, modulo):
    """descriptor leaves become wire indices 0,1,2.. (mod modulo) in order"""
    tree, _ = parse_tokens(list(toks), 0)
    counter = [0]

    def f(tag, payload):
        if tag == "h":
            counter[0] += 1
            return str((counter[0] - 1) % modulo)
        return payload
    return print_tree(map_leaves(tree, f), False)


def near_misses(t):
    """type trees that differ slightly from t (for 'requesting a type that does not match'): a struct with one more
    or one less field or one changed field, containers whose inner type is a near miss, another base type"""
    k = t[0]
    out = []
    if k == "b":
        out.append(("b", "u" if t[1] != "u" else "i"))
    elif k == "r":
        fields = t[1]
        out.append(("r", fields + [("b", "y")]))
        out.append(("r", fields + [fields[-1]]))
        if len(fields) > 1:
            out.append(("r", fields[:-1]))
            out.append(("r", fields[1:]))
        for i, f in enumerate(fields):
            for nm in near_misses(f)[:1]:
                out.append(("r", fields[:i] + [nm] + fields[i + 1:]))
    elif k == "a":
        for nm in near_misses(t[1])[:3]:
            out.append(("a", nm))
        out.append(("a", ("a", t[1])))
    elif k == "e":
        for nm in near_misses(t[2])[:2]:
            out.append(("e", t[1], nm))
        out.append(("e", "s" if t[1] != "s" else "u", t[2]))
        out.append(("a", ("r", [("b", t[1]), t[2]])))
    elif k == "v":
        out.append(("r", [("v", None)]))
    return out


def erase_variants(t):
    """type tree with static variant contents dropped (the D-Bus type)"""
    k = t[0]
    if k == "v":
        return ("v", None)
    if k == "a":
        return ("a", erase_variants(t[1]))
    if k == "r":
        return ("r", [erase_variants(x) for x in t[1]])
    if k == "e":
        return ("e", t[1], erase_variants(t[2]))
    return t
