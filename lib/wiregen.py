"""Generators for the wire checks (C01, C02, C03, C15, C16): catalogue types, boundary-biased values in
the token syntax of harness/src/wirelib.rs, unencodable values, corruptions of encodings.
Every random choice comes from the random.Random instance passed in."""
import os

HERE = os.path.dirname(os.path.dirname(os.path.abspath(__file__)))
BASES = "ybnqiuxtdhsog"


def catalogue():
    return [l.strip() for l in open(os.path.join(HERE, "gen", "catalogue.txt")) if l.strip()]


def catalogue_marshal_only():
    """types the crate can marshal but not unmarshal (5-tuples): MT, and RT with a dynamic read-back"""
    return [l.strip() for l in open(os.path.join(HERE, "gen", "catalogue_m.txt")) if l.strip()]


# flavour markers of gen/catalogue.py: another Rust type for the same D-Bus type (same tree, same tokens)
BASE_FLAVOUR = {"D": "d", "S": "s", "O": "o", "G": "g", "H": "h"}
ARRAY_FLAVOUR = "CRNB"
VARIANT_FLAVOUR = "V"


def flavours(name):
    """the flavour markers occurring in a catalogue name (for the input distribution)"""
    return sorted(set(c for c in name if c in BASE_FLAVOUR or c in ARRAY_FLAVOUR or c in VARIANT_FLAVOUR))


# ----------------------------------------------------------------------------- extended signatures
def parse_ext(s):
    """extended signature -> tree: ('b', c) | ('a', t) | ('r', [t..]) | ('e', k, t) | ('v', t); flavour markers are dropped"""
    t, rest = _parse(s)
    assert rest == "", s
    return t


def _parse(s):
    c = s[0]
    if c == "a":
        if s[1] == "{":
            k = BASE_FLAVOUR.get(s[2], s[2])
            v, rest = _parse(s[3:])
            assert rest[0] == "}"
            return ("e", k, v), rest[1:]
        if s[1] in ARRAY_FLAVOUR:
            s = s[1:]
        e, rest = _parse(s[1:])
        return ("a", e), rest
    if c == "(":
        parts = []
        rest = s[1:]
        while rest[0] != ")":
            p, rest = _parse(rest)
            parts.append(p)
        return ("r", parts), rest[1:]
    if c in "vV":
        if len(s) > 1 and s[1] == "[":
            inner, rest = _parse(s[2:])
            assert rest[0] == "]"
            return ("v", inner), rest[1:]
        return ("v", None), s[1:]
    return ("b", BASE_FLAVOUR.get(c, c)), s[1:]


def erased(t):
    """D-Bus signature of a type tree"""
    k = t[0]
    if k == "b":
        return t[1]
    if k == "a":
        return "a" + erased(t[1])
    if k == "r":
        return "(" + "".join(erased(x) for x in t[1]) + ")"
    if k == "e":
        return "a{" + t[1] + erased(t[2]) + "}"
    return "v"


def type_align(t):
    k = t[0]
    if k == "b":
        return {"y": 1, "b": 4, "n": 2, "q": 2, "i": 4, "u": 4, "x": 8, "t": 8, "d": 8, "h": 4, "s": 4, "o": 4, "g": 1}[t[1]]
    return {"a": 4, "e": 4, "r": 8, "v": 1}[k]


def depth_of(t):
    k = t[0]
    if k == "b":
        return 0
    if k in ("a", "v"):
        return 1 + (depth_of(t[1]) if t[1] else 0)
    if k == "e":
        return 1 + depth_of(t[2])
    return 1 + max(depth_of(x) for x in t[1])


# ----------------------------------------------------------------------------- values
def hx(b):
    return b.hex() if b else "-"


STRINGS = [b"", b"a", b"ab", b"abc", b"abcd", b"abcde", b"abcdefg", b"abcdefgh", "é".encode(), "€uro".encode(),
           "😀".encode(), b"with space", b"x" * 31, b"y" * 64]
PATHS = [b"/", b"/a", b"/a/b", b"/a_b/C9/d", b"/org/freedesktop/DBus", b"/x" * 9]
SIGS = [b"", b"y", b"s", b"ai", b"a{sv}", b"(ii)", b"a(ya{sv})", b"v", b"aaaa(tt)"]
BAD_STRINGS = [b"a\x00b", b"\x00", b"abc\x00"]
BAD_PATHS = [b"", b"a", b"/a/", b"//", b"/a-b", "/é".encode(), b"/a//b", b"a/b", b"/a b"]
# dict entries of the wrong shape: 3 / 4 / 1 / 0 types, a non-basic key, unclosed, an entry that is not the element of an array
# (bare, as a struct member, as the value of another entry), inside other containers. Their lengths differ from every entry of
# SIGS, so the same-length substitutions of the C03 corruption class sig-invalid can never make one.
DICT_BAD_SIGS = [b"a{sss}", b"a{ssss}", b"a{s(y)ay}", b"a{sayy}", b"a{yv(y)}", b"a{}", b"a{(y)s}", b"a{ays}", b"a{ss", b"a{sss", b"{ss}", b"{sss}",
                 b"a{s{ss}}", b"({ss})", b"(y{ss})", b"a({ss})", b"a{sa{sss}}", b"(ya{sss})", b"aa{sss}", b"ya{sss}", b"a{sss}y", b"a{ss}{ss}",
                 b"a{ss}}", b"a{{ss}s}"]
BAD_SIGS = [b"a", b"(", b"{sv}", b"()", b"a{vs}", b"z", b"a{s}", b"y" * 256] + DICT_BAD_SIGS


def gen_base(r, c, bad=None):
    """tokens for a base value; bad in (None, 'nul', 'path', 'sig', 'fd') produces an unencodable one where it applies"""
    if c == "y":
        return ["y", str(r.choice([0, 1, 127, 128, 255, r.randrange(256)]))]
    if c == "b":
        return ["b", str(r.randrange(2))]
    if c in "nq":
        return [c, str(r.choice([0, 1, 0x7FFF, 0x8000, 0xFFFF, r.randrange(1 << 16)]))]
    if c in "iu":
        return [c, str(r.choice([0, 1, 0x7FFFFFFF, 0x80000000, 0xFFFFFFFF, r.randrange(1 << 32)]))]
    if c in "xt":
        return [c, str(r.choice([0, 1, (1 << 63) - 1, 1 << 63, (1 << 64) - 1, r.randrange(1 << 64)]))]
    if c == "d":
        return ["d", str(r.choice([0, 1 << 63, 0x3FF8000000000000, 0x7FF8000000000001, 0x7FF0000000000000,
                                   0xFFF0000000000000, 0x7FF0000000000001, r.randrange(1 << 64)]))]
    if c == "h":
        return ["h", "1" if bad == "fd" else "0"]
    if c == "s":
        return ["s", hx(r.choice(BAD_STRINGS) if bad == "nul" else r.choice(STRINGS))]
    if c == "o":
        return ["o", hx(r.choice(BAD_PATHS) if bad == "path" else r.choice(PATHS))]
    if c == "g":
        return ["g", hx(r.choice(BAD_SIGS) if bad == "sig" else r.choice(SIGS))]
    raise ValueError(c)


BAD_KIND = {"s": "nul", "o": "path", "g": "sig", "h": "fd"}


def count_leaves(t, chars):
    k = t[0]
    if k == "b":
        return 1 if t[1] in chars else 0
    if k in ("a", "v"):
        return count_leaves(t[1], chars) if t[1] else 0
    if k == "e":
        return (1 if t[1] in chars else 0) + count_leaves(t[2], chars)
    return sum(count_leaves(x, chars) for x in t[1])


class ValGen:
    """generates one value of a type tree; if bad_at is not None, the bad_at-th text/fd leaf visited gets an
    unencodable content (containers on the way are forced non-empty)"""

    def __init__(self, r, bad_at=None, sizes=(0, 1, 1, 2, 2, 3), dict_sizes=None):
        self.r = r
        self.bad_at = bad_at
        self.seen = 0
        self.sizes = sizes
        self.dict_sizes = dict_sizes or sizes
        self.made_bad = False

    def gen(self, t):
        r = self.r
        k = t[0]
        if k == "b":
            bad = None
            if t[1] in BAD_KIND and self.bad_at is not None:
                if self.seen == self.bad_at and not self.made_bad:
                    bad = BAD_KIND[t[1]]
                    self.made_bad = True
                self.seen += 1
            return gen_base(r, t[1], bad)
        if k == "a":
            n = r.choice(self.sizes)
            if depth_of(t[1]) > 6:
                n = min(n, 1)              # 32 nested arrays with up to 3 elements each would be 3^32 values
            if self.bad_at is not None and not self.made_bad and count_leaves(t[1], "sogh"):
                n = max(n, 1)
            out = ["a", erased(t[1]), str(n)]
            for _ in range(n):
                out += self.gen(t[1])
            return out
        if k == "r":
            out = ["r", str(len(t[1]))]
            for f in t[1]:
                out += self.gen(f)
            return out
        if k == "e":
            n = r.choice(self.dict_sizes)
            if self.bad_at is not None and not self.made_bad and (t[1] in "sogh" or count_leaves(t[2], "sogh")):
                n = max(n, 1)
            entries = []
            keys = set()
            tries = 0
            while len(entries) < n and tries < 20:
                tries += 1
                kt = self.gen(("b", t[1]))
                if tuple(kt) in keys:
                    continue
                keys.add(tuple(kt))
                entries.append(kt + self.gen(t[2]))
            out = ["e", t[1], erased(t[2]), str(len(entries))]
            for e in entries:
                out += e
            return out
        if k == "v":
            return ["v", erased(t[1])] + self.gen(t[1])
        raise ValueError(t)


def gen_value(r, t, bad=False, dict_sizes=None):
    nleaves = count_leaves(t, "sogh")
    if bad and nleaves:
        # which leaf: the container sizes are random, so pick among the first few visited
        g = ValGen(r, bad_at=r.randrange(min(nleaves, 3)), dict_sizes=dict_sizes)
        toks = g.gen(t)
        return toks, g.made_bad
    return ValGen(r, dict_sizes=dict_sizes).gen(t), False


# ----------------------------------------------------------------------------- corruptions of encodings
def corruptions(r, buf, limit=24):
    """single-fault corruptions of a valid encoding (bytes): yields (kind, bytes)"""
    n = len(buf)
    out = []
    zero_pos = [i for i, b in enumerate(buf) if b == 0]
    for i in r.sample(zero_pos, min(len(zero_pos), 6)):
        b = bytearray(buf)
        b[i] = r.choice([1, 255, 0x80])
        out.append(("nonzero@%d" % i, bytes(b)))
    for _ in range(4):
        if n:
            i = r.randrange(n)
            b = bytearray(buf)
            b[i] = (b[i] + r.choice([1, 255, 4, 8, 128])) % 256
            out.append(("bump@%d" % i, bytes(b)))
    for _ in range(3):
        if n >= 4:
            i = r.randrange(0, n - 3) & ~3
            b = bytearray(buf)
            b[i:i + 4] = r.choice([b"\xff\xff\xff\xff", b"\x00\x00\x00\x04", b"\x01\x00\x00\x04", b"\x00\x00\x00\x00"])
            out.append(("len@%d" % i, bytes(b)))
    # length fields off by a few bytes (an array length that is not a whole number of elements, a string one
    # byte short/long): every 4-aligned u32 whose value is plausible as a length gets -1, -2, -3, +1
    cands = []
    for i in range(0, n - 3, 4):
        for order in ("little", "big"):
            v = int.from_bytes(buf[i:i + 4], order)
            if 1 <= v <= n:
                cands.append((i, order, v))
    for (i, order, v) in r.sample(cands, min(len(cands), 3)):
        d = r.choice([-1, -2, -3, 1, 2])
        if v + d >= 0:
            b = bytearray(buf)
            b[i:i + 4] = (v + d).to_bytes(4, order)
            out.append(("lenoff@%d" % i, bytes(b) + (bytes(4) if d > 0 else b"")))
    for k in sorted(set([0, 1, 2, 3, n // 2, n - 1, n - 2, n - 4] + [r.randrange(n + 1) for _ in range(3)])):
        if 0 <= k < n:
            out.append(("trunc@%d" % k, buf[:k]))
    for _ in range(2):
        if n:
            i = r.randrange(n)
            b = bytearray(buf)
            b[i] = r.choice([0xC0, 0xFF, 0x80, 0xED])
            out.append(("utf8@%d" % i, bytes(b)))
    out.append(("extend", buf + bytes([r.randrange(256)])))
    r.shuffle(out)
    # the off-by-a-few length corruptions are rare among the rest and find their own class of defects: keep them
    first = [x for x in out if x[0].startswith("lenoff")]
    rest = [x for x in out if not x[0].startswith("lenoff")]
    return (first + rest)[:max(limit, len(first))]


# ----------------------------------------------------------------------------- canonical form of value tokens
def parse_tokens(toks, pos=0):
    """value tokens -> (tree, next pos); tree: ('b', tag, payload) | ('a', sig, [..]) | ('r', [..]) | ('e', k, v, [(k,v)..]) | ('v', sig, x)"""
    tag = toks[pos]
    if tag == "a":
        sig, n = toks[pos + 1], int(toks[pos + 2])
        pos += 3
        items = []
        for _ in range(n):
            x, pos = parse_tokens(toks, pos)
            items.append(x)
        return ("a", sig, items), pos
    if tag == "r":
        n = int(toks[pos + 1])
        pos += 2
        items = []
        for _ in range(n):
            x, pos = parse_tokens(toks, pos)
            items.append(x)
        return ("r", items), pos
    if tag == "e":
        k, v, n = toks[pos + 1], toks[pos + 2], int(toks[pos + 3])
        pos += 4
        items = []
        for _ in range(n):
            a, pos = parse_tokens(toks, pos)
            b, pos = parse_tokens(toks, pos)
            items.append((a, b))
        return ("e", k, v, items), pos
    if tag == "v":
        sig = toks[pos + 1]
        x, pos = parse_tokens(toks, pos + 2)
        return ("v", sig, x), pos
    return ("b", tag, toks[pos + 1]), pos + 2


def print_tree(t, canonical):
    k = t[0]
    if k == "b":
        return [t[1], t[2]]
    if k == "a":
        out = ["a", t[1], str(len(t[2]))]
        for x in t[2]:
            out += print_tree(x, canonical)
        return out
    if k == "r":
        out = ["r", str(len(t[1]))]
        for x in t[1]:
            out += print_tree(x, canonical)
        return out
    if k == "e":
        entries = [(print_tree(a, canonical), print_tree(b, canonical)) for a, b in t[3]]
        if canonical:
            last = {}
            for a, b in entries:          # a map: the last occurrence of a key wins
                last[tuple(a)] = b
            entries = sorted(([list(a), b] for a, b in last.items()), key=lambda e: e[0] + e[1])
        out = ["e", t[1], t[2], str(len(entries))]
        for a, b in entries:
            out += list(a) + b
        return out
    return ["v", t[1]] + print_tree(t[2], canonical)


def canon(tokstr):
    """canonical form of a (sequence of) value(s): dict entries deduplicated (last wins) and sorted"""
    toks = tokstr.split()
    out = []
    pos = 0
    while pos < len(toks):
        t, pos = parse_tokens(toks, pos)
        out += print_tree(t, True)
    return " ".join(out)


def map_leaves(t, f):
    """apply f(tag, payload) -> payload to every base leaf of a parsed token tree"""
    k = t[0]
    if k == "b":
        return ("b", t[1], f(t[1], t[2]))
    if k == "a":
        return ("a", t[1], [map_leaves(x, f) for x in t[2]])
    if k == "r":
        return ("r", [map_leaves(x, f) for x in t[1]])
    if k == "e":
        return ("e", t[1], t[2], [(map_leaves(a, f), map_leaves(b, f)) for a, b in t[3]])
    return ("v", t[1], map_leaves(t[2], f))


def count_tag(toks, tag):
    """number of base leaves with this tag in a value's tokens"""
    n = [0]

    def f(t, payload):
        if t == tag:
            n[0] += 1
        return payload
    map_leaves(parse_tokens(list(toks), 0)[0], f)
    return n[0]


def replace_leaf(toks, tag, which, payload):
    """the tokens with the payload of the which-th leaf (wire order) of this tag replaced"""
    n = [0]

    def f(t, old):
        if t == tag:
            n[0] += 1
            if n[0] - 1 == which:
                return payload
        return old
    return print_tree(map_leaves(parse_tokens(list(toks), 0)[0], f), False)


def _variant_positions(toks):
    """indices of the `v` tokens that open a variant (not an element-type / signature operand)"""
    out = []

    def walk(pos):
        tag = toks[pos]
        if tag == "a":
            n = int(toks[pos + 2])
            pos += 3
            for _ in range(n):
                pos = walk(pos)
            return pos
        if tag == "r":
            n = int(toks[pos + 1])
            pos += 2
            for _ in range(n):
                pos = walk(pos)
            return pos
        if tag == "e":
            n = int(toks[pos + 3])
            pos += 4
            for _ in range(2 * n):
                pos = walk(pos)
            return pos
        if tag == "v":
            out.append(pos)
            return walk(pos + 2)
        return pos + 2
    pos = 0
    while pos < len(toks):
        pos = walk(pos)
    return out


def renumber_fds(toks, modulo):
    """descriptor leaves become wire indices 0,1,2.. (mod modulo) in order"""
    tree, _ = parse_tokens(list(toks), 0)
    counter = [0]

    def f(tag, payload):
        if tag == "h":
            counter[0] += 1
            return str((counter[0] - 1) % modulo)
        return payload
    return print_tree(map_leaves(tree, f), False)


def near_misses(t):
    """type trees that differ slightly from t (for 'requesting a type that does not match'): a struct with one more
    or one less field or one changed field, containers whose inner type is a near miss, another base type"""
    k = t[0]
    out = []
    if k == "b":
        out.append(("b", "u" if t[1] != "u" else "i"))
    elif k == "r":
        fields = t[1]
        out.append(("r", fields + [("b", "y")]))
        out.append(("r", fields + [fields[-1]]))
        if len(fields) > 1:
            out.append(("r", fields[:-1]))
            out.append(("r", fields[1:]))
        for i, f in enumerate(fields):
            for nm in near_misses(f)[:1]:
                out.append(("r", fields[:i] + [nm] + fields[i + 1:]))
    elif k == "a":
        for nm in near_misses(t[1])[:3]:
            out.append(("a", nm))
        out.append(("a", ("a", t[1])))
    elif k == "e":
        for nm in near_misses(t[2])[:2]:
            out.append(("e", t[1], nm))
        out.append(("e", "s" if t[1] != "s" else "u", t[2]))
        out.append(("a", ("r", [("b", t[1]), t[2]])))
    elif k == "v":
        out.append(("r", [("v", None)]))
    return out


def erase_variants(t):
    """type tree with static variant contents dropped (the D-Bus type)"""
    k = t[0]
    if k == "v":
        return ("v", None)
    if k == "a":
        return ("a", erase_variants(t[1]))
    if k == "r":
        return ("r", [erase_variants(x) for x in t[1]])
    if k == "e":
        return ("e", t[1], erase_variants(t[2]))
    return t


# ----------------------------------------------------------------------------- layout of an encoding (to aim corruptions)
ALIGN_OF_CHAR = {"y": 1, "b": 4, "n": 2, "q": 2, "i": 4, "u": 4, "x": 8, "t": 8, "d": 8, "h": 4, "s": 4, "o": 4, "g": 1,
                 "a": 4, "(": 8, "v": 1, "{": 8}


class Layout:
    """A plain encoder of value tokens that remembers where the padding bytes, length fields, boolean values, string
    bodies, terminators and variant signatures are: marks = [(kind, position in buf, length)].  It is used ONLY to aim
    corruptions; the caller compares .buf with the bytes of the extracted specification and drops the marks when they
    differ (so a mistake here can cost coverage, never a verdict)."""

    def __init__(self, be, off):
        self.order = "big" if be else "little"
        self.off = off
        self.buf = bytearray()
        self.marks = []

    def pad(self, a):
        while (self.off + len(self.buf)) % a:
            self.marks.append(("pad", len(self.buf), 1))
            self.buf.append(0)

    def num(self, v, width):
        self.pad(width)
        self.buf += int(v).to_bytes(width, self.order)

    def enc(self, t):
        k = t[0]
        if k == "b":
            tag, p = t[1], t[2]
            if tag == "y":
                self.buf.append(int(p))
            elif tag == "b":
                self.pad(4)
                self.marks.append(("bool", len(self.buf), 4))
                self.num(p, 4)
            elif tag in "nq":
                self.num(p, 2)
            elif tag in "iuh":
                self.pad(4)
                if tag == "h":
                    self.marks.append(("fd", len(self.buf), 4))
                self.num(p, 4)
            elif tag in "xtd":
                self.num(p, 8)
            elif tag in "so":
                data = bytes.fromhex(p) if p != "-" else b""
                self.pad(4)
                self.marks.append(("slen", len(self.buf), 4))
                self.num(len(data), 4)
                if data:
                    self.marks.append(("sbody", len(self.buf), len(data)))
                    if tag == "o":
                        self.marks.append(("opath", len(self.buf), len(data)))
                self.buf += data
                self.marks.append(("term", len(self.buf), 1))
                self.buf.append(0)
            elif tag == "g":
                data = bytes.fromhex(p) if p != "-" else b""
                self.marks.append(("glen", len(self.buf), 1))
                self.buf.append(len(data) % 256)
                if data:
                    self.marks.append(("sbody", len(self.buf), len(data)))
                    self.marks.append(("gsig", len(self.buf), len(data)))
                self.buf += data
                self.marks.append(("term", len(self.buf), 1))
                self.buf.append(0)
            else:
                raise ValueError(tag)
        elif k in ("a", "e"):
            self.pad(4)
            lp = len(self.buf)
            self.marks.append(("alen", lp, 4))
            self.buf += bytes(4)
            self.pad(8 if k == "e" else ALIGN_OF_CHAR[t[1][0]])
            start = len(self.buf)
            if k == "a":
                for x in t[2]:
                    self.enc(x)
            else:
                for a, b in t[3]:
                    self.pad(8)
                    self.enc(a)
                    self.enc(b)
            self.buf[lp:lp + 4] = (len(self.buf) - start).to_bytes(4, self.order)
        elif k == "r":
            self.pad(8)
            for x in t[1]:
                self.enc(x)
        elif k == "v":
            sig = t[1].encode()
            self.marks.append(("vsig", len(self.buf), len(sig) + 2))
            self.buf.append(len(sig))
            self.buf += sig
            self.buf.append(0)
            self.enc(t[2])
        else:
            raise ValueError(t)


def layout(be, off, toks):
    lay = Layout(be, off)
    pos = 0
    toks = list(toks)
    while pos < len(toks):
        tree, pos = parse_tokens(toks, pos)
        lay.enc(tree)
    return bytes(lay.buf), lay.marks


SIGS_BY_ALIGN = {1: ["y", "g", "v"], 2: ["n", "q"], 4: ["u", "i", "b", "s", "o", "ay", "as", "a{sv}"], 8: ["t", "x", "d", "(yy)", "(t)"]}
CORRUPTION_CLASSES = ["pad-nonzero", "len-1", "len+1", "len-4", "len+4", "len-8", "len+8", "len=2^26+1", "bool=2", "bool-other", "nul-in-string",
                      "terminator-nonzero", "path-invalid", "sig-invalid", "sig-dict-entry", "fd-index=count", "fd-index=count+1", "fd-index=2^31", "fd-index=2^32-1", "siglen+-1", "vsig-same-align", "vsig-other-align", "vsig-two-types", "vsig-empty", "vsig-invalid", "vsig-dict-entry",
                      "nonzero", "bump", "len", "lenoff", "trunc", "utf8", "extend"]


def aimed_corruptions(r, be, off, toks, enc, extra=6, all_padding=False, nfds=0):
    """single-fault corruptions of the valid encoding `enc` (= the specification's bytes of `toks` at offset `off`): one of
    EVERY class that applies to this value (CORRUPTION_CLASSES; aimed with the layout marks), plus `extra` of the untargeted
    ones of corruptions().  Yields (class, bytes)."""
    order = "big" if be else "little"
    out = []
    try:
        lb, marks = layout(be, off, toks)
    except Exception:
        lb, marks = None, []
    if lb != enc:
        marks = []                # never aim with a layout that is not the specification's
        out.append(("layout-differs", enc))
    by = {}
    for m in marks:
        by.setdefault(m[0], []).append(m)

    def put(kind, pos, new, tail=b""):
        b = bytearray(enc)
        b[pos:pos + len(new)] = new
        out.append((kind, bytes(b) + tail))

    # ---- padding: every padding position (or a sample of 4 per value), one byte non-zero
    pads = by.get("pad", [])
    for (_, p, _) in (pads if all_padding or len(pads) <= 4 else r.sample(pads, 4)):
        put("pad-nonzero", p, bytes([r.choice([1, 255, 0x80, r.randrange(1, 256)])]))
    # ---- length fields of arrays/dicts and strings
    lens = by.get("alen", []) + by.get("slen", [])
    if lens:
        for name, d in (("len-1", -1), ("len+1", 1), ("len-4", -4), ("len+4", 4), ("len-8", -8), ("len+8", 8)):
            # prefer a field where the result is not negative
            cands = [m for m in lens if int.from_bytes(enc[m[1]:m[1] + 4], order) + d >= 0]
            if not cands:
                continue
            (_, p, _) = r.choice(cands)
            v = int.from_bytes(enc[p:p + 4], order) + d
            # half of the enlarged lengths get the bytes they ask for (zeros or copies of the last bytes)
            tail = b""
            if d > 0 and r.random() < 0.5:
                tail = r.choice([bytes(d), enc[-d:] if len(enc) >= d else bytes(d)])
            put(name, p, v.to_bytes(4, order), tail)
        (_, p, _) = r.choice(lens)
        put("len=2^26+1", p, ((1 << 26) + 1).to_bytes(4, order))
    # ---- booleans
    for (_, p, _) in r.sample(by.get("bool", []), min(2, len(by.get("bool", [])))):
        put("bool=2", p, (2).to_bytes(4, order))
        put("bool-other", p, r.choice([3, 255, 256, 1 << 24, 0xFFFFFFFF, 0x01000001]).to_bytes(4, order))
    # ---- text
    bodies = by.get("sbody", [])
    if bodies:
        (_, p, n) = r.choice(bodies)
        put("nul-in-string", p + r.randrange(n), b"\x00")
    terms = by.get("term", [])
    if terms:
        (_, p, _) = r.choice(terms)
        put("terminator-nonzero", p, bytes([r.choice([1, 0x61, 255])]))
    # ---- the CONTENT of an object path / signature leaf: same length, terminator in place, text invalid
    paths = by.get("opath", [])
    if paths:
        (_, p, n) = r.choice(paths)
        body = bytearray(enc[p:p + n])
        how = r.choice(["no-slash", "trailing-slash", "double-slash", "bad-char"]) if n >= 3 else r.choice(["no-slash", "trailing-slash"])
        if how == "no-slash":
            body[0] = 0x61
        elif how == "trailing-slash" and n >= 2:
            body[n - 1] = 0x2F
        elif how == "double-slash":
            i = r.randrange(0, n - 1)
            body[i] = body[i + 1] = 0x2F
            body[n - 1] = 0x2F if i + 1 == n - 1 else body[n - 1]
        else:
            body[r.randrange(1, n) if n > 1 else 0] = r.choice([0x2D, 0x2E, 0x20, 0x40])
        if bytes(body) != enc[p:p + n]:
            put("path-invalid", p, bytes(body))
    gs = by.get("gsig", [])
    if gs:
        (_, p, n) = r.choice(gs)
        body = bytearray(enc[p:p + n])
        how = r.choice(["unknown-code", "all-arrays", "open-struct", "close-first"])
        if how == "unknown-code":
            body[r.randrange(n)] = r.choice([0x7A, 0x7B, 0x21, 0x65, 0x72, 0x6D])       # z { ! e r m
        elif how == "all-arrays":
            body[:] = b"a" * n
        elif how == "open-struct":
            body[n - 1] = 0x28
        else:
            body[0] = 0x29
        if bytes(body) != enc[p:p + n]:
            put("sig-invalid", p, bytes(body))
    # ---- descriptor indices at and beyond the message's descriptor count
    fds = by.get("fd", [])
    if fds:
        for name, v in (("fd-index=count", nfds), ("fd-index=count+1", nfds + 1), ("fd-index=2^31", 1 << 31), ("fd-index=2^32-1", (1 << 32) - 1)):
            (_, p, _) = r.choice(fds)
            put(name, p, v.to_bytes(4, order))
    glens = by.get("glen", []) + [("glen", m[1], 1) for m in by.get("vsig", [])]
    if glens:
        (_, p, _) = r.choice(glens)
        put("siglen+-1", p, bytes([(enc[p] + r.choice([1, 255])) % 256]))
    # ---- variant signatures: replaced (the value bytes stay)
    vs = by.get("vsig", [])
    if vs:
        def splice(kind, m, newsig):
            (_, p, n) = m
            out.append((kind, enc[:p] + bytes([len(newsig)]) + newsig + b"\x00" + enc[p + n:]))
        for kind in ("vsig-same-align", "vsig-other-align", "vsig-two-types", "vsig-empty", "vsig-invalid"):
            m = r.choice(vs)
            cur = enc[m[1] + 1:m[1] + m[2] - 1].decode("latin-1")
            al = ALIGN_OF_CHAR.get(cur[:1], 1)
            if kind == "vsig-same-align":
                cands = [s for s in SIGS_BY_ALIGN[al] if s != cur]
                splice(kind, m, r.choice(cands).encode())
            elif kind == "vsig-other-align":
                cands = [s for a2, l in SIGS_BY_ALIGN.items() if a2 != al for s in l]
                splice(kind, m, r.choice(cands).encode())
            elif kind == "vsig-two-types":
                splice(kind, m, r.choice([cur + cur, cur + "y", "yy", "y" + cur, "uu"]).encode())
            elif kind == "vsig-empty":
                splice(kind, m, b"")
            else:
                splice(kind, m, r.choice([b"a", b"(", b"z", b"{sv}", b"()", b"a{vs}", b"(y", cur.encode() + b")"]))
    # ---- a signature leaf / a variant's signature replaced by a dict entry of the wrong shape (DICT_BAD_SIGS). The length of the text
    # changes, so the value is encoded again by Layout (used only when it reproduced the specification's bytes of the original): every
    # length field and padding byte around the leaf stays right and the signature text is the single fault
    if marks:
        toks = list(toks)
        ng = count_tag(toks, "g")
        if ng:
            bad = r.choice(DICT_BAD_SIGS)
            out.append(("sig-dict-entry", layout(be, off, replace_leaf(toks, "g", r.randrange(ng), hx(bad)))[0]))
        vpos = _variant_positions(toks)
        if vpos:
            t2 = list(toks)
            t2[r.choice(vpos) + 1] = r.choice(DICT_BAD_SIGS).decode()
            out.append(("vsig-dict-entry", layout(be, off, t2)[0]))
    # ---- the untargeted ones
    for kind, b in corruptions(r, enc, limit=extra):
        out.append((kind.split("@")[0], b))
    return out


# ----------------------------------------------------------------------------- values beyond the reach of ValGen
def catalogue_deep():
    return [l.strip() for l in open(os.path.join(HERE, "gen", "catalogue_deep.txt")) if l.strip()]


def _arr(esig, items):
    out = ["a", esig, str(len(items))]
    for it in items:
        out += it
    return out


def _text(n, r, multibyte=False):
    """n bytes of valid UTF-8 without NUL"""
    if multibyte and n >= 2:
        body = ("é" * (n // 2)).encode()
        return body + b"z" * (n - len(body))
    return bytes(r.choice(b"abcdefghijklmnopqrstuvwxyz0123456789 ") for _ in range(n))


def big_cases(r, thorough):
    """Values ValGen cannot reach (it stops at 3 elements, 64-byte strings, < 1 KiB): length fields >= 64 KiB (with 8-byte
    elements: the extracted model appends to lists, one-byte elements would be quadratic), strings around 2^8 and 2^16
    bytes, 64 / 65 / 100 variants (or other containers) inside ONE array / dict, and legal nesting up to the limits.
    Returns [(class, type name (catalogue, deep or marshal-only list), tokens)]; the caller picks byte orders and offsets."""
    out = []

    def w64(tag):
        return [tag, str(r.choice([0, 1, (1 << 63) - 1, 1 << 63, (1 << 64) - 1, 0x7FF8000000000001, r.randrange(1 << 64)]))]

    # ---- length field >= 2^16, few large elements (cheap for the extracted model, which appends to lists): arrays / dicts of
    # 7000..9000-byte strings with 65536+ bytes of content, on the element-wise path in both byte orders
    def long_s():
        return ["s", hx(_text(r.choice([7000, 8192, 9000]), r, multibyte=r.random() < 0.2))]
    large = [("as", lambda: _arr("s", [long_s() for _ in range(10)])),
             ("a{ss}", lambda: ["e", "s", "s", "5"] + [x for i in range(5) for x in (["s", hx(b"k%d" % i + _text(7000, r))] + long_s())]),
             ("a(ys)", lambda: _arr("(ys)", [["r", "2", "y", str(i)] + long_s() for i in range(10)])),
             ("aS", lambda: _arr("s", [long_s() for _ in range(10)])),
             ("aCs", lambda: _arr("s", [long_s() for _ in range(10)])),
             ("aNs", lambda: _arr("s", [long_s() for _ in range(r.choice([8, 10]))])),
             ("aRs", lambda: _arr("s", [long_s() for _ in range(10)])),
             ("aas", lambda: _arr("as", [_arr("s", [long_s() for _ in range(9)]), _arr("s", [])])),
             ("av[s]", lambda: _arr("v", [["v", "s"] + long_s() for _ in range(10)])),
             ("a{sv[s]}", lambda: ["e", "s", "v", "9"] + [x for i in range(9) for x in (["s", hx(b"key%d" % i), "v", "s"] + long_s())])]
    for ty, f in (large if thorough else large[:3] + r.sample(large[3:], 2)):
        out.append(("len>=64KiB/large-elements", ty, f()))
    # ---- length field >= 2^16 (8192 elements of 8 bytes = 65536 bytes exactly; the byte above bit 16 is exercised): the memcpy
    # path in the native byte order, element-wise otherwise (there the extracted model is too slow: see model_cheap)
    fixed = [("at", "t", "t"), ("aD", "d", "d"), ("aCt", "t", "t"), ("ax", "x", "x"), ("ad", "d", "d"), ("aNt", "t", "t"),
             ("aRt", "t", "t"), ("aCD", "d", "d"), ("aCx", "x", "x"), ("aND", "d", "d")]
    picks = fixed if thorough else fixed[:3] + r.sample(fixed[3:], 1)
    for ty, esig, tag in picks:
        n = r.choice([8192, 8193, 8200, 8750, 16385])
        out.append(("len>=64KiB/8-byte-elements", ty, _arr(esig, [w64(tag) for _ in range(n)])))
    n = r.choice([4096, 4097, 5000])
    out.append(("len>=64KiB/8-byte-elements", "a(tt)", _arr("(tt)", [["r", "2"] + w64("t") + w64("t") for _ in range(n)])))
    out.append(("len>=64KiB/8-byte-elements", "(yat)", ["r", "2", "y", "7"] + _arr("t", [w64("t") for _ in range(8192)])))
    if thorough:
        # byte 3 of a length field: 3 strings of 6 MiB in one array. No extracted function is run on this value (see model_cheap):
        # it is judged by the plain encoder Layout, which every run compares byte for byte with the specification on all other values
        out.append(("len>=16MiB", r.choice(["as", "aCs", "aRs"]), _arr("s", [["s", hx(_text(1, r) * (6 << 20))] for _ in range(3)])))
        keys = r.sample(range(1 << 40), 4100)
        out.append(("len>=64KiB/8-byte-elements", "a{tt}", ["e", "t", "t", "4100"] + [x for k in keys for x in (["t", str(k)] + w64("t"))]))
        out.append(("len>=64KiB/8-byte-elements", "aat", _arr("at", [_arr("t", [w64("t") for _ in range(n)]) for n in (8192, 0, 8193)])))
        out.append(("len>=64KiB/8-byte-elements", "v[at]", ["v", "at"] + _arr("t", [w64("t") for _ in range(8200)])))
    # ---- strings around 2^8 and 2^16 bytes
    lens = [255, 256, 257, 65535, 65536, 70000]
    for n in (lens if thorough else [255, 256, 257, r.choice([65535, 65536]), 70000]):
        ty = r.choice(["s", "S", "(ys)", "v[s]", "(Sy)"]) if n > 300 else r.choice(["s", "S", "(ys)", "as", "a{ss}", "v[S]", "(ySq)"])
        s = ["s", hx(_text(n, r, multibyte=r.random() < 0.3))]
        toks = {"s": s, "S": s, "(ys)": ["r", "2", "y", "1"] + s, "(Sy)": ["r", "2"] + s + ["y", "1"], "v[s]": ["v", "s"] + s, "v[S]": ["v", "s"] + s,
                "as": _arr("s", [s, ["s", "61"], s]), "a{ss}": ["e", "s", "s", "1"] + s + s, "(ySq)": ["r", "3", "y", "1"] + s + ["q", "513"]}[ty]
        out.append(("string~2^%d" % (8 if n < 300 else 16), ty, toks))
    out.append(("string~2^8", "o", ["o", hx(b"/ab" * 85 + b"/c")]))           # 257 bytes
    out.append(("string~2^8", "g", ["g", hx(b"y" * 255)]))                     # the longest signature
    out.append(("string~2^8", "(yGq)", ["r", "3", "y", "1", "g", hx(b"ai" * 127), "q", "2"]))
    out.append(("string~2^8", "aBy", _arr("y", [["y", str(i % 256)] for i in range(r.choice([255, 256, 257, 300]))])))
    out.append(("string~2^8", "ay", _arr("y", [["y", str(i % 251)] for i in range(r.choice([255, 256, 257, 700]))])))
    # ---- many containers in one context: 64, 65, 100 entries each entering (at least) one container
    many = [("av[t]", lambda i: ["v", "t"] + w64("t"), "v"),
            ("a{sv[s]}", None, None),
            ("a(yv[at])", lambda i: ["r", "2", "y", str(i % 256), "v", "at"] + _arr("t", [w64("t")] * (i % 3)), "(yv)"),
            ("aCv[t]", lambda i: ["v", "t"] + w64("t"), "v"),
            ("aRv[s]", lambda i: ["v", "s", "s", hx(b"v%d" % i)], "v"),
            ("aNv[y]", lambda i: ["v", "y", "y", str(i % 256)], "v"),
            ("aav[t]", None, None),
            ("a{sv[a{sv[y]}]}", None, None),
            ("aat", lambda i: _arr("t", [w64("t")] * (i % 2)), "at"),
            ("a(ys)", lambda i: ["r", "2", "y", str(i % 256), "s", hx(b"s%d" % i)], "(ys)")]
    sizes = [64, 65, 100] if thorough else [r.choice([64, 65]), r.choice([65, 100])]
    for ty, f, esig in (many if thorough else many[:3] + r.sample(many[3:], 3)):
        for n in sizes if thorough else [r.choice(sizes)]:
            if ty == "a{sv[s]}":
                toks = ["e", "s", "v", str(n)] + [x for i in range(n) for x in ["s", hx(b"key%03d" % i), "v", "s", "s", hx(b"val%d" % i)]]
            elif ty == "aav[t]":
                toks = _arr("av", [_arr("v", [["v", "t"] + w64("t") for _ in range(n)]), _arr("v", [["v", "t"] + w64("t") for _ in range(3)])])
            elif ty == "a{sv[a{sv[y]}]}":
                toks = ["e", "s", "v", str(n)] + [x for i in range(n) for x in
                                                   ["s", hx(b"k%03d" % i), "v", "a{sv}", "e", "s", "v", "1", "s", "69", "v", "y", "y", str(i % 256)]]
            else:
                toks = _arr(esig, [f(i) for i in range(n)])
            out.append(("containers>=64", ty, toks))
    # ---- legal nesting up to the limits: one element per level
    for ty in (catalogue_deep() if thorough else r.sample(catalogue_deep(), 4)):
        out.append(("deep", ty, ValGen(r, sizes=(1,), dict_sizes=(1,)).gen(parse_ext(ty))))
    return out


# ----------------------------------------------------------------------------- arrays at the protocol maximum (made inside the harness)
MAX_ARRAY = 1 << 26


def giant_shapes(r):
    """[(class, shape)]: arrays whose value is made inside the harness from a descriptor (harness/src/bin/wire.rs, giant()): `ay n`
    (byte i = i mod 251), `at n` (element i = i), `as count len lastlen` (string j = the letter a + j mod 26 repeated). Content of
    exactly 2^26 bytes (the protocol maximum: accepted), the smallest content above it (refused), and 16 MiB < content < 64 MiB (the top
    byte of the length field is not zero; strings of 1 MiB keep the element count small for the dynamic API)."""
    mib = 1 << 20
    k = r.choice([17, 33, 50])
    return [("array=2^26", ("ay", MAX_ARRAY)), ("array>2^26", ("ay", MAX_ARRAY + 1)),
            ("array=2^26", ("at", MAX_ARRAY // 8)), ("array>2^26", ("at", MAX_ARRAY // 8 + 1)),
            # 64 strings: 4 + (2^20 - 8) + 1 bytes and 3 of padding each, the last one 4 + (2^20 - 5) + 1 = 2^20: 2^26 in all
            ("array=2^26", ("as", 64, mib - 8, mib - 5)), ("array>2^26", ("as", 64, mib - 8, mib - 4)),
            ("array>=16MiB", ("at", 2 * mib + r.choice([1, 2, 1000]))), ("array>=16MiB", ("as", k, mib - 8, r.choice([mib - 8, 5, 0])))]


_giant_cache = {}


def giant_spec(shape, be):
    """(content bytes, length of the encoding at offset 0, crc32 of the encoding) by a plain encoder written from the D-Bus
    specification: u32 length, padding to the element alignment, the elements (strings: u32 length, text, NUL, aligned to 4)"""
    import zlib
    key = (shape, be)
    if key in _giant_cache:
        return _giant_cache[key]
    order = "big" if be else "little"
    if shape[0] == "ay":
        pat = bytes(range(251))
        content = (pat * (shape[1] // 251 + 1))[:shape[1]]
        head = b""
    elif shape[0] == "at":
        import array
        import sys
        arr = array.array("Q", range(shape[1]))
        assert arr.itemsize == 8
        if (sys.byteorder == "big") != be:
            arr.byteswap()
        content = arr.tobytes()
        head = bytes(4)
    else:
        _, count, ln, last = shape
        parts = []
        pos = 4
        for j in range(count):
            n = last if j + 1 == count else ln
            padn = -pos % 4
            piece = bytes(padn) + n.to_bytes(4, order) + bytes([97 + j % 26]) * n + b"\x00"
            parts.append(piece)
            pos += len(piece)
        content = b"".join(parts)
        head = b""
    enc = len(content).to_bytes(4, order) + head + content
    out = (len(content), len(enc), "%08x" % (zlib.crc32(enc) & 0xFFFFFFFF))
    _giant_cache[key] = out
    return out


def giant_desc(shape):
    return " ".join(str(x) for x in shape)


def giant_lines(r, op):
    """[(class, shape, be, what runs, line)] for op XM / XR (typed push_param of &[u8] / &[u64] / &[&str] - the memcpy path for ay and
    native-order at, element by element otherwise - and push_old_param of a Param array of strings) or XD (validate_raw, typed decoder,
    dynamic decoder), every shape in both byte orders; the Param API only for arrays of strings (2^23 Param values would need gigabytes)"""
    out = []
    for cls, shape in giant_shapes(r):
        for bo in ("le", "be"):
            apis = ["typed"] + (["param"] if shape[0] == "as" else []) if op != "XD" else ["vr", "ut"] + (["up"] if shape[0] == "as" else [])
            for api in apis:
                out.append((cls, shape, bo == "be", api, "%s %s %s %s" % (op, api, bo, giant_desc(shape))))
    return out


FIXED_WIDTH = "ynqiuxtd"


def model_cheap(op, bo, toks):
    """whether the extracted model can run this line in reasonable time. It appends to lists and recomputes lengths, so
    element-wise work over thousands of elements takes minutes (8192 u64 marshalled one by one: 3 minutes; raw validation
    of 4096 structs: 80 s), while the memcpy path of the native byte order, raw validation of fixed-width arrays (one
    length check), long strings and the specification encoder are linear. toks = the value (for a decoder line: the value
    the bytes were made from)."""
    if sum(len(x) for x in toks) > 4000000:
        return False          # megabytes of payload: even the specification encoder needs gigabytes and minutes on N lists
    if len(toks) < 3000 or op == "SE":
        return True
    tree, _ = parse_tokens(list(toks), 0)
    bad = [False]

    def walk(t):
        k = t[0]
        if k == "a":
            if len(t[2]) > 1000:
                fixed = t[1] in FIXED_WIDTH
                if op == "VR":
                    bad[0] = bad[0] or not fixed
                elif op in ("MT", "RT", "UT"):
                    bad[0] = bad[0] or not (fixed and bo == "le")
                else:
                    bad[0] = True
            for x in t[2]:
                walk(x)
        elif k == "e":
            if len(t[3]) > 1000:
                bad[0] = True
            for _, x in t[3]:
                walk(x)
        elif k == "r":
            for x in t[1]:
                walk(x)
        elif k == "v":
            walk(t[2])
    walk(tree)
    return not bad[0]


def run_each(exe, lines, robust=False, chunk=1, timeout=1800):
    """vlib.par_run_lines with a fixed small chunk size (the big lines are few and expensive)"""
    import concurrent.futures as cf
    import vlib
    if not lines:
        return True, [], ""
    chunks = [lines[i:i + chunk] for i in range(0, len(lines), chunk)]

    def one(ch):
        import time
        t0 = time.time()
        try:
            if robust:
                good, o, e = vlib.run_lines_robust(exe, [], ch, timeout)
                return good and len(o) == len(ch), o, e
            rc, o, e = vlib.run_lines(exe, [], ch, timeout)
            return rc == 0 and len(o) == len(ch), o, e
        finally:
            if os.environ.get("WIREGEN_TIMING") and time.time() - t0 > 2:
                import sys
                sys.stderr.write("run_each %.1fs %s\n" % (time.time() - t0, " | ".join(l[:70] for l in ch)))
    outs, errs, ok = [], [], True
    with cf.ThreadPoolExecutor(min(len(chunks), vlib.NPROC)) as ex:
        for good, o, e in ex.map(one, chunks):
            if not good:
                ok = False
                errs.append(e[-1500:])
            outs += o
    return ok, outs, "\n".join(errs)


# ----------------------------------------------------------------------------- inconsistent Param trees (C02)
def tree_sig(t):
    """the signature params::Param::sig() computes for a tree: containers answer with their DECLARED element types"""
    k = t[0]
    if k == "b":
        return t[1]
    if k == "a":
        return "a" + t[1]
    if k == "r":
        return "(" + "".join(tree_sig(x) for x in t[1]) + ")"
    if k == "e":
        return "a{" + t[1] + t[2] + "}"
    return "v"


def tree_consistent(t, depth=0):
    """the property's side condition for the dynamic API, written from its text (not from the code): every array element
    has the declared element type, every dict key / value the declared types, a variant's signature is the type of its
    value, no struct is empty, and no container is nested in 64 others"""
    k = t[0]
    if k == "b":
        return True
    if depth >= 64:
        return False
    if k == "a":
        return all(tree_sig(x) == t[1] and tree_consistent(x, depth + 1) for x in t[2])
    if k == "r":
        return len(t[1]) > 0 and all(tree_consistent(x, depth + 1) for x in t[1])
    if k == "e":
        return all(a[0] == "b" and a[1] == t[1] and tree_sig(b) == t[2] and tree_consistent(b, depth + 1) for a, b in t[3])
    return tree_sig(t[2]) == t[1] and tree_consistent(t[2], depth + 1)


def _wrap(r, inner, levels):
    """nest a token list in `levels` containers that need no declared element type of unbounded depth: one-field structs and
    variants (an array of arrays 33 deep has no valid signature to declare)"""
    toks = list(inner)
    sig = None
    for _ in range(levels):
        if r.random() < 0.5:
            tree, _ = parse_tokens(toks, 0)
            s = tree_sig(tree)
            # a variant's declared signature must itself be a valid signature: struct nesting is limited to 32 there
            if s.count("(") < 30 and len(s) < 200 and "()" not in s:
                toks = ["v", s] + toks
                continue
        toks = ["r", "1"] + toks
    return toks


def inconsistent_trees(r, n):
    """[(class, tokens)]: Param trees the typed generators never build. Most are inconsistent (expected: refused, nothing
    written, no panic); the `limit` classes are consistent trees exactly at the nesting limit (expected: accepted)."""
    leaf = {"y": ["y", "7"], "u": ["u", "9"], "s": ["s", "616263"], "t": ["t", "5"], "b": ["b", "1"], "o": ["o", "2f61"], "g": ["g", "79"],
            "q": ["q", "3"], "d": ["d", "0"], "x": ["x", "1"]}
    seeds = []
    # array: declared element type differs from (one of) the elements
    for decl, el in (("u", "s"), ("s", "u"), ("y", "u"), ("t", "x"), ("o", "s"), ("s", "g"), ("u", "b"), ("q", "n" if "n" in leaf else "y")):
        seeds.append(("array-element-type", ["a", decl, "1"] + leaf[el]))
        seeds.append(("array-element-type", ["a", decl, "3"] + leaf[decl] + leaf[decl] + leaf[el]))
        seeds.append(("array-element-type", ["a", decl, "2"] + leaf[el] + leaf[decl]))
    seeds += [("array-element-type", ["a", "(yu)", "1", "r", "2", "y", "1", "s", "61"]),
              ("array-element-type", ["a", "(yu)", "1", "r", "3", "y", "1", "u", "2", "y", "3"]),
              ("array-element-type", ["a", "(yu)", "2", "r", "2", "y", "1", "u", "2", "r", "1", "y", "1"]),
              ("array-element-type", ["a", "ay", "1", "a", "u", "0"]),
              ("array-element-type", ["a", "ay", "2", "a", "y", "1", "y", "1", "a", "u", "1", "u", "1"]),
              ("array-element-type", ["a", "v", "1", "u", "1"]),
              ("array-element-type", ["a", "u", "1", "v", "u", "u", "1"]),
              ("array-element-type", ["a", "a{sv}", "1", "e", "s", "u", "0"]),
              ("array-element-type", ["a", "s", "1", "a", "s", "0"])]
    # dict: key or value of another type than declared
    seeds += [("dict-key-type", ["e", "s", "u", "1", "y", "1", "u", "5"]),
              ("dict-key-type", ["e", "u", "s", "2", "u", "1", "s", "61", "i", "2", "s", "62"]),
              ("dict-key-type", ["e", "s", "s", "1", "o", "2f61", "s", "61"]),
              ("dict-value-type", ["e", "s", "u", "1", "s", "61", "s", "62"]),
              ("dict-value-type", ["e", "s", "v", "1", "s", "61", "u", "1"]),
              ("dict-value-type", ["e", "y", "ay", "1", "y", "1", "a", "u", "0"]),
              ("dict-value-type", ["e", "s", "(yu)", "1", "s", "61", "r", "2", "y", "1", "s", "61"]),
              ("dict-value-type", ["e", "s", "u", "2", "s", "61", "u", "1", "s", "62", "t", "1"])]
    # variant: declared signature is not the type of the value
    seeds += [("variant-signature", ["v", "u", "s", "616263"]), ("variant-signature", ["v", "s", "u", "7"]),
              ("variant-signature", ["v", "u", "i", "7"]), ("variant-signature", ["v", "t", "d", "7"]),
              ("variant-signature", ["v", "(yu)", "r", "2", "y", "1", "s", "61"]), ("variant-signature", ["v", "ay", "a", "u", "0"]),
              ("variant-signature", ["v", "v", "u", "1"]), ("variant-signature", ["v", "u", "v", "u", "u", "1"]),
              ("variant-signature", ["v", "a{sv}", "e", "s", "u", "0"]), ("variant-signature", ["v", "y", "r", "1", "y", "1"]),
              ("variant-signature", ["v", "(y)", "y", "1"]), ("variant-signature", ["v", "s", "o", "2f61"]),
              ("variant-signature", ["v", "(yy)", "r", "1", "y", "1"])]
    # struct without fields
    seeds += [("empty-struct", ["r", "0"]), ("empty-struct", ["r", "2", "y", "1", "r", "0"]), ("empty-struct", ["r", "2", "r", "0", "y", "1"]),
              ("empty-struct", ["a", "(y)", "1", "r", "0"]), ("empty-struct", ["a", "(y)", "2", "r", "1", "y", "1", "r", "0"]),
              ("empty-struct", ["v", "(y)", "r", "0"]), ("empty-struct", ["e", "s", "(y)", "1", "s", "61", "r", "0"]),
              ("empty-struct", ["r", "1", "r", "1", "r", "1", "r", "0"]), ("empty-struct", ["v", "v", "v", "(y)", "r", "0"]),
              ("empty-struct", ["a", "v", "1", "v", "(y)", "r", "0"])]
    out = []
    for cls, toks in seeds:
        out.append((cls, toks))
    # the same faults somewhere inside a bigger consistent tree, at a random depth
    for _ in range(n):
        cls, toks = r.choice(seeds)
        d = r.choice([1, 2, 3, 5, 10, 30, 60])
        where = r.random()
        if where < 0.3:
            toks = ["r", "3", "y", "1"] + toks + ["s", "7a"]
        elif where < 0.5:
            tree, _ = parse_tokens(toks, 0)
            toks = ["e", "s", tree_sig(tree) if tree_sig(tree) != "()" and "()" not in tree_sig(tree) else "(y)", "1", "s", "6b"] + toks
        out.append((cls + "/nested", _wrap(r, toks, d)))
    # nesting: consistent trees with exactly 64 containers (accepted) and 65..70 (refused)
    for levels in [63, 64, 65, 66, 70, 64, 65]:
        inner = r.choice([["y", "1"], ["s", "616263"], ["a", "y", "2", "y", "1", "y", "2"], ["r", "2", "y", "1", "t", "2"], ["e", "s", "u", "1", "s", "61", "u", "1"]])
        tree, _ = parse_tokens(inner, 0)
        own = 0 if tree[0] == "b" else 1
        toks = _wrap(r, inner, levels - own)
        out.append(("nesting=%d" % levels if levels <= 64 else "nesting>64", toks))
    return out


def corpus_lines(prop):
    """the non-comment lines of corpus/<prop>/*.case (minimised past failures and audit witnesses; run first)"""
    import glob
    out = []
    for f in sorted(glob.glob(os.path.join(HERE, "corpus", prop, "*.case"))):
        for line in open(f):
            line = line.strip()
            if line and not line.startswith("#"):
                out.append(line)
    return out


# ----------------------------------------------------------------------------- Rust types whose signature the protocol forbids
def sig_valid(t):
    """whether the D-Bus signature of a type tree is one the protocol allows: at most 255 characters, at most 32 arrays and 32
    structs nested along any path (dict entries count as their array)"""
    def depth(t, arrays, structs):
        k = t[0]
        if k == "b" or (k == "v"):
            return arrays <= 32 and structs <= 32
        if k == "a":
            return arrays + 1 <= 32 and depth(t[1], arrays + 1, structs)
        if k == "e":
            return arrays + 1 <= 32 and depth(t[2], arrays + 1, structs)
        return structs + 1 <= 32 and all(depth(x, arrays, structs + 1) for x in t[1])
    return len(erased(t)) <= 255 and depth(t, 0, 0)


def forbidden_variant_content(t):
    """a typed variant somewhere inside t holds a Rust type whose signature is not valid (the writers must refuse it, the dynamic
    API cannot even name it)"""
    k = t[0]
    if k == "b":
        return False
    if k == "v":
        return t[1] is not None and (not sig_valid(t[1]) or forbidden_variant_content(t[1]))
    if k == "a":
        return forbidden_variant_content(t[1])
    if k == "e":
        return forbidden_variant_content(t[2])
    return any(forbidden_variant_content(x) for x in t[1])


def plain_name(name):
    """a catalogue name without its flavour markers (the model's type): aCt -> at, V[S] -> v[s]"""
    out = []
    i = 0
    while i < len(name):
        c = name[i]
        if c == "a" and i + 1 < len(name) and name[i + 1] in ARRAY_FLAVOUR:
            out.append("a")
            i += 2
            continue
        out.append(BASE_FLAVOUR.get(c, "v" if c in VARIANT_FLAVOUR else c))
        i += 1
    return "".join(out)
