#!/bin/sh
# MANIFEST.setup_cmd: build the whole framework offline from files on disk.
set -e
cd "$(dirname "$0")"
export CARGO_NET_OFFLINE=true
mkdir -p scratch evidence replays
python3 - <<'PY'
import sys
sys.path.insert(0, "lib")
import vlib
vlib.coq_prepare()
PY
# full .vo build of the whole development (never -vos/-vok)
timeout 3000 make -C coq -j16 > scratch/setup_coq.log 2>&1 || { tail -50 scratch/setup_coq.log; exit 1; }
# harness, release and debug
[ -f harness/Cargo.lock ] || cp /repo/Cargo.lock harness/Cargo.lock
(cd harness && cargo build --offline --release --bins -q 2>scratch_build.log || { tail -50 scratch_build.log; exit 1; })
rm -f harness/scratch_build.log
# extracted models
for d in ocaml/*/; do
  [ -f "$d/extract.v" ] || continue
  python3 - "$d" <<'PY'
import sys, os
sys.path.insert(0, "lib")
import vlib
vlib.ocaml_build(os.path.basename(os.path.normpath(sys.argv[1])))
PY
done
echo setup ok
