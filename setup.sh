#!/bin/sh
# MANIFEST.setup_cmd: build the whole framework offline from files on disk.
set -e
cd "$(dirname "$0")"
export CARGO_NET_OFFLINE=true
mkdir -p scratch evidence replays
python3 - <<'PY'
import sys
sys.path.insert(0, "lib")
import vlib
vlib.coq_prepare()
PY
# full .vo build (never -vos/-vok) of everything the claimed properties depend on, plus harness
# binaries and extracted models of the claimed properties; work in progress for unclaimed
# properties is not built here
python3 - <<'PY'
import json, os, sys, subprocess
sys.path.insert(0, "lib")
import vlib
m = json.load(open("MANIFEST.json"))
props = [c["property_id"] for c in m["checks"]]
targets = ["Properties/%s.vo" % p for p in props if os.path.exists("coq/Properties/%s.v" % p)]
if targets:
    vlib.coq_make(targets, timeout=3000)
if not os.path.exists("harness/Cargo.lock"):
    import shutil; shutil.copy("/repo/Cargo.lock", "harness/Cargo.lock")
bins = [p.lower() for p in props if os.path.exists("harness/src/bin/%s.rs" % p.lower())]
for b in bins:
    feats = ("verif_hooks",) if "verif_hooks" in open("harness/src/bin/%s.rs" % b).read() else ()
    try:
        vlib.harness_build([b], features=feats)
    except vlib.BrokenTie as e:
        print("harness build failed for", b, e.detail[-3000:]); sys.exit(1)
for p in props:
    if os.path.exists("ocaml/%s/extract.v" % p.lower()):
        vlib.ocaml_build(p.lower())
print("setup ok")
PY
