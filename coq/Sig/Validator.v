(** Model of rustbus/src/params/validation.rs: validate_signature with its inner validate_next.
    [sig] is the byte string (sig.as_bytes()), positions and counters are usize values in N. *)
From RB Require Import Base.Prelude Sig.Types.

Definition vbasic (c : N) : bool :=
  (c =? 121) || (c =? 98) || (c =? 110) || (c =? 113) || (c =? 105) || (c =? 117) || (c =? 120)
  || (c =? 116) || (c =? 100) || (c =? 104) || (c =? 115) || (c =? 111) || (c =? 103).

(* the loop of the b'(' arm: counter starts at 1 *)
Fixpoint vstruct_loop (v : N -> outcome N) (fuel : nat) (sig : list N) (pos counter : N) : outcome N :=
  match fuel with
  | O => OutOfFuel
  | S f =>
      match nthN sig (pos + counter) with
      | None => Err                                   (* pos + counter >= sig.len() *)
      | Some c =>
          if c =? 41 then
            (if counter =? 1 then Err                 (* EmptyStruct *)
             else Ok (counter + 1))
          else
            do n <- v (pos + counter);
            vstruct_loop v f sig pos (counter + n)
      end
  end.

Fixpoint validate_next (fuel : nat) (sig : list N) (pos ad bd : N) : outcome N :=
  match fuel with
  | O => OutOfFuel
  | S f =>
      if 32 <? bd then Err else
      if 32 <? ad then Err else
      match nthN sig pos with
      | None => Err                                   (* pos >= sig.len() *)
      | Some c =>
          if vbasic c || (c =? 118) then Ok 1
          else if c =? 97 then
            do n <- validate_next f sig (pos + 1) (ad + 1) bd;
            Ok (n + 1)
          else if c =? 123 then
            if (0 <? pos) && (pos + 2 <? len sig)
               && (match nthN sig (pos - 1) with Some p => p =? 97 | None => false end) then
              match nthN sig (pos + 1) with
              | Some k =>
                  if vbasic k then
                    do n <- validate_next f sig (pos + 2) ad bd;
                    let inner := 1 + n in
                    match nthN sig (pos + inner + 1) with
                    | None => Err                     (* pos + inner_sigs_len + 1 >= sig.len() *)
                    | Some e => if e =? 125 then Ok (inner + 2) else Err
                    end
                  else Err
              | None => Panic                         (* index out of bounds; excluded by the length test *)
              end
            else Err
          else if c =? 40 then
            vstruct_loop (fun p => validate_next f sig p ad (bd + 1)) f sig pos 1
          else Err
      end
  end.

(* while pos < sig.len() { pos += validate_next(sig, pos, 0, 0)?; } *)
Fixpoint vtop_loop (fuel : nat) (sig : list N) (pos : N) : outcome unit :=
  match fuel with
  | O => OutOfFuel
  | S f =>
      if pos <? len sig then
        do n <- validate_next (S (length sig)) sig pos 0 0;
        vtop_loop f sig (pos + n)
      else Ok tt
  end.

Definition validate_signature (sig : list N) : outcome unit :=
  if 255 <? len sig then Err else vtop_loop (S (length sig)) sig 0.
