(** Model of rustbus/src/signature.rs: char_to_token, Type::parse_description, parse_next_type,
    parse_dict_entry, parse_next_base, parse_struct, StructTypes::new, check_nesting_depth.
    The token iterator (make_tokens(sig.chars()).peekable()) is the remaining input list:
    next() takes the head, peek() looks at it. A signature is given as its UTF-8 bytes; every
    byte >= 128 is part of a non-ASCII char, which char_to_token rejects, and an error ends the
    parse, so working on bytes instead of chars does not change the verdict. *)
From RB Require Import Base.Prelude Sig.Types.

Inductive token :=
| TkStructStart | TkStructEnd | TkArray | TkBase (b : base) | TkDictStart | TkDictEnd | TkVariant.

(* fn char_to_token *)
Definition char_to_token (c : N) : option token :=
  if c =? 40 then Some TkStructStart else
  if c =? 41 then Some TkStructEnd else
  if c =? 97 then Some TkArray else
  if c =? 98 then Some (TkBase BBoolean) else
  if c =? 121 then Some (TkBase BByte) else
  if c =? 110 then Some (TkBase BInt16) else
  if c =? 113 then Some (TkBase BUint16) else
  if c =? 105 then Some (TkBase BInt32) else
  if c =? 117 then Some (TkBase BUint32) else
  if c =? 104 then Some (TkBase BUnixFd) else
  if c =? 120 then Some (TkBase BInt64) else
  if c =? 116 then Some (TkBase BUint64) else
  if c =? 100 then Some (TkBase BDouble) else
  if c =? 115 then Some (TkBase BString) else
  if c =? 111 then Some (TkBase BObjectPath) else
  if c =? 103 then Some (TkBase BSignature) else
  if c =? 123 then Some TkDictStart else
  if c =? 125 then Some TkDictEnd else
  if c =? 118 then Some TkVariant else None.

(* fn parse_next_base: next token must be one of the 13 base types *)
Definition parse_next_base (s : list N) : outcome (base * list N) :=
  match s with
  | [] => Err
  | c :: rest =>
      match char_to_token c with
      | Some (TkBase b) => Ok (b, rest)
      | _ => Err
      end
  end.

(* fn parse_struct: while let Some(t) = parse_next_type(tokens, Some(Structend))? *)
Fixpoint struct_loop (p : list N -> outcome (option ty * list N)) (fuel : nat) (s : list N) (acc : list ty)
  : outcome (list ty * list N) :=
  match fuel with
  | O => OutOfFuel
  | S f =>
      do r <- p s;
      match r with
      | (Some t, s') => struct_loop p f s' (acc ++ [t])
      | (None, s') => Ok (acc, s')
      end
  end.

(* fn parse_next_type(tokens, delim); delim = true means Some(Token::Structend) *)
Fixpoint parse_next (fuel : nat) (delim : bool) (s : list N) : outcome (option ty * list N) :=
  match fuel with
  | O => OutOfFuel
  | S f =>
      match s with
      | [] => if delim then Err else Ok (None, [])
      | c :: rest =>
          match char_to_token c with
          | None => Err                                        (* let token = token?; *)
          | Some TkStructStart =>
              do r <- struct_loop (parse_next f true) f rest [];
              let '(ts, rest') := r in
              match ts with
              | [] => Err                                      (* StructTypes::new *)
              | _ => Ok (Some (TStruct ts), rest')
              end
          | Some TkStructEnd => if delim then Ok (None, rest) else Err
          | Some TkArray =>
              match rest with
              | [] => Err                                      (* peek() == None *)
              | c2 :: rest2 =>
                  match char_to_token c2 with
                  | None => Err                                (* peek() == Some(Err) *)
                  | Some TkDictStart =>
                      (* tokens.next(); parse_dict_entry(tokens) *)
                      do kr <- parse_next_base rest2;
                      let '(k, rest3) := kr in
                      do vr <- parse_next f false rest3;
                      match vr with
                      | (Some v, rest4) =>
                          match rest4 with
                          | c4 :: rest5 =>
                              match char_to_token c4 with
                              | Some TkDictEnd => Ok (Some (TDict k v), rest5)
                              | _ => Err
                              end
                          | [] => Err
                          end
                      | (None, _) => Err
                      end
                  | Some _ =>
                      do er <- parse_next f false rest;
                      match er with
                      | (Some e, rest') => Ok (Some (TArray e), rest')
                      | (None, _) => Err
                      end
                  end
              end
          | Some (TkBase b) => Ok (Some (TBase b), rest)
          | Some TkVariant => Ok (Some TVariant, rest)
          | Some TkDictStart => Err
          | Some TkDictEnd => Err
          end
      end
  end.

(* fn check_nesting_depth(t, struct_depth, array_depth) *)
Fixpoint check_depth (sd ad : N) (t : ty) : bool :=
  if (32 <? sd) || (32 <? ad) then false else
  match t with
  | TBase _ => true
  | TStruct ts => forallb (check_depth (sd + 1) ad) ts
  | TArray e => check_depth sd (ad + 1) e
  | TDict _ e => check_depth sd (ad + 1) e
  | TVariant => true
  end.

(* the while-let loop of parse_description *)
Fixpoint top_loop (fuel : nat) (s : list N) (acc : list ty) : outcome (list ty) :=
  match fuel with
  | O => OutOfFuel
  | S f =>
      do r <- parse_next (S (length s)) false s;
      match r with
      | (Some t, s') => top_loop f s' (acc ++ [t])
      | (None, _) => Ok acc
      end
  end.

(* fn Type::parse_description (after /repo commit f8eb89e: no EmptySignature test any more; on the
   empty string the while-let loop ends at once and the function returns Ok(vec![]). The code before
   that commit is kept, refuted, in History/ParserOld.v) *)
Definition parse_description (s : list N) : outcome (list ty) :=
  if 255 <? len s then Err else
  do ts <- top_loop (S (length s)) s [];
  if forallb (check_depth 0 0) ts then Ok ts else Err.
