(** Model of rustbus/src/signature/signature_iter.rs (SignatureIter::next) and the proof that on
    a printed type list it yields exactly the top-level complete types. *)
From RB Require Import Base.Prelude Sig.Types Sig.Parser Sig.ParserProofs.

(* the loop of next(): s is self.sigs from end_pos on, count is end_pos, opn is open_brackets (i32).
   `*self.sigs.as_bytes().get(end_pos).unwrap()` panics at the end of the input. *)
Fixpoint scan (s : list N) (opn : Z) (count : N) : outcome N :=
  match s with
  | [] => Panic
  | cur :: r =>
      let count := count + 1 in
      if (cur =? 40) || (cur =? 123) then
        let opn := (opn + 1)%Z in
        if (opn =? 0)%Z then Ok count else scan r opn count
      else if (cur =? 41) || (cur =? 125) then
        let opn := (opn - 1)%Z in
        if (opn =? 0)%Z then Ok count else scan r opn count
      else if cur =? 97 then scan r opn count                        (* continue *)
      else if (opn =? 0)%Z then Ok count else scan r opn count
  end.

(* fn next: None on empty input, otherwise split_at(end_pos) *)
Definition iter_next (s : list N) : outcome (option (list N * list N)) :=
  match s with
  | [] => Ok None
  | _ => do n <- scan s 0 0; Ok (Some (firstnN n s, skipnN n s))
  end.

(* collecting the iterator *)
Fixpoint iter_all (fuel : nat) (s : list N) : outcome (list (list N)) :=
  match fuel with
  | O => OutOfFuel
  | S f =>
      do r <- iter_next s;
      match r with
      | None => Ok []
      | Some (x, rest) => do xs <- iter_all f rest; Ok (x :: xs)
      end
  end.

Lemma base_char_plain b : let c := base_char b in
  (c =? 40) || (c =? 123) = false /\ (c =? 41) || (c =? 125) = false /\ (c =? 97) = false.
Proof. destruct b; cbn; auto. Qed.

Lemma scan_type : forall t rest k c,
  (0 <= k)%Z ->
  scan (to_str t ++ rest) k c =
    if (k =? 0)%Z then Ok (c + len (to_str t)) else scan rest k (c + len (to_str t)).
Proof.
  induction t as [b|e IHe|ts IHts|kb v IHv|] using ty_ind'; intros rest k c Hk; cbn [to_str app scan].
  - destruct (base_char_plain b) as (-> & -> & ->). change (len [base_char b]) with 1. reflexivity.
  - unfold c_a. change ((97 =? 40) || (97 =? 123)) with false. change ((97 =? 41) || (97 =? 125)) with false.
    change (97 =? 97) with true. cbv iota. rewrite IHe by exact Hk. rewrite len_cons.
    replace (c + 1 + len (to_str e)) with (c + (1 + len (to_str e))) by lia. reflexivity.
  - unfold c_lpar. change ((40 =? 40) || (40 =? 123)) with true. cbv iota zeta.
    destruct (Z.eqb_spec (k + 1) 0) as [|_]; [lia|].
    rewrite <- app_assoc.
    assert (Hl : forall l rest' c', Forall (fun t => forall rest k c, (0 <= k)%Z ->
                    scan (to_str t ++ rest) k c = if (k =? 0)%Z then Ok (c + len (to_str t)) else scan rest k (c + len (to_str t))) l ->
                  scan (flat_map to_str l ++ rest') (k + 1) c' = scan rest' (k + 1) (c' + len (flat_map to_str l))).
    { induction l as [|x l IHl]; intros rest' c' Hall.
      - cbn. now rewrite N.add_0_r.
      - apply Forall_cons_iff in Hall. destruct Hall as [Hx Hall]. cbn [flat_map]. rewrite <- app_assoc.
        rewrite Hx by lia. destruct (Z.eqb_spec (k + 1) 0) as [|_]; [lia|].
        rewrite IHl by exact Hall. rewrite len_app. f_equal. lia. }
    rewrite Hl by exact IHts. cbn [app scan]. unfold c_rpar.
    change ((41 =? 40) || (41 =? 123)) with false. change ((41 =? 41) || (41 =? 125)) with true. cbv iota zeta.
    replace (k + 1 - 1)%Z with k by lia.
    rewrite len_cons, len_app, len_cons, len_nil.
    replace (c + 1 + len (flat_map to_str ts) + 1) with (c + (1 + (len (flat_map to_str ts) + (1 + 0)))) by lia.
    reflexivity.
  - unfold c_a, c_lbrace. change ((97 =? 40) || (97 =? 123)) with false. change ((97 =? 41) || (97 =? 125)) with false.
    change (97 =? 97) with true. cbv iota. cbn [scan].
    change ((123 =? 40) || (123 =? 123)) with true. cbv iota zeta.
    destruct (Z.eqb_spec (k + 1) 0) as [|_]; [lia|].
    destruct (base_char_plain kb) as (-> & -> & ->).
    destruct (Z.eqb_spec (k + 1) 0) as [|_]; [lia|].
    rewrite <- app_assoc. rewrite IHv by lia.
    destruct (Z.eqb_spec (k + 1) 0) as [|_]; [lia|]. cbn [app scan]. unfold c_rbrace.
    change ((125 =? 40) || (125 =? 123)) with false. change ((125 =? 41) || (125 =? 125)) with true. cbv iota zeta.
    replace (k + 1 - 1)%Z with k by lia.
    rewrite !len_cons, len_app, len_cons, len_nil.
    replace (c + 1 + 1 + 1 + len (to_str v) + 1) with (c + (1 + (1 + (1 + (len (to_str v) + (1 + 0)))))) by lia.
    reflexivity.
  - unfold c_v. change ((118 =? 40) || (118 =? 123)) with false. change ((118 =? 41) || (118 =? 125)) with false.
    change (118 =? 97) with false. cbv iota. change (len [118]) with 1. reflexivity.
Qed.

Theorem iter_all_types : forall ts fuel, (length ts < fuel)%nat ->
  iter_all fuel (to_str_list ts) = Ok (map to_str ts).
Proof.
  induction ts as [|t ts IH]; intros fuel Hf; (destruct fuel as [|f]; [cbn in Hf; lia|]); cbn [iter_all].
  - reflexivity.
  - unfold to_str_list. cbn [flat_map]. fold (to_str_list ts). unfold iter_next.
    destruct (to_str_nonempty t) as (c0 & r0 & E0).
    destruct (to_str t ++ to_str_list ts) as [|y ys] eqn:Eapp; [rewrite E0 in Eapp; discriminate|].
    rewrite <- Eapp. rewrite (scan_type t (to_str_list ts) 0 0) by lia. cbn [Z.eqb bind].
    rewrite N.add_0_l, firstnN_app_len, skipnN_app_len. rewrite IH by (cbn in Hf; lia). reflexivity.
Qed.
