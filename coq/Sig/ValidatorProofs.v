(** validate_signature accepts exactly the valid signatures (same specification as the parser). *)
From RB Require Import Base.Prelude Sig.Types Sig.Parser Sig.ParserProofs Sig.Validator.

(** ** substrings by position *)
Definition sub (l : list N) (pos n : N) : list N := firstnN n (skipnN pos l).

Lemma firstn_add {A} (n m : nat) (l : list A) : firstn (n + m) l = firstn n l ++ firstn m (skipn n l).
Proof. revert l; induction n as [|n IH]; intros l; [reflexivity|]. destruct l as [|x l]; cbn.
  - now rewrite firstn_nil.
  - now rewrite IH. Qed.
Lemma skipn_add {A} (n m : nat) (l : list A) : skipn (n + m) l = skipn m (skipn n l).
Proof. revert l; induction n as [|n IH]; intros l; [reflexivity|]. destruct l as [|x l]; cbn.
  - now rewrite skipn_nil.
  - apply IH. Qed.
Lemma sub_add l pos n m : sub l pos (n + m) = sub l pos n ++ sub l (pos + n) m.
Proof. unfold sub, firstnN, skipnN. rewrite !N2Nat.inj_add. rewrite firstn_add. f_equal. now rewrite skipn_add. Qed.
Lemma sub_0 l pos : sub l pos 0 = [].
Proof. reflexivity. Qed.
Lemma nth_error_skipn {A} (l : list A) n i : nth_error (skipn n l) i = nth_error l (n + i).
Proof. revert l; induction n as [|n IH]; intros l; [reflexivity|]. destruct l; cbn; [now destruct i|apply IH]. Qed.
Lemma sub_1 l pos c : nthN l pos = Some c -> sub l pos 1 = [c].
Proof. unfold nthN, sub, firstnN, skipnN. intros H. change (N.to_nat 1) with 1%nat.
  pose proof (nth_error_skipn l (N.to_nat pos) 0) as E. rewrite Nat.add_0_r, H in E.
  destruct (skipn (N.to_nat pos) l); cbn in *; [discriminate|]. now injection E as ->. Qed.
Lemma nthN_lt {A} (l : list A) pos c : nthN l pos = Some c -> pos < len l.
Proof. unfold nthN, len. intros H. assert (nth_error l (N.to_nat pos) <> None) by congruence.
  apply nth_error_Some in H0. lia. Qed.
Lemma nthN_None {A} (l : list A) pos : nthN l pos = None -> len l <= pos.
Proof. unfold nthN, len. intros H. apply nth_error_None in H. lia. Qed.
Lemma nthN_some {A} (l : list A) pos : pos < len l -> exists c, nthN l pos = Some c.
Proof. unfold nthN, len. intros H. destruct (nth_error l (N.to_nat pos)) eqn:E; [eauto|].
  apply nth_error_None in E. exfalso; lia. Qed.
Lemma len_sub_le l pos n : len (sub l pos n) <= n.
Proof. unfold sub. rewrite len_firstnN. lia. Qed.
Lemma len_sub_full l pos n : 0 < n -> len (sub l pos n) = n -> pos + n <= len l.
Proof. unfold sub. rewrite len_firstnN, len_skipnN. lia. Qed.
Lemma nthN_app_l {A} (a b : list A) i : i < len a -> nthN (a ++ b) i = nthN a i.
Proof. unfold nthN, len. intros H. apply nth_error_app1. lia. Qed.
Lemma nthN_app_r {A} (a b : list A) i : nthN (a ++ b) (len a + i) = nthN b i.
Proof. unfold nthN, len. rewrite nth_error_app2 by lia. f_equal. lia. Qed.
Lemma sub_app_r a b n : sub (a ++ b) (len a) n = firstnN n b.
Proof. unfold sub. now rewrite skipnN_app_len. Qed.
(** ** characters *)
Lemma vbasic_spec c : vbasic c = true <-> exists b, c = base_char b.
Proof.
  unfold vbasic. rewrite !orb_true_iff, !N.eqb_eq. split.
  - intros H.
    repeat match type of H with _ \/ _ => destruct H as [H|H] end; subst c;
      [exists BByte|exists BBoolean|exists BInt16|exists BUint16|exists BInt32|exists BUint32|exists BInt64
      |exists BUint64|exists BDouble|exists BUnixFd|exists BString|exists BObjectPath|exists BSignature]; reflexivity.
  - intros [b ->]. destruct b; cbn; tauto.
Qed.
Lemma vbasic_base b : vbasic (base_char b) = true.
Proof. apply vbasic_spec. eauto. Qed.
Lemma base_char_not b : base_char b <> 97 /\ base_char b <> 123 /\ base_char b <> 40 /\ base_char b <> 41
                        /\ base_char b <> 125 /\ base_char b <> 118.
Proof. destruct b; cbn; repeat split; discriminate. Qed.

(** ** items: what validate_next can recognise at a position *)
Inductive item := IType (t : ty) | IEntry (k : base) (v : ty).
Definition item_str (i : item) : list N :=
  match i with
  | IType t => to_str t
  | IEntry k v => c_lbrace :: base_char k :: to_str v ++ [c_rbrace]
  end.
Definition item_wf (i : item) : bool := match i with IType t => wf t | IEntry _ v => wf v end.
(* nesting as the validator counts it: same as check_nesting_depth of the parser *)
Definition item_depth (bd ad : N) (i : item) : bool :=
  match i with IType t => check_depth bd ad t | IEntry _ v => check_depth bd ad v end.

Lemma last_not_a t : forall pre c, to_str t = pre ++ [c] -> c <> 97.
Proof.
  induction t as [b|e IHe|ts IHts|k v IHv|] using ty_ind'; intros pre c H; cbn [to_str] in H.
  - destruct pre as [|x pre]; cbn in H; [injection H as <-; apply base_char_not|].
    injection H as _ H. now destruct pre.
  - destruct pre as [|x pre]; cbn in H.
    + injection H as _ H. destruct (to_str_nonempty e) as (? & ? & E). rewrite E in H. discriminate.
    + injection H as _ H. eapply IHe; eassumption.
  - change (c_lpar :: flat_map to_str ts ++ [c_rpar]) with ((c_lpar :: flat_map to_str ts) ++ [c_rpar]) in H.
    apply app_inj_tail in H. destruct H as [_ <-]. discriminate.
  - change (c_a :: c_lbrace :: base_char k :: to_str v ++ [c_rbrace])
      with ((c_a :: c_lbrace :: base_char k :: to_str v) ++ [c_rbrace]) in H.
    apply app_inj_tail in H. destruct H as [_ <-]. discriminate.
  - destruct pre as [|x pre]; cbn in H; [injection H as <-; discriminate|].
    injection H as _ H. now destruct pre.
Qed.

Lemma to_str_last t : exists pre c, to_str t = pre ++ [c].
Proof. destruct (to_str_nonempty t) as (x & r & E). rewrite E.
  destruct (exists_last (l := x :: r)) as (pre & c & ->); [discriminate|eauto]. Qed.


Lemma nth_error_firstn_lt {A} (l : list A) n i : (i < n)%nat -> nth_error (firstn n l) i = nth_error l i.
Proof. revert l i; induction n as [|n IH]; intros l i H; [lia|]. destruct l as [|x l]; [now destruct i|].
  destruct i as [|i]; [reflexivity|]. cbn. apply IH. lia. Qed.
Lemma sub_nth l pos n i : i < n -> nthN (sub l pos n) i = nthN l (pos + i).
Proof. unfold sub, nthN, firstnN, skipnN. intros H.
  rewrite nth_error_firstn_lt by lia. rewrite nth_error_skipn. f_equal. lia. Qed.
Lemma nthN_last {A} (pre : list A) c : nthN (pre ++ [c]) (len pre) = Some c.
Proof. replace (len pre) with (len pre + 0) by lia. now rewrite nthN_app_r. Qed.

Lemma struct_prefix_last elems : exists pre c, c_lpar :: to_str_list elems = pre ++ [c] /\ c <> 97.
Proof.
  destruct elems as [|tl es _] using rev_ind.
  - exists [], c_lpar. split; [reflexivity|discriminate].
  - destruct (to_str_last tl) as (pre' & c & E). exists (c_lpar :: to_str_list es ++ pre'), c.
    unfold to_str_list. rewrite flat_map_app. cbn [flat_map]. rewrite app_nil_r, E.
    split; [now rewrite app_assoc|]. eapply last_not_a; eassumption.
Qed.

(** ** Soundness of validate_next *)
Definition vsound (sig : list N) (pos ad bd n : N) : Prop :=
  exists it, sub sig pos n = item_str it /\ len (item_str it) = n /\ item_wf it = true
             /\ item_depth bd ad it = true
             /\ (forall k v, it = IEntry k v -> 0 < pos /\ nthN sig (pos - 1) = Some 97).

Lemma len_item_pos it : 0 < len (item_str it).
Proof. destruct it as [t|k v]; cbn [item_str].
  - destruct (to_str_nonempty t) as (? & ? & ->). rewrite len_cons. lia.
  - rewrite len_cons. lia. Qed.

Lemma vstruct_loop_sound v sig pos ad bd :
  (forall p n, v p = Ok n -> vsound sig p ad (bd + 1) n) ->
  forall fuel counter elems n,
    1 <= counter ->
    sub sig pos counter = c_lpar :: to_str_list elems ->
    len (c_lpar :: to_str_list elems) = counter ->
    forallb wf elems = true -> forallb (check_depth (bd + 1) ad) elems = true ->
    (counter = 1 <-> elems = []) ->
    vstruct_loop v fuel sig pos counter = Ok n ->
    exists ts, ts <> [] /\ sub sig pos n = to_str (TStruct ts) /\ len (to_str (TStruct ts)) = n
               /\ forallb wf ts = true /\ forallb (check_depth (bd + 1) ad) ts = true.
Proof.
  intros Hv. induction fuel as [|f IH]; intros counter elems n Hc Hsub Hlen Hwf Hd Hone H;
    cbn [vstruct_loop] in H; [discriminate|].
  destruct (nthN sig (pos + counter)) as [c|] eqn:Ec; [|discriminate].
  destruct (N.eqb_spec c 41) as [->|Hne].
  - destruct (N.eqb_spec counter 1) as [->|Hc1]; [discriminate|]. injection H as <-.
    exists elems. split; [intros ->; apply Hc1; now apply Hone|].
    cbn [to_str]. rewrite sub_add, Hsub, (sub_1 _ _ _ Ec). fold (to_str_list elems).
    split; [unfold c_lpar; cbn [app]; reflexivity|].
    split; [|split; assumption].
    change (c_lpar :: to_str_list elems ++ [c_rpar]) with ((c_lpar :: to_str_list elems) ++ [c_rpar]).
    rewrite len_app, Hlen. reflexivity.
  - destruct (v (pos + counter)) as [m| | | |] eqn:Em; cbn [bind] in H; try discriminate.
    apply Hv in Em. destruct Em as (it & Es & El & Ew & Edp & Eent).
    destruct it as [t|k w].
    + cbn [item_wf item_depth item_str] in *.
      apply (IH (counter + m) (elems ++ [t]) n); try assumption.
      * lia.
      * rewrite sub_add, Hsub, Es. unfold to_str_list. rewrite flat_map_app. cbn [flat_map].
        rewrite app_nil_r. reflexivity.
      * unfold to_str_list in *. rewrite flat_map_app. cbn [flat_map]. rewrite app_nil_r.
        rewrite len_cons, len_app. rewrite len_cons in Hlen. lia.
      * rewrite forallb_app, Hwf. cbn [forallb andb]. now rewrite Ew.
      * rewrite forallb_app, Hd. cbn [forallb andb]. now rewrite Edp.
      * pose proof (len_item_pos (IType t)) as Hp. cbn [item_str] in Hp. split; [lia|]. intros E. now destruct elems.
    + (* an entry can not follow '(' or a complete type *)
      exfalso. destruct (Eent k w eq_refl) as [Hp Hprev].
      destruct (struct_prefix_last elems) as (pre & cl & Epre & Hcl).
      assert (Hlp : len pre + 1 = counter) by (rewrite <- Hlen, Epre, len_app, len_cons, len_nil; lia).
      pose proof (sub_nth sig pos counter (len pre) ltac:(lia)) as Hn.
      rewrite Hsub, Epre, nthN_last in Hn.
      replace (pos + counter - 1) with (pos + len pre) in Hprev by lia.
      rewrite Hprev in Hn. injection Hn as ->. now apply Hcl.
Qed.

Lemma vbasic_not_special c : vbasic c = true -> c <> 97 /\ c <> 123 /\ c <> 40 /\ c <> 118.
Proof. intros H. apply vbasic_spec in H. destruct H as [b ->]. pose proof (base_char_not b). tauto. Qed.

Lemma validate_next_sound : forall fuel sig pos ad bd n,
  validate_next fuel sig pos ad bd = Ok n -> vsound sig pos ad bd n.
Proof.
  induction fuel as [|f IH]; intros sig pos ad bd n H; cbn [validate_next] in H; [discriminate|].
  destruct (N.ltb_spec 32 bd) as [|Hbd]; [discriminate|].
  destruct (N.ltb_spec 32 ad) as [|Had]; [discriminate|].
  assert (Hguard : (32 <? bd) || (32 <? ad) = false).
  { destruct (N.ltb_spec 32 bd), (N.ltb_spec 32 ad); try lia; reflexivity. }
  destruct (nthN sig pos) as [c|] eqn:Ec; [|discriminate].
  destruct (vbasic c || (c =? 118)) eqn:Eb.
  { injection H as <-. apply orb_true_iff in Eb. destruct Eb as [Eb|Eb].
    - apply vbasic_spec in Eb. destruct Eb as [b ->]. exists (IType (TBase b)).
      rewrite (sub_1 _ _ _ Ec). cbn [item_str to_str item_wf wf item_depth check_depth]. rewrite Hguard.
      split; [reflexivity|]. split; [reflexivity|]. split; [reflexivity|]. split; [reflexivity|]. intros; discriminate.
    - apply N.eqb_eq in Eb. subst c. exists (IType TVariant).
      rewrite (sub_1 _ _ _ Ec). cbn [item_str to_str item_wf wf item_depth check_depth]. rewrite Hguard.
      split; [reflexivity|]. split; [reflexivity|]. split; [reflexivity|]. split; [reflexivity|]. intros; discriminate. }
  destruct (N.eqb_spec c 97) as [->|Hna].
  { destruct (validate_next f sig (pos + 1) (ad + 1) bd) as [m| | | |] eqn:Em; cbn [bind] in H; try discriminate.
    injection H as <-. apply IH in Em. destruct Em as (it & Es & El & Ew & Edp & _).
    assert (Esub : sub sig pos (m + 1) = 97 :: item_str it).
    { replace (m + 1) with (1 + m) by lia. now rewrite sub_add, (sub_1 _ _ _ Ec), Es. }
    destruct it as [e|k v]; cbn [item_str item_wf item_depth] in *.
    - exists (IType (TArray e)). cbn [item_str to_str item_wf wf item_depth check_depth]. rewrite Hguard, Esub.
      split; [reflexivity|]. split; [unfold c_a; rewrite len_cons; lia|]. split; [assumption|]. split; [assumption|]. intros; discriminate.
    - exists (IType (TDict k v)). cbn [item_str to_str item_wf wf item_depth check_depth]. rewrite Hguard, Esub.
      split; [reflexivity|]. split; [unfold c_a; rewrite len_cons; lia|]. split; [assumption|]. split; [assumption|]. intros; discriminate. }
  destruct (N.eqb_spec c 123) as [->|Hnb].
  { destruct ((0 <? pos) && (pos + 2 <? len sig)
              && match nthN sig (pos - 1) with Some p => p =? 97 | None => false end) eqn:Econd; [|discriminate].
    apply andb_prop in Econd. destruct Econd as [Econd Eprev]. apply andb_prop in Econd. destruct Econd as [Ep0 Elen].
    apply N.ltb_lt in Ep0. apply N.ltb_lt in Elen.
    destruct (nthN sig (pos - 1)) as [pc|] eqn:Epc; [|discriminate]. apply N.eqb_eq in Eprev. subst pc.
    destruct (nthN sig (pos + 1)) as [k|] eqn:Ek; [|discriminate].
    destruct (vbasic k) eqn:Evk; [|discriminate].
    destruct (validate_next f sig (pos + 2) ad bd) as [m| | | |] eqn:Em; cbn [bind] in H; try discriminate.
    cbv zeta in H. destruct (nthN sig (pos + (1 + m) + 1)) as [e|] eqn:Ee; [|discriminate].
    destruct (N.eqb_spec e 125) as [->|]; [|discriminate]. injection H as <-.
    apply IH in Em. destruct Em as (it & Es & El & Ew & Edp & Eent).
    destruct it as [w|k' w'].
    2:{ exfalso. destruct (Eent k' w' eq_refl) as [_ Hp]. replace (pos + 2 - 1) with (pos + 1) in Hp by lia.
        rewrite Ek in Hp. injection Hp as ->. now apply vbasic_not_special in Evk. }
    apply vbasic_spec in Evk. destruct Evk as [kb ->].
    cbn [item_str item_wf item_depth] in *.
    assert (Esub : sub sig pos (1 + m + 2) = 123 :: base_char kb :: to_str w ++ [125]).
    { replace (1 + m + 2) with (1 + (1 + (m + 1))) by lia.
      rewrite sub_add, (sub_1 _ _ _ Ec). rewrite sub_add, (sub_1 _ _ _ Ek).
      replace (pos + 1 + 1) with (pos + 2) by lia. rewrite sub_add, Es.
      replace (pos + 2 + m) with (pos + (1 + m) + 1) by lia. now rewrite (sub_1 _ _ _ Ee). }
    exists (IEntry kb w). cbn [item_str item_wf item_depth]. rewrite Esub.
    split; [reflexivity|]. split.
    { unfold c_lbrace. rewrite !len_cons, len_app, len_cons, len_nil. lia. }
    split; [assumption|]. split; [assumption|]. intros k0 v0 _. split; assumption. }
  destruct (N.eqb_spec c 40) as [->|Hnp]; [|discriminate].
  pose proof (vstruct_loop_sound (fun p => validate_next f sig p ad (bd + 1)) sig pos ad bd
                (fun p m Hm => IH sig p ad (bd + 1) m Hm) f 1 [] n) as Hl.
  destruct Hl as (ts & Hne & Hs & Hlen & Hwf & Hd); try reflexivity; try lia; try assumption.
  { now rewrite (sub_1 _ _ _ Ec). }
  { split; reflexivity. }
  exists (IType (TStruct ts)). cbn [item_str item_wf wf item_depth check_depth]. rewrite Hguard.
  split; [exact Hs|]. split; [exact Hlen|]. split.
  { destruct ts; [now elim Hne|]. cbn [negb andb]. exact Hwf. }
  split; [exact Hd|]. intros; discriminate.
Qed.

(** ** Completeness of validate_next *)
Lemma app_inj_len {A} (l1 l2 l3 l4 : list A) : l1 ++ l2 = l3 ++ l4 -> length l1 = length l3 -> l1 = l3 /\ l2 = l4.
Proof. revert l3; induction l1 as [|x l1 IH]; intros [|y l3] H Hl; try discriminate; cbn in *.
  - auto.
  - injection H as -> H. injection Hl as Hl. destruct (IH _ H Hl) as [-> ->]. auto. Qed.

Lemma sub_split sig pos u w : sub sig pos (len u + len w) = u ++ w ->
  sub sig pos (len u) = u /\ sub sig (pos + len u) (len w) = w.
Proof.
  intros H. rewrite sub_add in H.
  assert (Hl : len (sub sig pos (len u)) = len u).
  { pose proof (len_sub_le sig pos (len u)). pose proof (len_sub_le sig (pos + len u) (len w)).
    apply (f_equal len) in H. rewrite !len_app in H. lia. }
  apply app_inj_len in H; [exact H|]. apply Nat2N.inj. exact Hl.
Qed.

Lemma sub_at sig pos str i c : sub sig pos (len str) = str -> nthN str i = Some c -> nthN sig (pos + i) = Some c.
Proof. intros H Hc. pose proof (nthN_lt _ _ _ Hc) as Hi. rewrite <- (sub_nth sig pos (len str) i Hi). now rewrite H. Qed.

Lemma check_depth_guard bd ad t : check_depth bd ad t = true -> (32 <? bd) = false /\ (32 <? ad) = false.
Proof. destruct t; cbn [check_depth]; destruct (32 <? bd), (32 <? ad); cbn; intros H; try discriminate; auto. Qed.

Lemma first_char_not_rpar t : exists c r, to_str t = c :: r /\ c <> 41.
Proof. destruct (to_str_nonempty t) as (c & r & E). exists c, r. split; [exact E|].
  destruct (first_tok _ _ _ E) as (tok & Et & _ & Hne & _). intros ->. cbn in Et. injection Et as <-. now elim Hne. Qed.

Lemma vstruct_loop_complete v sig pos total :
  forall todo counter fuel,
    (forall t p, In t todo -> sub sig p (len (to_str t)) = to_str t -> pos < p -> v p = Ok (len (to_str t))) ->
    sub sig (pos + counter) (len (to_str_list todo) + len [c_rpar]) = to_str_list todo ++ [c_rpar] ->
    counter + len (to_str_list todo) + 1 = total ->
    1 <= counter -> (counter = 1 -> todo <> []) ->
    (length todo < fuel)%nat ->
    vstruct_loop v fuel sig pos counter = Ok total.
Proof.
  induction todo as [|t todo IH]; intros counter fuel Hv Hsub Htot Hc1 Hne Hf;
    (destruct fuel as [|f]; [cbn in Hf; lia|]); cbn [vstruct_loop].
  - cbn [to_str_list flat_map app] in Hsub, Htot. rewrite len_nil in Hsub, Htot. rewrite N.add_0_l in Hsub.
    assert (E : nthN sig (pos + counter) = Some 41).
    { replace (pos + counter) with (pos + counter + 0) by lia. eapply sub_at; [exact Hsub|reflexivity]. }
    rewrite E. cbn [N.eqb Pos.eqb]. change (41 =? 41) with true. cbv iota.
    destruct (N.eqb_spec counter 1) as [->|_]; [now elim Hne|]. f_equal. lia.
  - unfold to_str_list in Hsub, Htot. cbn [flat_map] in Hsub, Htot. fold (to_str_list todo) in Hsub, Htot.
    rewrite len_app in Hsub, Htot. rewrite <- app_assoc in Hsub. rewrite <- N.add_assoc in Hsub.
    rewrite <- len_app in Hsub.
    apply sub_split in Hsub. destruct Hsub as [Hs1 Hs2].
    destruct (first_char_not_rpar t) as (c & r & Ec & Hc).
    assert (E : nthN sig (pos + counter) = Some c).
    { replace (pos + counter) with (pos + counter + 0) by lia. eapply sub_at; [exact Hs1|now rewrite Ec]. }
    rewrite E. destruct (N.eqb_spec c 41) as [->|_]; [now elim Hc|].
    rewrite (Hv t (pos + counter)); [|left; reflexivity|exact Hs1|lia]. cbn [bind].
    pose proof (to_str_len_pos t) as Hpos.
    apply IH.
    + intros t' p Hin. apply Hv. now right.
    + rewrite len_app in Hs2. now replace (pos + (counter + len (to_str t))) with (pos + counter + len (to_str t)) by lia.
    + lia.
    + lia.
    + unfold len. lia.
    + cbn in Hf. lia.
Qed.

Lemma sub_head sig pos str c r : sub sig pos (len str) = str -> str = c :: r -> nthN sig pos = Some c.
Proof. intros H ->. replace pos with (pos + 0) by lia. eapply sub_at; [exact H|reflexivity]. Qed.

Lemma vbasic_false_a : vbasic 97 = false. Proof. reflexivity. Qed.

Lemma sub_bound sig pos str : sub sig pos (len str) = str -> str <> [] -> pos + len str <= len sig.
Proof. intros H Hne. apply len_sub_full; [destruct str; [now elim Hne|rewrite len_cons; lia]|now rewrite H]. Qed.

Definition entry_str (k : base) (v : ty) : list N := c_lbrace :: base_char k :: to_str v ++ [c_rbrace].

Lemma ventry_complete k v :
  (forall sig pos ad bd fuel, check_depth bd ad v = true -> sub sig pos (len (to_str v)) = to_str v ->
     (N.to_nat (len sig - pos) < fuel)%nat -> validate_next fuel sig pos ad bd = Ok (len (to_str v))) ->
  forall sig p ad bd fuel, check_depth bd ad v = true ->
    sub sig p (len (entry_str k v)) = entry_str k v ->
    0 < p -> nthN sig (p - 1) = Some 97 ->
    (N.to_nat (len sig - p) < fuel)%nat ->
    validate_next fuel sig p ad bd = Ok (len (entry_str k v)).
Proof.
  intros IHv sig p ad bd fuel Hd Hsub Hp Hprev Hf. destruct fuel as [|f]; [lia|]. cbn [validate_next].
  destruct (check_depth_guard _ _ _ Hd) as [Hg1 Hg2]. rewrite Hg1, Hg2.
  pose proof (sub_bound _ _ _ Hsub ltac:(discriminate)) as Hb.
  assert (Hlen : len (entry_str k v) = len (to_str v) + 3).
  { unfold entry_str. rewrite !len_cons, len_app, len_cons, len_nil. lia. }
  rewrite (sub_head _ _ _ _ _ Hsub eq_refl).
  unfold c_lbrace. change (vbasic 123 || (123 =? 118)) with false. change (123 =? 97) with false.
  change (123 =? 123) with true. cbv iota.
  rewrite Hprev. change (97 =? 97) with true.
  destruct (N.ltb_spec 0 p) as [_|]; [|lia].
  pose proof (to_str_len_pos v) as Hvpos.
  destruct (N.ltb_spec (p + 2) (len sig)) as [_|Hc]; [|unfold len in *; lia]. cbn [andb].
  assert (Ek : nthN sig (p + 1) = Some (base_char k)) by (eapply sub_at; [exact Hsub|reflexivity]).
  rewrite Ek, vbasic_base.
  unfold entry_str in Hsub.
  change (c_lbrace :: base_char k :: to_str v ++ [c_rbrace]) with ([c_lbrace; base_char k] ++ (to_str v ++ [c_rbrace])) in Hsub.
  rewrite (len_app [c_lbrace; base_char k]) in Hsub. apply sub_split in Hsub. destruct Hsub as [_ Hs2].
  rewrite len_app in Hs2. apply sub_split in Hs2. destruct Hs2 as [Hsv Hse].
  change (len [c_lbrace; base_char k]) with 2 in *.
  rewrite (IHv sig (p + 2) ad bd f Hd Hsv); [|unfold len in *; lia]. cbn [bind]. cbv zeta.
  assert (Ee : nthN sig (p + (1 + len (to_str v)) + 1) = Some 125).
  { replace (p + (1 + len (to_str v)) + 1) with (p + 2 + len (to_str v) + 0) by lia.
    eapply sub_at; [exact Hse|reflexivity]. }
  rewrite Ee. change (125 =? 125) with true. cbv iota. f_equal. lia.
Qed.

Lemma vnext_complete : forall t, wf t = true -> forall sig pos ad bd fuel,
  check_depth bd ad t = true ->
  sub sig pos (len (to_str t)) = to_str t ->
  (N.to_nat (len sig - pos) < fuel)%nat ->
  validate_next fuel sig pos ad bd = Ok (len (to_str t)).
Proof.
  induction t as [b|e IHe|ts IHts|k v IHv|] using ty_ind'; intros Hwf sig pos ad bd fuel Hd Hsub Hf;
    (destruct fuel as [|f]; [lia|]); cbn [validate_next];
    destruct (check_depth_guard _ _ _ Hd) as [Hg1 Hg2]; rewrite Hg1, Hg2;
    cbn [to_str] in Hsub; pose proof (nthN_lt _ _ _ (sub_head _ _ _ _ _ Hsub eq_refl)) as Hlt;
    pose proof (sub_bound _ _ _ Hsub ltac:(discriminate)) as Hb.
  - rewrite (sub_head _ _ _ _ _ Hsub eq_refl). rewrite vbasic_base. reflexivity.
  - (* array *)
    cbn [to_str] in *. rewrite (sub_head _ _ _ _ _ Hsub eq_refl).
    unfold c_a. change (vbasic 97 || (97 =? 118)) with false. change (97 =? 97) with true. cbv iota.
    change (c_a :: to_str e) with ([c_a] ++ to_str e) in Hsub. rewrite (len_app [c_a]) in Hsub.
    apply sub_split in Hsub. destruct Hsub as [_ Hs2].
    change (len [c_a]) with 1 in Hs2.
    cbn [check_depth] in Hd. rewrite Hg1, Hg2 in Hd. cbn [orb] in Hd.
    rewrite (IHe Hwf sig (pos + 1) (ad + 1) bd f Hd Hs2); [|lia]. cbn [bind]. f_equal. rewrite len_cons. lia.
  - (* struct *)
    cbn [to_str] in *. rewrite (sub_head _ _ _ _ _ Hsub eq_refl).
    unfold c_lpar. change (vbasic 40 || (40 =? 118)) with false. change (40 =? 97) with false.
    change (40 =? 123) with false. change (40 =? 40) with true. cbv iota.
    cbn [wf] in Hwf. apply andb_prop in Hwf. destruct Hwf as [Hne Hall].
    cbn [check_depth] in Hd. rewrite Hg1, Hg2 in Hd. cbn [orb] in Hd.
    fold (to_str_list ts) in *.
    assert (Hlen : len (c_lpar :: to_str_list ts ++ [c_rpar]) = len (to_str_list ts) + 2).
    { rewrite len_cons, len_app, len_cons, len_nil. lia. }
    change (c_lpar :: to_str_list ts ++ [c_rpar]) with ([c_lpar] ++ (to_str_list ts ++ [c_rpar])) in Hsub.
    rewrite (len_app [c_lpar]) in Hsub.
    apply sub_split in Hsub. destruct Hsub as [_ Hs2]. change (len [c_lpar]) with 1 in Hs2. rewrite len_app in Hs2.
    apply (vstruct_loop_complete _ sig pos _ ts 1 f).
    + intros t p Hin Hsubt Hp. rewrite Forall_forall in IHts. rewrite forallb_forall in Hall, Hd.
      apply IHts; [exact Hin|now apply Hall|now apply Hd|exact Hsubt|lia].
    + exact Hs2.
    + cbn [to_str]. fold (to_str_list ts). rewrite len_cons, len_app, len_cons, len_nil. lia.
    + lia.
    + intros _ ->. discriminate.
    + pose proof (length_flat_ge ts). unfold len in *. lia.
  - (* dict *)
    cbn [to_str] in *. rewrite (sub_head _ _ _ _ _ Hsub eq_refl).
    unfold c_a. change (vbasic 97 || (97 =? 118)) with false. change (97 =? 97) with true. cbv iota.
    pose proof (sub_head _ _ _ _ _ Hsub eq_refl) as Ea.
    change (c_a :: c_lbrace :: base_char k :: to_str v ++ [c_rbrace]) with ([c_a] ++ entry_str k v) in Hsub.
    rewrite (len_app [c_a]) in Hsub. apply sub_split in Hsub. destruct Hsub as [_ Hs2].
    change (len [c_a]) with 1 in Hs2.
    cbn [check_depth] in Hd. rewrite Hg1, Hg2 in Hd. cbn [orb] in Hd.
    assert (Hp1 : 0 < pos + 1) by lia.
    assert (Hprev : nthN sig (pos + 1 - 1) = Some 97) by (replace (pos + 1 - 1) with pos by lia; exact Ea).
    assert (Hf1 : (N.to_nat (len sig - (pos + 1)) < f)%nat) by lia.
    rewrite (ventry_complete k v (IHv Hwf) sig (pos + 1) (ad + 1) bd f Hd Hs2 Hp1 Hprev Hf1).
    cbn [bind]. f_equal. change (c_a :: c_lbrace :: base_char k :: to_str v ++ [c_rbrace]) with (c_a :: entry_str k v).
    rewrite len_cons. unfold entry_str. lia.
  - (* variant *)
    rewrite (sub_head _ _ _ _ _ Hsub eq_refl). reflexivity.
Qed.

(** ** The whole function *)
Lemma sub_all sig : sub sig 0 (len sig) = sig.
Proof. unfold sub, skipnN, firstnN, len. cbn [N.to_nat skipn]. rewrite Nat2N.id. apply firstn_all. Qed.

Lemma vtop_loop_sound : forall fuel sig pos,
  (pos = 0 \/ nthN sig (pos - 1) <> Some 97) ->
  vtop_loop fuel sig pos = Ok tt ->
  exists ts, sub sig pos (len sig - pos) = to_str_list ts /\ forallb wf ts = true
             /\ forallb (check_depth 0 0) ts = true.
Proof.
  induction fuel as [|f IH]; intros sig pos Hprev H; cbn [vtop_loop] in H; [discriminate|].
  destruct (N.ltb_spec pos (len sig)) as [Hlt|Hge].
  - destruct (validate_next (S (length sig)) sig pos 0 0) as [n| | | |] eqn:En; cbn [bind] in H; try discriminate.
    apply validate_next_sound in En. destruct En as (it & Es & El & Ew & Edp & Eent).
    destruct it as [t|k v].
    2:{ exfalso. destruct (Eent k v eq_refl) as [Hp Hn]. destruct Hprev as [->|Hprev]; [lia|now apply Hprev]. }
    cbn [item_str item_wf item_depth] in *.
    pose proof (to_str_len_pos t) as Hpos.
    assert (Hb : pos + n <= len sig).
    { apply len_sub_full; [unfold len in El; lia|]. now rewrite Es. }
    apply IH in H.
    + destruct H as (ts & Hs & Hw & Hd). exists (t :: ts).
      replace (len sig - pos) with (n + (len sig - (pos + n))) by lia.
      rewrite sub_add, Es, Hs. split; [reflexivity|]. cbn [forallb]. now rewrite Ew, Edp, Hw, Hd.
    + right. destruct (to_str_last t) as (pre & c & Ec).
      assert (Hn : n = len pre + 1) by (rewrite <- El, Ec, len_app, len_cons, len_nil; lia).
      pose proof (sub_nth sig pos n (len pre) ltac:(lia)) as Hnth.
      rewrite Es, Ec, nthN_last in Hnth. replace (pos + n - 1) with (pos + len pre) by lia.
      rewrite <- Hnth. intros E. injection E as ->. exact (last_not_a t pre 97 Ec eq_refl).
  - exists []. replace (len sig - pos) with 0 by lia. split; [reflexivity|]. split; reflexivity.
Qed.

Lemma vtop_loop_complete : forall ts sig pos fuel,
  forallb wf ts = true -> forallb (check_depth 0 0) ts = true ->
  sub sig pos (len (to_str_list ts)) = to_str_list ts -> pos + len (to_str_list ts) = len sig ->
  (length ts < fuel)%nat ->
  vtop_loop fuel sig pos = Ok tt.
Proof.
  induction ts as [|t ts IH]; intros sig pos fuel Hw Hd Hsub Hend Hf;
    (destruct fuel as [|f]; [cbn in Hf; lia|]); cbn [vtop_loop].
  - change (len (to_str_list [])) with 0 in Hend. destruct (N.ltb_spec pos (len sig)); [lia|reflexivity].
  - cbn [forallb] in Hw, Hd. apply andb_prop in Hw, Hd. destruct Hw as [Hwt Hw], Hd as [Hdt Hd].
    unfold to_str_list in Hsub, Hend. cbn [flat_map] in Hsub, Hend. fold (to_str_list ts) in Hsub, Hend.
    rewrite len_app in Hsub, Hend. apply sub_split in Hsub. destruct Hsub as [Hs1 Hs2].
    pose proof (to_str_len_pos t) as Hpos.
    destruct (N.ltb_spec pos (len sig)) as [_|]; [|unfold len in *; lia].
    rewrite (vnext_complete t Hwt sig pos 0 0 (S (length sig)) Hdt Hs1); [|unfold len; lia].
    cbn [bind]. apply IH; try assumption; [lia|cbn in Hf; lia].
Qed.

Theorem validate_signature_spec s : validate_signature s = Ok tt <-> ValidSig s.
Proof.
  unfold validate_signature, ValidSig, sig_of_types. destruct (N.ltb_spec 255 (len s)) as [Hl|Hl].
  { split; [discriminate|]. intros (ts & H & _). lia. }
  split.
  - intros H. apply vtop_loop_sound in H; [|now left].
    destruct H as (ts & Hs & Hw & Hd). rewrite N.sub_0_r, sub_all in Hs.
    exists ts. split; [exact Hl|]. split; [exact Hw|]. split; [|exact Hs].
    now rewrite <- forallb_check_depth.
  - intros (ts & _ & Hw & Hd & Es). apply (vtop_loop_complete ts); try assumption.
    + now rewrite forallb_check_depth.
    + rewrite <- Es. apply sub_all.
    + rewrite <- Es. lia.
    + rewrite Es. pose proof (length_flat_ge ts). lia.
Qed.

(** ** Totality: no panic (the out-of-bounds index is guarded), no fuel exhaustion *)
Lemma vsound_pos sig pos ad bd n : vsound sig pos ad bd n -> 1 <= n /\ pos + n <= len sig.
Proof. intros (it & Es & El & _). pose proof (len_item_pos it). split; [lia|].
  apply len_sub_full; [lia|]. now rewrite Es. Qed.

Lemma vstruct_loop_total v sig pos ad bd :
  (forall p n, v p = Ok n -> vsound sig p ad bd n) ->
  (forall p, pos < p -> ok_or_err (v p)) ->
  forall fuel counter, 1 <= counter -> (N.to_nat (len sig - (pos + counter)) < fuel)%nat ->
  ok_or_err (vstruct_loop v fuel sig pos counter).
Proof.
  intros Hs Ht. induction fuel as [|f IH]; intros counter Hc Hf; [lia|]. cbn [vstruct_loop].
  destruct (nthN sig (pos + counter)) as [c|] eqn:Ec; [|exact I].
  destruct (c =? 41); [destruct (counter =? 1); exact I|].
  specialize (Ht (pos + counter) ltac:(lia)).
  destruct (v (pos + counter)) as [n| | | |] eqn:En; cbn [bind]; try exact Ht.
  apply Hs in En. apply vsound_pos in En. destruct En as [Hn Hb].
  replace (pos + counter + n) with (pos + (counter + n)) in Hb by lia.
  apply IH; [lia|]. apply nthN_lt in Ec. lia.
Qed.

Lemma validate_next_total : forall fuel sig pos ad bd,
  (N.to_nat (len sig - pos) < fuel)%nat -> ok_or_err (validate_next fuel sig pos ad bd).
Proof.
  induction fuel as [|f IH]; intros sig pos ad bd Hf; [lia|]. cbn [validate_next].
  destruct (32 <? bd); [exact I|]. destruct (32 <? ad); [exact I|].
  destruct (nthN sig pos) as [c|] eqn:Ec; [|exact I]. apply nthN_lt in Ec.
  destruct (vbasic c || (c =? 118)); [exact I|].
  destruct (c =? 97).
  { pose proof (IH sig (pos + 1) (ad + 1) bd ltac:(lia)) as Hn.
    destruct (validate_next f sig (pos + 1) (ad + 1) bd); cbn [bind]; try exact Hn; exact I. }
  destruct (c =? 123).
  { destruct (N.ltb_spec 0 pos) as [Hp|]; [|exact I].
    destruct (N.ltb_spec (pos + 2) (len sig)) as [Hl|]; [|exact I]. cbn [andb].
    destruct (match nthN sig (pos - 1) with Some p => p =? 97 | None => false end); [|exact I].
    destruct (nthN_some sig (pos + 1) ltac:(lia)) as [k ->].
    destruct (vbasic k); [|exact I].
    pose proof (IH sig (pos + 2) ad bd ltac:(lia)) as Hn.
    destruct (validate_next f sig (pos + 2) ad bd); cbn [bind]; try exact Hn. cbv zeta.
    destruct (nthN sig (pos + (1 + a) + 1)); [destruct (n =? 125)|]; exact I. }
  destruct (c =? 40); [|exact I].
  apply (vstruct_loop_total _ sig pos ad (bd + 1)).
  - intros p n. apply validate_next_sound.
  - intros p Hp. apply IH. lia.
  - lia.
  - lia.
Qed.

Lemma vtop_loop_total : forall fuel sig pos, (N.to_nat (len sig - pos) < fuel)%nat ->
  ok_or_err (vtop_loop fuel sig pos).
Proof.
  induction fuel as [|f IH]; intros sig pos Hf; [lia|]. cbn [vtop_loop].
  destruct (N.ltb_spec pos (len sig)) as [Hlt|]; [|exact I].
  pose proof (validate_next_total (S (length sig)) sig pos 0 0 ltac:(unfold len; lia)) as Hn.
  destruct (validate_next (S (length sig)) sig pos 0 0) as [n| | | |] eqn:En; cbn [bind]; try exact Hn.
  apply validate_next_sound, vsound_pos in En. apply IH. lia.
Qed.

Theorem validate_signature_total s : ok_or_err (validate_signature s).
Proof. unfold validate_signature. destruct (255 <? len s); [exact I|]. apply vtop_loop_total. unfold len. lia. Qed.

(** ** The two functions agree *)
Theorem parser_validator_agree s :
  is_ok (parse_description s) = is_ok (validate_signature s).
Proof.
  destruct (parse_description s) as [ts| | | |] eqn:Ep; cbn [is_ok].
  - apply parse_description_spec in Ep.
    assert (Hv : validate_signature s = Ok tt) by (apply validate_signature_spec; now exists ts).
    now rewrite Hv.
  - destruct (validate_signature s) as [[]| | | |] eqn:Ev; cbn [is_ok]; try reflexivity.
    apply validate_signature_spec in Ev. destruct Ev as [ts Hs].
    assert (Hp : parse_description s = Ok ts) by (now apply parse_description_spec).
    congruence.
  - pose proof (parse_description_total s) as H. now rewrite Ep in H.
  - pose proof (parse_description_total s) as H. now rewrite Ep in H.
  - pose proof (parse_description_total s) as H. now rewrite Ep in H.
Qed.
