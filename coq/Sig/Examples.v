(** Non-vacuity: concrete signatures on both sides of every boundary, evaluated by the model. *)
From RB Require Import Base.Prelude Sig.Types Sig.Parser Sig.ParserProofs Sig.Validator Sig.ValidatorProofs Sig.Iter Sig.Grammar.

(* "a{s(iv)}ay" *)
Definition ex1 : list N := [97;123;115;40;105;118;41;125;97;121].
Example ex1_parse : parse_description ex1 = Ok [TDict BString (TStruct [TBase BInt32; TVariant]); TArray (TBase BByte)].
Proof. vm_compute. reflexivity. Qed.
Example ex1_validate : validate_signature ex1 = Ok tt.
Proof. vm_compute. reflexivity. Qed.
Example ex1_grammar : GrammarSig ex1.
Proof. apply grammar_iff_ast. apply validate_signature_spec. exact ex1_validate. Qed.
Example ex1_iter : iter_all 11 ex1 = Ok [[97;123;115;40;105;118;41;125]; [97;121]].
Proof. vm_compute. reflexivity. Qed.

(* rejected: "a{vs}" (variant key), "()" , "{sv}", "a", "a{bv" ; accepted: "a{bv}" *)
Example ex_bad1 : validate_signature [97;123;118;115;125] = Err /\ parse_description [97;123;118;115;125] = Err.
Proof. vm_compute. auto. Qed.
Example ex_bad2 : validate_signature [40;41] = Err /\ parse_description [40;41] = Err.
Proof. vm_compute. auto. Qed.
Example ex_bad3 : validate_signature [123;115;118;125] = Err /\ parse_description [123;115;118;125] = Err.
Proof. vm_compute. auto. Qed.
Example ex_boolkey : validate_signature [97;123;98;118;125] = Ok tt /\ is_ok (parse_description [97;123;98;118;125]) = true.
Proof. vm_compute. auto. Qed.

(* nesting boundaries: 32 arrays accepted, 33 rejected; same for structs *)
Definition nest_a (n : nat) : list N := repeat 97 n ++ [121].
Definition nest_s (n : nat) : list N := repeat 40 n ++ [121] ++ repeat 41 n.
Example ex_depth : (validate_signature (nest_a 32), is_ok (parse_description (nest_a 32)),
                    validate_signature (nest_a 33), is_ok (parse_description (nest_a 33)),
                    validate_signature (nest_s 32), is_ok (parse_description (nest_s 32)),
                    validate_signature (nest_s 33), is_ok (parse_description (nest_s 33)))
                   = (Ok tt, true, Err, false, Ok tt, true, Err, false).
Proof. vm_compute. reflexivity. Qed.
(* length boundary: 255 bytes accepted, 256 rejected *)
Example ex_len : (validate_signature (repeat 121 255), validate_signature (repeat 121 256),
                  is_ok (parse_description (repeat 121 255)), is_ok (parse_description (repeat 121 256)))
                 = (Ok tt, Err, true, false).
Proof. vm_compute. reflexivity. Qed.

(* the empty signature (of an empty body): in the grammar, accepted by both functions, no types, no parts *)
Example ex_empty : (parse_description [], validate_signature [], iter_all 1 []) = (Ok [], Ok tt, Ok []).
Proof. vm_compute. reflexivity. Qed.
Example ex_empty_grammar : GrammarSig [].
Proof. split; [vm_compute; discriminate|apply scts_nil]. Qed.
Example ex_empty_types : sig_of_types [] [].
Proof. apply parse_description_spec. reflexivity. Qed.

(* nesting inside a NON-first / NON-last member of a struct and inside a dict value: the depth counters must be
   applied to every member. "(y" ++ nest_s n ++ ")" has n+1 struct levels around the innermost y *)
Definition nest_mid (n : nat) : list N := [40; 121] ++ nest_s n ++ [121; 41].                 (* (y((..y..))y) *)
Definition nest_last (n : nat) : list N := [40; 121] ++ nest_s n ++ [41].                     (* (y((..y..))) *)
Definition nest_dictval (n : nat) : list N := [97; 123; 115; 40; 121] ++ nest_s n ++ [41; 125]. (* a{s(y((..y..)))} *)
Example ex_depth_members :
  (validate_signature (nest_mid 31), is_ok (parse_description (nest_mid 31)),
   validate_signature (nest_mid 32), is_ok (parse_description (nest_mid 32)),
   validate_signature (nest_last 31), is_ok (parse_description (nest_last 31)),
   validate_signature (nest_last 32), is_ok (parse_description (nest_last 32)),
   validate_signature (nest_dictval 31), is_ok (parse_description (nest_dictval 31)),
   validate_signature (nest_dictval 32), is_ok (parse_description (nest_dictval 32)))
  = (Ok tt, true, Err, false, Ok tt, true, Err, false, Ok tt, true, Err, false).
Proof. vm_compute. reflexivity. Qed.
