(** D-Bus types as rustbus represents them (rustbus/src/signature.rs: Base, Container, Type)
    and their printed form (Type::to_str). Characters are byte values in N. *)
From RB Require Import Base.Prelude.

Inductive base := BByte | BInt16 | BUint16 | BInt32 | BUint32 | BUnixFd | BInt64 | BUint64
                | BDouble | BString | BSignature | BObjectPath | BBoolean.

Inductive ty :=
| TBase (b : base)
| TArray (t : ty)
| TStruct (ts : list ty)
| TDict (k : base) (v : ty)
| TVariant.

(* character codes *)
Definition c_lpar : N := 40.   (* ( *)
Definition c_rpar : N := 41.   (* ) *)
Definition c_a : N := 97.
Definition c_lbrace : N := 123. (* { *)
Definition c_rbrace : N := 125. (* } *)
Definition c_v : N := 118.

(* Base::to_str *)
Definition base_char (b : base) : N :=
  match b with
  | BBoolean => 98 | BByte => 121 | BInt16 => 110 | BUint16 => 113 | BInt32 => 105
  | BUint32 => 117 | BUnixFd => 104 | BInt64 => 120 | BUint64 => 116 | BDouble => 100
  | BString => 115 | BObjectPath => 111 | BSignature => 103
  end.

(* Type::to_str / Container::to_str *)
Fixpoint to_str (t : ty) : list N :=
  match t with
  | TBase b => [base_char b]
  | TArray e => c_a :: to_str e
  | TStruct ts => c_lpar :: flat_map to_str ts ++ [c_rpar]
  | TDict k v => c_a :: c_lbrace :: base_char k :: to_str v ++ [c_rbrace]
  | TVariant => [c_v]
  end.
Definition to_str_list (ts : list ty) : list N := flat_map to_str ts.

(* get_alignment *)
Definition base_align (b : base) : N :=
  match b with
  | BBoolean => 4 | BByte => 1 | BInt16 => 2 | BUint16 => 2 | BInt32 => 4 | BUint32 => 4
  | BUnixFd => 4 | BInt64 => 8 | BUint64 => 8 | BDouble => 8 | BString => 4
  | BObjectPath => 4 | BSignature => 1
  end.
Definition align (t : ty) : N :=
  match t with
  | TBase b => base_align b
  | TArray _ => 4 | TDict _ _ => 4 | TStruct _ => 8 | TVariant => 1
  end.

Definition base_eqb (a b : base) : bool := N.eqb (base_char a) (base_char b).
Lemma base_char_inj a b : base_char a = base_char b -> a = b.
Proof. destruct a, b; cbn; intros H; try reflexivity; discriminate H. Qed.
Lemma base_eqb_spec a b : reflect (a = b) (base_eqb a b).
Proof. unfold base_eqb. destruct (N.eqb_spec (base_char a) (base_char b)) as [E|E].
  - left. now apply base_char_inj.
  - right. intros ->. now apply E. Qed.

(* own induction principle for the nested type *)
Section ty_ind'.
  Variable P : ty -> Prop.
  Hypothesis Hbase : forall b, P (TBase b).
  Hypothesis Harr : forall t, P t -> P (TArray t).
  Hypothesis Hstruct : forall ts, Forall P ts -> P (TStruct ts).
  Hypothesis Hdict : forall k v, P v -> P (TDict k v).
  Hypothesis Hvar : P TVariant.
  Fixpoint ty_ind' (t : ty) : P t :=
    match t with
    | TBase b => Hbase b
    | TArray e => Harr e (ty_ind' e)
    | TStruct ts => Hstruct ts ((fix go (l : list ty) : Forall P l :=
                                   match l with [] => Forall_nil P | x :: xs => Forall_cons x (ty_ind' x) (go xs) end) ts)
    | TDict k v => Hdict k v (ty_ind' v)
    | TVariant => Hvar
    end.
End ty_ind'.

Fixpoint ty_eqb (a b : ty) {struct a} : bool :=
  match a, b with
  | TBase x, TBase y => base_eqb x y
  | TArray x, TArray y => ty_eqb x y
  | TStruct xs, TStruct ys =>
      (fix go (l1 l2 : list ty) : bool :=
         match l1, l2 with
         | [], [] => true
         | x :: l1', y :: l2' => ty_eqb x y && go l1' l2'
         | _, _ => false
         end) xs ys
  | TDict k v, TDict k' v' => base_eqb k k' && ty_eqb v v'
  | TVariant, TVariant => true
  | _, _ => false
  end.

(** Well-formed types of the specification: no empty structs (recursively). *)
Fixpoint wf (t : ty) : bool :=
  match t with
  | TBase _ => true
  | TArray e => wf e
  | TStruct ts => negb (match ts with [] => true | _ => false end) && forallb wf ts
  | TDict _ v => wf v
  | TVariant => true
  end.

(** Nesting limits of the specification: a type nested in [a] arrays and [s] structs.
    At most 32 array levels and 32 struct levels; dict entries are limited by their array. *)
Fixpoint depth_ok (a s : N) (t : ty) : bool :=
  match t with
  | TBase _ => true
  | TVariant => true
  | TArray e => (a <? 32) && depth_ok (a + 1) s e
  | TDict _ v => (a <? 32) && depth_ok (a + 1) s v
  | TStruct ts => (s <? 32) && forallb (depth_ok a (s + 1)) ts
  end.
