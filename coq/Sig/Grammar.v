(** The D-Bus signature grammar as an inductive relation on strings, written from the
    specification text (independent of the code's printer), and its equivalence with the
    AST-based formulation used in the parser/validator proofs. *)
From RB Require Import Base.Prelude Sig.Types Sig.Parser Sig.ParserProofs.

(* the 13 basic type codes: y b n q i u x t d h s o g *)
Definition basic_char (c : N) : Prop := In c [121; 98; 110; 113; 105; 117; 120; 116; 100; 104; 115; 111; 103].

(** [SCT a s l]: [l] is a single complete type that sits inside [a] arrays and [s] structs.
    [SCTs a s l]: [l] is a sequence of zero or more such types. *)
Inductive SCT : N -> N -> list N -> Prop :=
| sct_basic a s c : basic_char c -> SCT a s [c]
| sct_variant a s : SCT a s [118]                                          (* v *)
| sct_array a s e : a < 32 -> SCT (a + 1) s e -> SCT a s (97 :: e)          (* a<type> *)
| sct_dict a s k v : a < 32 -> basic_char k -> SCT (a + 1) s v ->
                     SCT a s (97 :: 123 :: k :: v ++ [125])                 (* a{<basic><type>} *)
| sct_struct a s l : s < 32 -> l <> [] -> SCTs a (s + 1) l ->
                     SCT a s (40 :: l ++ [41])                              (* (<type>+) *)
with SCTs : N -> N -> list N -> Prop :=
| scts_nil a s : SCTs a s []
| scts_cons a s x l : SCT a s x -> SCTs a s l -> SCTs a s (x ++ l).

Scheme SCT_mut := Induction for SCT Sort Prop
  with SCTs_mut := Induction for SCTs Sort Prop.
Combined Scheme SCT_SCTs_ind from SCT_mut, SCTs_mut.

Definition GrammarSig (l : list N) : Prop := len l <= 255 /\ SCTs 0 0 l.

Lemma basic_char_base c : basic_char c <-> exists b, c = base_char b.
Proof.
  unfold basic_char. cbn [In]. split.
  - intros H. repeat (destruct H as [<-|H]);
      [exists BByte|exists BBoolean|exists BInt16|exists BUint16|exists BInt32|exists BUint32|exists BInt64
      |exists BUint64|exists BDouble|exists BUnixFd|exists BString|exists BObjectPath|exists BSignature|destruct H];
      reflexivity.
  - intros [b ->]. destruct b; cbn; tauto.
Qed.

Lemma grammar_to_ast :
  (forall a s l, SCT a s l -> exists t, wf t = true /\ depth_ok a s t = true /\ to_str t = l) /\
  (forall a s l, SCTs a s l -> exists ts, forallb wf ts = true /\ forallb (depth_ok a s) ts = true /\ to_str_list ts = l).
Proof.
  apply SCT_SCTs_ind.
  - intros a s c Hc. apply basic_char_base in Hc. destruct Hc as [b ->]. exists (TBase b). auto.
  - intros a s. exists TVariant. auto.
  - intros a s e Ha _ (t & Hw & Hd & <-). exists (TArray t). cbn [wf depth_ok to_str].
    apply N.ltb_lt in Ha. rewrite Ha, Hd. auto.
  - intros a s k v Ha Hk _ (t & Hw & Hd & <-). apply basic_char_base in Hk. destruct Hk as [b ->].
    exists (TDict b t). cbn [wf depth_ok to_str]. apply N.ltb_lt in Ha. rewrite Ha, Hd. auto.
  - intros a s l Hs Hne _ (ts & Hw & Hd & <-). exists (TStruct ts). cbn [wf depth_ok to_str].
    apply N.ltb_lt in Hs. rewrite Hs, Hd, Hw. destruct ts; [now elim Hne|]. auto.
  - intros a s. exists []. auto.
  - intros a s x l _ (t & Hw & Hd & <-) _ (ts & Hws & Hds & <-). exists (t :: ts). cbn [forallb].
    rewrite Hw, Hd, Hws, Hds. auto.
Qed.

Lemma ast_to_grammar : forall t a s, wf t = true -> depth_ok a s t = true -> SCT a s (to_str t).
Proof.
  induction t as [b|e IHe|ts IHts|k v IHv|] using ty_ind'; intros a s Hw Hd; cbn [to_str wf depth_ok] in *.
  - apply sct_basic. apply basic_char_base. eauto.
  - apply andb_prop in Hd. destruct Hd as [Ha Hd]. apply N.ltb_lt in Ha. apply sct_array; auto.
  - apply andb_prop in Hd, Hw. destruct Hd as [Hs Hd], Hw as [Hne Hw]. apply N.ltb_lt in Hs.
    apply sct_struct; [exact Hs| |].
    + destruct ts as [|t0 ts']; [discriminate|]. cbn [flat_map]. destruct (to_str_nonempty t0) as (? & ? & ->). discriminate.
    + clear Hne. induction ts as [|t ts IH]; [apply scts_nil|]. cbn [flat_map forallb] in *.
      apply andb_prop in Hd, Hw. destruct Hd as [Hdt Hd], Hw as [Hwt Hw].
      apply Forall_cons_iff in IHts. destruct IHts as [IHt IHts].
      apply scts_cons; [now apply IHt|now apply IH].
  - apply andb_prop in Hd. destruct Hd as [Ha Hd]. apply N.ltb_lt in Ha.
    apply sct_dict; [exact Ha|apply basic_char_base; eauto|auto].
  - apply sct_variant.
Qed.

Theorem grammar_iff_ast l : GrammarSig l <-> ValidSig l.
Proof.
  unfold GrammarSig, ValidSig, sig_of_types. split.
  - intros [Hl H]. apply (proj2 grammar_to_ast) in H. destruct H as (ts & Hw & Hd & <-). exists ts. auto.
  - intros (ts & Hl & Hw & Hd & ->). split; [exact Hl|].
    clear Hl. induction ts as [|t ts IH]; [apply scts_nil|]. cbn [forallb] in *.
    apply andb_prop in Hd, Hw. destruct Hd as [Hdt Hd], Hw as [Hwt Hw].
    unfold to_str_list. cbn [flat_map]. apply scts_cons; [now apply ast_to_grammar|now apply IH].
Qed.
