(** parse_description accepts exactly the printed forms of well-formed, depth-bounded type lists. *)
From RB Require Import Base.Prelude Sig.Types Sig.Parser.

Definition token_char (t : token) : N :=
  match t with
  | TkStructStart => 40 | TkStructEnd => 41 | TkArray => 97 | TkBase b => base_char b
  | TkDictStart => 123 | TkDictEnd => 125 | TkVariant => 118
  end.

Lemma char_to_token_inv c t : char_to_token c = Some t -> c = token_char t.
Proof.
  unfold char_to_token.
  repeat match goal with
         | |- (if ?c =? ?k then _ else _) = _ -> _ =>
             destruct (N.eqb_spec c k) as [->|_]; [intros H; injection H as <-; reflexivity|]
         end.
  discriminate.
Qed.
Lemma char_to_token_char t : char_to_token (token_char t) = Some t.
Proof. destruct t as [| | |b| | |]; try reflexivity. destruct b; reflexivity. Qed.

Lemma char_to_token_base b : char_to_token (base_char b) = Some (TkBase b).
Proof. exact (char_to_token_char (TkBase b)). Qed.

Lemma to_str_nonempty t : exists c rest, to_str t = c :: rest.
Proof. destruct t; cbn; eauto. Qed.
Lemma to_str_len_pos t : (1 <= length (to_str t))%nat.
Proof. destruct (to_str_nonempty t) as (c & r & ->). cbn. lia. Qed.

(* first character of a printed type is never one of ) { } *)
Lemma first_tok t c rest : to_str t = c :: rest ->
  exists tok, char_to_token c = Some tok /\ tok <> TkDictStart /\ tok <> TkStructEnd /\ tok <> TkDictEnd.
Proof.
  destruct t as [b|e|ts|k v|]; cbn [to_str]; intros H; injection H as <- _.
  - exists (TkBase b). split; [apply char_to_token_base|]. split; [|split]; discriminate.
  - exists TkArray. split; [reflexivity|]. split; [|split]; discriminate.
  - exists TkStructStart. split; [reflexivity|]. split; [|split]; discriminate.
  - exists TkArray. split; [reflexivity|]. split; [|split]; discriminate.
  - exists TkVariant. split; [reflexivity|]. split; [|split]; discriminate.
Qed.

(** ** Soundness *)
Definition sound_res (delim : bool) (s : list N) (r : option ty) (rest : list N) : Prop :=
  match r with
  | Some t => s = to_str t ++ rest /\ wf t = true
  | None => (delim = false /\ s = [] /\ rest = []) \/ (delim = true /\ s = c_rpar :: rest)
  end.

Lemma struct_loop_sound p :
  (forall s r rest, p s = Ok (r, rest) -> sound_res true s r rest) ->
  forall fuel s acc ts rest, struct_loop p fuel s acc = Ok (ts, rest) ->
  exists new, ts = acc ++ new /\ s = to_str_list new ++ c_rpar :: rest /\ forallb wf new = true.
Proof.
  intros Hp. induction fuel as [|f IH]; intros s acc ts rest H; cbn [struct_loop] in H; [discriminate|].
  destruct (p s) as [[r s']| | | |] eqn:E; cbn [bind] in H; try discriminate.
  apply Hp in E. destruct r as [t|]; cbn [sound_res] in E.
  - destruct E as [-> Hwf]. apply IH in H. destruct H as (new & -> & -> & Hn).
    exists (t :: new). split; [now rewrite <- app_assoc|]. split.
    + unfold to_str_list. cbn [flat_map]. now rewrite <- app_assoc.
    + cbn [forallb]. now rewrite Hwf.
  - injection H as <- <-. destruct E as [[E _]|[_ ->]]; [discriminate|].
    exists []. split; [now rewrite app_nil_r|]. split; reflexivity.
Qed.

Lemma parse_next_sound : forall fuel delim s r rest,
  parse_next fuel delim s = Ok (r, rest) -> sound_res delim s r rest.
Proof.
  induction fuel as [|f IH]; intros delim s r rest H; cbn [parse_next] in H; [discriminate|].
  destruct s as [|c s1].
  { destruct delim; [discriminate|]. injection H as <- <-. cbn. left; auto. }
  destruct (char_to_token c) as [tok|] eqn:Ec; [|discriminate].
  apply char_to_token_inv in Ec. subst c.
  destruct tok as [| | |b| | |]; cbn [token_char].
  - (* struct *)
    destruct (struct_loop (parse_next f true) f s1 []) as [[ts rest']| | | |] eqn:El; cbn [bind] in H; try discriminate.
    apply (struct_loop_sound _ (IH true)) in El. destruct El as (new & -> & -> & Hn). cbn [app] in H.
    destruct new as [|t new]; [discriminate|]. injection H as <- <-.
    cbn [sound_res to_str]. split.
    + unfold to_str_list, c_lpar. cbn [app]. f_equal. rewrite <- app_assoc. reflexivity.
    + cbn [wf negb andb]. exact Hn.
  - (* struct end *)
    destruct delim; [|discriminate]. injection H as <- <-. cbn. right; auto.
  - (* array *)
    destruct s1 as [|c2 s2]; [discriminate|].
    destruct (char_to_token c2) as [tok2|] eqn:Ec2; [|discriminate].
    assert (Hgen : forall er, parse_next f false (c2 :: s2) = er ->
                  (do er0 <- er; match er0 with (Some e, rest') => Ok (Some (TArray e), rest') | (None, _) => Err end) = Ok (r, rest) ->
                  sound_res delim (97 :: c2 :: s2) r rest).
    { intros er Eer H'. destruct er as [[oe rest']| | | |]; cbn [bind] in H'; try discriminate.
      destruct oe as [e|]; [|discriminate]. injection H' as <- <-.
      apply IH in Eer. cbn [sound_res] in Eer. destruct Eer as [Es Hwf].
      cbn [sound_res to_str wf]. split; [|exact Hwf]. unfold c_a. cbn [app]. now rewrite Es. }
    destruct tok2 as [| | |b2| | |]; try (apply (Hgen _ eq_refl H)).
    (* dict *)
    clear Hgen. apply char_to_token_inv in Ec2. subst c2. cbn [token_char].
    unfold parse_next_base in H. destruct s2 as [|ck s3]; [discriminate|].
    destruct (char_to_token ck) as [tk|] eqn:Eck; [|discriminate].
    destruct tk as [| | |k| | |]; try discriminate. cbn [bind] in H.
    apply char_to_token_inv in Eck. subst ck. cbn [token_char] in *.
    destruct (parse_next f false s3) as [[ov rest4]| | | |] eqn:Ev; cbn [bind] in H; try discriminate.
    destruct ov as [v|]; [|discriminate].
    destruct rest4 as [|c4 rest5]; [discriminate|].
    destruct (char_to_token c4) as [t4|] eqn:E4; [|discriminate].
    destruct t4; try discriminate. injection H as <- <-.
    apply char_to_token_inv in E4. subst c4. cbn [token_char] in *.
    apply IH in Ev. cbn [sound_res] in Ev. destruct Ev as [-> Hwf].
    cbn [sound_res to_str wf]. split; [|exact Hwf].
    unfold c_a, c_lbrace, c_rbrace. cbn [app]. rewrite <- app_assoc. reflexivity.
  - injection H as <- <-. cbn. auto.
  - discriminate.
  - discriminate.
  - injection H as <- <-. cbn. auto.
Qed.

(** ** Completeness *)
Lemma struct_loop_complete p rest : p (c_rpar :: rest) = Ok (None, rest) ->
  forall ts fuel acc,
  Forall (fun t => forall rest', p (to_str t ++ rest') = Ok (Some t, rest')) ts ->
  (length ts < fuel)%nat ->
  struct_loop p fuel (to_str_list ts ++ c_rpar :: rest) acc = Ok (acc ++ ts, rest).
Proof.
  intros Hend. induction ts as [|t ts IH]; intros fuel acc Hall Hf.
  - destruct fuel as [|f]; [cbn in Hf; lia|]. cbn [struct_loop to_str_list flat_map app].
    rewrite Hend. cbn [bind]. now rewrite app_nil_r.
  - destruct fuel as [|f]; [cbn in Hf; lia|]. cbn [struct_loop].
    apply Forall_cons_iff in Hall. destruct Hall as [Ht Hall].
    unfold to_str_list. cbn [flat_map]. rewrite <- app_assoc. rewrite Ht. cbn [bind].
    fold (to_str_list ts). rewrite IH; [|assumption|cbn in Hf; lia].
    now rewrite <- app_assoc.
Qed.

Lemma length_flat_ge ts : (length ts <= length (to_str_list ts))%nat.
Proof. unfold to_str_list. induction ts as [|t ts IH]; cbn [flat_map length]; [lia|]. rewrite app_length. pose proof (to_str_len_pos t). lia. Qed.

Lemma parse_next_complete : forall t, wf t = true ->
  forall fuel delim rest, (length (to_str t) < fuel)%nat ->
  parse_next fuel delim (to_str t ++ rest) = Ok (Some t, rest).
Proof.
  induction t as [b|e IHe|ts IHts|k v IHv|] using ty_ind'; intros Hwf fuel delim rest Hf;
    (destruct fuel as [|f]; [lia|]); cbn [parse_next to_str app].
  - rewrite char_to_token_base. reflexivity.
  - (* array *)
    unfold c_a. cbn [char_to_token N.eqb]. change (char_to_token 97) with (Some TkArray). cbv iota.
    destruct (to_str_nonempty e) as (c2 & r2 & E2). rewrite E2. cbn [app].
    destruct (first_tok _ _ _ E2) as (tok & Etok & Hnd & _). rewrite Etok.
    assert (Hp : parse_next f false (c2 :: r2 ++ rest) = Ok (Some e, rest)).
    { change (c2 :: r2 ++ rest) with ((c2 :: r2) ++ rest). rewrite <- E2. apply IHe; [exact Hwf|]. cbn in Hf. lia. }
    destruct tok; try (rewrite Hp; reflexivity). now elim Hnd.
  - (* struct *)
    unfold c_lpar. change (char_to_token 40) with (Some TkStructStart). cbv iota.
    cbn [wf] in Hwf. apply andb_prop in Hwf. destruct Hwf as [Hne Hall].
    rewrite <- app_assoc. cbn [app].
    fold (to_str_list ts).
    assert (Hlen : (length (to_str (TStruct ts)) = 2 + length (to_str_list ts))%nat).
    { cbn [to_str length]. rewrite app_length. cbn. fold (to_str_list ts). lia. }
    rewrite (struct_loop_complete (parse_next f true) rest).
    + cbn [bind app]. destruct ts; [discriminate|reflexivity].
    + destruct f as [|f']; [lia|]. cbn [parse_next]. unfold c_rpar. reflexivity.
    + rewrite forallb_forall in Hall. rewrite Forall_forall in IHts |- *.
      intros t Hin rest'. apply IHts; [exact Hin|now apply Hall|].
      assert ((length (to_str t) <= length (to_str_list ts))%nat).
      { clear -Hin. unfold to_str_list. induction ts as [|x xs IH]; [destruct Hin|]. cbn [flat_map]. rewrite app_length.
        destruct Hin as [->|Hin]; [lia|]. specialize (IH Hin). lia. }
      lia.
    + pose proof (length_flat_ge ts). lia.
  - (* dict *)
    unfold c_a. change (char_to_token 97) with (Some TkArray). cbv iota.
    unfold c_lbrace. change (char_to_token 123) with (Some TkDictStart). cbv iota.
    unfold parse_next_base. rewrite char_to_token_base. cbn [bind].
    rewrite <- app_assoc. rewrite IHv; [|exact Hwf|cbn in Hf; rewrite app_length in Hf; cbn in Hf; lia].
    cbn [bind app]. unfold c_rbrace. reflexivity.
  - reflexivity.
Qed.

(** ** check_nesting_depth is the specification's depth bound on well-formed types *)
Lemma check_depth_spec : forall t sd ad, wf t = true ->
  (check_depth sd ad t = true <-> (sd <= 32 /\ ad <= 32 /\ depth_ok ad sd t = true)).
Proof.
  induction t as [b|e IHe|ts IHts|k v IHv|] using ty_ind'; intros sd ad Hwf; cbn [check_depth depth_ok];
    destruct (N.ltb_spec 32 sd) as [Hs|Hs], (N.ltb_spec 32 ad) as [Ha|Ha]; cbn [orb];
    try (split; [discriminate|intros (? & ? & ?); lia]).
  - split; [intros _|reflexivity]. repeat split; lia.
  - rewrite (IHe sd (ad + 1) Hwf). rewrite andb_true_iff, N.ltb_lt. intuition lia.
  - cbn [wf] in Hwf. apply andb_prop in Hwf. destruct Hwf as [Hne Hall].
    rewrite andb_true_iff, N.ltb_lt, !forallb_forall. rewrite forallb_forall in Hall.
    rewrite Forall_forall in IHts. split.
    + intros Hc. destruct ts as [|t0 ts']; [discriminate|].
      assert (H0 : sd + 1 <= 32 /\ ad <= 32 /\ depth_ok ad (sd + 1) t0 = true).
      { apply IHts; [left; reflexivity|apply Hall; left; reflexivity|apply Hc; left; reflexivity]. }
      split; [lia|]. split; [lia|]. split; [lia|].
      intros x Hx. apply (IHts x Hx (sd + 1) ad); [now apply Hall|now apply Hc].
    + intros (_ & _ & Hlt & Hd) x Hx. apply IHts; [exact Hx|now apply Hall|].
      split; [lia|]. split; [lia|]. now apply Hd.
  - rewrite (IHv sd (ad + 1) Hwf). rewrite andb_true_iff, N.ltb_lt. intuition lia.
  - split; [intros _|reflexivity]. repeat split; lia.
Qed.

(** ** Totality: with the fuel parse_description supplies the model never runs out of fuel *)
Lemma sound_res_shrinks delim s r rest : sound_res delim s r rest ->
  (length rest <= length s)%nat /\ (r <> None -> (length rest < length s)%nat).
Proof.
  destruct r as [t|]; cbn [sound_res].
  - intros [-> _]. rewrite app_length. pose proof (to_str_len_pos t). split; [lia|intros _; lia].
  - intros [(_ & -> & ->)|(_ & ->)]; cbn [length]; split; try lia; intros H; now elim H.
Qed.

Definition ok_or_err {A} (o : outcome A) : Prop := match o with Ok _ | Err => True | _ => False end.

Lemma struct_loop_total p bound :
  (forall s, (length s < bound)%nat -> ok_or_err (p s)) ->
  (forall s r rest, p s = Ok (r, rest) -> sound_res true s r rest) ->
  forall fuel s acc, (length s < fuel)%nat -> (length s < bound)%nat -> ok_or_err (struct_loop p fuel s acc).
Proof.
  intros Hp Hs. induction fuel as [|f IH]; intros s acc Hf Hb; [lia|]. cbn [struct_loop].
  specialize (Hp s Hb). destruct (p s) as [[r s']| | | |] eqn:E; cbn [bind]; try exact Hp.
  pose proof (sound_res_shrinks _ _ _ _ (Hs _ _ _ E)) as [Hle Hlt].
  destruct r as [t|]; [|exact I].
  apply IH; [assert (length s' < length s)%nat by (apply Hlt; discriminate); lia|lia].
Qed.

Lemma parse_next_total : forall fuel delim s, (length s < fuel)%nat -> ok_or_err (parse_next fuel delim s).
Proof.
  induction fuel as [|f IH]; intros delim s Hf; [lia|]. cbn [parse_next].
  destruct s as [|c s1]; [destruct delim; exact I|]. cbn [length] in Hf.
  destruct (char_to_token c) as [tok|]; [|exact I].
  destruct tok as [| | |b| | |]; try exact I.
  - pose proof (struct_loop_total (parse_next f true) f (IH true) (parse_next_sound f true) f s1 [] ltac:(lia) ltac:(lia)) as Hl.
    destruct (struct_loop (parse_next f true) f s1 []) as [[ts rest']| | | |]; cbn [bind]; try exact Hl.
    destruct ts; exact I.
  - destruct delim; exact I.
  - destruct s1 as [|c2 s2]; [exact I|].
    destruct (char_to_token c2) as [tok2|]; [|exact I].
    assert (Hgen : ok_or_err (do er <- parse_next f false (c2 :: s2);
                    match er with (Some e, rest') => Ok (Some (TArray e), rest') | (None, _) => Err end)).
    { pose proof (IH false (c2 :: s2) ltac:(lia)) as Hn.
      destruct (parse_next f false (c2 :: s2)) as [[[e|] r]| | | |]; cbn [bind]; try exact Hn; exact I. }
    destruct tok2; try exact Hgen.
    unfold parse_next_base. destruct s2 as [|ck s3]; [exact I|].
    destruct (char_to_token ck) as [[| | |k| | |]|]; cbn [bind]; try exact I.
    cbn [length] in Hf. pose proof (IH false s3 ltac:(lia)) as Hn.
    destruct (parse_next f false s3) as [[[v|] r4]| | | |]; cbn [bind]; try exact Hn; try exact I.
    destruct r4 as [|c4 r5]; [exact I|]. destruct (char_to_token c4) as [[]|]; exact I.
Qed.

(** ** The whole function *)
Lemma top_loop_sound : forall fuel s acc ts, top_loop fuel s acc = Ok ts ->
  exists new, ts = acc ++ new /\ s = to_str_list new /\ forallb wf new = true.
Proof.
  induction fuel as [|f IH]; intros s acc ts H; cbn [top_loop] in H; [discriminate|].
  destruct (parse_next (S (length s)) false s) as [[r s']| | | |] eqn:E; cbn [bind] in H; try discriminate.
  apply parse_next_sound in E. destruct r as [t|]; cbn [sound_res] in E.
  - destruct E as [-> Hwf]. apply IH in H. destruct H as (new & -> & -> & Hn).
    exists (t :: new). split; [now rewrite <- app_assoc|]. split; [reflexivity|]. cbn [forallb]. now rewrite Hwf.
  - injection H as <-. destruct E as [(_ & -> & _)|(E & _)]; [|discriminate].
    exists []. split; [now rewrite app_nil_r|]. split; reflexivity.
Qed.

Lemma top_loop_complete : forall ts fuel acc, forallb wf ts = true -> (length ts < fuel)%nat ->
  top_loop fuel (to_str_list ts) acc = Ok (acc ++ ts).
Proof.
  induction ts as [|t ts IH]; intros fuel acc Hwf Hf; (destruct fuel as [|f]; [cbn in Hf; lia|]); cbn [top_loop].
  - cbn. now rewrite app_nil_r.
  - cbn [forallb] in Hwf. apply andb_prop in Hwf. destruct Hwf as [Ht Hts].
    unfold to_str_list. cbn [flat_map]. fold (to_str_list ts).
    rewrite parse_next_complete; [|exact Ht|rewrite app_length; lia]. cbn [bind].
    rewrite IH; [|exact Hts|cbn in Hf; lia]. now rewrite <- app_assoc.
Qed.

Lemma top_loop_total : forall fuel s acc, (length s < fuel)%nat -> ok_or_err (top_loop fuel s acc).
Proof.
  induction fuel as [|f IH]; intros s acc Hf; [lia|]. cbn [top_loop].
  pose proof (parse_next_total (S (length s)) false s ltac:(lia)) as Hn.
  destruct (parse_next (S (length s)) false s) as [[r s']| | | |] eqn:E; cbn [bind]; try exact Hn.
  destruct r as [t|]; [|exact I].
  pose proof (sound_res_shrinks _ _ _ _ (parse_next_sound _ _ _ _ _ E)) as [_ Hlt].
  apply IH. assert (length s' < length s)%nat by (apply Hlt; discriminate). lia.
Qed.

(** The specification's notion of a valid signature: the printed form of a list of well-formed
    types within the nesting limits, at most 255 bytes. *)
Definition sig_of_types (s : list N) (ts : list ty) : Prop :=
  len s <= 255 /\ forallb wf ts = true /\ forallb (depth_ok 0 0) ts = true /\ s = to_str_list ts.
Definition ValidSig (s : list N) : Prop := exists ts, sig_of_types s ts.

Lemma forallb_check_depth ts : forallb wf ts = true ->
  forallb (check_depth 0 0) ts = forallb (depth_ok 0 0) ts.
Proof.
  induction ts as [|t ts IH]; intros Hwf; [reflexivity|]. cbn [forallb] in *.
  apply andb_prop in Hwf. destruct Hwf as [Ht Hts]. rewrite (IH Hts). f_equal.
  pose proof (check_depth_spec t 0 0 Ht) as Hs.
  destruct (check_depth 0 0 t), (depth_ok 0 0 t); try reflexivity.
  - destruct Hs as [Hs _]. specialize (Hs eq_refl). destruct Hs as (_ & _ & Hs). discriminate.
  - destruct Hs as [_ Hs]. apply Hs. repeat split; lia.
Qed.

Theorem parse_description_spec s ts :
  parse_description s = Ok ts <-> sig_of_types s ts.
Proof.
  unfold parse_description, sig_of_types. destruct (N.ltb_spec 255 (len s)) as [Hl|Hl].
  { split; [discriminate|]. intros (H & _). lia. }
  split.
  - intros H. destruct (top_loop (S (length s)) s []) as [ts0| | | |] eqn:E; cbn [bind] in H; try discriminate.
    destruct (forallb (check_depth 0 0) ts0) eqn:Ed; [|discriminate]. injection H as <-.
    apply top_loop_sound in E. destruct E as (new & E1 & E2 & E3). cbn [app] in E1. subst ts0.
    split; [exact Hl|]. split; [exact E3|]. split; [|exact E2].
    now rewrite <- forallb_check_depth.
  - intros (_ & Hwf & Hd & Es). rewrite Es at 2. rewrite top_loop_complete; [|exact Hwf|].
    + cbn [bind app]. rewrite forallb_check_depth by exact Hwf. now rewrite Hd.
    + rewrite Es. pose proof (length_flat_ge ts). lia.
Qed.

(* the empty string is the signature of no types at all *)
Lemma parse_description_nil : parse_description [] = Ok [].
Proof. reflexivity. Qed.
Lemma valid_sig_nil : ValidSig [].
Proof. exists []. apply parse_description_spec. exact parse_description_nil. Qed.

Theorem parse_description_total s : ok_or_err (parse_description s).
Proof.
  unfold parse_description. destruct (255 <? len s); [exact I|].
  pose proof (top_loop_total (S (length s)) s [] ltac:(lia)) as Hn.
  destruct (top_loop (S (length s)) s []) as [ts| | | |] eqn:E; cbn [bind]; try exact Hn.
  destruct (forallb (check_depth 0 0) ts); exact I.
Qed.
