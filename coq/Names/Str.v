(** Rust [str]/[char] library functions used by the name validators, as list functions.
    A string is the list of its Unicode scalar values ([str::chars()]); a scalar value is an [N]. *)
From RB Require Import Base.Prelude.

Notation str := (list N) (only parsing).

(* char::len_utf8 (core/src/char/methods.rs: MAX_ONE_B = 0x80, MAX_TWO_B = 0x800, MAX_THREE_B = 0x10000) *)
Definition len_utf8 (c : N) : N :=
  if c <? 128 then 1 else if c <? 2048 then 2 else if c <? 65536 then 3 else 4.

(* str::len: the number of bytes of the UTF-8 encoding *)
Fixpoint str_len (s : str) : N :=
  match s with
  | [] => 0
  | c :: r => len_utf8 c + str_len r
  end.

(* str::is_empty *)
Definition is_empty (s : str) : bool := match s with [] => true | _ :: _ => false end.

Definition in_range (lo hi c : N) : bool := (lo <=? c) && (c <=? hi).

(* char::is_ascii_digit: matches!(self, '0'..='9') *)
Definition is_ascii_digit (c : N) : bool := in_range 48 57 c.

(* char::is_ascii_alphanumeric: matches!(self, '0'..='9') | matches!(self, 'A'..='Z') | matches!(self, 'a'..='z') *)
Definition is_ascii_alphanumeric (c : N) : bool := in_range 48 57 c || in_range 65 90 c || in_range 97 122 c.

(* s.chars().all(p) *)
Definition chars_all (p : N -> bool) (s : str) : bool := forallb p s.

(* s.chars().next() *)
Definition chars_next (s : str) : option N := match s with [] => None | c :: _ => Some c end.

(* s.starts_with(|c: char| p(c)) *)
Definition starts_with (p : N -> bool) (s : str) : bool := match s with [] => false | c :: _ => p c end.

(* s.strip_prefix(d) for a char pattern d *)
Definition strip_prefix (d : N) (s : str) : option str :=
  match s with
  | [] => None
  | c :: r => if c =? d then Some r else None
  end.

(* s.split_once(d): the parts before and after the first occurrence of the char d *)
Fixpoint split_once (d : N) (s : str) : option (str * str) :=
  match s with
  | [] => None
  | c :: r =>
    if c =? d then Some ([], r)
    else match split_once d r with
         | Some (a, b) => Some (c :: a, b)
         | None => None
         end
  end.

(* s.split(d).collect(): the maximal d-free pieces; always at least one piece ("" gives [""], "a." gives ["a", ""]) *)
Fixpoint split (d : N) (s : str) : list str :=
  match s with
  | [] => [[]]
  | c :: r =>
    if c =? d then [] :: split d r
    else match split d r with
         | h :: t => (c :: h) :: t
         | [] => [[c]]       (* unreachable: split never returns [] *)
         end
  end.

(* Iterator::find_map *)
Fixpoint find_map {A B} (f : A -> option B) (l : list A) : option B :=
  match l with
  | [] => None
  | x :: r => match f x with Some b => Some b | None => find_map f r end
  end.

Definition ok_or_err {A} (o : outcome A) : Prop := match o with Ok _ | Err => True | _ => False end.
