(** Model of rustbus/src/params/validation.rs (name validators) and of
    rustbus/src/wire/wrapper_types.rs ObjectPath::new, clause by clause, as of the fix: commits. *)
From RB Require Import Base.Prelude Names.Str.

(* const MAX_NAME_LEN: usize = 255 *)
Definition MAX_NAME_LEN : N := 255.

(* the closure |c| c.is_ascii_alphanumeric() || c == '_' *)
Definition alnum_us (c : N) : bool := is_ascii_alphanumeric c || (c =? 95).
(* the closure |c| c.is_ascii_alphanumeric() || c == '_' || c == '-' *)
Definition alnum_us_dash (c : N) : bool := is_ascii_alphanumeric c || (c =? 95) || (c =? 45).

(* validation.rs: pub fn validate_object_path(op: &str) -> Result<()> *)
Definition validate_object_path (op : str) : outcome unit :=
  (* op.split_once('/').and_then(|(r, op)| if r.is_empty() { Some(op) } else { None }).ok_or(..)? *)
  match (match split_once 47 op with
         | Some (r, op') => if is_empty r then Some op' else None
         | None => None
         end) with
  | None => Err
  | Some op' =>
    if is_empty op' then Ok tt                      (* may be '/' *)
    else
      (* op.split('/').find_map(|elem| if elem.is_empty() || !elem.chars().all(..) { Some(Err) } else { None })
           .map(Err).unwrap_or(Ok(())) *)
      match find_map (fun elem => if is_empty elem || negb (chars_all alnum_us elem) then Some tt else None)
                     (split 47 op') with
      | Some _ => Err
      | None => Ok tt
      end
  end.

(* the body of `for (i, element) in split.enumerate() { ... cnt = i + 1; }` in validate_interface;
   returns the final cnt *)
Fixpoint interface_loop (elems : list str) (i cnt : N) : outcome N :=
  match elems with
  | [] => Ok cnt
  | element :: rest =>
    match chars_next element with
    | None => Err                                            (* .ok_or(Error::InvalidInterface)? *)
    | Some c =>
      if is_ascii_digit c then Err
      else if negb (chars_all alnum_us element) then Err
      else interface_loop rest (i + 1) (i + 1)
    end
  end.

(* validation.rs: pub fn validate_interface(int: &str) -> Result<()> *)
Definition validate_interface (int : str) : outcome unit :=
  if MAX_NAME_LEN <? str_len int then Err
  else
    do cnt <- interface_loop (split 46 int) 0 0;
    if 2 <=? cnt then Ok tt else Err.

(* validation.rs: pub fn validate_errorname(en: &str): validate_interface(en).map_err(..) *)
Definition validate_errorname (en : str) : outcome unit :=
  match validate_interface en with
  | Ok u => Ok u
  | Err => Err
  | Panic => Panic | UB => UB | OutOfFuel => OutOfFuel
  end.

(* the loop of validate_busname; `unique` is the flag computed from strip_prefix(':') *)
Fixpoint busname_loop (unique : bool) (elems : list str) (i cnt : N) : outcome N :=
  match elems with
  | [] => Ok cnt
  | element :: rest =>
    match chars_next element with
    | None => Err
    | Some c =>
      if is_ascii_digit c && negb unique then Err
      else if negb (chars_all alnum_us_dash element) then Err
      else busname_loop unique rest (i + 1) (i + 1)
    end
  end.

(* validation.rs: pub fn validate_busname(bn: &str) -> Result<()> *)
Definition validate_busname (bn : str) : outcome unit :=
  if MAX_NAME_LEN <? str_len bn then Err
  else
    let '(unique, bus_name) :=
      match strip_prefix 58 bn with
      | Some unique_name => (true, unique_name)
      | None => (false, bn)
      end in
    do cnt <- busname_loop unique (split 46 bus_name) 0 0;
    if 2 <=? cnt then Ok tt else Err.

(* validation.rs: pub fn validate_membername(mem: &str) -> Result<()> *)
Definition validate_membername (mem : str) : outcome unit :=
  if is_empty mem || (MAX_NAME_LEN <? str_len mem) then Err
  else if negb (chars_all alnum_us mem) then Err
  else if starts_with is_ascii_digit mem then Err
  else Ok tt.

(* wrapper_types.rs: ObjectPath::new(path): validate_object_path(path.as_ref())?; Ok(ObjectPath(path)) *)
Definition objectpath_new (path : str) : outcome str :=
  do _ <- validate_object_path path; Ok path.

(* wrapper_types.rs: impl TryFrom<&'a str> for ObjectPath<&'a str>: fn try_from(value) { ObjectPath::<&'a str>::new(value) } *)
Definition objectpath_try_from_str (value : str) : outcome str := objectpath_new value.

(* wrapper_types.rs: impl TryFrom<String> for ObjectPath<String>: fn try_from(value) { ObjectPath::<String>::new(value) } *)
Definition objectpath_try_from_string (value : str) : outcome str := objectpath_new value.

(* wrapper_types.rs: ObjectPath::to_owned(&self): ObjectPath(self.as_ref().to_owned()), no validation *)
Definition objectpath_to_owned (p : str) : str := p.
