(** The D-Bus specification's rules for object paths and names ("Valid Object Paths", "Valid Names":
    interface, bus, member and error names), written from the specification text as predicates over
    lists of Unicode scalar values.  Nothing here refers to the model of the code. *)
From RB Require Import Base.Prelude.

(** the characters the specification lists *)
Definition upper (c : N) : Prop := 65 <= c <= 90.          (* A-Z *)
Definition lower (c : N) : Prop := 97 <= c <= 122.         (* a-z *)
Definition digit (c : N) : Prop := 48 <= c <= 57.          (* 0-9 *)
Definition name_char (c : N) : Prop := upper c \/ lower c \/ digit c \/ c = 95.   (* [A-Za-z0-9_] *)
Definition bus_char (c : N) : Prop := name_char c \/ c = 45.                      (* [A-Za-z0-9_-] *)

Definition SLASH : N := 47.
Definition DOT : N := 46.
Definition COLON : N := 58.

(** "elements separated by" a separator character: e1 sep e2 sep ... en (nothing before the first
    or after the last element) *)
Fixpoint join (sep : N) (es : list (list N)) : list N :=
  match es with
  | [] => []
  | e :: rest => match rest with [] => e | _ :: _ => e ++ sep :: join sep rest end
  end.

(** the length of a name is counted in bytes of its UTF-8 encoding (Unicode table 3-6) *)
Definition utf8_encode (c : N) : list N :=
  if c <? 128 then [c]
  else if c <? 2048 then [192 + c / 64; 128 + c mod 64]
  else if c <? 65536 then [224 + c / 4096; 128 + (c / 64) mod 64; 128 + c mod 64]
  else [240 + c / 262144; 128 + (c / 4096) mod 64; 128 + (c / 64) mod 64; 128 + c mod 64].
Definition utf8_bytes (s : list N) : list N := flat_map utf8_encode s.
Definition byte_length (s : list N) : N := len (utf8_bytes s).
Definition MAX_NAME : N := 255.

Definition begins_with_digit (e : list N) : Prop := exists c r, e = c :: r /\ digit c.

(** Object path: begins with '/'; elements separated by '/'; each element only [A-Za-z0-9_];
    no element empty; no trailing '/' unless the path is the root; no length limit. *)
Definition PathElem (e : list N) : Prop := e <> [] /\ Forall name_char e.
Inductive ValidPath : list N -> Prop :=
| vp_root : ValidPath [SLASH]
| vp_elems es : es <> [] -> Forall PathElem es -> ValidPath (SLASH :: join SLASH es).

(** Interface name: 2 or more elements separated by '.'; each element at least one character,
    only [A-Za-z0-9_], not beginning with a digit; at most 255 bytes. *)
Definition InterfaceElem (e : list N) : Prop := e <> [] /\ Forall name_char e /\ ~ begins_with_digit e.
Definition ValidInterface (s : list N) : Prop :=
  byte_length s <= MAX_NAME /\
  exists es, (2 <= length es)%nat /\ Forall InterfaceElem es /\ s = join DOT es.

(** Error names: same rules as interface names. *)
Definition ValidErrorName (s : list N) : Prop := ValidInterface s.

(** Bus name: unique names begin with ':', well-known names do not; 2 or more elements separated by
    '.'; each element at least one character, only [A-Za-z0-9_-]; only elements of unique names may
    begin with a digit; at most 255 bytes. *)
Definition UniqueElem (e : list N) : Prop := e <> [] /\ Forall bus_char e.
Definition WellKnownElem (e : list N) : Prop := e <> [] /\ Forall bus_char e /\ ~ begins_with_digit e.
Definition ValidUniqueName (s : list N) : Prop :=
  byte_length s <= MAX_NAME /\
  exists es, (2 <= length es)%nat /\ Forall UniqueElem es /\ s = COLON :: join DOT es.
Definition ValidWellKnownName (s : list N) : Prop :=
  byte_length s <= MAX_NAME /\
  exists es, (2 <= length es)%nat /\ Forall WellKnownElem es /\ s = join DOT es.
Definition ValidBusName (s : list N) : Prop := ValidUniqueName s \/ ValidWellKnownName s.

(** Member name: only [A-Za-z0-9_], not beginning with a digit, no '.', at least one character,
    at most 255 bytes. *)
Definition ValidMember (s : list N) : Prop :=
  s <> [] /\ byte_length s <= MAX_NAME /\ Forall name_char s /\ ~ In DOT s /\ ~ begins_with_digit s.
