(** Model of the name-carrying part of rustbus/src/wire/marshal.rs: marshal_header_{path,interface,
    member,errorname,destination,sender} (each: validate, then write the header field) and the
    sequence in which marshal_header calls them for the optional names of a DynamicHeader.
    What is written is recorded abstractly as the list of (header field code, string) in buffer
    order; the bytes themselves are the subject of C02/C05. *)
From RB Require Import Base.Prelude Names.Str Names.Spec Names.StrProofs Names.Model Names.Proofs.

(* message_builder.rs: the String-valued fields of struct DynamicHeader that marshal_header reads *)
Record dynheader := {
  dh_interface : option (list N);
  dh_member : option (list N);
  dh_object : option (list N);
  dh_destination : option (list N);
  dh_sender : option (list N);
  dh_error_name : option (list N)
}.

Definition wire_log := list (N * list N).

(* marshal_header_field(code, sig, buf); write_string(s, byteorder, buf) *)
Definition write_name (code : N) (s : list N) (buf : wire_log) : wire_log := buf ++ [(code, s)].

(* marshal.rs: fn marshal_header_path: params::validate_object_path(path)?; field 1 "o"; write_string *)
Definition marshal_header_path (s : list N) (buf : wire_log) : outcome wire_log :=
  do _ <- validate_object_path s; Ok (write_name 1 s buf).
(* marshal.rs: fn marshal_header_interface: params::validate_interface(interface)?; field 2 "s" *)
Definition marshal_header_interface (s : list N) (buf : wire_log) : outcome wire_log :=
  do _ <- validate_interface s; Ok (write_name 2 s buf).
(* marshal.rs: fn marshal_header_member: params::validate_membername(member)?; field 3 "s" *)
Definition marshal_header_member (s : list N) (buf : wire_log) : outcome wire_log :=
  do _ <- validate_membername s; Ok (write_name 3 s buf).
(* marshal.rs: fn marshal_header_errorname: params::validate_errorname(error)?; field 4 "s" *)
Definition marshal_header_errorname (s : list N) (buf : wire_log) : outcome wire_log :=
  do _ <- validate_errorname s; Ok (write_name 4 s buf).
(* marshal.rs: fn marshal_header_destination: params::validate_busname(destination)?; field 6 "s" *)
Definition marshal_header_destination (s : list N) (buf : wire_log) : outcome wire_log :=
  do _ <- validate_busname s; Ok (write_name 6 s buf).
(* marshal.rs: fn marshal_header_sender: params::validate_busname(sender)?; field 7 "s" *)
Definition marshal_header_sender (s : list N) (buf : wire_log) : outcome wire_log :=
  do _ <- validate_busname s; Ok (write_name 7 s buf).

(* marshal/param/base.rs: fn marshal_objectpath (object paths in a message body, params::Base::ObjectPath
   and ObjectPathRef): params::validate_object_path(s)?; write_string(s, ..); returns the string written *)
Definition marshal_objectpath (s : list N) : outcome (list N) :=
  do _ <- validate_object_path s; Ok s.

(* marshal/traits/base.rs: impl Marshal for &str: if self.contains('\0') { return Err(..) }; align; write_string;
   returns the string written *)
Definition marshal_str (s : list N) : outcome (list N) :=
  if existsb (N.eqb 0) s then Err else Ok s.

(* marshal/traits/base.rs: impl Marshal for ObjectPath<S>: self.as_ref().marshal(ctx) -- the wrapper is NOT
   validated again, its constructors are the only guard *)
Definition marshal_objectpath_typed (p : list N) : outcome (list N) := marshal_str p.

(* `if let Some(x) = &msg.dynheader.field { marshal_header_field_x(byteorder, x, buf)?; }` *)
Definition if_some (o : option (list N)) (f : list N -> wire_log -> outcome wire_log) (buf : wire_log)
  : outcome wire_log :=
  match o with Some s => f s buf | None => Ok buf end.

(* marshal.rs: fn marshal_header, the names in the order the code writes them:
   interface, destination, sender, member, object, error_name *)
Definition marshal_header_names (h : dynheader) (buf : wire_log) : outcome wire_log :=
  do buf <- if_some (dh_interface h) marshal_header_interface buf;
  do buf <- if_some (dh_destination h) marshal_header_destination buf;
  do buf <- if_some (dh_sender h) marshal_header_sender buf;
  do buf <- if_some (dh_member h) marshal_header_member buf;
  do buf <- if_some (dh_object h) marshal_header_path buf;
  do buf <- if_some (dh_error_name h) marshal_header_errorname buf;
  Ok buf.

(* message_builder.rs: enum MessageType *)
Inductive mtype := MCall | MReply | MError | MSignal | MInvalid.

(* marshal.rs: fn marshal_header, `let has_required_fields = match msg.typ { .. }` (fix 7d0a594);
   rs = msg.dynheader.response_serial.is_some() *)
Definition has_required_fields (typ : mtype) (rs : bool) (h : dynheader) : bool :=
  let some (o : option (list N)) := match o with Some _ => true | None => false end in
  match typ with
  | MCall => some (dh_object h) && some (dh_member h)
  | MSignal => some (dh_object h) && some (dh_interface h) && some (dh_member h)
  | MError => some (dh_error_name h) && rs
  | MReply => rs
  | MInvalid => false
  end.

(* marshal.rs: fn marshal_header, as far as names are concerned: Invalid type refused, required fields checked,
   then the names are validated and written in order *)
Definition marshal_header_msg (typ : mtype) (rs : bool) (h : dynheader) : outcome wire_log :=
  match typ with
  | MInvalid => Err
  | _ => if negb (has_required_fields typ rs h) then Err else marshal_header_names h []
  end.

(* ------------------------------------------------------------ receive side: names read from the wire.
   `read` is the result of cursor.read_str / ctx.read_str (the string decoder is C03's subject). *)
(* unmarshal.rs: unmarshal_header_field, arm 1: let objpath = cursor.read_str(..)?; validate_object_path(objpath)?; Ok(Path(..)) *)
Definition unmarshal_header_path (read : outcome (list N)) : outcome (list N) :=
  do s <- read; do _ <- validate_object_path s; Ok s.
(* arm 2: validate_interface *)
Definition unmarshal_header_interface (read : outcome (list N)) : outcome (list N) :=
  do s <- read; do _ <- validate_interface s; Ok s.
(* arm 3: validate_membername *)
Definition unmarshal_header_member (read : outcome (list N)) : outcome (list N) :=
  do s <- read; do _ <- validate_membername s; Ok s.
(* arm 4: validate_errorname *)
Definition unmarshal_header_errorname (read : outcome (list N)) : outcome (list N) :=
  do s <- read; do _ <- validate_errorname s; Ok s.
(* arm 6: validate_busname *)
Definition unmarshal_header_destination (read : outcome (list N)) : outcome (list N) :=
  do s <- read; do _ <- validate_busname s; Ok s.
(* arm 7: validate_busname *)
Definition unmarshal_header_sender (read : outcome (list N)) : outcome (list N) :=
  do s <- read; do _ <- validate_busname s; Ok s.

(* the decoder of the name field with the given header field code *)
Definition name_field_decoder (code : N) : option (outcome (list N) -> outcome (list N)) :=
  if code =? 1 then Some unmarshal_header_path
  else if code =? 2 then Some unmarshal_header_interface
  else if code =? 3 then Some unmarshal_header_member
  else if code =? 4 then Some unmarshal_header_errorname
  else if code =? 6 then Some unmarshal_header_destination
  else if code =? 7 then Some unmarshal_header_sender
  else None.

(* unmarshal/traits/base.rs: impl Unmarshal for ObjectPath<S>: let val = <S as Unmarshal>::unmarshal(ctx)?;
   let path = ObjectPath::new(val)?; Ok(path) *)
Definition objectpath_unmarshal (val : outcome (list N)) : outcome (list N) :=
  do v <- val; objectpath_new v.
(* unmarshal/param/base.rs: signature::Base::ObjectPath arm: let string = ctx.read_str()?;
   validate_object_path(string)?; Ok(params::Base::ObjectPath(string.into())) *)
Definition unmarshal_param_objectpath (read : outcome (list N)) : outcome (list N) :=
  do s <- read; do _ <- validate_object_path s; Ok s.
(* validate_raw.rs: signature::Base::ObjectPath arm: unmarshal_str(..)?; validate_object_path(string)? *)
Definition validate_raw_objectpath (read : outcome (list N)) : outcome unit :=
  do s <- read; validate_object_path s.

(* ---------------------------------------------------------------- specification side *)
(** what a conforming peer requires of the string in header field [code] (D-Bus spec, header fields
    table): 1 PATH object path, 2 INTERFACE, 3 MEMBER, 4 ERROR_NAME, 6 DESTINATION and 7 SENDER bus names *)
Definition FieldValid (f : N * list N) : Prop :=
  let (code, s) := f in
  if code =? 1 then ValidPath s
  else if code =? 2 then ValidInterface s
  else if code =? 3 then ValidMember s
  else if code =? 4 then ValidErrorName s
  else if code =? 6 then ValidBusName s
  else if code =? 7 then ValidBusName s
  else False.

Definition opt_name (code : N) (o : option (list N)) : wire_log :=
  match o with Some s => [(code, s)] | None => [] end.

(** the names a message carries, in header order *)
Definition names_of (h : dynheader) : wire_log :=
  opt_name 2 (dh_interface h) ++ opt_name 6 (dh_destination h) ++ opt_name 7 (dh_sender h) ++
  opt_name 3 (dh_member h) ++ opt_name 1 (dh_object h) ++ opt_name 4 (dh_error_name h).

(* ---------------------------------------------------------------- proofs *)
Definition validated (code : N) (v : list N -> outcome unit) (s : list N) (buf : wire_log) : outcome wire_log :=
  do _ <- v s; Ok (write_name code s buf).

Lemma if_some_validated code v (V : list N -> Prop) o buf w :
  (forall s, v s = Ok tt <-> V s) -> (forall s, ok_or_err (v s)) ->
  (if_some o (validated code v) buf = Ok w <->
   (w = buf ++ opt_name code o /\ Forall (fun f => V (snd f)) (opt_name code o))).
Proof.
  intros Hv Ht. destruct o as [s|]; cbn [if_some opt_name].
  - unfold validated, write_name. specialize (Hv s). specialize (Ht s).
    destruct (v s) as [[]| | | |]; cbn [bind]; try contradiction.
    + split.
      * intros H. inversion H. split; [reflexivity|]. constructor; [|constructor]. cbn [snd]. now apply Hv.
      * intros [-> _]. reflexivity.
    + split; [discriminate|]. intros [_ H]. inversion H as [|? ? Hs _]. cbn [snd] in Hs. apply Hv in Hs. discriminate.
  - rewrite app_nil_r. split; [intros H; inversion H; auto|intros [-> _]; reflexivity].
Qed.

Lemma bind_ok {A B} (o : outcome A) (f : A -> outcome B) b :
  bind o f = Ok b <-> exists a, o = Ok a /\ f a = Ok b.
Proof.
  destruct o; cbn [bind]; split; try discriminate; try (intros (a' & H & _); discriminate).
  - intros H. eauto.
  - intros (a' & H & H2). inversion H. now subst.
Qed.

Lemma field_valid_code code (V : list N -> Prop) l :
  (forall s, FieldValid (code, s) <-> V s) ->
  Forall (fun f => V (snd f)) (opt_name code l) <-> Forall FieldValid (opt_name code l).
Proof.
  intros H. destruct l as [s|]; cbn [opt_name]; [|split; constructor].
  split; intros Hf; inversion Hf as [|? ? Hs _]; constructor; try constructor; cbn [snd] in *; now apply H.
Qed.

Theorem marshal_header_names_spec h buf w :
  marshal_header_names h buf = Ok w <-> (w = buf ++ names_of h /\ Forall FieldValid (names_of h)).
Proof.
  unfold marshal_header_names, names_of.
  change marshal_header_interface with (validated 2 validate_interface).
  change marshal_header_destination with (validated 6 validate_busname).
  change marshal_header_sender with (validated 7 validate_busname).
  change marshal_header_member with (validated 3 validate_membername).
  change marshal_header_path with (validated 1 validate_object_path).
  change marshal_header_errorname with (validated 4 validate_errorname).
  rewrite !Forall_app.
  rewrite <- (field_valid_code 2 ValidInterface), <- (field_valid_code 6 ValidBusName),
          <- (field_valid_code 7 ValidBusName), <- (field_valid_code 3 ValidMember),
          <- (field_valid_code 1 ValidPath), <- (field_valid_code 4 ValidErrorName) by (intros; reflexivity).
  split.
  - intros H.
    apply bind_ok in H. destruct H as (b1 & H1 & H).
    apply bind_ok in H. destruct H as (b2 & H2 & H).
    apply bind_ok in H. destruct H as (b3 & H3 & H).
    apply bind_ok in H. destruct H as (b4 & H4 & H).
    apply bind_ok in H. destruct H as (b5 & H5 & H).
    apply bind_ok in H. destruct H as (b6 & H6 & H).
    inversion H; subst b6; clear H.
    apply (if_some_validated _ _ _ _ _ _ validate_interface_spec validate_interface_total) in H1.
    apply (if_some_validated _ _ _ _ _ _ validate_busname_spec validate_busname_total) in H2.
    apply (if_some_validated _ _ _ _ _ _ validate_busname_spec validate_busname_total) in H3.
    apply (if_some_validated _ _ _ _ _ _ validate_membername_spec validate_membername_total) in H4.
    apply (if_some_validated _ _ _ _ _ _ validate_object_path_spec validate_object_path_total) in H5.
    apply (if_some_validated _ _ _ _ _ _ validate_errorname_spec validate_errorname_total) in H6.
    destruct H1 as [-> V1], H2 as [-> V2], H3 as [-> V3], H4 as [-> V4], H5 as [-> V5], H6 as [-> V6].
    rewrite <- !app_assoc. tauto.
  - intros (-> & V1 & V2 & V3 & V4 & V5 & V6).
    apply bind_ok. eexists. split.
    { apply (if_some_validated _ _ _ _ _ _ validate_interface_spec validate_interface_total). split; [reflexivity|exact V1]. }
    apply bind_ok. eexists. split.
    { apply (if_some_validated _ _ _ _ _ _ validate_busname_spec validate_busname_total). split; [reflexivity|exact V2]. }
    apply bind_ok. eexists. split.
    { apply (if_some_validated _ _ _ _ _ _ validate_busname_spec validate_busname_total). split; [reflexivity|exact V3]. }
    apply bind_ok. eexists. split.
    { apply (if_some_validated _ _ _ _ _ _ validate_membername_spec validate_membername_total). split; [reflexivity|exact V4]. }
    apply bind_ok. eexists. split.
    { apply (if_some_validated _ _ _ _ _ _ validate_object_path_spec validate_object_path_total). split; [reflexivity|exact V5]. }
    apply bind_ok. eexists. split.
    { apply (if_some_validated _ _ _ _ _ _ validate_errorname_spec validate_errorname_total). split; [reflexivity|exact V6]. }
    rewrite <- !app_assoc. reflexivity.
Qed.

Lemma marshal_objectpath_spec s w : marshal_objectpath s = Ok w <-> (ValidPath s /\ w = s).
Proof.
  unfold marshal_objectpath. rewrite <- validate_object_path_spec.
  destruct (validate_object_path s) as [[]| | | |]; cbn [bind]; split; try discriminate; try (intros [H _]; discriminate).
  - intros H. inversion H. auto.
  - intros [_ ->]. reflexivity.
Qed.

(* every way of constructing the wrapper, then marshalling it with the typed API *)
Definition objectpath_ctor (f : list N -> outcome (list N)) : Prop :=
  f = objectpath_new \/ f = objectpath_try_from_str \/ f = objectpath_try_from_string \/
  f = (fun s => objectpath_unmarshal (Ok s)).        (* decoding a body value that holds the string s *)

Lemma objectpath_ctor_spec f s p : objectpath_ctor f -> (f s = Ok p <-> (ValidPath s /\ p = s)).
Proof.
  intros [Hf | [Hf | [Hf | Hf]]]; subst f; unfold objectpath_try_from_str, objectpath_try_from_string, objectpath_unmarshal;
    cbn [bind]; (split;
    [intros H; split; [apply objectpath_new_spec; eauto|exact (objectpath_new_value s p H)]
    |intros [Hv ->]; apply objectpath_new_spec in Hv; destruct Hv as [p Hp];
     now rewrite (objectpath_new_value s p Hp) in Hp]).
Qed.

Lemma marshal_str_nonnul s : ascii_nonnul s -> marshal_str s = Ok s.
Proof.
  intros H. unfold marshal_str. replace (existsb (N.eqb 0) s) with false; [reflexivity|].
  symmetry. induction H as [|c r Hc _ IH]; [reflexivity|]. cbn [existsb]. rewrite IH.
  destruct (N.eqb_spec 0 c); [lia|reflexivity].
Qed.

Lemma typed_path_wire f s p :
  objectpath_ctor f -> f s = Ok p ->
  marshal_objectpath_typed p = Ok s /\ marshal_objectpath_typed (objectpath_to_owned p) = Ok s /\ ValidPath s.
Proof.
  intros Hf H. apply (objectpath_ctor_spec f s p Hf) in H. destruct H as [Hv ->].
  unfold marshal_objectpath_typed, objectpath_to_owned.
  rewrite (marshal_str_nonnul s (valid_path_ascii s Hv)). auto.
Qed.

(* ---- receive side *)
Lemma read_validate_spec (v : list N -> outcome unit) (V : list N -> Prop) (r : outcome (list N)) s :
  (forall x, v x = Ok tt <-> V x) ->
  ((do x <- r; do _ <- v x; Ok x) = Ok s <-> (r = Ok s /\ V s)).
Proof.
  intros Hv. destruct r as [x| | | |]; cbn [bind]; try (split; [discriminate|intros [H _]; discriminate]).
  specialize (Hv x). destruct (v x) as [[]| | | |]; cbn [bind].
  - split; [intros H; inversion H; subst; split; [reflexivity|now apply Hv]|intros [H _]; now inversion H].
  - split; [discriminate|]. intros [H Hs]. inversion H; subst. apply Hv in Hs. discriminate.
  - split; [discriminate|]. intros [H Hs]. inversion H; subst. apply Hv in Hs. discriminate.
  - split; [discriminate|]. intros [H Hs]. inversion H; subst. apply Hv in Hs. discriminate.
  - split; [discriminate|]. intros [H Hs]. inversion H; subst. apply Hv in Hs. discriminate.
Qed.

Theorem name_field_decoder_spec code f r s :
  name_field_decoder code = Some f -> (f r = Ok s <-> (r = Ok s /\ FieldValid (code, s))).
Proof.
  unfold name_field_decoder, FieldValid.
  destruct (code =? 1); [intros H; inversion H; apply read_validate_spec, validate_object_path_spec|].
  destruct (code =? 2); [intros H; inversion H; apply read_validate_spec, validate_interface_spec|].
  destruct (code =? 3); [intros H; inversion H; apply read_validate_spec, validate_membername_spec|].
  destruct (code =? 4); [intros H; inversion H; apply read_validate_spec, validate_errorname_spec|].
  destruct (code =? 6); [intros H; inversion H; apply read_validate_spec, validate_busname_spec|].
  destruct (code =? 7); [intros H; inversion H; apply read_validate_spec, validate_busname_spec|].
  discriminate.
Qed.

Theorem path_decoders_spec r s :
  (objectpath_unmarshal r = Ok s <-> (r = Ok s /\ ValidPath s)) /\
  (unmarshal_param_objectpath r = Ok s <-> (r = Ok s /\ ValidPath s)) /\
  (validate_raw_objectpath r = Ok tt <-> exists x, r = Ok x /\ ValidPath x).
Proof.
  split; [|split].
  - unfold objectpath_unmarshal. destruct r as [x| | | |]; cbn [bind]; try (split; [discriminate|intros [H _]; discriminate]).
    rewrite (objectpath_ctor_spec objectpath_new x s (or_introl eq_refl)).
    split; [intros [Hv ->]; auto|intros [H Hv]; inversion H; subst; auto].
  - apply read_validate_spec, validate_object_path_spec.
  - unfold validate_raw_objectpath. destruct r as [x| | | |]; cbn [bind];
      try (split; [discriminate|intros (y & H & _); discriminate]).
    rewrite validate_object_path_spec. split; [intros H; eauto|intros (y & H & Hv); inversion H; now subst].
Qed.

Theorem marshal_header_msg_spec typ rs h w :
  marshal_header_msg typ rs h = Ok w <->
  (typ <> MInvalid /\ has_required_fields typ rs h = true /\ w = names_of h /\ Forall FieldValid (names_of h)).
Proof.
  unfold marshal_header_msg.
  destruct typ; try (destruct (has_required_fields _ rs h) eqn:E; cbn [negb];
    [rewrite marshal_header_names_spec; cbn [app]; split; [intros [-> Hv]; repeat split; auto; discriminate|intros (_ & _ & -> & Hv); auto]
    |split; [discriminate|intros (_ & H & _); discriminate]]).
  split; [discriminate|intros [H _]; congruence].
Qed.

Lemma marshal_header_names_total h buf : ok_or_err (marshal_header_names h buf).
Proof.
  unfold marshal_header_names.
  assert (T : forall code v o b, (forall s, ok_or_err (v s)) -> ok_or_err (if_some o (validated code v) b)).
  { intros code v o b Hv. destruct o as [s|]; cbn [if_some]; [|exact I]. unfold validated.
    specialize (Hv s). destruct (v s); cbn [bind]; exact Hv. }
  assert (B : forall (o : outcome wire_log) (f : wire_log -> outcome wire_log), ok_or_err o -> (forall b, ok_or_err (f b)) -> ok_or_err (bind o f)).
  { intros o f Ho Hf. destruct o; cbn [bind]; auto. }
  apply B; [apply (T 2 validate_interface), validate_interface_total|intros b1].
  apply B; [apply (T 6 validate_busname), validate_busname_total|intros b2].
  apply B; [apply (T 7 validate_busname), validate_busname_total|intros b3].
  apply B; [apply (T 3 validate_membername), validate_membername_total|intros b4].
  apply B; [apply (T 1 validate_object_path), validate_object_path_total|intros b5].
  apply B; [apply (T 4 validate_errorname), validate_errorname_total|intros b6].
  exact I.
Qed.

(* every string written into a name field is ASCII without NUL, so the string the peer reads is
   the string that was validated (no embedded terminator, one byte per character) *)
Lemma field_valid_ascii f : FieldValid f -> ascii_nonnul (snd f).
Proof.
  destruct f as [code s]. cbn [FieldValid snd].
  destruct (code =? 1); [apply valid_path_ascii|].
  destruct (code =? 2); [apply valid_interface_ascii|].
  destruct (code =? 3); [apply valid_member_ascii|].
  destruct (code =? 4); [apply valid_interface_ascii|].
  destruct (code =? 6); [apply valid_busname_ascii|].
  destruct (code =? 7); [apply valid_busname_ascii|]. contradiction.
Qed.
