(** Non-vacuity for C08: concrete names on both sides of every rule, evaluated by the model, and
    specification witnesses built by hand (without the theorems) so that both sides of each <-> are
    seen to be inhabited. *)
From RB Require Import Base.Prelude Names.Str Names.Spec Names.StrProofs Names.Model Names.Proofs Names.Wire.

(* ASCII helpers: '/'=47 '.'=46 ':'=58 '_'=95 '-'=45 '0'=48 '1'=49 'a'=97 'b'=98 'Z'=90 *)
Definition p_root : list N := [47].
Definition p_ab : list N := [47;97;47;98;95].                 (* "/a/b_" *)
Definition i_ab : list N := [97;46;98].                        (* "a.b" *)
Definition u_1_42 : list N := [58;49;46;52;50].                (* ":1.42" *)
Definition m_x : list N := [97;95;48].                         (* "a_0" *)

Example ex_path_accept : (validate_object_path p_root, validate_object_path p_ab) = (Ok tt, Ok tt).
Proof. vm_compute. reflexivity. Qed.
(* "", "a", "//", "/a/", "/a//b", "/a-b", "/é" (233), "/a\0" *)
Example ex_path_reject :
  map validate_object_path [[]; [97]; [47;47]; [47;97;47]; [47;97;47;47;98]; [47;97;45;98]; [47;233]; [47;97;0]]
  = [Err; Err; Err; Err; Err; Err; Err; Err].
Proof. vm_compute. reflexivity. Qed.

(* the specification side, by hand *)
Example ex_path_spec : ValidPath p_ab.
Proof.
  change p_ab with (SLASH :: join SLASH [[97]; [98;95]]). apply vp_elems; [discriminate|].
  repeat constructor; try discriminate; unfold name_char, upper, lower, digit; lia.
Qed.
Example ex_path_spec_neg : ~ ValidPath [47;97;47].
Proof. intros H. apply validate_object_path_spec in H. vm_compute in H. discriminate. Qed.

Example ex_iface_accept : validate_interface i_ab = Ok tt /\ validate_errorname i_ab = Ok tt.
Proof. vm_compute. auto. Qed.
(* "", "a", "a.", ".a", "a..b", "a.1b", "1a.b", "a.b-", "a.é", ":a.b" *)
Example ex_iface_reject :
  map validate_interface [[]; [97]; [97;46]; [46;97]; [97;46;46;98]; [97;46;49;98]; [49;97;46;98]; [97;46;98;45]; [97;46;233]; [58;97;46;98]]
  = [Err; Err; Err; Err; Err; Err; Err; Err; Err; Err].
Proof. vm_compute. reflexivity. Qed.
Example ex_iface_spec : ValidInterface i_ab.
Proof.
  split; [vm_compute; discriminate|]. exists [[97]; [98]]. split; [cbn; lia|]. split; [|reflexivity].
  repeat constructor; try discriminate; try (unfold name_char, upper, lower, digit; lia);
    intros (c & r & E & D); inversion E; subst; unfold digit in D; lia.
Qed.

(* bus names: ":1.42" unique, "a.b-c" well-known; "1.42", "a.1", ":a", "a", ":", "", "a.:b", ":1..2" rejected *)
Example ex_bus_accept : (validate_busname u_1_42, validate_busname [97;46;98;45;99]) = (Ok tt, Ok tt).
Proof. vm_compute. reflexivity. Qed.
Example ex_bus_reject :
  map validate_busname [[49;46;52;50]; [97;46;49]; [58;97]; [97]; [58]; []; [97;46;58;98]; [58;49;46;46;50]]
  = [Err; Err; Err; Err; Err; Err; Err; Err].
Proof. vm_compute. reflexivity. Qed.
Example ex_bus_spec : ValidBusName u_1_42.
Proof.
  left. split; [vm_compute; discriminate|]. exists [[49]; [52;50]]. split; [cbn; lia|]. split; [|reflexivity].
  repeat constructor; try discriminate; unfold bus_char, name_char, upper, lower, digit; lia.
Qed.

(* member names: "a_0" accepted; "", "0a", "a.b", "a-", "é" rejected *)
Example ex_member_accept : validate_membername m_x = Ok tt.
Proof. vm_compute. reflexivity. Qed.
Example ex_member_reject : map validate_membername [[]; [48;97]; [97;46;98]; [97;45]; [233]] = [Err; Err; Err; Err; Err].
Proof. vm_compute. reflexivity. Qed.
Example ex_member_spec : ValidMember m_x.
Proof.
  split; [discriminate|]. split; [vm_compute; discriminate|]. split; [|split].
  - repeat constructor; unfold name_char, upper, lower, digit; lia.
  - cbn. unfold DOT. intros [H|[H|[H|[]]]]; discriminate.
  - intros (c & r & E & D). inversion E; subst. unfold digit in D. lia.
Qed.

(* the 255-byte boundary: "a." * 127 ++ "a" has 255 bytes, one more 'a' makes 256; for members 255/256 'a';
   a 2-byte character counts twice: "a." ++ 126 * "é" ++ "a" is 255 bytes and rejected only for its characters,
   while byte counting (not character counting) rejects 254 ASCII + ... is exercised in the harness *)
Definition long_iface (n : nat) : list N := concat (repeat [97;46] 127) ++ repeat 97 n.
Example ex_len_iface : (validate_interface (long_iface 1), validate_interface (long_iface 2),
                        validate_busname (long_iface 1), validate_busname (long_iface 2),
                        validate_busname (58 :: long_iface 0 ++ [49]) , validate_busname (58 :: long_iface 1))
                       = (Ok tt, Err, Ok tt, Err, Err, Err).
Proof. vm_compute. reflexivity. Qed.
Example ex_len_unique : (str_len (58 :: concat (repeat [49;46] 126) ++ [49;49]), validate_busname (58 :: concat (repeat [49;46] 126) ++ [49;49]),
                         validate_busname (58 :: concat (repeat [49;46] 126) ++ [49;49;49])) = (255, Ok tt, Err).
Proof. vm_compute. reflexivity. Qed.
Example ex_len_member : (validate_membername (repeat 97 255), validate_membername (repeat 97 256)) = (Ok tt, Err).
Proof. vm_compute. reflexivity. Qed.
(* paths have no length limit *)
Example ex_len_path : validate_object_path (47 :: repeat 97 1000) = Ok tt.
Proof. vm_compute. reflexivity. Qed.
(* str::len counts bytes: U+00E9 is 2, U+0663 is 2, U+20AC is 3, U+1F600 is 4 *)
Example ex_str_len : (str_len [233], str_len [1635], str_len [8364], str_len [128512], utf8_bytes [233; 8364; 128512])
                     = (2, 2, 3, 4, [195;169; 226;130;172; 240;159;152;128]).
Proof. vm_compute. reflexivity. Qed.

(* ObjectPath::new *)
Example ex_new : (objectpath_new p_ab, objectpath_new [97]) = (Ok p_ab, Err).
Proof. vm_compute. reflexivity. Qed.

(* the split model on the corner cases of str::split *)
Example ex_split : (split 46 [], split 46 [46], split 46 [97;46], split 46 [46;97], split 46 [97;46;46;98])
                   = ([[]], [[];[]], [[97];[]], [[];[97]], [[97];[];[98]]).
Proof. vm_compute. reflexivity. Qed.
Example ex_split_once : (split_once 47 [], split_once 47 [97], split_once 47 [47;97;47], split_once 47 [97;47;98])
                        = (None, None, Some ([], [97;47]), Some ([97], [98])).
Proof. vm_compute. reflexivity. Qed.

(* the header marshaller: all six names valid -> written in header order; one bad name -> Err *)
Definition hdr_ok : dynheader :=
  {| dh_interface := Some i_ab; dh_member := Some m_x; dh_object := Some p_ab;
     dh_destination := Some u_1_42; dh_sender := Some [97;46;98;45;99]; dh_error_name := Some i_ab |}.
Example ex_wire_ok : marshal_header_names hdr_ok [] =
  Ok [(2, i_ab); (6, u_1_42); (7, [97;46;98;45;99]); (3, m_x); (1, p_ab); (4, i_ab)].
Proof. vm_compute. reflexivity. Qed.
Example ex_wire_valid : Forall FieldValid (names_of hdr_ok).
Proof. pose proof ex_wire_ok as H. apply marshal_header_names_spec in H. tauto. Qed.
Example ex_wire_bad :
  marshal_header_names {| dh_interface := None; dh_member := Some [48;97]; dh_object := Some p_ab;
                          dh_destination := None; dh_sender := None; dh_error_name := None |} [] = Err.
Proof. vm_compute. reflexivity. Qed.
Example ex_wire_none :
  marshal_header_names {| dh_interface := None; dh_member := None; dh_object := None;
                          dh_destination := None; dh_sender := None; dh_error_name := None |} [] = Ok [].
Proof. vm_compute. reflexivity. Qed.

(* the TryFrom constructors and the typed marshal of the wrapper *)
Example ex_try_from : (objectpath_try_from_str p_ab, objectpath_try_from_string p_ab, objectpath_try_from_str [47;47],
                       objectpath_try_from_string [97]) = (Ok p_ab, Ok p_ab, Err, Err).
Proof. vm_compute. reflexivity. Qed.
Example ex_typed_marshal : (marshal_objectpath_typed (objectpath_to_owned p_ab), marshal_objectpath_typed [47;0]) = (Ok p_ab, Err).
Proof. vm_compute. reflexivity. Qed.
Example ex_ctor : objectpath_ctor objectpath_try_from_string.
Proof. right. right. left. reflexivity. Qed.

(* receive side: a valid name is delivered, an invalid one or a failed read is not *)
Example ex_receive : (unmarshal_header_member (Ok m_x), unmarshal_header_member (Ok [48;97]), unmarshal_header_member Err,
                      unmarshal_header_sender (Ok u_1_42), unmarshal_header_path (Ok [47;47]))
                     = (Ok m_x, Err, Err, Ok u_1_42, Err).
Proof. vm_compute. reflexivity. Qed.
Example ex_decoder : name_field_decoder 7 = Some unmarshal_header_sender /\ name_field_decoder 5 = None.
Proof. vm_compute. auto. Qed.
Example ex_receive_path : (objectpath_unmarshal (Ok p_ab), objectpath_unmarshal (Ok [47;97;47]), unmarshal_param_objectpath (Ok p_ab),
                           validate_raw_objectpath (Ok p_ab), validate_raw_objectpath (Ok [97]))
                          = (Ok p_ab, Err, Ok p_ab, Ok tt, Err).
Proof. vm_compute. reflexivity. Qed.
Example ex_ctor_decode : objectpath_ctor (fun s => objectpath_unmarshal (Ok s)).
Proof. right. right. right. reflexivity. Qed.
(* message level: a reply without reply serial, a call without member, an Invalid message are refused; complete ones pass *)
Definition hdr_reply : dynheader :=
  {| dh_interface := None; dh_member := None; dh_object := None; dh_destination := Some u_1_42; dh_sender := None; dh_error_name := None |}.
Example ex_msg : (marshal_header_msg MReply true hdr_reply, marshal_header_msg MReply false hdr_reply,
                  marshal_header_msg MCall false hdr_reply, marshal_header_msg MInvalid true hdr_ok,
                  is_ok (marshal_header_msg MSignal false hdr_ok))
                 = (Ok [(6, u_1_42)], Err, Err, Err, true).
Proof. vm_compute. reflexivity. Qed.
