(** The validators of Names/Model.v accept exactly the languages of Names/Spec.v, and are total. *)
From RB Require Import Base.Prelude Names.Str Names.Spec Names.StrProofs Names.Model.

(* ---- character classes *)
Lemma alnum_us_iff c : alnum_us c = true <-> name_char c.
Proof.
  unfold alnum_us, name_char. rewrite orb_true_iff, is_ascii_alphanumeric_iff, N.eqb_eq. tauto.
Qed.

Lemma alnum_us_dash_iff c : alnum_us_dash c = true <-> bus_char c.
Proof.
  unfold alnum_us_dash, bus_char, name_char.
  rewrite !orb_true_iff, is_ascii_alphanumeric_iff, !N.eqb_eq. tauto.
Qed.

Lemma chars_all_iff (p : N -> bool) (P : N -> Prop) s :
  (forall c, p c = true <-> P c) -> (chars_all p s = true <-> Forall P s).
Proof.
  intros H. unfold chars_all. rewrite forallb_forall, Forall_forall.
  split; intros Hs c Hc; apply H; auto.
Qed.

Lemma name_char_ascii c : name_char c -> 0 < c < 128.
Proof. unfold name_char, upper, lower, digit. lia. Qed.
Lemma bus_char_ascii c : bus_char c -> 0 < c < 128.
Proof. unfold bus_char, name_char, upper, lower, digit. lia. Qed.
Lemma name_char_not_slash c : name_char c -> c <> SLASH.
Proof. unfold name_char, upper, lower, digit, SLASH. lia. Qed.
Lemma name_char_not_dot c : name_char c -> c <> DOT.
Proof. unfold name_char, upper, lower, digit, DOT. lia. Qed.
Lemma bus_char_not_dot c : bus_char c -> c <> DOT.
Proof. unfold bus_char, name_char, upper, lower, digit, DOT. lia. Qed.
Lemma bus_char_not_colon c : bus_char c -> c <> COLON.
Proof. unfold bus_char, name_char, upper, lower, digit, COLON. lia. Qed.

Lemma forall_not_in (P : N -> Prop) d e : (forall c, P c -> c <> d) -> Forall P e -> ~ In d e.
Proof. intros H Hall Hin. rewrite Forall_forall in Hall. exact (H d (Hall d Hin) eq_refl). Qed.

Lemma begins_with_digit_cons c r : begins_with_digit (c :: r) <-> digit c.
Proof.
  unfold begins_with_digit. split.
  - intros (c' & r' & E & H). now inversion E; subst.
  - intros H. now exists c, r.
Qed.
Lemma begins_with_digit_nil : ~ begins_with_digit [].
Proof. intros (c & r & E & _). discriminate. Qed.

(* ==================================================================== object paths *)
Definition path_elem_bad (elem : list N) : option unit :=
  if is_empty elem || negb (chars_all alnum_us elem) then Some tt else None.

Lemma path_elem_bad_none e : path_elem_bad e = None <-> PathElem e.
Proof.
  unfold path_elem_bad, PathElem.
  destruct e as [|c r].
  - cbn [is_empty orb]. split; [discriminate|]. intros [H _]. congruence.
  - cbn [is_empty orb]. destruct (chars_all alnum_us (c :: r)) eqn:E; cbn [negb].
    + apply (chars_all_iff _ _ _ alnum_us_iff) in E. split; [|reflexivity]. intros _. split; [discriminate|exact E].
    + split; [discriminate|]. intros [_ H]. apply (chars_all_iff _ _ _ alnum_us_iff) in H. congruence.
Qed.

Lemma path_elems_split es :
  Forall PathElem es -> Forall (fun e => ~ In SLASH e) es /\ Forall (fun e => e <> []) es.
Proof.
  intros H. split; eapply Forall_impl; try exact H; intros e [Hne Hc]; [|exact Hne].
  eapply forall_not_in; [exact name_char_not_slash|exact Hc].
Qed.

Theorem validate_object_path_spec s : validate_object_path s = Ok tt <-> ValidPath s.
Proof.
  unfold validate_object_path. rewrite split_once_head.
  destruct s as [|c rest].
  - split; [discriminate|]. intros H. inversion H.
  - destruct (N.eqb_spec c 47) as [->|Hne].
    + destruct rest as [|c2 rest2]; cbn [is_empty].
      * split; [intros _; constructor|reflexivity].
      * fold path_elem_bad.
        change (fun elem : list N => if is_empty elem || negb (chars_all alnum_us elem) then Some tt else None)
          with path_elem_bad.
        destruct (find_map path_elem_bad (split 47 (c2 :: rest2))) as [u|] eqn:E.
        -- split; [discriminate|]. intros H. exfalso.
           inversion H as [|es Hes Hall Heq]. 
           destruct (path_elems_split es Hall) as [Hns Hne'].
           assert (Hs : split 47 (c2 :: rest2) = es) by (rewrite <- Heq; apply split_join; assumption).
           rewrite Hs in E.
           assert (E' : find_map path_elem_bad es = None).
           { apply find_map_none. eapply Forall_impl; [|exact Hall]. intros e He. now apply path_elem_bad_none. }
           congruence.
        -- split; [intros _|reflexivity].
           apply find_map_none in E.
           rewrite <- (join_split 47 (c2 :: rest2)). apply vp_elems; [apply split_nonempty|].
           eapply Forall_impl; [|exact E]. intros e He. now apply path_elem_bad_none.
    + split; [discriminate|]. intros H. inversion H; subst; unfold SLASH in *; congruence.
Qed.

(* ==================================================================== interface / error names *)
Definition iface_elem_b (e : list N) : bool :=
  match e with
  | [] => false
  | c :: _ => negb (is_ascii_digit c) && chars_all alnum_us e
  end.

Lemma interface_loop_eq es : forall i cnt,
  interface_loop es i cnt =
  if forallb iface_elem_b es then Ok (match es with [] => cnt | _ :: _ => i + len es end) else Err.
Proof.
  induction es as [|e rest IH]; intros i cnt; [reflexivity|].
  cbn [interface_loop forallb]. destruct e as [|c r]; [reflexivity|].
  cbn [chars_next iface_elem_b]. destruct (is_ascii_digit c); [reflexivity|].
  cbn [negb andb]. destruct (chars_all alnum_us (c :: r)); [|reflexivity].
  cbn [negb]. rewrite IH. destruct (forallb iface_elem_b rest); [|reflexivity].
  destruct rest as [|e2 rest2]; apply (f_equal (@Ok N)); rewrite !len_cons; [rewrite len_nil|]; lia.
Qed.

Lemma iface_elem_b_iff e : iface_elem_b e = true <-> InterfaceElem e.
Proof.
  unfold InterfaceElem. destruct e as [|c r]; cbn [iface_elem_b].
  - split; [discriminate|]. intros [H _]. congruence.
  - rewrite andb_true_iff, negb_true_iff, (chars_all_iff _ _ _ alnum_us_iff), begins_with_digit_cons.
    rewrite <- is_ascii_digit_iff. destruct (is_ascii_digit c).
    + split; [intros [H _]; discriminate|]. intros (_ & _ & H). now elim H.
    + split; [intros [_ H]|intros (_ & H & _)]; repeat split; auto; discriminate.
Qed.

Lemma iface_elems_nodot es : Forall InterfaceElem es -> Forall (fun e => ~ In DOT e) es.
Proof.
  intros H. eapply Forall_impl; [|exact H]. intros e (_ & Hc & _).
  eapply forall_not_in; [exact name_char_not_dot|exact Hc].
Qed.

Lemma forallb_Forall_iff {A} (p : A -> bool) (P : A -> Prop) l :
  (forall x, p x = true <-> P x) -> (forallb p l = true <-> Forall P l).
Proof.
  intros H. rewrite forallb_forall, Forall_forall. split; intros Hs x Hx; apply H; auto.
Qed.

Lemma len_ge2 {A} (l : list A) : 2 <= len l <-> (2 <= length l)%nat.
Proof. unfold len. lia. Qed.

Theorem validate_interface_spec s : validate_interface s = Ok tt <-> ValidInterface s.
Proof.
  unfold validate_interface, ValidInterface, MAX_NAME_LEN, MAX_NAME. rewrite byte_length_str_len.
  destruct (N.ltb_spec 255 (str_len s)) as [Hlen|Hlen].
  - split; [discriminate|]. intros [H _]. lia.
  - rewrite interface_loop_eq.
    pose proof (split_nonempty 46 s) as Hne.
    destruct (forallb iface_elem_b (split 46 s)) eqn:Eall; cbn [bind].
    + destruct (split 46 s) as [|e0 es0] eqn:Es; [congruence|]. rewrite <- Es in *.
      rewrite N.add_0_l.
      apply (forallb_Forall_iff _ _ _ iface_elem_b_iff) in Eall.
      destruct (N.leb_spec 2 (len (split 46 s))) as [H2|H2].
      * split; [intros _|reflexivity]. split; [exact Hlen|].
        exists (split 46 s). split; [now apply len_ge2|]. split; [exact Eall|].
        symmetry. apply join_split.
      * split; [discriminate|]. intros (_ & es & Hn & Hall & Heq). exfalso.
        assert (Hs : split 46 s = es).
        { rewrite Heq. apply split_join; [destruct es; [cbn in Hn; lia|discriminate]|now apply iface_elems_nodot]. }
        rewrite Hs in H2. apply len_ge2 in Hn. lia.
    + split; [discriminate|]. intros (_ & es & Hn & Hall & Heq). exfalso.
      assert (Hs : split 46 s = es).
      { rewrite Heq. apply split_join; [destruct es; [cbn in Hn; lia|discriminate]|now apply iface_elems_nodot]. }
      rewrite Hs in Eall. apply (forallb_Forall_iff _ _ _ iface_elem_b_iff) in Hall. congruence.
Qed.

Theorem validate_errorname_spec s : validate_errorname s = Ok tt <-> ValidErrorName s.
Proof.
  unfold validate_errorname, ValidErrorName. rewrite <- validate_interface_spec.
  destruct (validate_interface s) as [[]| | | |]; split; congruence.
Qed.

(* ==================================================================== bus names *)
Definition bus_elem_b (unique : bool) (e : list N) : bool :=
  match e with
  | [] => false
  | c :: _ => negb (is_ascii_digit c && negb unique) && chars_all alnum_us_dash e
  end.

Lemma busname_loop_eq unique es : forall i cnt,
  busname_loop unique es i cnt =
  if forallb (bus_elem_b unique) es then Ok (match es with [] => cnt | _ :: _ => i + len es end) else Err.
Proof.
  induction es as [|e rest IH]; intros i cnt; [reflexivity|].
  cbn [busname_loop forallb]. destruct e as [|c r]; [reflexivity|].
  cbn [chars_next bus_elem_b]. destruct (is_ascii_digit c && negb unique); [reflexivity|].
  cbn [negb andb]. destruct (chars_all alnum_us_dash (c :: r)); [|reflexivity].
  cbn [negb]. rewrite IH. destruct (forallb (bus_elem_b unique) rest); [|reflexivity].
  destruct rest as [|e2 rest2]; apply (f_equal (@Ok N)); rewrite !len_cons; [rewrite len_nil|]; lia.
Qed.

Lemma unique_elem_b_iff e : bus_elem_b true e = true <-> UniqueElem e.
Proof.
  unfold UniqueElem. destruct e as [|c r]; cbn [bus_elem_b].
  - split; [discriminate|]. intros [H _]. congruence.
  - cbn [negb]. rewrite andb_false_r. cbn [negb andb].
    rewrite (chars_all_iff _ _ _ alnum_us_dash_iff). split; [intros H; split; [discriminate|exact H]|tauto].
Qed.

Lemma wellknown_elem_b_iff e : bus_elem_b false e = true <-> WellKnownElem e.
Proof.
  unfold WellKnownElem. destruct e as [|c r]; cbn [bus_elem_b].
  - split; [discriminate|]. intros [H _]. congruence.
  - cbn [negb]. rewrite andb_true_r.
    rewrite andb_true_iff, negb_true_iff, (chars_all_iff _ _ _ alnum_us_dash_iff), begins_with_digit_cons.
    rewrite <- is_ascii_digit_iff. destruct (is_ascii_digit c).
    + split; [intros [H _]; discriminate|]. intros (_ & _ & H). now elim H.
    + split; [intros [_ H]|intros (_ & H & _)]; repeat split; auto; discriminate.
Qed.

Lemma unique_elems_nodot es : Forall UniqueElem es -> Forall (fun e => ~ In DOT e) es.
Proof.
  intros H. eapply Forall_impl; [|exact H]. intros e (_ & Hc).
  eapply forall_not_in; [exact bus_char_not_dot|exact Hc].
Qed.
Lemma wellknown_elems_nodot es : Forall WellKnownElem es -> Forall (fun e => ~ In DOT e) es.
Proof.
  intros H. eapply Forall_impl; [|exact H]. intros e (_ & Hc & _).
  eapply forall_not_in; [exact bus_char_not_dot|exact Hc].
Qed.

(* the part of validate_busname after the prefix has been stripped *)
Definition busname_rest (unique : bool) (bus_name : list N) : outcome unit :=
  do cnt <- busname_loop unique (split 46 bus_name) 0 0;
  if 2 <=? cnt then Ok tt else Err.

Lemma busname_rest_spec unique (E : list N -> Prop) r :
  (forall e, bus_elem_b unique e = true <-> E e) ->
  (forall es, Forall E es -> Forall (fun e => ~ In DOT e) es) ->
  (busname_rest unique r = Ok tt <-> exists es, (2 <= length es)%nat /\ Forall E es /\ r = join DOT es).
Proof.
  intros HE Hnodot. unfold busname_rest. rewrite busname_loop_eq.
  pose proof (split_nonempty 46 r) as Hne.
  destruct (forallb (bus_elem_b unique) (split 46 r)) eqn:Eall; cbn [bind].
  - destruct (split 46 r) as [|e0 es0] eqn:Es; [congruence|]. rewrite <- Es in *.
    rewrite N.add_0_l.
    apply (forallb_Forall_iff _ _ _ HE) in Eall.
    destruct (N.leb_spec 2 (len (split 46 r))) as [H2|H2].
    + split; [intros _|reflexivity].
      exists (split 46 r). split; [now apply len_ge2|]. split; [exact Eall|].
      symmetry. apply join_split.
    + split; [discriminate|]. intros (es & Hn & Hall & Heq). exfalso.
      assert (Hs : split 46 r = es).
      { rewrite Heq. apply split_join; [destruct es; [cbn in Hn; lia|discriminate]|now apply Hnodot]. }
      rewrite Hs in H2. apply len_ge2 in Hn. lia.
  - split; [discriminate|]. intros (es & Hn & Hall & Heq). exfalso.
    assert (Hs : split 46 r = es).
    { rewrite Heq. apply split_join; [destruct es; [cbn in Hn; lia|discriminate]|now apply Hnodot]. }
    rewrite Hs in Eall. apply (forallb_Forall_iff _ _ _ HE) in Hall. congruence.
Qed.

Lemma validate_busname_unfold s :
  validate_busname s =
  if MAX_NAME_LEN <? str_len s then Err
  else match strip_prefix 58 s with
       | Some r => busname_rest true r
       | None => busname_rest false s
       end.
Proof.
  unfold validate_busname. destruct (MAX_NAME_LEN <? str_len s); [reflexivity|].
  destruct (strip_prefix 58 s); reflexivity.
Qed.

(* a well-known name does not begin with ':' *)
Lemma wellknown_no_colon es s :
  (2 <= length es)%nat -> Forall WellKnownElem es -> s = join DOT es -> strip_prefix 58 s = None.
Proof.
  intros Hn Hall ->. destruct es as [|e rest]; [cbn in Hn; lia|].
  inversion Hall as [|? ? (Hne & Hc & _) _]; subst.
  destruct e as [|c r]; [congruence|]. rewrite join_cons_char. cbn [strip_prefix].
  inversion Hc as [|? ? Hcc _]; subst. apply bus_char_not_colon in Hcc. unfold COLON in Hcc.
  destruct (N.eqb_spec c 58); [congruence|reflexivity].
Qed.

Theorem validate_busname_spec s : validate_busname s = Ok tt <-> ValidBusName s.
Proof.
  rewrite validate_busname_unfold. unfold ValidBusName, ValidUniqueName, ValidWellKnownName, MAX_NAME_LEN, MAX_NAME.
  rewrite byte_length_str_len.
  destruct (N.ltb_spec 255 (str_len s)) as [Hlen|Hlen].
  - split; [discriminate|]. intros [[H _]|[H _]]; lia.
  - destruct (strip_prefix 58 s) as [r|] eqn:Ep.
    + assert (Hs : s = COLON :: r).
      { destruct s as [|c s']; [discriminate|]. cbn [strip_prefix] in Ep.
        destruct (N.eqb_spec c 58) as [->|]; [|discriminate]. now inversion Ep. }
      rewrite (busname_rest_spec true UniqueElem r unique_elem_b_iff unique_elems_nodot).
      split.
      * intros (es & Hn & Hall & Heq). left. split; [exact Hlen|]. exists es. subst r. auto.
      * intros [(_ & es & Hn & Hall & Heq)|(_ & es & Hn & Hall & Heq)].
        -- exists es. rewrite Hs in Heq. inversion Heq. auto.
        -- exfalso. rewrite (wellknown_no_colon es s Hn Hall Heq) in Ep. discriminate.
    + rewrite (busname_rest_spec false WellKnownElem s wellknown_elem_b_iff wellknown_elems_nodot).
      split.
      * intros H. right. split; [exact Hlen|exact H].
      * intros [(_ & es & Hn & Hall & Heq)|(_ & H)]; [|exact H].
        exfalso. rewrite Heq in Ep. cbn [strip_prefix] in Ep. unfold COLON in Ep. rewrite N.eqb_refl in Ep. discriminate.
Qed.

(* ==================================================================== member names *)
Theorem validate_membername_spec s : validate_membername s = Ok tt <-> ValidMember s.
Proof.
  unfold validate_membername, ValidMember, MAX_NAME_LEN, MAX_NAME. rewrite byte_length_str_len.
  destruct s as [|c r].
  - cbn [is_empty orb]. split; [discriminate|]. intros [H _]. congruence.
  - cbn [is_empty orb]. destruct (N.ltb_spec 255 (str_len (c :: r))) as [Hlen|Hlen].
    + split; [discriminate|]. intros (_ & H & _). lia.
    + destruct (chars_all alnum_us (c :: r)) eqn:Eall; cbn [negb].
      * apply (chars_all_iff _ _ _ alnum_us_iff) in Eall. cbn [starts_with].
        rewrite begins_with_digit_cons, <- is_ascii_digit_iff.
        destruct (is_ascii_digit c).
        -- split; [discriminate|]. intros (_ & _ & _ & _ & H). now elim H.
        -- split; [intros _|reflexivity]. repeat split; [discriminate|exact Hlen|exact Eall| |discriminate].
           eapply forall_not_in; [exact name_char_not_dot|exact Eall].
      * split; [discriminate|]. intros (_ & _ & H & _). apply (chars_all_iff _ _ _ alnum_us_iff) in H. congruence.
Qed.

(* ==================================================================== ObjectPath::new *)
Theorem objectpath_new_spec s : (exists p, objectpath_new s = Ok p) <-> ValidPath s.
Proof.
  rewrite <- validate_object_path_spec. unfold objectpath_new.
  destruct (validate_object_path s) as [[]| | | |]; cbn [bind]; split;
    try (intros [p H]; discriminate); try discriminate; eauto.
Qed.

Lemma objectpath_new_value s p : objectpath_new s = Ok p -> p = s.
Proof.
  unfold objectpath_new. destruct (validate_object_path s); cbn [bind]; congruence.
Qed.

(* ==================================================================== totality *)
Lemma validate_object_path_total s : ok_or_err (validate_object_path s).
Proof.
  unfold validate_object_path. destruct (split_once 47 s) as [[r op']|]; [|exact I].
  destruct (is_empty r); [|exact I]. destruct (is_empty op'); [exact I|].
  destruct (find_map _ _); exact I.
Qed.

Lemma validate_interface_total s : ok_or_err (validate_interface s).
Proof.
  unfold validate_interface. destruct (MAX_NAME_LEN <? str_len s); [exact I|].
  rewrite interface_loop_eq. destruct (forallb _ _); cbn [bind]; [|exact I].
  destruct (2 <=? _); exact I.
Qed.

Lemma validate_errorname_total s : ok_or_err (validate_errorname s).
Proof.
  unfold validate_errorname. pose proof (validate_interface_total s) as H.
  destruct (validate_interface s); exact H.
Qed.

Lemma busname_rest_total u r : ok_or_err (busname_rest u r).
Proof.
  unfold busname_rest. rewrite busname_loop_eq. destruct (forallb _ _); cbn [bind]; [|exact I].
  destruct (2 <=? _); exact I.
Qed.

Lemma validate_busname_total s : ok_or_err (validate_busname s).
Proof.
  rewrite validate_busname_unfold. destruct (MAX_NAME_LEN <? str_len s); [exact I|].
  destruct (strip_prefix 58 s); apply busname_rest_total.
Qed.

Lemma validate_membername_total s : ok_or_err (validate_membername s).
Proof.
  unfold validate_membername. destruct (is_empty s || _); [exact I|].
  destruct (negb _); [exact I|]. destruct (starts_with _ _); exact I.
Qed.

Lemma objectpath_new_total s : ok_or_err (objectpath_new s).
Proof.
  unfold objectpath_new. pose proof (validate_object_path_total s) as H.
  destruct (validate_object_path s); cbn [bind]; exact H.
Qed.

(* ==================================================================== the languages are ASCII, NUL-free *)
Definition ascii_nonnul (s : list N) : Prop := Forall (fun c => 0 < c < 128) s.

Lemma ascii_nonnul_join sep es : 0 < sep < 128 -> Forall ascii_nonnul es -> ascii_nonnul (join sep es).
Proof.
  intros Hsep. induction es as [|e rest IH]; intros H; [constructor|].
  inversion H as [|? ? He Hrest]; subst. destruct rest as [|e2 rest2]; [exact He|].
  rewrite join_cons by discriminate. apply Forall_app. split; [exact He|]. constructor; [exact Hsep|]. now apply IH.
Qed.

Lemma Forall_weaken (P Q : N -> Prop) l : (forall c, P c -> Q c) -> Forall P l -> Forall Q l.
Proof. intros H. apply Forall_impl. exact H. Qed.

Lemma valid_path_ascii s : ValidPath s -> ascii_nonnul s.
Proof.
  intros H. inversion H as [|es _ Hall]; subst; unfold SLASH.
  - constructor; [lia|constructor].
  - constructor; [lia|]. apply ascii_nonnul_join; [lia|].
    eapply Forall_impl; [|exact Hall]. intros e [_ Hc]. eapply Forall_weaken; [exact name_char_ascii|exact Hc].
Qed.

Lemma valid_interface_ascii s : ValidInterface s -> ascii_nonnul s.
Proof.
  intros (_ & es & _ & Hall & ->). apply ascii_nonnul_join; [unfold DOT; lia|].
  eapply Forall_impl; [|exact Hall]. intros e (_ & Hc & _). eapply Forall_weaken; [exact name_char_ascii|exact Hc].
Qed.

Lemma valid_busname_ascii s : ValidBusName s -> ascii_nonnul s.
Proof.
  intros [(_ & es & _ & Hall & ->)|(_ & es & _ & Hall & ->)].
  - constructor; [unfold COLON; lia|]. apply ascii_nonnul_join; [unfold DOT; lia|].
    eapply Forall_impl; [|exact Hall]. intros e (_ & Hc). eapply Forall_weaken; [exact bus_char_ascii|exact Hc].
  - apply ascii_nonnul_join; [unfold DOT; lia|].
    eapply Forall_impl; [|exact Hall]. intros e (_ & Hc & _). eapply Forall_weaken; [exact bus_char_ascii|exact Hc].
Qed.

Lemma valid_member_ascii s : ValidMember s -> ascii_nonnul s.
Proof. intros (_ & _ & Hc & _). eapply Forall_weaken; [exact name_char_ascii|exact Hc]. Qed.
