(** Facts about the string-library model: split/join are inverse, split_once, UTF-8 lengths,
    character classes. *)
From RB Require Import Base.Prelude Names.Str Names.Spec.

(* ---- character classes: the Rust predicates decide the specification's classes *)
Lemma in_range_iff lo hi c : in_range lo hi c = true <-> lo <= c <= hi.
Proof. unfold in_range. rewrite andb_true_iff, !N.leb_le. tauto. Qed.

Lemma is_ascii_digit_iff c : is_ascii_digit c = true <-> digit c.
Proof. unfold is_ascii_digit, digit. apply in_range_iff. Qed.

Lemma is_ascii_alphanumeric_iff c : is_ascii_alphanumeric c = true <-> (upper c \/ lower c \/ digit c).
Proof.
  unfold is_ascii_alphanumeric, upper, lower, digit. rewrite !orb_true_iff, !in_range_iff. tauto.
Qed.

(* ---- UTF-8 length *)
Lemma length_utf8_encode c : len (utf8_encode c) = len_utf8 c.
Proof.
  unfold utf8_encode, len_utf8.
  destruct (c <? 128); [reflexivity|]. destruct (c <? 2048); [reflexivity|].
  destruct (c <? 65536); reflexivity.
Qed.

Lemma byte_length_str_len s : byte_length s = str_len s.
Proof.
  unfold byte_length, utf8_bytes. induction s as [|c r IH]; [reflexivity|].
  cbn [flat_map str_len]. rewrite len_app, length_utf8_encode, IH. reflexivity.
Qed.

Lemma len_utf8_pos c : 1 <= len_utf8 c.
Proof.
  unfold len_utf8. destruct (c <? 128); [lia|]. destruct (c <? 2048); [lia|]. destruct (c <? 65536); lia.
Qed.

Lemma len_utf8_ascii c : c < 128 -> len_utf8 c = 1.
Proof. intros H. unfold len_utf8. apply N.ltb_lt in H. now rewrite H. Qed.

Lemma str_len_ascii s : Forall (fun c => c < 128) s -> str_len s = len s.
Proof.
  induction 1 as [|c r Hc _ IH]; [reflexivity|]. cbn [str_len]. rewrite len_cons, IH, len_utf8_ascii by exact Hc. reflexivity.
Qed.

(* ---- join *)
Lemma join_cons sep e rest : rest <> [] -> join sep (e :: rest) = e ++ sep :: join sep rest.
Proof. destruct rest; [congruence|reflexivity]. Qed.

Lemma join_single sep e : join sep [e] = e.
Proof. reflexivity. Qed.

Lemma join_cons_char sep c h t : join sep ((c :: h) :: t) = c :: join sep (h :: t).
Proof. destruct t; reflexivity. Qed.

(* ---- split *)
Lemma split_nonempty d s : split d s <> [].
Proof.
  induction s as [|c r IH]; cbn [split]; [discriminate|].
  destruct (c =? d); [discriminate|]. destruct (split d r); discriminate.
Qed.

Lemma join_split d s : join d (split d s) = s.
Proof.
  induction s as [|c r IH]; [reflexivity|]. cbn [split].
  destruct (N.eqb_spec c d) as [->|Hne].
  - rewrite join_cons by apply split_nonempty. rewrite IH. reflexivity.
  - pose proof (split_nonempty d r) as Hn. destruct (split d r) as [|h t]; [congruence|].
    rewrite join_cons_char, IH. reflexivity.
Qed.

Lemma split_no_sep d s : Forall (fun e => ~ In d e) (split d s).
Proof.
  induction s as [|c r IH]; cbn [split].
  - constructor; [intros []|constructor].
  - destruct (N.eqb_spec c d) as [->|Hne].
    + constructor; [intros []|exact IH].
    + destruct (split d r) as [|h t]; [constructor; [|constructor]; intros [H|[]]; congruence|].
      inversion IH as [|? ? Hh Ht]; subst. constructor; [|exact Ht].
      intros [H|H]; [congruence|contradiction].
Qed.

Lemma split_nosep d e : ~ In d e -> split d e = [e].
Proof.
  induction e as [|c r IH]; intros H; [reflexivity|]. cbn [split].
  destruct (N.eqb_spec c d) as [->|Hne]; [elim H; now left|].
  rewrite IH; [reflexivity|]. intros Hin. apply H. now right.
Qed.

Lemma split_app d e r : ~ In d e -> split d (e ++ d :: r) = e :: split d r.
Proof.
  induction e as [|c e' IH]; intros H.
  - cbn [app split]. now rewrite N.eqb_refl.
  - cbn [app split]. destruct (N.eqb_spec c d) as [->|Hne]; [elim H; now left|].
    rewrite IH; [reflexivity|]. intros Hin. apply H. now right.
Qed.

Lemma split_join d es : es <> [] -> Forall (fun e => ~ In d e) es -> split d (join d es) = es.
Proof.
  induction es as [|e rest IH]; intros Hne Hall; [congruence|].
  inversion Hall as [|? ? He Hrest]; subst.
  destruct rest as [|e2 rest'].
  - cbn [join]. now apply split_nosep.
  - rewrite join_cons by discriminate. rewrite split_app by exact He.
    rewrite IH; [reflexivity|discriminate|exact Hrest].
Qed.

(* the pieces of a string are characterised by: joining them gives the string back, there is at
   least one, none contains the separator *)
Lemma split_iff d s es : split d s = es <-> (es <> [] /\ Forall (fun e => ~ In d e) es /\ s = join d es).
Proof.
  split.
  - intros <-. split; [apply split_nonempty|]. split; [apply split_no_sep|]. symmetry. apply join_split.
  - intros (Hne & Hall & ->). now apply split_join.
Qed.

(* ---- split_once with an empty first part *)
Lemma split_once_head d s :
  (match split_once d s with Some (r, rest) => if is_empty r then Some rest else None | None => None end)
  = match s with c :: rest => if c =? d then Some rest else None | [] => None end.
Proof.
  destruct s as [|c r]; [reflexivity|]. cbn [split_once].
  destruct (c =? d); [reflexivity|]. destruct (split_once d r) as [[a b]|]; reflexivity.
Qed.

Lemma find_map_none {A B} (f : A -> option B) l : find_map f l = None <-> Forall (fun x => f x = None) l.
Proof.
  induction l as [|x r IH]; cbn [find_map].
  - split; [constructor|reflexivity].
  - destruct (f x) eqn:E.
    + split; [discriminate|]. intros H. inversion H; congruence.
    + rewrite IH. split; [intros H; constructor; assumption|intros H; now inversion H].
Qed.

Lemma length_join_nil sep es : Forall (fun e => e <> []) es -> es <> [] -> join sep es <> [].
Proof.
  intros Hall Hne. destruct es as [|e rest]; [congruence|]. inversion Hall as [|? ? He _]; subst.
  destruct rest; cbn [join]; destruct e; try congruence; discriminate.
Qed.
