(** Historical (before commit 8460205 "fix: an auth reply counts as OK / AGREE_UNIX_FD only if that is its command
    word"): do_auth and negotiate_unix_fds tested the reply line with `msg.starts_with("OK")` /
    `msg.starts_with("AGREE_UNIX_FD")`, so OKAY, OKfoo, AGREE_UNIX_FDX were taken for acceptance and BEGIN was sent.
    The first version of the C17 specification had copied that prefix test, so its theorems held by construction;
    the specification now ([accepts], Conn/AuthProofs.v) compares the first space-separated word. *)
From RB Require Import Base.Prelude Conn.AddrBase Conn.Auth Conn.AuthProofs.

(* the old classification of a complete reply line *)
Definition classify_old (word : list N) (r : rm_result) : auth_res :=
  match r with
  | RmLine line => if starts_with word line then AOk else ARejected
  | RmErr => AErr
  | RmBlocked => ABlocked
  | RmPanic => APanic
  | RmFuel => AFuel
  end.

Definition OKAY : list N := [79; 75; 65; 89].
Definition AGREE_UNIX_FDX : list N := AGREE_UNIX_FD ++ [88].

(* refuted: the old test accepts replies whose command word is not the expected one *)
Lemma old_reply_test_refuted :
  classify_old OK_ (RmLine OKAY) = AOk /\ accepts OK_ OKAY = false
  /\ classify_old AGREE_UNIX_FD (RmLine AGREE_UNIX_FDX) = AOk /\ accepts AGREE_UNIX_FD AGREE_UNIX_FDX = false.
Proof. vm_compute. auto. Qed.
(* the current test rejects them *)
Lemma new_reply_test_rejects : classify OK_ (RmLine OKAY) = ARejected /\ classify AGREE_UNIX_FD (RmLine AGREE_UNIX_FDX) = ARejected.
Proof. vm_compute. auto. Qed.
(* the old test never rejected what the specification accepts *)
Lemma old_reply_test_complete word line : accepts word line = true -> starts_with word line = true.
Proof.
  unfold accepts, first_word. rewrite bytes_eqb_spec. intros H. apply starts_with_spec.
  destruct (split_once SPACE line) as [[w r]|] eqn:E.
  - apply split_once_some in E. destruct E as [-> _]. subst w. eauto.
  - subst line. exists []. now rewrite app_nil_r.
Qed.
