(** Historical (before commit ef1b771 "fix: the typed variant writers validate the signature they write"):
    Marshal::marshal_as_variant (the typed Variant wrapper, push_variant, dbus_variant_var!) checked only that the
    printed signature has at most 255 bytes and debug_assert!ed its validity. A Rust type whose signature the protocol
    forbids - 33 nested Vec - was written as a variant in release builds (and panicked in debug builds); the message
    fails validation. *)
From RB Require Import Base.Prelude Sig.Types Sig.Validator Wire.Bytes Wire.Align Wire.Text Wire.Value Wire.SpecEnc
  Wire.Marshal Wire.Relabel Wire.MarshalProofs Wire.Decode Wire.Unmarshal Wire.Ops Wire.Limits Wire.MarshalEncodable
  Wire.MarshalAccept.

(* the old arm of marshal_t for VVariant *)
Definition marshal_as_variant_old (be : bool) (t : ty) (x : val) (c : mctx) : mres :=
  let sg := to_str t in
  if 255 <? len sg then (c, false)
  else marshal_t be x {| mbuf := write_signature sg (mbuf c); mfds := mfds c |}.

(* it agrees with the current arm whenever the signature validates *)
Lemma marshal_as_variant_old_agrees be t x c : is_ok (validate_signature (to_str t)) = true ->
  marshal_as_variant_old be t x c = marshal_t be (VVariant t x) c.
Proof. intros E. unfold marshal_as_variant_old. cbn [marshal_t]. now rewrite E. Qed.

Fixpoint nest_array (n : nat) (t : ty) : ty := match n with O => t | S k => TArray (nest_array k t) end.
Definition t33 : ty := nest_array 33 (TBase BByte).                      (* Vec<Vec<...<u8>>>, 33 levels: "aaa...ay" *)
Definition v33 : val := VVariant t33 (VArray (nest_array 32 (TBase BByte)) []).   (* the empty outer vector *)
Definition c_empty : mctx := {| mbuf := []; mfds := 0 |}.

Lemma v33_typed : typed v33 /\ leaves_ok v33 = true /\ variant_sigs_ok v33 = false /\ len (to_str t33) = 34.
Proof. split; [exists TVariant; vm_compute; reflexivity|]. vm_compute. auto. Qed.

(* the old arm wrote it; the bytes are not a valid body "v": the signature inside does not parse *)
Theorem C02_old_typed_variant_refuted :
  exists be t x c, typed (VVariant t x) /\ leaves_ok (VVariant t x) = true
    /\ snd (marshal_as_variant_old be t x c) = true
    /\ is_ok (validate_signature (to_str t)) = false
    /\ body_validate be (mbuf (fst (marshal_as_variant_old be t x c))) [TVariant] = false
    /\ validate_marshalled be 0 (mbuf (fst (marshal_as_variant_old be t x c))) TVariant = Err.
Proof.
  exists false, t33, (VArray (nest_array 32 (TBase BByte)) []), c_empty.
  destruct v33_typed as (H1 & H2 & _). split; [exact H1|]. split; [exact H2|]. vm_compute. repeat split.
Qed.

(* today: refused by both APIs, nothing written *)
Theorem C02_typed_variant_refused_now :
  marshal_t false v33 c_empty = (c_empty, false) /\ marshal_t true v33 c_empty = (c_empty, false)
  /\ marshal_p false 0 v33 c_empty = (c_empty, false).
Proof. vm_compute. repeat split. Qed.
