(** Historical (before commit 955c136 "fix: marshal refuses a message whose body holds a descriptor
    that has been taken"): marshal_header wrote UNIX_FDS = msg.body.get_fds().len() (the number of
    handles) while write_once attached msg.body.get_raw_fds() (only the descriptors that are still
    there). After take_raw_fd on a clone of one of the body's handles the message announced more
    descriptors than it carried, against "UNIX_FDS equals the length of the list [of descriptors
    sent]" and "a receiver obtains descriptors for the same open files". The model agreed with that
    code, so only reading the property against the model's theorem (C11_send then had the side
    condition "no handle of the body was taken") showed it. Kept machine-checked. *)
From RB Require Import Base.Prelude Fd.Table Fd.History Fd.TableProofs.

(* the old Send: no refusal *)
Definition send_old (s : st) (b : nat) : st * res :=
  match lookup_b s b with
  | Some bd =>
    let raw := get_raw_fds s bd in
    if SCM_MAX_FD <? len raw then (s, RErr)
    else
      let ofds := ofds_of s raw in
      (emit (EvSend (len (bfds bd)) ofds) (set_wire (wire s ++ [(ofds, bidx bd)]) s),
       RSent (len (bfds bd)) (len raw))
  | None => (s, RInvalid)
  end.

(* witness: open, wrap, new body, push the handle, read the body's descriptor back (a clone of the
   body's handle), take it *)
Definition taken_in_body : list op :=
  [Open; Wrap 0%nat; NewBody; Push 0%nat [PH 0%nat]; Unmarshal 0%nat 0; Take 1%nat].

(* the old code sent UNIX_FDS = 1 with no descriptor attached ... *)
Lemma send_old_announces_more : snd (send_old (run taken_in_body init) 0%nat) = RSent 1 0.
Proof. vm_compute. reflexivity. Qed.

Theorem C11_old_send_refuted :
  exists ops b hdr n, snd (send_old (run ops init) b) = RSent hdr n /\ n <> hdr
    /\ wire (fst (send_old (run ops init) b)) = [([], [0])].
Proof.
  exists taken_in_body, 0%nat, 1, 0. split; [exact send_old_announces_more|]. split; [discriminate|].
  vm_compute. reflexivity.
Qed.

(* ... the current code refuses the message and puts nothing on the wire *)
Lemma send_new_refuses : step (run taken_in_body init) (Send 0%nat) = (run taken_in_body init, RErr).
Proof.
  set (s := run taken_in_body init).
  assert (Hb : lookup_b s 0%nat = Some (mkBody [1%nat] [0])) by (vm_compute; reflexivity).
  assert (Hc : negb (len (get_raw_fds s (mkBody [1%nat] [0])) =? len (bfds (mkBody [1%nat] [0]))) = true)
    by (vm_compute; reflexivity).
  cbn [step]. rewrite Hb. cbv zeta. rewrite Hc. reflexivity.
Qed.

(* when no handle of the body was taken the two agree *)
Lemma send_old_new_agree s b bd :
  lookup_b s b = Some bd -> (forall o, In o (bfds bd) -> cell (objs s o) <> None) ->
  step s (Send b) = send_old s b.
Proof.
  intros Hb Hall. cbn [step]. unfold send_old. rewrite Hb.
  replace (len (get_raw_fds s bd) =? len (bfds bd)) with true; [reflexivity|].
  symmetry. apply N.eqb_eq. unfold get_raw_fds. rewrite len_filter_some_all, len_map; auto.
  intros x Hx. apply in_map_iff in Hx. destruct Hx as (o & <- & Ho). auto.
Qed.
