(** Historical (before commit dec59e1 "fix: derived enums refuse a case whose signature is longer than 255
    bytes"): the Marshal impl that #[derive(Marshal)] generated for an enum (rustbus_derive/src/variants.rs,
    variant_marshal) wrote the case's signature with an unchecked `as u8` length byte - single unnamed field:
    util::write_signature without a check; several / named fields: `ctx.buf[pos] = (len - pos - 2) as u8`.
    For a case type whose signature has more than 255 bytes the call succeeded and emitted a length byte that
    is not the signature's length (a malformed message), while marshal::traits::Variant, dbus_variant_var!,
    dbus_variant_sig! and the Param API refuse the same value. Kept machine-checked as finding D29. *)
From RB Require Import Base.Prelude Sig.Types Sig.Validator Wire.Bytes Wire.Align Wire.Text Wire.Value Wire.SpecEnc
  Wire.Marshal Wire.Derive Wire.Enums Wire.EnumsProofs.

(* the old generated code: the current one without the two length tests *)
Definition derive_case_marshal_old (be : bool) (k : ecase) (p : epay) (c : mctx) : mres :=
  match k, p with
  | CSingle r, PSingle v =>
      marshal_t be v {| mbuf := write_signature (sig_str_r r) (mbuf c); mfds := mfds c |}
  | CFields _ rs, PFields vs =>
      let pos := len (mbuf c) in
      let b1 := mbuf c ++ [0] ++ [c_lpar] ++ flat_map sig_str_r rs ++ [c_rpar] ++ [0] in
      let b2 := set_byte pos ((len b1 - pos - 2) mod 256) b1 in
      derive_struct_marshal (map (marshal_t be) vs) {| mbuf := b2; mfds := mfds c |}
  | _, _ => (c, false)
  end.

(* A1 = (String, String, String, String), A2 = (A1, A1, A1, A1), A3 = (A2, A2, A2, A2), Big = (A3, A3, A3):
   Big's signature has 320 bytes *)
Definition four (r : rty) : rty := RTuple [r; r; r; r].
Definition A3 : rty := four (four (four (RBase BString))).
Definition Big : rty := RTuple [A3; A3; A3].
Definition four_v (v : val) : val := VStruct [v; v; v; v].
Definition a3_v : val := four_v (four_v (four_v (VText BString []))).
Definition big_v : val := VStruct [a3_v; a3_v; a3_v].

Lemma big_sig_len : len (sig_str_r Big) = 320.
Proof. vm_compute. reflexivity. Qed.
Lemma big_typed : wt big_v (sig_r Big) = true.
Proof. vm_compute. reflexivity. Qed.

(* enum E { L(Big) }, E { M(A3, A3, A3) }, E { N { a: A3, b: A3, c: A3 } }: on an empty buffer the old code
   succeeds and the first byte written - the variant's signature length - is 64 = 320 mod 256, while the
   typed Variant of the same value is refused *)
Theorem C16_old_derive_enum_refuted :
  exists k p, pay_matches k p = true /\ wt (payload_val p) (case_ty k) = true /\
    let c := {| mbuf := []; mfds := 0 |} in
    snd (derive_case_marshal_old false k p c) = true
    /\ nthN (mbuf (fst (derive_case_marshal_old false k p c))) 0 = Some 64
    /\ len (to_str (case_ty k)) = 320
    /\ snd (marshal_t false (VVariant (case_ty k) (payload_val p)) c) = false
    /\ derive_case_marshal_old false k p c <> marshal_t false (VVariant (case_ty k) (payload_val p)) c.
Proof.
  exists (CSingle Big), (PSingle big_v). vm_compute. repeat split; discriminate.
Qed.
Theorem C16_old_derive_enum_fields_refuted : forall named,
  let k := CFields named [A3; A3; A3] in let p := PFields [a3_v; a3_v; a3_v] in
  let c := {| mbuf := []; mfds := 0 |} in
  snd (derive_case_marshal_old false k p c) = true
  /\ nthN (mbuf (fst (derive_case_marshal_old false k p c))) 0 = Some 64
  /\ snd (marshal_t false (VVariant (case_ty k) (payload_val p)) c) = false.
Proof. intros named. vm_compute. repeat split. Qed.

(* the current generated code on the same values: refused, nothing written - like the Variant wrapper *)
Lemma derive_enum_now_refuses :
  derive_case_marshal false (CSingle Big) (PSingle big_v) {| mbuf := [7]; mfds := 0 |} = ({| mbuf := [7]; mfds := 0 |}, false)
  /\ derive_case_marshal false (CFields true [A3; A3; A3]) (PFields [a3_v; a3_v; a3_v]) {| mbuf := [7]; mfds := 0 |}
     = ({| mbuf := [7]; mfds := 0 |}, false).
Proof. vm_compute. split; reflexivity. Qed.

(** Historical (after dec59e1, before commit ef1b771 "fix: the typed variant writers validate the signature they
    write"): the generated code checked the LENGTH of the case signature only. A case type whose signature is short
    but forbidden by the protocol - 33 nested Vec: "aaaaaaaaaaaaaaaaaaaaaaaaaaaaaaaaay", more than 32 array levels -
    was written as a variant (the body then fails validation), while dbus_variant_sig! and the Param API refuse it
    (and marshal_as_variant only debug_assert!ed). Finding D30. *)
Definition derive_case_marshal_old2 (be : bool) (k : ecase) (p : epay) (c : mctx) : mres :=
  match k, p with
  | CSingle r, PSingle v =>
      if 255 <? len (sig_str_r r) then (c, false)
      else marshal_t be v {| mbuf := write_signature (sig_str_r r) (mbuf c); mfds := mfds c |}
  | CFields _ rs, PFields vs =>
      let pos := len (mbuf c) in
      let b1 := mbuf c ++ [0] ++ [c_lpar] ++ flat_map sig_str_r rs ++ [c_rpar] ++ [0] in
      let sig_len := len b1 - pos - 2 in
      if 255 <? sig_len then ({| mbuf := firstnN pos b1; mfds := mfds c |}, false) else
      let b2 := set_byte pos (sig_len mod 256) b1 in
      derive_struct_marshal (map (marshal_t be) vs) {| mbuf := b2; mfds := mfds c |}
  | _, _ => (c, false)
  end.

Fixpoint nest_vec (n : nat) (r : rty) : rty := match n with O => r | S n' => RArray (nest_vec n' r) end.
Fixpoint nest_arr_ty (n : nat) (t : ty) : ty := match n with O => t | S n' => TArray (nest_arr_ty n' t) end.
(* the empty value of Vec^(n+1)<u8> *)
Definition V33 : rty := nest_vec 33 (RBase BByte).
Definition v33_empty : val := VArray (nest_arr_ty 32 (TBase BByte)) [].

Theorem C16_old2_derive_enum_refuted :
  let c := {| mbuf := []; mfds := 0 |} in
  len (sig_str_r V33) = 34 /\ is_ok (validate_signature (sig_str_r V33)) = false /\ wt v33_empty (sig_r V33) = true
  (* single unnamed field, several fields, named field: the old code writes the variant *)
  /\ snd (derive_case_marshal_old2 false (CSingle V33) (PSingle v33_empty) c) = true
  /\ snd (derive_case_marshal_old2 false (CFields false [V33; RBase BByte]) (PFields [v33_empty; VBase BByte 1]) c) = true
  /\ snd (derive_case_marshal_old2 false (CFields true [V33]) (PFields [v33_empty]) c) = true
  (* the current code refuses all three and writes nothing, like the Variant wrapper *)
  /\ derive_case_marshal false (CSingle V33) (PSingle v33_empty) c = (c, false)
  /\ derive_case_marshal false (CFields false [V33; RBase BByte]) (PFields [v33_empty; VBase BByte 1]) c = (c, false)
  /\ derive_case_marshal false (CFields true [V33]) (PFields [v33_empty]) c = (c, false)
  /\ marshal_t false (VVariant (sig_r V33) v33_empty) c = (c, false)
  (* 32 levels are fine for everybody *)
  /\ snd (derive_case_marshal false (CSingle (nest_vec 32 (RBase BByte))) (PSingle (VArray (nest_arr_ty 31 (TBase BByte)) [])) c) = true.
Proof. vm_compute. repeat split. Qed.
