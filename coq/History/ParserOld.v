(** Historical (before /repo commit f8eb89e "fix: parse_description accepts the empty signature like
    validate_signature does", finding D36): Type::parse_description began with
        if sig.is_empty() { return Err(Error::EmptySignature); }
    while params::validate_signature accepts the empty string (the signature of an empty body, and a
    member of the grammar as the empty sequence of complete types).  So the two functions did NOT give
    the same verdict on every string, and the parser did not accept exactly the grammar.  Kept
    machine-checked; the current model is Sig/Parser.v. *)
From RB Require Import Base.Prelude Sig.Types Sig.Parser Sig.ParserProofs Sig.Validator Sig.ValidatorProofs Sig.Grammar.

(* fn Type::parse_description as it was before f8eb89e *)
Definition parse_description_old (s : list N) : outcome (list ty) :=
  if 255 <? len s then Err else
  match s with
  | [] => Err                                                  (* Error::EmptySignature *)
  | _ =>
      do ts <- top_loop (S (length s)) s [];
      if forallb (check_depth 0 0) ts then Ok ts else Err
  end.

(* the old and the current function differ on the empty string only *)
Lemma parse_description_old_nonempty s : s <> [] -> parse_description_old s = parse_description s.
Proof. destruct s as [|c s']; [intros H; now elim H|reflexivity]. Qed.

(* witness: the empty string - old parser Err, validator Ok, and it is in the grammar *)
Lemma parse_description_old_empty :
  parse_description_old [] = Err /\ validate_signature [] = Ok tt /\ GrammarSig [].
Proof.
  split; [reflexivity|]. split; [reflexivity|].
  apply grammar_iff_ast. exact valid_sig_nil.
Qed.

(* "the structural parser and the fast validator give the same verdict on every string" was false,
   and so was "accepted exactly when it is a sequence of single complete types" for the parser *)
Theorem C07_old_parser_refuted :
  ~ (forall l, is_ok (parse_description_old l) = is_ok (validate_signature l))
  /\ ~ (forall l, (exists tys, parse_description_old l = Ok tys) <-> GrammarSig l).
Proof.
  destruct parse_description_old_empty as (Hp & Hv & Hg). split.
  - intros H. specialize (H []). rewrite Hp, Hv in H. discriminate.
  - intros H. apply (H []) in Hg. destruct Hg as [tys Hg]. rewrite Hp in Hg. discriminate.
Qed.

(* what was true of the old code: agreement on the non-empty strings (the statement C07_agree had
   before the repair) *)
Theorem C07_old_agree_nonempty : forall l, l <> [] ->
  is_ok (parse_description_old l) = is_ok (validate_signature l).
Proof. intros l H. rewrite (parse_description_old_nonempty l H). apply parser_validator_agree. Qed.
