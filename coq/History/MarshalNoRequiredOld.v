(** Historical (before commit 7d0a594 "fix: marshal refuses a message that lacks a header field its type
    requires"): marshal_header wrote whatever header fields were set.  A message that lacked a field its type
    requires - e.g. DynamicHeader::default().make_response(), a METHOD_RETURN without REPLY_SERIAL - was marshalled
    to bytes that the library's own decoder rejects, so the round trip of C05 failed.  Kept machine-checked as
    finding D35. *)
From RB Require Import Base.Prelude Sig.Types Wire.Bytes Wire.Align Wire.Marshal Msg.Header Msg.HeaderSpec Msg.MsgSpec Msg.HeaderDecode.

(* the old marshal_header: the current one without the has_required_fields test *)
Definition marshal_header_old (m : msg) (serial : N) : outcome (list N) :=
  let be := m_be m in
  let buf := [if be then 66 else 108] in
  match type_code (m_typ m) with
  | None => Err
  | Some c =>
      let buf := buf ++ [c] in
      let buf := buf ++ [m_flags m] in
      let buf := buf ++ [1] in
      let buf := buf ++ [0; 0; 0; 0] in
      let buf := write_u32 be serial buf in
      let pos := len buf in
      let buf := buf ++ [0; 0; 0; 0] in
      do buf <- marshal_fields m buf;
      let l := len buf - pos - 4 in
      do l <- check_marshalled_array_len l;
      Ok (insert4 be l pos buf)
  end.

Definition marshal_msg_old (m : msg) (serial : N) : outcome (list N) :=
  do buf <- marshal_header_old m serial;
  let buf := pad_to 8 buf in
  if Header.MAX_MESSAGE_LEN <? len buf + len (m_body m) then Err
  else Ok (insert4 (m_be m) (len (m_body m)) 4 buf).

(* DynamicHeader::default().make_response(): a Reply with no destination and no reply serial *)
Definition reply_without_serial : msg := make_response false None None.

(* the old code marshalled it ... *)
Lemma old_marshals : marshal_msg_old reply_without_serial 1 = Ok [108; 2; 0; 1; 0; 0; 0; 0; 1; 0; 0; 0; 0; 0; 0; 0].
Proof. vm_compute. reflexivity. Qed.

(* ... to a header the library's own decoder rejects: the round trip failed (C05_roundtrip_refuted for the old code) *)
Theorem roundtrip_old_refuted :
  ~ required_present reply_without_serial
  /\ exists hb, marshal_msg_old reply_without_serial 1 = Ok hb
                /\ decode_message (hb ++ m_body reply_without_serial) 0 = Err.
Proof.
  split; [cbn; intros H; now apply H|]. eexists. split; [exact old_marshals|]. vm_compute. reflexivity.
Qed.

(* the current code refuses it *)
Lemma now_refused : marshal_msg reply_without_serial 1 = Err.
Proof. vm_compute. reflexivity. Qed.
