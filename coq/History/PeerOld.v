(** Historical (pinned tree, before commit 512e807 "fix: machine id is always 32 hex digits"):
    create_and_store_machine_uuid used format!("{:08X}{:04X}{:04X}", rand1, rand2, secs) on
    (u64, u32, u32).  The widths are minimum widths, so the result has 32 characters only when the
    three numbers happen to need 16, 8 and 8 digits.  Kept machine-checked as finding D15. *)
From RB Require Import Base.Prelude Conn.DispatchMsg Conn.Peer Conn.PeerProofs.

(* the old format string *)
Definition format_uuid_old (rand1 rand2 secs : N) : str :=
  hex_min 8 rand1 ++ hex_min 4 rand2 ++ hex_min 4 secs.

(* rand1 = 0x123, rand2 = 1: 8 + 4 digits, plus the clock: 4 digits for secs = 1 (16 in all),
   8 digits for a present-day clock value such as 0x66000000 (20 in all) *)
Lemma format_uuid_old_short : len (format_uuid_old 291 1 1) = 16.
Proof. vm_compute. reflexivity. Qed.
Lemma format_uuid_old_short_today : len (format_uuid_old 291 1 1711276032) = 20.
Proof. vm_compute. reflexivity. Qed.

Theorem C20_old_format_refuted :
  exists r1 r2 secs, r1 < 2 ^ 64 /\ r2 < 2 ^ 32 /\ secs < 2 ^ 32 /\ ~ MachineId (format_uuid_old r1 r2 secs).
Proof.
  exists 291, 1, 1711276032. repeat split; try reflexivity.
  intros [H _]. rewrite format_uuid_old_short_today in H. discriminate.
Qed.

(* the same draw under the current format *)
Lemma format_uuid_same_draw : len (format_uuid 291 1 1711276032) = 32.
Proof. vm_compute. reflexivity. Qed.
