(** Historical (pinned tree, before commit 512e807 "fix: machine id is always 32 hex digits"):
    create_and_store_machine_uuid used format!("{:08X}{:04X}{:04X}", rand1, rand2, secs) on
    (u64, u32, u32).  The widths are minimum widths, so the result has 32 characters only when the
    three numbers happen to need 16, 8 and 8 digits.  Kept machine-checked as finding D15. *)
From RB Require Import Base.Prelude Conn.DispatchMsg Conn.Peer Conn.PeerProofs.

(* the old format string *)
Definition format_uuid_old (rand1 rand2 secs : N) : str :=
  hex_min 8 rand1 ++ hex_min 4 rand2 ++ hex_min 4 secs.

(* rand1 = 0x123, rand2 = 1: 8 + 4 digits, plus the clock: 4 digits for secs = 1 (16 in all),
   8 digits for a present-day clock value such as 0x66000000 (20 in all) *)
Lemma format_uuid_old_short : len (format_uuid_old 291 1 1) = 16.
Proof. vm_compute. reflexivity. Qed.
Lemma format_uuid_old_short_today : len (format_uuid_old 291 1 1711276032) = 20.
Proof. vm_compute. reflexivity. Qed.

Theorem C20_old_format_refuted :
  exists r1 r2 secs, r1 < 2 ^ 64 /\ r2 < 2 ^ 32 /\ secs < 2 ^ 32 /\ ~ MachineId (format_uuid_old r1 r2 secs).
Proof.
  exists 291, 1, 1711276032. repeat split; try reflexivity.
  intros [H _]. rewrite format_uuid_old_short_today in H. discriminate.
Qed.

(* the same draw under the current format *)
Lemma format_uuid_same_draw : len (format_uuid 291 1 1711276032) = 32.
Proof. vm_compute. reflexivity. Qed.

(** Historical (before commit 5ca39dc "fix: handle_peer_message answers method calls only"):
    handle_peer_message did not look at the message type, so a signal, method return or error whose
    header named org.freedesktop.DBus.Peer + Ping/GetMachineId was answered with a method return,
    against "every other message is reported as not handled without any reply being written". *)
Section OldHandler.
  Variable utf8_valid : list N -> bool.

  (* the old handle_peer_message: the current one without the leading type test *)
  Definition handle_peer_message_old (e : env) (f : fs) (m : msg) : outcome (bool * list msg) * fs :=
    match dh_interface (m_dh m) with
    | Some interface =>
        if str_eqb interface peer_iface then
          match dh_member (m_dh m) with
          | Some member =>
              if str_eqb member ping_name then
                (Ok (true, [make_response (m_dh m)]), f)
              else if str_eqb member get_machine_id_name then
                match get_machine_id utf8_valid e f with
                | (Ok id, f1) =>
                    if existsb (N.eqb 0) id then (Panic, f1)
                    else (Ok (true, [push_str id (make_response (m_dh m))]), f1)
                | (_, f1) => (Panic, f1)
                end
              else (Ok (false, []), f)
          | None => (Ok (false, []), f)
          end
        else (Ok (false, []), f)
    | None => (Ok (false, []), f)
    end.

  (* witness: a SIGNAL named Peer.Ping (serial 7, sender ":1.1") *)
  Definition ping_signal : msg :=
    mkMsg MSignal (mkDH (Some peer_iface) (Some ping_name) (Some [47]) None (Some 7) (Some [58;49;46;49]) None None None None) 0 [].

  Lemma ping_signal_not_a_call : ~ IsPeerCall ping_signal.
  Proof. intros [[H _]|[H _]]; discriminate. Qed.

  Theorem C20_old_handler_refuted :
    exists m, ~ IsPeerCall m /\ forall e f, handle_peer_message_old e f m <> (Ok (false, []), f).
  Proof.
    exists ping_signal. split; [exact ping_signal_not_a_call|]. intros e f. vm_compute. discriminate.
  Qed.

  (* the signal was answered with a method return carrying its serial, addressed to its sender *)
  Lemma old_handler_answers_signal e f :
    handle_peer_message_old e f ping_signal = (Ok (true, [make_response (m_dh ping_signal)]), f).
  Proof. reflexivity. Qed.

  (* the current handler on the same message *)
  Lemma new_handler_ignores_signal e f : handle_peer_message utf8_valid e f ping_signal = (Ok (false, []), f).
  Proof. reflexivity. Qed.
End OldHandler.

(** Historical (before commit c39a1a6 "fix: the machine id is stored atomically"):
    create_and_store_machine_uuid ended with std::fs::write(MACHINE_ID_FILE_PATH, uuid), i.e. create +
    truncate + write on the id file itself.  A write that failed after the truncation (ENOSPC) left an
    EMPTY id file, which get_machine_id then found "existing" and returned as the machine id for ever. *)
Section OldStore.
  Variable utf8_valid : list N -> bool.
  Hypothesis empty_valid : utf8_valid [] = true.

  (* the old store: the write goes straight to the id file (no temporary file, no link) *)
  Definition create_and_store_old (e : env) (f : fs) : outcome unit * fs :=
    let secs := e_now e mod 2 ^ 32 in
    if negb (len (e_rand e) =? 12) then (Panic, f)
    else
      let uuid := format_uuid (rand1_of (e_rand e)) (rand2_of (e_rand e)) secs in
      if negb (len uuid =? 32) then (Panic, f)
      else let (wok, f1) := do_write (e_write e) machine_id_path uuid f in
           (if wok then Ok tt else Err, f1).

  (* get_machine_id over the old store *)
  Definition get_machine_id_old (e : env) (f : fs) : outcome str * fs :=
    let (r, f1) := match f machine_id_path with
                   | None => create_and_store_old e f
                   | Some _ => (Ok tt, f)
                   end in
    match r with
    | Ok _ => match f1 machine_id_path with
              | None => (Err, f1)
              | Some vec => if utf8_valid vec then (Ok vec, f1) else (Panic, f1)
              end
    | Err => (Err, f1)
    | _ => (Panic, f1)
    end.

  (* witness: the disk is full: the id file is created/truncated, then the write fails *)
  Definition enospc_env : env := mkEnv 1711276032 [1;2;3;4;5;6;7;8;9;10;11;12] [49;46;48] (WriteFailed (Some [])) LinkDone true.
  Definition no_files : fs := fun _ => None.

  (* first call: an error, but an EMPTY id file is left behind ... *)
  Lemma old_store_leaves_empty_file :
    fst (get_machine_id_old enospc_env no_files) = Err
    /\ snd (get_machine_id_old enospc_env no_files) machine_id_path = Some [].
  Proof. split; reflexivity. Qed.

  (* ... which every later call (space freed, any draw and clock) returns as the machine id *)
  Theorem C20_old_store_refuted :
    exists e f, DrawOK e /\ IdFileOK f /\
      let f1 := snd (get_machine_id_old e f) in
      ~ IdFileOK f1 /\ forall e2, fst (get_machine_id_old e2 f1) = Ok [] /\ ~ MachineId [].
  Proof.
    exists enospc_env, no_files. split; [split; [reflexivity|repeat constructor]|]. split; [left; reflexivity|].
    cbn zeta. remember (snd (get_machine_id_old enospc_env no_files)) as f1 eqn:E.
    assert (Hf1 : f1 machine_id_path = Some []) by (subst; reflexivity). clear E. split.
    - intros [H|(e0 & Hb & H)]; [congruence|]. rewrite Hf1 in H.
      inversion H as [H1]. pose proof (new_id_machine_id e0 Hb) as [Hl _]. rewrite <- H1 in Hl. discriminate Hl.
    - intros e2. split.
      + unfold get_machine_id_old. rewrite Hf1, Hf1, empty_valid. reflexivity.
      + intros [H _]. discriminate H.
  Qed.

  (* the current store in the same environment: an error, and NO id file *)
  Lemma new_store_leaves_no_file :
    fst (create_and_store_machine_uuid enospc_env no_files) = Err
    /\ snd (create_and_store_machine_uuid enospc_env no_files) machine_id_path = None.
  Proof. split; reflexivity. Qed.
End OldStore.
