(** Historical (before commit 35497e7 "fix: the dynamic marshaller refuses a variant whose signature is not the
    type of its value", finding D25): marshal_variant wrote var.sig and then marshalled var.value without comparing
    them. params::Variant has public fields, so Variant { sig: u32, value: String("abc") } was expressible; it was
    accepted and produced a body that its own validation rejects and that reads back as a different value.
    And (before commit 5849d4e, finding D26): a struct without fields inside a Param tree reached Param::sig(),
    which panics; the entry points now refuse such a tree before anything is written. *)
From RB Require Import Base.Prelude Sig.Types Sig.Validator Wire.Bytes Wire.Align Wire.Text Wire.Value Wire.SpecEnc
  Wire.Marshal Wire.Relabel Wire.MarshalProofs Wire.Decode Wire.Unmarshal Wire.Ops Wire.MarshalAny.

(* the old marshal_variant (inside marshal_container_param_at_depth, after its depth check) *)
Definition marshal_variant_old (be : bool) (depth : N) (t : ty) (x : val) (c : mctx) : mres :=
  if MAX_DEPTH <=? depth then (c, false) else
  let sg := to_str t in
  if is_ok (validate_signature sg) then
    marshal_p be (depth + 1) x {| mbuf := write_signature sg (mbuf c); mfds := mfds c |}
  else (c, false).

(* it agrees with the current arm whenever the declared signature is the value's type *)
Lemma marshal_variant_old_agrees be depth t x c : ty_eqb (ty_of x) t = true ->
  marshal_variant_old be depth t x c = marshal_p be depth (VVariant t x) c.
Proof. intros E. unfold marshal_variant_old. cbn [marshal_p]. rewrite E. reflexivity. Qed.

Definition bad_variant : val := VVariant (TBase BUint32) (VText BString [97; 98; 99]).   (* sig "u", value "abc" *)
Definition c_empty : mctx := {| mbuf := []; mfds := 0 |}.

Lemma bad_variant_untyped : payloads_ok bad_variant = true /\ ~ typed bad_variant.
Proof. split; [reflexivity|]. intros [t H]. destruct t; discriminate H. Qed.

(* accepted; the bytes are "u" followed by the string: raw validation of a body with signature "v" does not use
   all bytes, the dynamic decoder reads a variant holding the u32 3 (the string's length field) *)
Theorem C02_old_variant_accepted :
  let r := marshal_variant_old false 0 (TBase BUint32) (VText BString [97; 98; 99]) c_empty in
  snd r = true
  /\ mbuf (fst r) = [1; 117; 0; 0; 3; 0; 0; 0; 97; 98; 99; 0]
  /\ body_validate false (mbuf (fst r)) [TVariant] = false
  /\ validate_marshalled false 0 (mbuf (fst r)) TVariant = Ok 8
  /\ op_unmarshal_p false 0 0 [TVariant] (mbuf (fst r)) = Ok ([VVariant (TBase BUint32) (VBase BUint32 3)], 8).
Proof. vm_compute. repeat split. Qed.

(* so the old marshaller accepted an ill-typed tree and produced bytes that are no encoding of a body "v" *)
Theorem C02_old_variant_refuted :
  exists be d t x c, payloads_ok (VVariant t x) = true /\ ~ typed (VVariant t x)
    /\ snd (marshal_variant_old be d t x c) = true
    /\ body_validate be (mbuf (fst (marshal_variant_old be d t x c))) [TVariant] = false.
Proof.
  exists false, 0, (TBase BUint32), (VText BString [97; 98; 99]), c_empty.
  destruct bad_variant_untyped as [H1 H2]. split; [exact H1|]. split; [exact H2|]. vm_compute. split; reflexivity.
Qed.

(* the same tree today: refused, nothing written - by the marshaller at any depth and by the entry point *)
Theorem C02_variant_mismatch_refused_now :
  marshal_p false 0 bad_variant c_empty = (c_empty, false)
  /\ marshal_param_top false bad_variant c_empty = (c_empty, false)
  /\ marshal_p true 5 (VArray TVariant [bad_variant]) c_empty = (fst (marshal_p true 5 (VArray TVariant [bad_variant]) c_empty), false).
Proof. vm_compute. repeat split. Qed.

(* D26: the old entry point was the marshaller at depth 0 without a shape check; the model of the marshaller has no
   panic outcome, what it shows is that an empty struct inside an array reached validate_array (where Param::sig()
   panics in Rust) - today the entry point stops before *)
Theorem C02_old_empty_struct_reached_sig :
  let v := VArray (TStruct [TStruct []]) [VStruct [VStruct []]] in
  snd (marshal_p false 0 v c_empty) = true            (* the unguarded marshaller walks into it *)
  /\ marshal_param_top false v c_empty = (c_empty, false)
  /\ marshal_param_top false (VStruct []) c_empty = (c_empty, false).
Proof. vm_compute. repeat split. Qed.
