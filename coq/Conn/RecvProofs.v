(** Conn/RecvProofs.v - proofs about the receive-path model (C09): the state invariant, exact
    reassembly, conservation of bytes and descriptors, no over-read, completeness. *)
From RB Require Import Base.Prelude Conn.Recv Conn.RecvLists.

(** * bytes_needed depends on the first 16 bytes only *)

Lemma needed_of_app16 (l x y : list N) : length l = 16%nat -> needed_of (l ++ x) = needed_of (l ++ y).
Proof.
  intros H. do 16 (destruct l as [|? l]; [discriminate H|]). destruct l; [|discriminate H]. clear H.
  unfold needed_of, unmarshal_header. cbn [app].
  assert (E : forall z, len (n :: n0 :: n1 :: n2 :: n3 :: n4 :: n5 :: n6 :: n7 :: n8 :: n9 :: n10 :: n11 :: n12 :: n13 :: n14 :: z) <? HEADER_LEN = false).
  { intros z. apply N.ltb_ge. repeat rewrite len_cons. unfold HEADER_LEN. lia. }
  rewrite !E.
  unfold skipnN, HEADER_LEN. change (N.to_nat 12) with 12%nat. change (N.to_nat 4) with 4%nat.
  cbn [skipn parse_u32]. reflexivity.
Qed.

Lemma split16 {A} (l : list A) : 16 <= len l -> l = firstnN 16 l ++ skipnN 16 l /\ length (firstnN 16 l) = 16%nat.
Proof.
  intros H. split; [symmetry; apply firstnN_skipnN|].
  pose proof (len_firstnN 16 l) as E. unfold len in *. lia.
Qed.

Lemma needed_of_prefix (p : list N) m : 16 <= len p -> 16 <= m -> needed_of (firstnN m p) = needed_of p.
Proof.
  intros Hp Hm. destruct (split16 p Hp) as [E L].
  replace m with (16 + (m - 16)) by lia. rewrite firstnN_add.
  rewrite E at 3. now apply needed_of_app16.
Qed.

Lemma unmarshal_header_app16 (l x y : list N) : length l = 16%nat -> unmarshal_header (l ++ x) = unmarshal_header (l ++ y).
Proof.
  intros H. do 16 (destruct l as [|? l]; [discriminate H|]). destruct l; [|discriminate H]. clear H.
  unfold unmarshal_header. cbn [app].
  assert (E : forall z, len (n :: n0 :: n1 :: n2 :: n3 :: n4 :: n5 :: n6 :: n7 :: n8 :: n9 :: n10 :: n11 :: n12 :: n13 :: n14 :: z) <? HEADER_LEN = false).
  { intros z. apply N.ltb_ge. repeat rewrite len_cons. unfold HEADER_LEN. lia. }
  rewrite !E.
  unfold skipnN. change (N.to_nat 4) with 4%nat.
  cbn [skipn parse_u32]. reflexivity.
Qed.

(** needed_of never answers NotEnoughBytes on 16 or more bytes, and what it answers is at least 16 *)
Lemma needed_of_ge16 p n : needed_of p = ROk n -> 16 <= n.
Proof.
  unfold needed_of. destruct (unmarshal_header p) as [h|e]; [|discriminate].
  destruct (parse_u32 _ _) as [hfl|e]; [|discriminate].
  unfold check_array_len. destruct (MAX_ARRAY_LEN <? hfl); [discriminate|].
  destruct (MAX_MESSAGE_LEN <? _); [discriminate|]. intros E. injection E as <-. unfold HEADER_LEN. lia.
Qed.

Section Proofs.
  Variable D : Type.
  Variable decode_fields : header -> list N -> option D.

  (** a message as the peer sends it: the bytes of its frame and the descriptors that go with it *)
  Definition smsg := (list N * list fd)%type.

  (** [frame_ok]: at least the 16 fixed bytes, the lengths announced in them add up to the length
      of the frame and respect the protocol limits, the header decodes, at most [cmsg_cap] descriptors *)
  Definition frame_ok (m : smsg) : Prop :=
    16 <= len (fst m) /\ needed_of (fst m) = ROk (len (fst m))
    /\ (exists d, finish D decode_fields (fst m) (snd m) = (ROk d, true))
    /\ len (snd m) <= cmsg_cap.

  (** the byte stream of a list of messages, every descriptor list riding on the first byte of its frame *)
  Definition astream (ms : list smsg) : list abyte := flat_map (fun m => annot (fst m) (snd m)) ms.

  Definition headlen (rest : list smsg) : N := match rest with [] => 16 | m :: _ => len (fst m) end.

  Lemma astream_cons m rest : astream (m :: rest) = annot (fst m) (snd m) ++ astream rest.
  Proof. reflexivity. Qed.

  (** * The invariant.  [rest]: messages not yet handed out (the first one is being assembled);
      [tail]: the part of their stream the peer has not written yet. *)
  Record Inv (st : rstate) (q : kq) (tail : list abyte) (rest : list smsg) : Prop := {
    inv_frames : Forall frame_ok rest;
    inv_segs : segs_ok q;
    inv_le : filled st <= len (astream rest);
    inv_stream : skipnN (filled st) (astream rest) = flat q ++ tail;
    inv_bytes : bytes_of (firstnN (filled st) (astream rest)) = peek st;
    inv_fds : rights_of (firstnN (filled st) (astream rest)) = fds_in st;
    inv_filled : filled st <= len (buf st);
    inv_buf : len (buf st) <= (if filled st <? 16 then 16 else headlen rest)
  }.

  Lemma inv_nil st q tail : Inv st q tail [] -> filled st = 0 /\ q = [] /\ tail = [].
  Proof.
    intros I. pose proof (inv_le _ _ _ _ I) as H. cbn in H. assert (E : filled st = 0) by lia.
    pose proof (inv_stream _ _ _ _ I) as S. rewrite E in S. cbn in S. symmetry in S.
    apply app_eq_nil in S. destruct S as [S1 S2]. repeat split; [exact E| |exact S2].
    apply flat_nil_inv; [apply (inv_segs _ _ _ _ I)|exact S1].
  Qed.

  Lemma inv_head st q tail m rest : Inv st q tail (m :: rest) ->
    16 <= len (fst m) /\ filled st <= len (fst m) /\ peek st = firstnN (filled st) (fst m)
    /\ fds_in st = rights_of (firstnN (filled st) (annot (fst m) (snd m))).
  Proof.
    intros I. pose proof (inv_frames _ _ _ _ I) as F. inversion F as [|? ? [H16 _] _]; subst.
    pose proof (inv_filled _ _ _ _ I) as H1. pose proof (inv_buf _ _ _ _ I) as H2. cbn [headlen] in H2.
    assert (Hf : filled st <= len (fst m)).
    { destruct (N.ltb_spec (filled st) 16); lia. }
    repeat split; [exact H16|exact Hf| |].
    - rewrite <- (inv_bytes _ _ _ _ I). rewrite astream_cons.
      rewrite firstnN_app_le by (rewrite len_annot; exact Hf).
      unfold bytes_of. rewrite <- firstnN_map. fold (bytes_of (annot (fst m) (snd m))). now rewrite bytes_of_annot.
    - rewrite <- (inv_fds _ _ _ _ I). rewrite astream_cons.
      now rewrite firstnN_app_le by (rewrite len_annot; exact Hf).
  Qed.

  Lemma inv_ge16 st q tail rest : Inv st q tail rest -> 16 <= filled st -> exists m rest', rest = m :: rest'.
  Proof.
    intros I H. destruct rest as [|m rest']; [|now exists m, rest'].
    destruct (inv_nil _ _ _ I) as [E _]. lia.
  Qed.

  Lemma inv_needed st q tail rest : Inv st q tail rest ->
    bytes_needed st = ROk (if filled st <? 16 then 16 else headlen rest).
  Proof.
    intros I. unfold bytes_needed. destruct (N.ltb_spec (filled st) 16) as [H|H]; [reflexivity|].
    destruct (inv_ge16 _ _ _ _ I H) as (m & rest' & ->). cbn [headlen].
    destruct (inv_head _ _ _ _ _ I) as (H16 & Hf & Hp & _). rewrite Hp.
    rewrite needed_of_prefix by assumption.
    pose proof (inv_frames _ _ _ _ I) as F. inversion F as [|? ? [_ [Hn _]] _]; subst. exact Hn.
  Qed.

  Definition whole (st : rstate) (rest : list smsg) : bool :=
    match rest with [] => false | m :: _ => len (fst m) <=? filled st end.

  Lemma inv_bcwm st q tail rest : Inv st q tail rest -> buffer_contains_whole_message st = ROk (whole st rest).
  Proof.
    intros I. unfold buffer_contains_whole_message. rewrite (inv_needed _ _ _ _ I).
    destruct (N.ltb_spec (filled st) 16) as [H|H].
    - destruct rest as [|m rest']; [reflexivity|]. cbn [whole].
      destruct (inv_head _ _ _ _ _ I) as (H16 & _). f_equal. symmetry. apply N.leb_gt. lia.
    - destruct (inv_ge16 _ _ _ _ I H) as (m & rest' & ->). reflexivity.
  Qed.

  (** reserve only appends: the invariant does not see it *)
  Lemma inv_reserve st q tail rest n : Inv st q tail rest ->
    n = (if filled st <? 16 then 16 else headlen rest) ->
    Inv {| buf := reserve (buf st) n; filled := filled st; fds_in := fds_in st |} q tail rest
    /\ len (reserve (buf st) n) = n.
  Proof.
    intros I Hn. pose proof (inv_buf _ _ _ _ I) as Hb. rewrite <- Hn in Hb.
    assert (L : len (reserve (buf st) n) = n) by (rewrite len_reserve; lia).
    split; [|exact L]. destruct I. constructor; cbn [buf filled fds_in Recv.filled Recv.buf Recv.fds_in]; try assumption.
    - unfold peek in *. cbn [buf filled Recv.filled Recv.buf]. rewrite firstnN_reserve by assumption. assumption.
    - rewrite L. lia.
    - rewrite L, Hn. lia.
  Qed.

  (** * One refill_buffer keeps the invariant and either adds at least one byte or times out *)
  Lemma refill_inv st q tail rest c r st' q' :
    Inv st q tail rest -> whole st rest = false ->
    refill_buffer st q (if filled st <? 16 then 16 else headlen rest) c = (r, st', q') ->
    Inv st' q' tail rest
    /\ ((r = ROk tt /\ filled st < filled st') \/ (r = RErr ETimedOut /\ filled st' = filled st /\ q' = q))
    /\ (forall k, c = KDeliver k -> kavail q <> 0 -> r = ROk tt).
  Proof.
    intros I W E. set (n := if filled st <? 16 then 16 else headlen rest) in *.
    destruct (inv_reserve st q tail rest n I eq_refl) as [I1 L].
    unfold refill_buffer in E. fold n in E. rewrite L in E.
    set (st1 := {| buf := reserve (buf st) n; filled := filled st; fds_in := fds_in st |}) in *.
    assert (Hreq : filled st < n).
    { subst n. destruct (N.ltb_spec (filled st) 16) as [H|H]; [exact H|].
      destruct (inv_ge16 _ _ _ _ I H) as (m & rest' & ->). cbn [whole headlen] in *. now apply N.leb_gt in W. }
    destruct c as [k| | |bs fds];
      try (injection E as <- <- <-; split; [exact I1|split; [right; auto|intros ? [=]]]).
    destruct (N.eqb_spec (kavail q) 0) as [Ha|Ha].
    { injection E as <- <- <-. split; [exact I1|split; [right; auto|intros ? _ Hc; congruence]]. }
    destruct (N.eqb_spec (n - filled st) 0) as [Hz|_]; [lia|].
    set (k' := N.max 1 (N.min k (N.min (n - filled st) (kavail q)))) in *.
    assert (Hk1 : 1 <= k') by (subst k'; lia).
    assert (Hk2 : k' <= n - filled st) by (subst k'; lia).
    assert (Hk3 : k' <= kavail q) by (subst k'; lia).
    destruct (krecv q k') as [[data rights] q2] eqn:EK.
    destruct (krecv_spec q (inv_segs _ _ _ _ I) k' data rights q2 Hk3 EK) as (Hd & Hr & Hfl & Hs).
    assert (Ld : len data = k').
    { rewrite Hd, len_bytes_of, len_firstnN. rewrite <- kavail_flat. lia. }
    destruct (N.eqb_spec (len data) 0) as [Hz|_]; [lia|].
    injection E as <- <- <-.
    (* the annotated bytes that were delivered *)
    pose proof (inv_stream _ _ _ _ I) as S. pose proof (inv_le _ _ _ _ I) as Le.
    assert (Hav : kavail q <= len (astream rest) - filled st).
    { rewrite kavail_flat. apply (f_equal len) in S. rewrite len_skipnN, len_app in S. lia. }
    assert (Hfirst : firstnN (filled st + k') (astream rest) = firstnN (filled st) (astream rest) ++ firstnN k' (flat q)).
    { apply (firstnN_prefix_app _ _ _ tail); [exact S|exact Le|rewrite <- kavail_flat; exact Hk3]. }
    (* a current message exists, and the delivered bytes lie inside its frame *)
    destruct rest as [|m rest'].
    { cbn in Hav. lia. }
    destruct (inv_head _ _ _ _ _ I) as (H16 & Hf & Hp & Hfd).
    assert (Hn : n <= len (fst m)).
    { subst n. cbn [headlen]. destruct (filled st <? 16); lia. }
    assert (Hrights : len rights <= cmsg_cap).
    { pose proof (inv_frames _ _ _ _ I) as F. inversion F as [|? ? [_ [_ [_ Hc]]] _]; subst.
      assert (Hsub : firstnN k' (flat q) = firstnN k' (skipnN (filled st) (annot (fst m) (snd m)))).
      { rewrite <- (firstnN_app_le k' (flat q) tail) by (rewrite <- kavail_flat; exact Hk3).
        rewrite <- S. rewrite astream_cons. rewrite skipnN_app_le by (rewrite len_annot; exact Hf).
        apply firstnN_app_le. rewrite len_skipnN, len_annot. lia. }
      rewrite Hsub. etransitivity; [apply len_rights_sub|].
      destruct (fst m) eqn:Efm; [cbn in H16; lia|]. rewrite rights_of_annot by congruence. exact Hc. }
    split; [|split; [left; split; [reflexivity|cbn [filled Recv.filled]; lia]|intros; reflexivity]].
    constructor; cbn [buf filled fds_in Recv.filled Recv.buf Recv.fds_in].
    - apply (inv_frames _ _ _ _ I).
    - exact Hs.
    - rewrite Ld. lia.
    - rewrite Ld. rewrite <- skipnN_skipnN, S.
      rewrite skipnN_app_le by (rewrite <- kavail_flat; exact Hk3). now rewrite Hfl.
    - rewrite Ld, Hfirst, bytes_of_app, (inv_bytes _ _ _ _ I), <- Hd.
      unfold peek. cbn [buf filled Recv.filled Recv.buf]. rewrite <- Ld.
      rewrite firstnN_buf_write by (rewrite L; lia).
      f_equal. symmetry. apply firstnN_reserve. apply (inv_filled _ _ _ _ I).
    - rewrite Ld, Hfirst, rights_of_app, (inv_fds _ _ _ _ I), <- Hr.
      f_equal. symmetry. now apply firstnN_all.
    - rewrite len_buf_write by (rewrite L, Ld; lia). rewrite L, Ld. lia.
    - rewrite len_buf_write by (rewrite L, Ld; lia). rewrite L, Ld. cbn [headlen].
      destruct (N.ltb_spec (filled st + k') 16) as [H|H].
      + subst n. destruct (N.ltb_spec (filled st) 16); lia.
      + exact Hn.
  Qed.

  (** * Arrivals *)
  Fixpoint arr_stream (cs : list kchoice) : list abyte :=
    match cs with
    | [] => []
    | KArrive bs fds :: cs' => annot bs fds ++ arr_stream cs'
    | _ :: cs' => arr_stream cs'
    end.

  Lemma inv_kwrite st q tail rest bs fds :
    Inv st q (annot bs fds ++ tail) rest -> Inv st (kwrite q bs fds) tail rest.
  Proof.
    intros I. destruct I. constructor; try assumption.
    - now apply segs_ok_kwrite.
    - rewrite flat_kwrite, <- app_assoc. assumption.
  Qed.

  Lemma arrivals_inv cs : forall st q tail rest,
    Inv st q (arr_stream cs ++ tail) rest -> Inv st (arrivals q cs) tail rest.
  Proof.
    induction cs as [|c cs IH]; intros st q tail rest I; [exact I|].
    destruct c; cbn [arrivals arr_stream] in *; try (apply IH; exact I).
    apply IH. apply inv_kwrite. now rewrite app_assoc.
  Qed.

  Definition gave_up (r : result unit) : Prop := r = RErr ETimedOut \/ r = RErr EBlocked.

  (** * read_whole_message *)
  Lemma rwm_inv cs : forall st q tail rest r st' q' cs',
    Inv st q (arr_stream cs ++ tail) rest ->
    read_whole_message cs st q = (r, st', q', cs') ->
    Inv st' q' (arr_stream cs' ++ tail) rest
    /\ ((r = ROk tt /\ whole st' rest = true) \/ gave_up r).
  Proof.
    induction cs as [|c cs IH]; intros st q tail rest r st' q' cs' I E.
    - cbn [read_whole_message] in E. rewrite (inv_bcwm _ _ _ _ I) in E.
      destruct (whole st rest) eqn:W; injection E as <- <- <- <-; (split; [exact I|]); [left|right; right]; auto.
    - cbn [read_whole_message] in E. rewrite (inv_bcwm _ _ _ _ I) in E.
      destruct (whole st rest) eqn:W.
      { injection E as <- <- <- <-. split; [exact I|left; auto]. }
      assert (Hn := inv_needed _ _ _ _ I).
      destruct c as [k| | |bs fds]; cbn [arr_stream] in I.
      + rewrite Hn in E.
        destruct (refill_buffer st q _ (KDeliver k)) as [[r1 st1] q1] eqn:ER.
        destruct (refill_inv _ _ _ _ _ _ _ _ I W ER) as (I1 & Hr & _).
        destruct r1 as [u|e].
        * apply (IH _ _ _ _ _ _ _ _ I1 E).
        * injection E as <- <- <- <-. split; [exact I1|]. right. left.
          destruct Hr as [[Hr _]|[Hr _]]; [discriminate|exact Hr].
      + rewrite Hn in E.
        destruct (refill_buffer st q _ KAgain) as [[r1 st1] q1] eqn:ER.
        destruct (refill_inv _ _ _ _ _ _ _ _ I W ER) as (I1 & Hr & _).
        destruct r1 as [u|e].
        * apply (IH _ _ _ _ _ _ _ _ I1 E).
        * injection E as <- <- <- <-. split; [exact I1|]. right. left.
          destruct Hr as [[Hr _]|[Hr _]]; [discriminate|exact Hr].
      + rewrite Hn in E. injection E as <- <- <- <-. split; [exact I|right; left; reflexivity].
      + apply (IH _ _ _ _ _ _ _ _ (inv_kwrite _ _ _ _ _ _ ltac:(rewrite app_assoc; exact I)) E).
  Qed.

  (** * read_once *)
  Lemma read_once_inv cs : forall st q tail rest r st' q' cs',
    Inv st q (arr_stream cs ++ tail) rest ->
    read_once cs st q = (r, st', q', cs') ->
    Inv st' q' (arr_stream cs' ++ tail) rest /\ (r = ROk tt \/ gave_up r).
  Proof.
    induction cs as [|c cs IH]; intros st q tail rest r st' q' cs' I E.
    - cbn [read_once] in E. rewrite (inv_bcwm _ _ _ _ I) in E.
      destruct (whole st rest) eqn:W; injection E as <- <- <- <-; (split; [exact I|]); [left|right; right]; auto.
    - cbn [read_once] in E. rewrite (inv_bcwm _ _ _ _ I) in E.
      destruct (whole st rest) eqn:W.
      { injection E as <- <- <- <-. split; [exact I|left; auto]. }
      assert (Hn := inv_needed _ _ _ _ I).
      assert (R : forall c0 tl, Inv st q tl rest ->
                  (let '(r, st', q') := refill_buffer st q (if filled st <? 16 then 16 else headlen rest) c0 in (r, st', q', cs)) = (r, st', q', cs') ->
                  Inv st' q' tl rest /\ (r = ROk tt \/ gave_up r) /\ cs' = cs).
      { intros c0 tl I0 E0.
        destruct (refill_buffer st q _ c0) as [[r1 st1] q1] eqn:ER.
        destruct (refill_inv _ _ _ _ _ _ _ _ I0 W ER) as (I1 & Hr & _).
        injection E0 as <- <- <- <-. split; [exact I1|]. split; [|reflexivity].
        destruct Hr as [[Hr _]|[Hr _]]; [left|right; left]; exact Hr. }
      destruct c as [k| | |bs fds]; cbn [arr_stream] in I.
      + rewrite Hn in E. destruct (R (KDeliver k) _ I E) as (I1 & Hr & ->). auto.
      + rewrite Hn in E. destruct (R KAgain _ I E) as (I1 & Hr & ->). auto.
      + rewrite Hn in E. destruct (R KTimeUp _ I E) as (I1 & Hr & ->). auto.
      + apply (IH _ _ _ _ _ _ _ _ (inv_kwrite _ _ _ _ _ _ ltac:(rewrite app_assoc; exact I)) E).
  Qed.

  (** * get_next_message *)
  Definition is_message_of (d : msg D) (m : smsg) : Prop :=
    finish D decode_fields (fst m) (snd m) = (ROk d, true).

  Lemma get_next_ok cs st q tail rest st1 q1 cs1 :
    Inv st q (arr_stream cs ++ tail) rest ->
    read_whole_message cs st q = (ROk tt, st1, q1, cs1) ->
    exists m rest' d, rest = m :: rest'
      /\ get_next_message D decode_fields cs st q = (ROk d, rstate0, q1, cs1)
      /\ is_message_of d m /\ Inv rstate0 q1 (arr_stream cs1 ++ tail) rest'.
  Proof.
    intros I ER. unfold get_next_message. rewrite ER.
    destruct (rwm_inv _ _ _ _ _ _ _ _ _ I ER) as (I1 & Hr).
    destruct Hr as [[_ W]|[G|G]]; [|discriminate G|discriminate G].
    destruct rest as [|m rest']; [discriminate W|]. cbn [whole] in W. apply N.leb_le in W.
    destruct (inv_head _ _ _ _ _ I1) as (H16 & Hf & Hp & Hfd).
    assert (Ef : filled st1 = len (fst m)) by lia.
    rewrite Ef in Hp, Hfd. rewrite firstnN_all in Hp by lia.
    rewrite firstnN_all in Hfd by (rewrite len_annot; lia).
    assert (Hne : fst m <> []) by (intros Z; rewrite Z in H16; cbn in H16; lia).
    rewrite rights_of_annot in Hfd by exact Hne.
    pose proof (inv_frames _ _ _ _ I1) as F. inversion F as [|? ? (_ & _ & [d Hd] & _) F']; subst.
    rewrite Hp, Hfd, Hd.
    exists m, rest', d. split; [reflexivity|]. split; [reflexivity|]. split; [exact Hd|].
    pose proof (inv_stream _ _ _ _ I1) as S. rewrite Ef, astream_cons in S.
    replace (len (fst m)) with (len (annot (fst m) (snd m)) + 0) in S by (rewrite len_annot; lia).
    rewrite skipnN_app_ge, skipnN_0 in S.
    constructor; cbn [rstate0 buf filled fds_in]; try reflexivity.
    + exact F'.
    + apply (inv_segs _ _ _ _ I1).
    + lia.
    + exact S.
    + cbn. lia.
  Qed.

  Lemma get_next_inv cs st q tail rest r st' q' cs' :
    Inv st q (arr_stream cs ++ tail) rest ->
    get_next_message D decode_fields cs st q = (r, st', q', cs') ->
    (exists e, r = RErr e /\ (e = ETimedOut \/ e = EBlocked) /\ Inv st' q' (arr_stream cs' ++ tail) rest)
    \/ (exists m rest' d, rest = m :: rest' /\ r = ROk d /\ is_message_of d m
                          /\ Inv st' q' (arr_stream cs' ++ tail) rest').
  Proof.
    intros I E.
    destruct (read_whole_message cs st q) as [[[r1 st1] q1] cs1] eqn:ER.
    destruct (rwm_inv _ _ _ _ _ _ _ _ _ I ER) as (I1 & Hr).
    destruct Hr as [[-> W]|G].
    - right. destruct (get_next_ok _ _ _ _ _ _ _ _ I ER) as (m & rest' & d & -> & EG & Hd & I2).
      rewrite EG in E. injection E as <- <- <- <-. exists m, rest', d. auto.
    - left. unfold get_next_message in E. rewrite ER in E.
      destruct G as [-> | ->]; injection E as <- <- <- <-; eexists; (split; [reflexivity|]); auto.
  Qed.

  (** * Whole schedules *)
  Definition ev_stream (e : ev) : list abyte :=
    match e with
    | PeerWrite bs fds => annot bs fds
    | GetNext _ cs => arr_stream cs
    | ReadOnce _ cs => arr_stream cs
    end.
  (** everything the peer writes during a schedule, as one annotated stream *)
  Definition wstream (sched : list ev) : list abyte := flat_map ev_stream sched.

  (** the only results besides messages: done / timed out / still blocked *)
  Definition benign (o : obs D) : Prop :=
    match o with
    | OMsg _ | ODone => True
    | OErr e => e = ETimedOut \/ e = EBlocked
    end.

  Lemma step_inv e st q tail rest st' q' os :
    Inv st q (ev_stream e ++ tail) rest -> step D decode_fields e st q = (st', q', os) ->
    Forall benign os /\
    ((delivered D os = [] /\ Inv st' q' tail rest)
     \/ (exists m rest' d, rest = m :: rest' /\ delivered D os = [d] /\ is_message_of d m /\ Inv st' q' tail rest')).
  Proof.
    intros I E. destruct e as [bs fds|t cs|t cs]; cbn [step ev_stream] in *.
    - injection E as <- <- <-. split; [constructor|]. left. split; [reflexivity|]. now apply inv_kwrite.
    - destruct (get_next_message D decode_fields cs st q) as [[[r st1] q1] cs1] eqn:EG.
      injection E as <- <- <-.
      destruct (get_next_inv _ _ _ _ _ _ _ _ _ I EG) as [(e & -> & He & I1)|(m & rest' & d & -> & -> & Hd & I1)].
      + split; [constructor; [exact He|constructor]|]. left. split; [reflexivity|]. now apply arrivals_inv.
      + split; [constructor; [exact Logic.I|constructor]|]. right. exists m, rest', d.
        split; [reflexivity|]. split; [reflexivity|]. split; [exact Hd|]. now apply arrivals_inv.
    - destruct (read_once cs st q) as [[[r st1] q1] cs1] eqn:EG.
      injection E as <- <- <-.
      destruct (read_once_inv _ _ _ _ _ _ _ _ _ I EG) as (I1 & Hr).
      split.
      + constructor; [|constructor]. destruct Hr as [->|[->| ->]]; cbn; auto.
      + left. split; [|now apply arrivals_inv]. destruct r; reflexivity.
  Qed.

  Lemma delivered_app a b : delivered D (a ++ b) = delivered D a ++ delivered D b.
  Proof. unfold delivered. now rewrite flat_map_app. Qed.

  Lemma run_inv sched : forall st q tail rest st' q' os,
    Inv st q (wstream sched ++ tail) rest -> run_from D decode_fields sched st q = (st', q', os) ->
    exists n, (n <= length rest)%nat /\ Forall2 is_message_of (delivered D os) (firstn n rest)
              /\ Inv st' q' tail (skipn n rest) /\ Forall benign os.
  Proof.
    induction sched as [|e sched IH]; intros st q tail rest st' q' os I E.
    - cbn in E. injection E as <- <- <-. exists 0%nat. cbn. split; [lia|]. split; [constructor|]. split; [exact I|constructor].
    - cbn [run_from] in E.
      destruct (step D decode_fields e st q) as [[st1 q1] o1] eqn:ES.
      destruct (run_from D decode_fields sched st1 q1) as [[st2 q2] o2] eqn:ER.
      injection E as <- <- <-.
      cbn [wstream flat_map] in I. rewrite <- app_assoc in I.
      destruct (step_inv _ _ _ _ _ _ _ _ I ES) as (B1 & [(Hd & I1)|(m & rest' & d & -> & Hd & Hm & I1)]).
      + destruct (IH _ _ _ _ _ _ _ I1 ER) as (n & Hn & F & I2 & B2).
        exists n. rewrite delivered_app, Hd. split; [exact Hn|]. split; [exact F|]. split; [exact I2|].
        apply Forall_app. split; assumption.
      + destruct (IH _ _ _ _ _ _ _ I1 ER) as (n & Hn & F & I2 & B2).
        exists (S n). rewrite delivered_app, Hd. cbn [firstn skipn app length].
        split; [lia|]. split; [constructor; assumption|]. split; [exact I2|].
        apply Forall_app. split; assumption.
  Qed.

  (** * Exact reassembly for every schedule *)
  Definition chunking (sent : list smsg) (sched : list ev) (tail : list abyte) : Prop :=
    astream sent = wstream sched ++ tail.

  Lemma inv_start sent w : Forall frame_ok sent -> astream sent = w -> Inv rstate0 [] w sent.
  Proof.
    intros F E. constructor; cbn [rstate0 buf filled fds_in]; try reflexivity.
    - exact F.
    - constructor.
    - lia.
    - exact E.
    - cbn. lia.
  Qed.

  Theorem reassembly sent sched tail st q os :
    Forall frame_ok sent -> chunking sent sched tail -> run D decode_fields sched = (st, q, os) ->
    exists n, (n <= length sent)%nat /\ Forall2 is_message_of (delivered D os) (firstn n sent)
              /\ Forall benign os /\ Inv st q tail (skipn n sent).
  Proof.
    intros F C E. unfold run in E.
    destruct (run_inv sched _ _ tail sent _ _ _ (inv_start _ _ F C) E) as (n & Hn & H2 & I & B).
    exists n. auto.
  Qed.

  (** * What the invariant says in plain terms *)
  Definition kbytes (q : kq) : list N := concat (map fst q).

  Lemma bytes_of_flat q : bytes_of (flat q) = kbytes q.
  Proof.
    induction q as [|[bs fds] q IH]; [reflexivity|].
    rewrite flat_cons, bytes_of_app, bytes_of_annot, IH. reflexivity.
  Qed.
  Lemma bytes_of_astream ms : bytes_of (astream ms) = concat (map fst ms).
  Proof.
    induction ms as [|m ms IH]; [reflexivity|].
    rewrite astream_cons, bytes_of_app, bytes_of_annot, IH. reflexivity.
  Qed.
  Lemma astream_app a b : astream (a ++ b) = astream a ++ astream b.
  Proof. unfold astream. now rewrite flat_map_app. Qed.

  Lemma firstnN_annot k bs fds : 0 < k -> k <= len bs -> firstnN k (annot bs fds) = annot (firstnN k bs) fds.
  Proof.
    intros H0 Hk. rewrite (annot_split bs fds k H0) at 1.
    assert (L : len (annot (firstnN k bs) fds) = k) by (rewrite len_annot, len_firstnN; lia).
    rewrite firstnN_app_le by lia. apply firstnN_all. lia.
  Qed.

  (** the part of the current frame that sits in the client, with the descriptors collected so far,
      followed by what is queued in the kernel, followed by what the peer has not written yet, is
      exactly the stream of the messages not yet handed out *)
  Lemma inv_conservation st q tail rest : Inv st q tail rest ->
    annot (peek st) (fds_in st) ++ flat q ++ tail = astream rest.
  Proof.
    intros I. rewrite <- (inv_stream _ _ _ _ I).
    rewrite <- (firstnN_skipnN (filled st) (astream rest)) at 2. f_equal.
    destruct rest as [|m rest'].
    - destruct (inv_nil _ _ _ I) as (E & _). unfold peek. rewrite E. reflexivity.
    - destruct (inv_head _ _ _ _ _ I) as (H16 & Hf & Hp & Hfd).
      rewrite astream_cons, firstnN_app_le by (rewrite len_annot; exact Hf).
      destruct (N.eq_dec (filled st) 0) as [E|E].
      + unfold peek. rewrite E. reflexivity.
      + rewrite Hp, Hfd. rewrite !firstnN_annot by lia.
        rewrite rights_of_annot; [reflexivity|].
        intros Z. apply (f_equal len) in Z. rewrite len_firstnN, len_nil in Z. lia.
  Qed.

  Lemma inv_plain st q tail rest : Inv st q tail rest ->
    (* never reads past the current frame: the buffer is never larger than it *)
    filled st <= len (buf st) /\ len (buf st) <= headlen rest
    (* bytes *)
    /\ peek st ++ kbytes q ++ bytes_of tail = concat (map fst rest)
    (* the bytes and descriptors held by the client belong to the current message *)
    /\ match rest with
       | [] => filled st = 0 /\ fds_in st = []
       | m :: _ => peek st = firstnN (filled st) (fst m) /\ fds_in st = (if filled st =? 0 then [] else snd m)
       end.
  Proof.
    intros I. split; [apply (inv_filled _ _ _ _ I)|]. split; [|split].
    - pose proof (inv_buf _ _ _ _ I) as H. destruct (N.ltb_spec (filled st) 16) as [H1|H1]; [|exact H].
      destruct rest as [|m rest']; [exact H|]. destruct (inv_head _ _ _ _ _ I) as (H16 & _). cbn [headlen]. lia.
    - rewrite <- bytes_of_astream, <- (inv_conservation _ _ _ _ I).
      rewrite !bytes_of_app, bytes_of_annot, bytes_of_flat. reflexivity.
    - destruct rest as [|m rest'].
      + destruct (inv_nil _ _ _ I) as (E & _). split; [exact E|].
        rewrite <- (inv_fds _ _ _ _ I), E. reflexivity.
      + destruct (inv_head _ _ _ _ _ I) as (H16 & Hf & Hp & Hfd). split; [exact Hp|].
        rewrite Hfd. destruct (N.eqb_spec (filled st) 0) as [E|E]; [rewrite E; reflexivity|].
        rewrite firstnN_annot by lia. apply rights_of_annot.
        intros Z. apply (f_equal len) in Z. rewrite len_firstnN, len_nil in Z. lia.
  Qed.

  (** * Completeness: once everything is written, enough get_next_message calls hand out everything *)
  Lemma arr_stream_repeat K F : arr_stream (repeat (KDeliver K) F) = [].
  Proof. induction F; [reflexivity|exact IHF]. Qed.

  Lemma rwm_progress K F : forall st q m rest',
    Inv st q [] (m :: rest') -> len (fst m) - filled st <= N.of_nat F ->
    exists st1 q1 cs1, read_whole_message (repeat (KDeliver K) F) st q = (ROk tt, st1, q1, cs1)
                       /\ arr_stream cs1 = [].
  Proof.
    induction F as [|F IH]; intros st q m rest' I HF.
    - cbn [repeat read_whole_message]. rewrite (inv_bcwm _ _ _ _ I). cbn [whole].
      replace (len (fst m) <=? filled st) with true by (symmetry; apply N.leb_le; lia).
      eauto.
    - cbn [repeat read_whole_message]. rewrite (inv_bcwm _ _ _ _ I).
      destruct (whole st (m :: rest')) eqn:W.
      { exists st, q, (KDeliver K :: repeat (KDeliver K) F). split; [reflexivity|]. apply (arr_stream_repeat K (S F)). }
      rewrite (inv_needed _ _ _ _ I).
      destruct (refill_buffer st q _ (KDeliver K)) as [[r1 st1] q1] eqn:ER.
      destruct (refill_inv _ _ _ _ _ _ _ _ I W ER) as (I1 & Hr & Hk).
      cbn [whole] in W. apply N.leb_gt in W.
      assert (Ha : kavail q <> 0).
      { rewrite kavail_flat. pose proof (inv_stream _ _ _ _ I) as S. apply (f_equal len) in S.
        rewrite app_nil_r, len_skipnN, astream_cons, len_app, len_annot in S. lia. }
      rewrite (Hk K eq_refl Ha) in *. destruct Hr as [[_ Hlt]|[Hc _]]; [|discriminate].
      apply (IH _ _ _ _ I1). lia.
  Qed.

  Lemma get_next_progress K F st q m rest' :
    Inv st q [] (m :: rest') -> len (fst m) <= N.of_nat F ->
    exists d q1, step D decode_fields (GetNext Nonblock (repeat (KDeliver K) F)) st q = (rstate0, q1, [OMsg d])
                 /\ is_message_of d m /\ Inv rstate0 q1 [] rest'.
  Proof.
    intros I HF.
    destruct (rwm_progress K F st q m rest' I ltac:(lia)) as (st1 & q1 & cs1 & ER & Ha).
    assert (I' : Inv st q (arr_stream (repeat (KDeliver K) F) ++ []) (m :: rest')) by (rewrite arr_stream_repeat; exact I).
    destruct (get_next_ok _ _ _ _ _ _ _ _ I' ER) as (m0 & rest0 & d & Hm & EG & Hd & I1).
    injection Hm as <- <-.
    exists d, (arrivals q1 cs1). cbn [step]. rewrite EG. split; [reflexivity|]. split; [exact Hd|].
    apply (arrivals_inv cs1). exact I1.
  Qed.

  Definition drain_ev (K : N) (F : nat) : ev := GetNext Nonblock (repeat (KDeliver K) F).

  Lemma drain_all K F g : forall rest st q st' q' os,
    Inv st q [] rest -> Forall (fun m => len (fst m) <= N.of_nat F) rest -> (length rest <= g)%nat ->
    run_from D decode_fields (repeat (drain_ev K F) g) st q = (st', q', os) ->
    Forall2 is_message_of (delivered D os) rest /\ Inv st' q' [] [].
  Proof.
    induction g as [|g IH]; intros rest st q st' q' os I HF Hg E.
    - destruct rest; [|cbn in Hg; lia]. cbn in E. injection E as <- <- <-. split; [constructor|exact I].
    - cbn [repeat run_from] in E.
      destruct (step D decode_fields (drain_ev K F) st q) as [[st1 q1] o1] eqn:ES.
      destruct (run_from D decode_fields (repeat (drain_ev K F) g) st1 q1) as [[st2 q2] o2] eqn:ER.
      injection E as <- <- <-. rewrite delivered_app.
      destruct rest as [|m rest'].
      + assert (I' : Inv st q (ev_stream (drain_ev K F) ++ []) []) by (cbn [drain_ev ev_stream]; rewrite arr_stream_repeat; exact I).
        destruct (step_inv _ _ _ _ _ _ _ _ I' ES) as (_ & [(Hd & I1)|(m & rest' & d & Hc & _)]); [|discriminate Hc].
        rewrite Hd. apply (IH [] _ _ _ _ _ I1 HF ltac:(cbn; lia) ER).
      + inversion HF as [|? ? Hm HF']; subst.
        destruct (get_next_progress K F st q m rest' I Hm) as (d & q1' & ES' & Hd & I1).
        unfold drain_ev in ES. rewrite ES' in ES. injection ES as <- <- <-.
        destruct (IH rest' _ _ _ _ _ I1 HF' ltac:(cbn in Hg; lia) ER) as (H2 & I2).
        split; [|exact I2]. cbn [delivered flat_map app]. constructor; assumption.
  Qed.

  Lemma run_from_app a b st q :
    run_from D decode_fields (a ++ b) st q =
    let '(st1, q1, o1) := run_from D decode_fields a st q in
    let '(st2, q2, o2) := run_from D decode_fields b st1 q1 in (st2, q2, o1 ++ o2).
  Proof.
    revert st q. induction a as [|e a IH]; intros st q.
    - cbn [app run_from]. destruct (run_from D decode_fields b st q) as [[? ?] ?]. reflexivity.
    - cbn [app run_from]. destruct (step D decode_fields e st q) as [[st1 q1] o1]. rewrite IH.
      destruct (run_from D decode_fields a st1 q1) as [[st2 q2] o2].
      destruct (run_from D decode_fields b st2 q2) as [[st3 q3] o3]. now rewrite app_assoc.
  Qed.

  Lemma Forall2_app_firstn_skipn {A B} (R : A -> B -> Prop) a1 a2 (l : list B) n :
    Forall2 R a1 (firstn n l) -> Forall2 R a2 (skipn n l) -> Forall2 R (a1 ++ a2) l.
  Proof. intros H1 H2. rewrite <- (firstn_skipn n l). now apply Forall2_app. Qed.

  Theorem completeness sent sched K F g st q os :
    Forall frame_ok sent -> chunking sent sched [] ->
    Forall (fun m => len (fst m) <= N.of_nat F) sent -> (length sent <= g)%nat ->
    run D decode_fields (sched ++ repeat (drain_ev K F) g) = (st, q, os) ->
    Forall2 is_message_of (delivered D os) sent /\ Forall benign os.
  Proof.
    intros HF C HL Hg E. unfold run in E. rewrite run_from_app in E.
    destruct (run_from D decode_fields sched rstate0 []) as [[st1 q1] o1] eqn:E1.
    destruct (run_from D decode_fields (repeat (drain_ev K F) g) st1 q1) as [[st2 q2] o2] eqn:E2.
    injection E as <- <- <-.
    destruct (reassembly sent sched [] st1 q1 o1 HF C E1) as (n & Hn & H2 & B1 & I1).
    assert (HL' : Forall (fun m => len (fst m) <= N.of_nat F) (skipn n sent)).
    { rewrite <- (firstn_skipn n sent) in HL. apply Forall_app in HL. apply HL. }
    assert (Hg' : (length (skipn n sent) <= g)%nat) by (rewrite skipn_length; lia).
    destruct (drain_all K F g _ _ _ _ _ _ I1 HL' Hg' E2) as (H3 & _).
    split.
    - rewrite delivered_app. apply (Forall2_app_firstn_skipn _ _ _ _ n); assumption.
    - apply Forall_app. split; [exact B1|].
      assert (I1' : Inv st1 q1 (wstream (repeat (drain_ev K F) g) ++ []) (skipn n sent)).
      { replace (wstream (repeat (drain_ev K F) g)) with (@nil abyte); [exact I1|].
        clear. induction g as [|g IH]; [reflexivity|]. cbn [repeat wstream flat_map].
        cbn [drain_ev ev_stream]. rewrite arr_stream_repeat. exact IH. }
      destruct (run_inv _ _ _ _ _ _ _ _ I1' E2) as (_ & _ & _ & _ & B2). exact B2.
  Qed.

  (** * Everything about one run in one statement *)
  Theorem reassembly_full sent sched tail st q os :
    Forall frame_ok sent -> chunking sent sched tail -> run D decode_fields sched = (st, q, os) ->
    exists n, (n <= length sent)%nat
      (* handed out: exactly the first n messages, in order *)
      /\ Forall2 is_message_of (delivered D os) (firstn n sent)
      (* every other result is "done", "timed out" or "still blocked" *)
      /\ Forall benign os
      (* nothing lost, duplicated or moved: buffered part (with the descriptors collected) ++ kernel
         queue ++ unwritten rest = stream of the messages not handed out yet *)
      /\ annot (peek st) (fds_in st) ++ flat q ++ tail = astream (skipn n sent)
      /\ peek st ++ kbytes q ++ bytes_of tail = concat (map fst (skipn n sent))
      (* the buffer never extends past the current frame, so no recvmsg can read into the next one *)
      /\ filled st <= len (buf st) /\ len (buf st) <= headlen (skipn n sent)
      /\ match skipn n sent with
         | [] => filled st = 0 /\ fds_in st = []
         | m :: _ => peek st = firstnN (filled st) (fst m) /\ fds_in st = (if filled st =? 0 then [] else snd m)
         end.
  Proof.
    intros F C E. destruct (reassembly sent sched tail st q os F C E) as (n & Hn & H2 & B & I).
    exists n. destruct (inv_plain _ _ _ _ I) as (P1 & P2 & P3 & P4).
    pose proof (inv_conservation _ _ _ _ I). auto 10.
  Qed.

  (** * What "is the message of" means: header of the frame, its last body_len bytes, its descriptors *)
  Lemma finish_shape p fds d : finish D decode_fields p fds = (ROk d, true) ->
    m_fds d = fds /\ unmarshal_header p = ROk (m_hdr d) /\ len (m_body d) = h_body_len (m_hdr d)
    /\ exists pre, p = pre ++ m_body d.
  Proof.
    unfold finish. destruct (unmarshal_header p) as [h|e]; [|intros [=]].
    destruct (unmarshal_dynamic_header D decode_fields h p) as [[d0 c]|e]; [|intros [=]].
    unfold unmarshal_next_message.
    destruct (len p - c <? pad8 c); [intros [=]|].
    destruct (negb (forallb _ _)); [intros [=]|].
    destruct (N.eqb_spec (h_body_len h) 0) as [E0|E0].
    - intros [= <-]. cbn. repeat split; [symmetry; exact E0|]. exists p. now rewrite app_nil_r.
    - destruct (len p - (c + pad8 c) <? h_body_len h); [intros [=]|].
      destruct (N.eqb_spec (len p - (c + pad8 c)) (h_body_len h)) as [E|E]; cbn [negb]; [|intros [=]].
      intros [= <-]. cbn. repeat split.
      + rewrite len_skipnN. exact E.
      + exists (firstnN (c + pad8 c) p). symmetry. apply firstnN_skipnN.
  Qed.
End Proofs.

(** * An independent description of a frame (D-Bus specification, "Message Format"), and the proof
      that such frames satisfy [frame_ok] *)
Ltac Zify.zify_post_hook ::= Z.div_mod_to_equations.

Definition enc_u32 (bo : endian) (n : N) : list N :=
  let b0 := n mod 256 in
  let b1 := (n / 256) mod 256 in
  let b2 := (n / 65536) mod 256 in
  let b3 := (n / 16777216) mod 256 in
  match bo with LE => [b0; b1; b2; b3] | BE => [b3; b2; b1; b0] end.

Lemma u32_digits n : n < 4294967296 ->
  n mod 256 + (n / 256) mod 256 * 256 + (n / 65536) mod 256 * 65536 + (n / 16777216) mod 256 * 16777216 = n.
Proof.
  intros H.
  replace (n / 65536) with (n / 256 / 256) by (rewrite N.div_div by lia; reflexivity).
  replace (n / 16777216) with (n / 256 / 256 / 256) by (rewrite !N.div_div by lia; reflexivity).
  set (a := n / 256). set (b := a / 256). set (c := b / 256).
  assert (n = 256 * a + n mod 256) by (apply N.div_mod').
  assert (a = 256 * b + a mod 256) by (apply N.div_mod').
  assert (b = 256 * c + b mod 256) by (apply N.div_mod').
  assert (c mod 256 = c).
  { apply N.mod_small. subst c b a.
    apply N.div_lt_upper_bound; [lia|]. apply N.div_lt_upper_bound; [lia|]. apply N.div_lt_upper_bound; lia. }
  lia.
Qed.
Lemma parse_enc_u32 bo n rest : n < 4294967296 -> parse_u32 (enc_u32 bo n ++ rest) bo = ROk n.
Proof.
  intros H. destruct bo; cbn [enc_u32 app parse_u32]; f_equal; apply u32_digits; exact H.
Qed.
Lemma len_enc_u32 bo n : len (enc_u32 bo n) = 4.
Proof. destruct bo; reflexivity. Qed.
Lemma skipnN_len_app {A} n (a b : list A) : len a = n -> skipnN n (a ++ b) = b.
Proof. intros <-. apply skipnN_app_len. Qed.

Definition bo_byte (bo : endian) : N := match bo with LE => 108 | BE => 66 end.

Section FrameSpec.
  Variable D : Type.
  Variable decode_fields : header -> list N -> option D.

  (** fixed part: endianness flag, type 1..4, flags, protocol version 1, body length, non-zero serial,
      length of the header-field array; then the fields, zero padding to an 8-byte boundary, the body.
      Limits: fields array at most 2^26 bytes, the whole message at most 2^27. *)
  Inductive Frame : list N -> Prop :=
  | Frame_intro bo typ flags serial fields body :
      1 <= typ <= 4 -> serial <> 0 -> serial < 4294967296 ->
      len fields <= 67108864 ->
      16 + len fields + (8 - (16 + len fields) mod 8) mod 8 + len body <= 134217728 ->
      decode_fields {| h_bo := bo; h_typ := typ; h_flags := flags; h_body_len := len body; h_serial := serial |} fields <> None ->
      Frame ([bo_byte bo; typ; flags; 1] ++ enc_u32 bo (len body) ++ enc_u32 bo serial
             ++ enc_u32 bo (len fields) ++ fields ++ zeros ((8 - (16 + len fields) mod 8) mod 8) ++ body).

  Lemma pad8_spec n : pad8 n = (8 - n mod 8) mod 8.
  Proof.
    unfold pad8. destruct (N.eqb_spec (8 - n mod 8) 8) as [E|E].
    - rewrite E. reflexivity.
    - symmetry. apply N.mod_small. remember (n mod 8) as x. lia.
  Qed.

  Lemma forallb_zeros n : forallb (fun x => x =? 0) (zeros n) = true.
  Proof. unfold zeros. induction (N.to_nat n); [reflexivity|exact IHn0]. Qed.

  Theorem Frame_frame_ok f fds : Frame f -> len fds <= cmsg_cap -> frame_ok D decode_fields (f, fds).
  Proof.
    intros HF Hc. destruct HF as [bo typ flags serial fields body Ht Hs0 Hs Hfl Htot Hdec].
    set (pad := (8 - (16 + len fields) mod 8) mod 8) in *.
    set (h := {| h_bo := bo; h_typ := typ; h_flags := flags; h_body_len := len body; h_serial := serial |}) in *.
    set (f := [bo_byte bo; typ; flags; 1] ++ _).
    assert (Hb : len body < 4294967296) by lia.
    assert (Lf : len f = 16 + len fields + pad + len body).
    { subst f. rewrite !len_app, !len_enc_u32, len_zeros. repeat rewrite len_cons. rewrite len_nil. lia. }
    assert (Hh : unmarshal_header f = ROk h).
    { unfold unmarshal_header. replace (len f <? HEADER_LEN) with false by (symmetry; apply N.ltb_ge; unfold HEADER_LEN; lia).
      subst f. cbn [app].
      replace (if bo_byte bo =? 108 then Some LE else if bo_byte bo =? 66 then Some BE else None) with (Some bo) by (destruct bo; reflexivity).
      replace ((1 <=? typ) && (typ <=? 4)) with true by (symmetry; apply andb_true_iff; split; apply N.leb_le; lia).
      cbn [negb N.eqb Pos.eqb]. rewrite parse_enc_u32 by exact Hb.
      replace (skipnN 4 (enc_u32 bo (len body) ++ enc_u32 bo serial ++ enc_u32 bo (len fields) ++ fields ++ zeros pad ++ body))
        with (enc_u32 bo serial ++ enc_u32 bo (len fields) ++ fields ++ zeros pad ++ body).
      2:{ rewrite <- (len_enc_u32 bo (len body)). now rewrite skipnN_app_len. }
      rewrite parse_enc_u32 by exact Hs.
      replace (serial =? 0) with false by (symmetry; now apply N.eqb_neq). reflexivity. }
    assert (H12 : skipnN HEADER_LEN f = enc_u32 bo (len fields) ++ fields ++ zeros pad ++ body).
    { subst f. change HEADER_LEN with (4 + 4 + 4). rewrite <- !skipnN_skipnN.
      rewrite (skipnN_len_app 4) by reflexivity.
      rewrite (skipnN_len_app 4) by apply len_enc_u32.
      rewrite (skipnN_len_app 4) by apply len_enc_u32. reflexivity. }
    assert (H16 : skipnN 16 f = fields ++ zeros pad ++ body).
    { replace 16 with (HEADER_LEN + 4) by reflexivity. rewrite <- skipnN_skipnN, H12.
      rewrite <- (len_enc_u32 bo (len fields)). now rewrite skipnN_app_len. }
    assert (Hp : parse_u32 (skipnN HEADER_LEN f) bo = ROk (len fields)).
    { rewrite H12. apply parse_enc_u32. lia. }
    assert (Hca : check_array_len (len fields) = ROk (len fields)).
    { unfold check_array_len, MAX_ARRAY_LEN. now replace (67108864 <? len fields) with false by (symmetry; apply N.ltb_ge; lia). }
    assert (Hpad : pad8 (16 + len fields) = pad) by apply pad8_spec.
    split; [cbn [fst]; lia|]. split; [|split; [|exact Hc]]; cbn [fst snd].
    - unfold needed_of. rewrite Hh. cbn [h_bo h]. rewrite Hp, Hca.
      replace (HEADER_LEN + len fields + 4) with (16 + len fields) by (unfold HEADER_LEN; lia).
      rewrite Hpad. change (h_body_len h) with (len body). unfold MAX_MESSAGE_LEN.
      replace (134217728 <? 16 + len fields + pad + len body) with false by (symmetry; apply N.ltb_ge; lia).
      now rewrite Lf.
    - destruct (decode_fields h fields) as [d|] eqn:Ed; [|congruence].
      unfold finish. rewrite Hh. unfold unmarshal_dynamic_header. cbn [h_bo h]. rewrite Hp, Hca.
      replace (len f - 16 <? len fields) with false by (symmetry; apply N.ltb_ge; lia).
      rewrite H16, firstnN_app_len. fold h. rewrite Ed.
      unfold unmarshal_next_message. rewrite Hpad.
      replace (len f - (16 + len fields) <? pad) with false by (symmetry; apply N.ltb_ge; lia).
      replace (skipnN (16 + len fields) f) with (zeros pad ++ body).
      2:{ rewrite <- skipnN_skipnN, H16. now rewrite skipnN_app_len. }
      replace (firstnN pad (zeros pad ++ body)) with (zeros pad).
      2:{ rewrite <- (len_zeros pad) at 2. now rewrite firstnN_app_len. }
      rewrite forallb_zeros. cbn [negb]. change (h_body_len h) with (len body).
      destruct (len body =? 0); [eexists; reflexivity|].
      replace (len f - (16 + len fields + pad) <? len body) with false by (symmetry; apply N.ltb_ge; lia).
      replace (len f - (16 + len fields + pad) =? len body) with true by (symmetry; apply N.eqb_eq; lia).
      eexists; reflexivity.
  Qed.
End FrameSpec.

(** * The Linux choice is one of the choices the theorems quantify over *)
Lemma klimit_le_kavail q : klimit q <= kavail q.
Proof. induction q as [|[bs [|x fds]] q IH]; cbn [klimit kavail]; lia. Qed.
Lemma klimit_pos q : segs_ok q -> q <> [] -> 1 <= klimit q.
Proof.
  intros H Hq. destruct q as [|[bs fds] q]; [congruence|]. inversion H as [|? ? Hne _]; subst. cbn [fst] in Hne.
  assert (1 <= len bs) by (destruct bs; [congruence|rewrite len_cons; lia]).
  destruct fds; cbn [klimit]; lia.
Qed.
(* under [linux_choice] the clamp in refill_buffer is the identity *)
Lemma linux_choice_exact q req : segs_ok q -> q <> [] -> 1 <= req ->
  N.max 1 (N.min (N.min req (klimit q)) (N.min req (kavail q))) = N.min req (klimit q).
Proof. intros H Hq Hr. pose proof (klimit_le_kavail q). pose proof (klimit_pos q H Hq). lia. Qed.
