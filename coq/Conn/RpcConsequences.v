(** Conn/RpcConsequences.v - what the specification of Conn/RpcSpec.v implies for every run (C14):
    signals and calls come out in arrival order, replies only to the caller that names their serial,
    every accepted message is either handed out once or still waiting, rejected messages never come
    out, and the errors sent or returned are exactly one unknown-method error per rejected call.
    Through the refinement theorem this holds for the model of RpcConn. *)
From RB Require Import Base.Prelude Conn.Rpc Conn.RpcSpec Conn.RpcProofs.
From Coq Require Import Permutation.

Section Consequences.
  Variable filter : rmsg -> bool.
  Notation asig := (accepted_signal filter).
  Notation acall := (accepted_call filter).
  Notation aresp := (accepted_response filter).

  (** what an operation handed out, by class *)
  Definition sig_of (o : op) (r : res) : list rmsg :=
    match o, r with (TrySignal | WaitSignal _), RMsg m => [m] | _, _ => [] end.
  Definition call_of (o : op) (r : res) : list rmsg :=
    match o, r with (TryCall | WaitCall _), RMsg m => [m] | _, _ => [] end.
  Definition resp_of (o : op) (r : res) : list rmsg :=
    match o, r with (TryResp _ | WaitResp _ _), RMsg m => [m] | _, _ => [] end.
  (* errors written to the wire during the operation, then errors returned to the caller *)
  Definition errs_of (r : res) (e : list emsg) : list emsg :=
    e ++ match r with RErrors l => l | _ => [] end.
  (** a message comes out only of an operation that asks for it *)
  Definition route_ok (o : op) (r : res) : Prop :=
    match r with
    | RMsg m =>
      match o with
      | TryResp s | WaitResp s _ => accepted_response_for filter s m = true
      | TrySignal | WaitSignal _ => asig m = true
      | TryCall | WaitCall _ => acall m = true
      | _ => False
      end
    | _ => True
    end.

  (** [C]: messages read from the socket so far; rs/rc/rr: signals/calls/responses handed out so far
      (in the order of the operations); es: all errors so far *)
  Record good (ss : sstate) (C rs rc rr : list rmsg) (es : list emsg) : Prop := {
    g_sig : rs ++ q_signals ss = List.filter asig C;
    g_call : rc ++ q_calls ss = List.filter acall C;
    g_resp : Permutation (rr ++ pending ss) (List.filter aresp C);
    g_err : es = errors_for filter C
  }.

  (** the three classes are disjoint *)
  Lemma asig_not_acall m : asig m = true -> acall m = false.
  Proof. unfold accepted_signal, accepted_call. destruct (filter m), (r_kind m); cbn; congruence. Qed.
  Lemma asig_not_aresp m : asig m = true -> aresp m = false.
  Proof. unfold accepted_signal, accepted_response. destruct (filter m), (r_kind m); cbn; congruence. Qed.
  Lemma acall_not_aresp m : acall m = true -> aresp m = false.
  Proof. unfold accepted_call, accepted_response. destruct (filter m), (r_kind m); cbn; congruence. Qed.
  Lemma acall_not_asig m : acall m = true -> asig m = false.
  Proof. unfold accepted_signal, accepted_call. destruct (filter m), (r_kind m); cbn; congruence. Qed.
  Lemma aresp_not_asig m : aresp m = true -> asig m = false.
  Proof. unfold accepted_signal, accepted_response. destruct (filter m), (r_kind m); cbn; congruence. Qed.
  Lemma aresp_not_acall m : aresp m = true -> acall m = false.
  Proof. unfold accepted_call, accepted_response. destruct (filter m), (r_kind m); cbn; congruence. Qed.
  Lemma accepted_not_rejected m : filter m = true -> rejected_call filter m = false.
  Proof. intros H. unfold rejected_call. now rewrite H. Qed.

  (** * Filing a stretch of messages *)
  Lemma file_all_app ss a b : file_all filter ss (a ++ b) = file_all filter (file_all filter ss a) b.
  Proof. unfold file_all. apply fold_left_app. Qed.

  Lemma file_all_parts l : forall ss,
    q_signals (file_all filter ss l) = q_signals ss ++ List.filter asig l
    /\ q_calls (file_all filter ss l) = q_calls ss ++ List.filter acall l
    /\ pending (file_all filter ss l) = pending ss ++ List.filter aresp l
    /\ sock (file_all filter ss l) = sock ss.
  Proof.
    induction l as [|m l IH]; intros ss.
    - cbn. now rewrite !app_nil_r.
    - cbn [file_all fold_left List.filter]. destruct (IH (file filter ss m)) as (H1 & H2 & H3 & H4).
      fold (file_all filter (file filter ss m) l). rewrite H1, H2, H3, H4. unfold file.
      destruct (asig m) eqn:A.
      { rewrite (asig_not_acall _ A), (asig_not_aresp _ A). cbn. now rewrite <- app_assoc. }
      destruct (acall m) eqn:B.
      { rewrite (acall_not_aresp _ B). cbn. now rewrite <- app_assoc. }
      destruct (aresp m) eqn:D; cbn; [now rewrite <- app_assoc|auto].
  Qed.

  Lemma filter_none {A} (p : A -> bool) l : Forall (fun x => p x = false) l -> List.filter p l = [].
  Proof. induction 1 as [|x l H _ IH]; [reflexivity|]. cbn. now rewrite H. Qed.

  Lemma split_first_some p l b m : split_first p l = Some (b, m) ->
    exists rest, l = b ++ m :: rest /\ Forall (fun x => p x = false) b /\ p m = true.
  Proof.
    revert b. induction l as [|x l IH]; intros b E; [discriminate|]. cbn [split_first] in E.
    destruct (p x) eqn:P.
    - injection E as <- <-. exists l. auto.
    - destruct (split_first p l) as [[b0 x0]|]; [|discriminate]. injection E as <- <-.
      destruct (IH b0 eq_refl) as (rest & -> & F & Pm). exists rest. auto.
  Qed.
  Lemma split_first_none p l : split_first p l = None -> Forall (fun x => p x = false) l.
  Proof.
    induction l as [|x l IH]; intros E; [constructor|]. cbn [split_first] in E.
    destruct (p x) eqn:P; [discriminate|]. destruct (split_first p l) as [[b0 x0]|]; [discriminate|]. auto.
  Qed.

  Lemma skipn_found {A} b (l bef rest : list A) m :
    firstn b l = bef ++ m :: rest -> bef ++ m :: skipn (S (length bef)) l = l.
  Proof.
    intros H. rewrite <- (firstn_skipn b l) at 2. rewrite H.
    rewrite <- (firstn_skipn b l) at 1. rewrite H.
    replace (S (length bef)) with (length (bef ++ [m]) + 0)%nat by (rewrite app_length; cbn; lia).
    rewrite <- app_assoc. cbn [app].
    replace (bef ++ m :: rest ++ skipn b l) with ((bef ++ [m]) ++ rest ++ skipn b l) by (now rewrite <- app_assoc).
    rewrite skipn_app, skipn_all2 by lia. rewrite Nat.add_0_r, Nat.sub_diag. cbn [skipn app].
    now rewrite <- !app_assoc.
  Qed.

  (** reading [l] from the socket and filing it *)
  Lemma good_file_all ss C rs rc rr es l :
    good ss C rs rc rr es ->
    good (file_all filter ss l) (C ++ l) rs rc rr (es ++ errors_for filter l).
  Proof.
    intros [H1 H2 H3 H4]. destruct (file_all_parts l ss) as (P1 & P2 & P3 & _).
    constructor; rewrite ?filter_app.
    - now rewrite P1, app_assoc, H1.
    - now rewrite P2, app_assoc, H2.
    - rewrite P3, app_assoc. now apply Permutation_app_tail.
    - now rewrite H4, errors_for_app.
  Qed.

  Lemma good_with_sock ss C rs rc rr es t : good ss C rs rc rr es -> good (with_sock ss t) C rs rc rr es.
  Proof. intros [H1 H2 H3 H4]. constructor; assumption. Qed.

  (** a scan that finds its message *)
  Lemma errors_for_one_accepted m : filter m = true -> errors_for filter [m] = [].
  Proof. apply errors_for_accepted. Qed.

  Lemma filter_one {A} (p : A -> bool) m : List.filter p [m] = if p m then [m] else [].
  Proof. reflexivity. Qed.

  (** * One operation keeps [good] and routes correctly *)
  Lemma take_pending_split s l m p' : take_pending s l = (Some m, p') ->
    reply_is s m = true /\ exists a b, l = a ++ m :: b /\ p' = a ++ b.
  Proof.
    revert p'. induction l as [|x l IH]; intros p' E; [discriminate|]. cbn [take_pending] in E.
    destruct (reply_is s x) eqn:Rx.
    - injection E as <- <-. split; [exact Rx|]. exists [], l. auto.
    - destruct (take_pending s l) as [r0 l0] eqn:E0. injection E as -> <-.
      destruct (IH l0 eq_refl) as (Hr & a & b & -> & ->). split; [exact Hr|]. exists (x :: a), b. auto.
  Qed.

  Lemma in_filter_of_app {A} (p : A -> bool) (a b l : list A) m : a ++ m :: b = List.filter p l -> p m = true.
  Proof. intros H. assert (I : In m (List.filter p l)) by (rewrite <- H; apply in_or_app; right; now left). now apply filter_In in I. Qed.

  Lemma step_good o ss C rs rc rr es r e ss' :
    good ss C rs rc rr es -> sstep filter o ss = (r, e, ss') ->
    route_ok o r /\
    exists C', good ss' C' (rs ++ sig_of o r) (rc ++ call_of o r) (rr ++ resp_of o r) (es ++ errs_of r e)
               /\ C' ++ sock ss' = C ++ sock ss ++ op_arrivals o.
  Proof.
    intros G E. pose proof G as [H1 H2 H3 H4]. unfold errs_of.
    destruct o as [m|s| | |s b|b|b| | ]; cbn [sstep] in E.
    - (* Arrive *)
      injection E as <- <- <-. split; [exact I|]. exists C. cbn. rewrite !app_nil_r. split; [now apply good_with_sock|reflexivity].
    - (* TryResp *)
      destruct (take_pending s (pending ss)) as [[m|] p'] eqn:ET; injection E as <- <- <-; cbn [route_ok res_of_opt sig_of call_of resp_of errs_of op_arrivals].
      + destruct (take_pending_split _ _ _ _ ET) as (Hr & a & b & Ep & ->).
        assert (Pm : Permutation ((rr ++ [m]) ++ a ++ b) (rr ++ pending ss)).
        { rewrite Ep, <- app_assoc. apply Permutation_app_head. cbn [app]. apply Permutation_middle. }
        split.
        * unfold accepted_response_for. rewrite Hr, andb_true_r.
          assert (In m (List.filter aresp C)).
          { apply (Permutation_in m H3). apply in_or_app. right. rewrite Ep. apply in_or_app. right. now left. }
          now apply filter_In in H.
        * exists C. rewrite !app_nil_r. split; [|reflexivity]. constructor; cbn; try assumption.
          now rewrite Pm.
      + apply take_pending_none in ET. subst p'. split; [exact I|]. exists C. rewrite !app_nil_r.
        split; [|reflexivity]. destruct ss; exact G.
    - (* TrySignal *)
      destruct (q_signals ss) as [|m t] eqn:Eq; injection E as <- <- <-; cbn [route_ok sig_of call_of resp_of errs_of op_arrivals].
      + split; [exact I|]. exists C. rewrite !app_nil_r. auto.
      + split; [now apply (in_filter_of_app _ _ _ _ _ H1)|]. exists C. rewrite !app_nil_r. split; [|reflexivity].
        constructor; cbn; try assumption. now rewrite <- app_assoc.
    - (* TryCall *)
      destruct (q_calls ss) as [|m t] eqn:Eq; injection E as <- <- <-; cbn [route_ok sig_of call_of resp_of errs_of op_arrivals].
      + split; [exact I|]. exists C. rewrite !app_nil_r. auto.
      + split; [now apply (in_filter_of_app _ _ _ _ _ H2)|]. exists C. rewrite !app_nil_r. split; [|reflexivity].
        constructor; cbn; try assumption. now rewrite <- app_assoc.
    - (* WaitResp *)
      destruct (take_pending s (pending ss)) as [[m|] p'] eqn:ET.
      + injection E as <- <- <-; cbn [route_ok res_of_opt sig_of call_of resp_of errs_of op_arrivals].
        destruct (take_pending_split _ _ _ _ ET) as (Hr & a & b0 & Ep & ->).
        assert (Pm : Permutation ((rr ++ [m]) ++ a ++ b0) (rr ++ pending ss)).
        { rewrite Ep, <- app_assoc. apply Permutation_app_head. cbn [app]. apply Permutation_middle. }
        split.
        * unfold accepted_response_for. rewrite Hr, andb_true_r.
          assert (In m (List.filter aresp C)).
          { apply (Permutation_in m H3). apply in_or_app. right. rewrite Ep. apply in_or_app. right. now left. }
          now apply filter_In in H.
        * exists C. rewrite !app_nil_r. split; [|reflexivity]. constructor; cbn; try assumption. now rewrite Pm.
      + unfold scan in E. destruct (split_first _ _) as [[bef m]|] eqn:SF; injection E as <- <- <-;
          cbn [route_ok res_of_opt sig_of call_of resp_of errs_of op_arrivals].
        * destruct (split_first_some _ _ _ _ SF) as (rest & Ef & Fb & Pm).
          split; [exact Pm|]. exists (C ++ bef ++ [m]).
          unfold accepted_response_for in Pm. apply andb_true_iff in Pm. destruct Pm as [Am _].
          assert (Fm : filter m = true) by (unfold accepted_response in Am; now apply andb_true_iff in Am).
          split.
          -- apply good_with_sock. pose proof (good_file_all ss C rs rc rr es bef G) as [K1 K2 K3 K4].
             constructor; rewrite ?app_nil_r, ?filter_app, ?filter_one.
             ++ rewrite (aresp_not_asig _ Am), app_nil_r. now rewrite K1, filter_app.
             ++ rewrite (aresp_not_acall _ Am), app_nil_r. now rewrite K2, filter_app.
             ++ rewrite Am. rewrite filter_app in K3.
                rewrite <- app_assoc. etransitivity; [apply Permutation_app_head; apply Permutation_app_comm|].
                cbn [app]. rewrite !app_assoc. apply Permutation_app_tail. exact K3.
             ++ rewrite ?app_nil_r, K4, !errors_for_app, (errors_for_accepted _ _ Fm), !app_nil_r. reflexivity.
          -- cbn [with_sock sock]. rewrite app_nil_r, <- !app_assoc. f_equal. cbn [app]. now apply (skipn_found b _ _ rest).
        * split; [exact I|]. exists (C ++ firstn b (sock ss)). split.
          -- apply good_with_sock. rewrite !app_nil_r. now apply good_file_all.
          -- cbn [with_sock sock]. rewrite app_nil_r, <- app_assoc. now rewrite firstn_skipn.
    - (* WaitSignal *)
      destruct (q_signals ss) as [|m0 t] eqn:Eq.
      + unfold scan in E. destruct (split_first _ _) as [[bef m]|] eqn:SF; injection E as <- <- <-;
          cbn [route_ok res_of_opt sig_of call_of resp_of errs_of op_arrivals].
        * destruct (split_first_some _ _ _ _ SF) as (rest & Ef & Fb & Am).
          split; [exact Am|]. exists (C ++ bef ++ [m]).
          assert (Fm : filter m = true) by (unfold accepted_signal in Am; now apply andb_true_iff in Am).
          split.
          -- apply good_with_sock. pose proof (good_file_all ss C rs rc rr es bef G) as [K1 K2 K3 K4].
             constructor; rewrite ?app_nil_r, ?filter_app, ?filter_one.
             ++ rewrite Am. rewrite filter_app, (filter_none _ _ Fb), app_nil_r in K1.
                destruct (file_all_parts bef ss) as (P1 & _). rewrite P1, Eq, (filter_none _ _ Fb) in *. cbn [app] in *.
                rewrite app_nil_r in *. now rewrite K1.
             ++ rewrite (asig_not_acall _ Am), app_nil_r. now rewrite K2, filter_app.
             ++ rewrite (asig_not_aresp _ Am), app_nil_r. now rewrite filter_app in K3.
             ++ rewrite ?app_nil_r, K4, !errors_for_app, (errors_for_accepted _ _ Fm), !app_nil_r. reflexivity.
          -- cbn [with_sock sock]. rewrite app_nil_r, <- !app_assoc. f_equal. cbn [app]. now apply (skipn_found b _ _ rest).
        * split; [exact I|]. exists (C ++ firstn b (sock ss)). split.
          -- apply good_with_sock. rewrite !app_nil_r. now apply good_file_all.
          -- cbn [with_sock sock]. rewrite app_nil_r, <- app_assoc. now rewrite firstn_skipn.
      + injection E as <- <- <-; cbn [route_ok sig_of call_of resp_of errs_of op_arrivals].
        split; [now apply (in_filter_of_app _ _ _ _ _ H1)|]. exists C. rewrite !app_nil_r. split; [|reflexivity].
        constructor; cbn; try assumption. now rewrite <- app_assoc.
    - (* WaitCall *)
      destruct (q_calls ss) as [|m0 t] eqn:Eq.
      + unfold scan in E. destruct (split_first _ _) as [[bef m]|] eqn:SF; injection E as <- <- <-;
          cbn [route_ok res_of_opt sig_of call_of resp_of errs_of op_arrivals].
        * destruct (split_first_some _ _ _ _ SF) as (rest & Ef & Fb & Am).
          split; [exact Am|]. exists (C ++ bef ++ [m]).
          assert (Fm : filter m = true) by (unfold accepted_call in Am; now apply andb_true_iff in Am).
          split.
          -- apply good_with_sock. pose proof (good_file_all ss C rs rc rr es bef G) as [K1 K2 K3 K4].
             constructor; rewrite ?app_nil_r, ?filter_app, ?filter_one.
             ++ rewrite (acall_not_asig _ Am), app_nil_r. now rewrite K1, filter_app.
             ++ rewrite Am. rewrite filter_app, (filter_none _ _ Fb), app_nil_r in K2.
                destruct (file_all_parts bef ss) as (_ & P2 & _). rewrite P2, Eq, (filter_none _ _ Fb) in *. cbn [app] in *.
                rewrite app_nil_r in *. now rewrite K2.
             ++ rewrite (acall_not_aresp _ Am), app_nil_r. now rewrite filter_app in K3.
             ++ rewrite ?app_nil_r, K4, !errors_for_app, (errors_for_accepted _ _ Fm), !app_nil_r. reflexivity.
          -- cbn [with_sock sock]. rewrite app_nil_r, <- !app_assoc. f_equal. cbn [app]. now apply (skipn_found b _ _ rest).
        * split; [exact I|]. exists (C ++ firstn b (sock ss)). split.
          -- apply good_with_sock. rewrite !app_nil_r. now apply good_file_all.
          -- cbn [with_sock sock]. rewrite app_nil_r, <- app_assoc. now rewrite firstn_skipn.
      + injection E as <- <- <-; cbn [route_ok sig_of call_of resp_of errs_of op_arrivals].
        split; [now apply (in_filter_of_app _ _ _ _ _ H2)|]. exists C. rewrite !app_nil_r. split; [|reflexivity].
        constructor; cbn; try assumption. now rewrite <- app_assoc.
    - (* RefillOnce *)
      destruct (sock ss) as [|m t] eqn:Es; injection E as <- <- <-; cbn [route_ok sig_of call_of resp_of errs_of op_arrivals].
      + split; [exact I|]. exists C. rewrite !app_nil_r. rewrite Es, ?app_nil_r. auto.
      + split; [exact I|]. exists (C ++ [m]). rewrite !app_nil_r. split.
        * apply good_with_sock. apply (good_file_all ss C rs rc rr es [m] G).
        * cbn [with_sock sock]. now rewrite <- app_assoc.
    - (* RefillAll *)
      injection E as <- <- <-; cbn [route_ok sig_of call_of resp_of errs_of op_arrivals app].
      split; [exact I|]. exists (C ++ sock ss). rewrite !app_nil_r. split.
      + apply good_with_sock. now apply good_file_all.
      + reflexivity.
  Qed.

  (** * Whole runs *)
  Fixpoint sigs_out (ops : list op) (outs : list (res * list emsg)) : list rmsg :=
    match ops, outs with o :: ops', (r, _) :: outs' => sig_of o r ++ sigs_out ops' outs' | _, _ => [] end.
  Fixpoint calls_out (ops : list op) (outs : list (res * list emsg)) : list rmsg :=
    match ops, outs with o :: ops', (r, _) :: outs' => call_of o r ++ calls_out ops' outs' | _, _ => [] end.
  Fixpoint resps_out (ops : list op) (outs : list (res * list emsg)) : list rmsg :=
    match ops, outs with o :: ops', (r, _) :: outs' => resp_of o r ++ resps_out ops' outs' | _, _ => [] end.
  Fixpoint errors_out (outs : list (res * list emsg)) : list emsg :=
    match outs with (r, e) :: outs' => errs_of r e ++ errors_out outs' | [] => [] end.
  Fixpoint routes_ok (ops : list op) (outs : list (res * list emsg)) : Prop :=
    match ops, outs with o :: ops', (r, _) :: outs' => route_ok o r /\ routes_ok ops' outs' | _, _ => True end.

  Lemma run_good ops : forall ss C rs rc rr es, good ss C rs rc rr es ->
    let outs := fst (srun_from filter ops ss) in let ss' := snd (srun_from filter ops ss) in
    routes_ok ops outs /\
    exists C', good ss' C' (rs ++ sigs_out ops outs) (rc ++ calls_out ops outs) (rr ++ resps_out ops outs) (es ++ errors_out outs)
               /\ C' ++ sock ss' = C ++ sock ss ++ arrivals ops.
  Proof.
    induction ops as [|o ops IH]; intros ss C rs rc rr es G; cbn [srun_from].
    - cbn. split; [exact I|]. exists C. rewrite !app_nil_r. auto.
    - destruct (sstep filter o ss) as [[r e] ss1] eqn:ES.
      destruct (step_good _ _ _ _ _ _ _ _ _ _ G ES) as (Ro & C1 & G1 & E1).
      specialize (IH ss1 C1 _ _ _ _ G1). destruct (srun_from filter ops ss1) as [rs' ss'] eqn:ER. cbn [fst snd] in *.
      destruct IH as (Ro' & C' & G' & E'). split; [split; assumption|].
      exists C'. cbn [sigs_out calls_out resps_out errors_out]. rewrite !app_assoc. split; [exact G'|].
      rewrite E', app_assoc, E1, arrivals_cons. now rewrite <- !app_assoc.
  Qed.

  (** the statement for runs from the empty state *)
  Theorem spec_consequences ops :
    let outs := fst (srun filter ops) in let ss := snd (srun filter ops) in
    exists C, C ++ sock ss = arrivals ops
      /\ sigs_out ops outs ++ q_signals ss = List.filter asig C
      /\ calls_out ops outs ++ q_calls ss = List.filter acall C
      /\ Permutation (resps_out ops outs ++ pending ss) (List.filter aresp C)
      /\ routes_ok ops outs
      /\ errors_out outs = map unknown_method (List.filter (rejected_call filter) C).
  Proof.
    assert (G0 : good sstate0 [] [] [] [] []) by (constructor; reflexivity).
    destruct (run_good ops _ _ _ _ _ _ G0) as (Ro & C & [K1 K2 K3 K4] & E). cbn [app] in *.
    exists C. auto 10.
  Qed.

  (** every accepted message (of a type the wire can carry) belongs to exactly one class *)
  Lemma accepted_partition C : Forall valid_msg C ->
    Permutation (List.filter filter C) (List.filter asig C ++ List.filter acall C ++ List.filter aresp C).
  Proof.
    induction 1 as [|m C [Vk _] _ IH]; [constructor|]. cbn [List.filter].
    unfold accepted_signal, accepted_call, accepted_response. destruct (filter m) eqn:F; cbn [andb]; [|exact IH].
    destruct (r_kind m) eqn:K; cbn [kind_eqb is_response]; try congruence.
    - cbn [app]. etransitivity; [apply perm_skip, IH|]. apply Permutation_middle.
    - cbn [app]. etransitivity; [apply perm_skip, IH|].
      rewrite app_assoc. etransitivity; [apply Permutation_middle|]. now rewrite <- app_assoc.
    - cbn [app]. etransitivity; [apply perm_skip, IH|].
      rewrite app_assoc. etransitivity; [apply Permutation_middle|]. now rewrite <- app_assoc.
    - cbn [app]. now apply perm_skip.
  Qed.

  Lemma perm_six {A} (a1 a2 a3 q1 q2 q3 : list A) :
    Permutation (a1 ++ a2 ++ a3 ++ q1 ++ q2 ++ q3) ((a1 ++ q1) ++ (a2 ++ q2) ++ (a3 ++ q3)).
  Proof.
    rewrite <- !app_assoc. apply Permutation_app_head.
    etransitivity; [apply Permutation_app_head, Permutation_app_swap_app|].
    etransitivity; [apply Permutation_app_swap_app|].
    apply Permutation_app_head, Permutation_app_head. apply Permutation_app_swap_app.
  Qed.

  (** * The statement for the model of RpcConn *)
  Theorem rpc_exactly_once ops :
    Forall valid_msg (arrivals ops) -> distinct_reply_serials (arrivals ops) ->
    exists outs st' C,
      run filter ops = Ok (outs, st')
      (* C: the messages read from the socket, the rest is still unread *)
      /\ C ++ avail st' = arrivals ops
      (* signals and calls come out in arrival order *)
      /\ sigs_out ops outs ++ signals st' = List.filter asig C
      /\ calls_out ops outs ++ calls st' = List.filter acall C
      (* replies and errors: each handed out once or still waiting *)
      /\ Permutation (resps_out ops outs ++ map snd (responses st')) (List.filter aresp C)
      (* a message only comes out of an operation that asks for it (reply: by its reply serial) *)
      /\ routes_ok ops outs
      (* all in all: the accepted messages read so far = handed out ++ waiting, each exactly once;
         in particular a rejected message never comes out *)
      /\ Permutation (sigs_out ops outs ++ calls_out ops outs ++ resps_out ops outs
                      ++ signals st' ++ calls st' ++ map snd (responses st'))
                     (List.filter filter C)
      (* the errors written to the wire or returned by refill_all: one per rejected call, in order *)
      /\ errors_out outs = map unknown_method (List.filter (rejected_call filter) C).
  Proof.
    intros V N. destruct (refinement filter ops V N) as (st' & E & (Rs & Rc & Rp & Ra & Rk)).
    destruct (spec_consequences ops) as (C & EC & K1 & K2 & K3 & Ro & K4).
    exists (fst (srun filter ops)), st', C. rewrite Rs, Rc, Rp, Ra.
    split; [exact E|]. split; [exact EC|]. split; [exact K1|]. split; [exact K2|]. split; [exact K3|].
    split; [exact Ro|]. split; [|exact K4].
    assert (VC : Forall valid_msg C).
    { rewrite <- EC in V. apply Forall_app in V. apply V. }
    etransitivity; [apply perm_six|]. rewrite K1, K2.
    etransitivity; [|symmetry; apply (accepted_partition C VC)].
    apply Permutation_app_head, Permutation_app_head. exact K3.
  Qed.

  (** the error is addressed to the caller *)
  Lemma unknown_method_addressed call :
    e_reply (unknown_method call) = r_serial call /\ e_dest (unknown_method call) = r_sender call
    /\ e_name (unknown_method call) = str_unknown_method.
  Proof. repeat split. Qed.
End Consequences.
