(** Conn/Recv.v - executable model of the receive path of rustbus
    (rustbus/src/connection/ll_conn.rs: IncomingBuffer, RecvConn; the framing part of
    rustbus/src/wire/unmarshal.rs) together with a model of the kernel side of an AF_UNIX stream
    socket (DESIGN.md section 4).

    Bytes are [N]; a descriptor is an identity in [N].  The decoding of the header-field array is a
    Section variable ([decode_fields]): C09 is about framing, the field decoder is C06's subject. *)
From RB Require Import Base.Prelude.

Definition fd := N.

(** Error variants that the code under study matches on (connection::Error::TimedOut,
    ConnectionClosed, UnmarshalError::NotEnoughBytes), everything else is [EOther].  [EBlocked] is a
    model artefact: the call does not return within the given schedule (blocking read, no data). *)
Inductive err := ENotEnoughBytes | ETimedOut | EConnectionClosed | EOther | EBlocked.
Inductive result (A : Type) := ROk (a : A) | RErr (e : err).
Arguments ROk {A} a.
Arguments RErr {A} e.

Inductive endian := LE | BE.

(** * Kernel side: a queue of segments, one per sendmsg of the peer, each with its SCM_RIGHTS *)
Definition seg := (list N * list fd)%type.
Definition kq := list seg.

(* sendmsg of the peer. A zero-length write on a stream socket queues nothing, not even the rights. *)
Definition kwrite (q : kq) (bs : list N) (fds : list fd) : kq :=
  match bs with [] => q | _ :: _ => q ++ [(bs, fds)] end.

(* bytes queued *)
Fixpoint kavail (q : kq) : N :=
  match q with [] => 0 | (bs, _) :: q' => len bs + kavail q' end.

(* Linux (unix_stream_read_generic): one recvmsg may run from descriptor-less segments into a segment
   that carries rights, but it stops at the end of the segment whose rights it has just handed out.
   [klimit] is the number of bytes one recvmsg can return at most. *)
Fixpoint klimit (q : kq) : N :=
  match q with
  | [] => 0
  | (bs, []) :: q' => len bs + klimit q'
  | (bs, _ :: _) :: _ => len bs
  end.

(* recvmsg returning exactly [k] bytes: the rights of a segment are handed out with its first byte;
   a partly consumed segment stays queued without rights. *)
Fixpoint krecv (q : kq) (k : N) : list N * list fd * kq :=
  match q with
  | [] => ([], [], [])
  | (bs, fds) :: q' =>
    if k =? 0 then ([], [], q)
    else if k <? len bs then (firstnN k bs, fds, (skipnN k bs, []) :: q')
    else let '(b2, f2, q2) := krecv q' (k - len bs) in (bs ++ b2, fds ++ f2, q2)
  end.

(* recvmsg with an EMPTY buffer on a non-empty queue: returns 0 bytes and nevertheless detaches the
   rights of the head segment (observed on Linux 6.18; this is what made read_once on a complete
   buffer lose descriptors before the fix of D17). *)
Definition krecv0 (q : kq) : list fd * kq :=
  match q with
  | [] => ([], [])
  | (bs, fds) :: q' => (fds, (bs, []) :: q')
  end.

(** What the kernel does on one recvmsg, chosen by the environment:
    [KDeliver k]  it returns min(k, request, queued) bytes, at least one; when nothing is queued the
                  call reports EAGAIN (non-blocking) / the wait ends without data (timeout);
    [KAgain]      EAGAIN although the call was made (receive timeout expired in the kernel);
    [KTimeUp]     the clock check of the caller ([calc_timeout_left]) fails before the read;
    [KArrive]     the peer's next sendmsg lands while the call is in progress. *)
Inductive kchoice := KDeliver (k : N) | KAgain | KTimeUp | KArrive (bs : list N) (fds : list fd).

(* control buffer of RecvConn: cmsg_space!([RawFd; MAX_FDS_PER_SENDMSG]); rights beyond it are cut
   off by the kernel (MSG_CTRUNC) *)
Definition cmsg_cap : N := 253.
Definition MAX_ARRAY_LEN : N := 67108864.      (* wire.rs: 1 << 26 *)
Definition MAX_MESSAGE_LEN : N := 134217728.   (* wire.rs: 1 << 27 *)
Definition HEADER_LEN : N := 12.               (* wire/unmarshal.rs *)

(** * Client side *)

(* ll_conn.rs: struct RecvConn { msg_buf_in: IncomingBuffer { buf, filled }, fds_in } *)
Record rstate := { buf : list N; filled : N; fds_in : list fd }.
Definition rstate0 : rstate := {| buf := []; filled := 0; fds_in := [] |}.

(* IncomingBuffer::reserve *)
Definition reserve (b : list N) (new_len : N) : list N :=
  if len b <? new_len then b ++ zeros (new_len - len b) else b.

(* IncomingBuffer::read: the closure writes [data] into buf[filled..] *)
Definition buf_write (b : list N) (at_ : N) (data : list N) : list N :=
  firstnN at_ b ++ data ++ skipnN (at_ + len data) b.

(* IncomingBuffer::peek *)
Definition peek (st : rstate) : list N := firstnN (filled st) (buf st).

(* wire/util.rs parse_u32 *)
Definition parse_u32 (l : list N) (bo : endian) : result N :=
  match l with
  | b0 :: b1 :: b2 :: b3 :: _ =>
    ROk (match bo with
         | LE => b0 + b1 * 256 + b2 * 65536 + b3 * 16777216
         | BE => b3 + b2 * 256 + b1 * 65536 + b0 * 16777216
         end)
  | _ => RErr ENotEnoughBytes
  end.

(* wire/unmarshal.rs struct Header (version is checked to be 1 and not kept here) *)
Record header := { h_bo : endian; h_typ : N; h_flags : N; h_body_len : N; h_serial : N }.

(* wire/unmarshal.rs unmarshal_header, cursor at offset 0 *)
Definition unmarshal_header (p : list N) : result header :=
  if len p <? HEADER_LEN then RErr ENotEnoughBytes else
  match p with
  | b0 :: b1 :: b2 :: b3 :: rest =>
    match (if b0 =? 108 then Some LE else if b0 =? 66 then Some BE else None) with
    | None => RErr EOther                                        (* InvalidByteOrder *)
    | Some bo =>
      if negb ((1 <=? b1) && (b1 <=? 4)) then RErr EOther else   (* InvalidMessageType *)
      if negb (b3 =? 1) then RErr EOther else                    (* InvalidProtocolVersion *)
      match parse_u32 rest bo with
      | RErr e => RErr e
      | ROk body_len =>
        match parse_u32 (skipnN 4 rest) bo with
        | RErr e => RErr e
        | ROk serial =>
          if serial =? 0 then RErr EOther                         (* InvalidSerial *)
          else ROk {| h_bo := bo; h_typ := b1; h_flags := b2; h_body_len := body_len; h_serial := serial |}
        end
      end
    end
  | _ => RErr ENotEnoughBytes
  end.

(* wire/util.rs check_array_len *)
Definition check_array_len (n : N) : result N :=
  if MAX_ARRAY_LEN <? n then RErr EOther else ROk n.

(* the padding computation written twice in the Rust (bytes_needed_for_current_message, align_offset) *)
Definition pad8 (n : N) : N := let p := 8 - n mod 8 in if p =? 8 then 0 else p.

(* RecvConn::bytes_needed_for_current_message, the part after the `len() < 16` test, as a function
   of the peeked bytes *)
Definition needed_of (p : list N) : result N :=
  match unmarshal_header p with
  | RErr e => RErr e
  | ROk h =>
    match parse_u32 (skipnN HEADER_LEN p) (h_bo h) with
    | RErr e => RErr e
    | ROk hfl =>
      match check_array_len hfl with
      | RErr e => RErr e
      | ROk hfl =>
        let complete_header_size := HEADER_LEN + hfl + 4 in
        let bytes_needed := complete_header_size + pad8 complete_header_size + h_body_len h in
        if MAX_MESSAGE_LEN <? bytes_needed then RErr EOther (* MessageTooLong *) else ROk bytes_needed
      end
    end
  end.

(* RecvConn::bytes_needed_for_current_message *)
Definition bytes_needed (st : rstate) : result N :=
  if filled st <? 16 then ROk 16 else needed_of (peek st).

(* RecvConn::buffer_contains_whole_message *)
Definition buffer_contains_whole_message (st : rstate) : result bool :=
  if filled st <? 16 then ROk false else
  match bytes_needed st with
  | RErr ENotEnoughBytes => ROk false
  | RErr e => RErr e
  | ROk n => ROk (n <=? filled st)
  end.

(* RecvConn::refill_buffer(max_buffer_size, timeout): reserve, one recvmsg into buf[filled..],
   rights appended to fds_in.  [c] is the kernel's choice for this recvmsg (KDeliver / KAgain). *)
Definition refill_buffer (st : rstate) (q : kq) (max_buffer_size : N) (c : kchoice)
  : result unit * rstate * kq :=
  let b := reserve (buf st) max_buffer_size in
  let st1 := {| buf := b; filled := filled st; fds_in := fds_in st |} in
  let req := len b - filled st in
  match c with
  | KDeliver k =>
    if kavail q =? 0 then (RErr ETimedOut, st1, q)            (* EAGAIN -> Error::TimedOut *)
    else if req =? 0 then
      (* zero-length recvmsg: msg.bytes == 0 -> ConnectionClosed, returned BEFORE the cmsg loop, so
         the rights the kernel detached are dropped *)
      let '(_, q') := krecv0 q in (RErr EConnectionClosed, st1, q')
    else
      let k' := N.max 1 (N.min k (N.min req (kavail q))) in
      let '(data, rights, q') := krecv q k' in
      if len data =? 0 then (RErr EConnectionClosed, st1, q')
      else (ROk tt,
            {| buf := buf_write b (filled st) data;
               filled := filled st + len data;
               fds_in := fds_in st ++ firstnN cmsg_cap rights |},
            q')
  | _ => (RErr ETimedOut, st1, q)
  end.

(* apply the arrivals that are listed in a choice list (used for the choices a call did not consume) *)
Fixpoint arrivals (q : kq) (cs : list kchoice) : kq :=
  match cs with
  | [] => q
  | KArrive bs fds :: cs' => arrivals (kwrite q bs fds) cs'
  | _ :: cs' => arrivals q cs'
  end.

(* RecvConn::read_whole_message: `while !self.buffer_contains_whole_message()? { refill_buffer(
   bytes_needed()?, calc_timeout_left()?)? }`; one loop iteration per kernel choice. Returns the
   choices not consumed. *)
Fixpoint read_whole_message (cs : list kchoice) (st : rstate) (q : kq)
  : result unit * rstate * kq * list kchoice :=
  match buffer_contains_whole_message st with
  | RErr e => (RErr e, st, q, cs)
  | ROk true => (ROk tt, st, q, cs)
  | ROk false =>
    match cs with
    | [] => (RErr EBlocked, st, q, [])
    | KArrive bs fds :: cs' => read_whole_message cs' st (kwrite q bs fds)
    | c :: cs' =>
      match bytes_needed st with
      | RErr e => (RErr e, st, q, cs')
      | ROk n =>
        match c with
        | KTimeUp => (RErr ETimedOut, st, q, cs')              (* calc_timeout_left *)
        | _ =>
          match refill_buffer st q n c with
          | (ROk _, st', q') => read_whole_message cs' st' q'
          | (RErr e, st', q') => (RErr e, st', q', cs')
          end
        end
      end
    end
  end.

(* RecvConn::read_once (after the fix of D17): nothing is read when a whole message is buffered;
   otherwise one refill_buffer. There is no clock check here: KTimeUp is read as EAGAIN. *)
Fixpoint read_once (cs : list kchoice) (st : rstate) (q : kq)
  : result unit * rstate * kq * list kchoice :=
  match buffer_contains_whole_message st with
  | RErr e => (RErr e, st, q, cs)
  | ROk true => (ROk tt, st, q, cs)
  | ROk false =>
    match cs with
    | [] => (RErr EBlocked, st, q, [])
    | KArrive bs fds :: cs' => read_once cs' st (kwrite q bs fds)
    | c :: cs' =>
      match bytes_needed st with
      | RErr e => (RErr e, st, q, cs')
      | ROk n => let '(r, st', q') := refill_buffer st q n c in (r, st', q', cs')
      end
    end
  end.

Section Decode.
  (** decoding of the header-field array (unmarshal_header_fields after it has cut out the array):
      header -> bytes of the array -> decoded dynamic header.  [None] = any error. *)
  Variable D : Type.
  Variable decode_fields : header -> list N -> option D.

  (* what get_next_message returns: MarshalledMessage {typ, flags (in header), dynheader, body bytes,
     raw_fds} *)
  Record msg := { m_hdr : header; m_dyn : D; m_body : list N; m_fds : list fd }.

  (* wire/unmarshal.rs unmarshal_dynamic_header / unmarshal_header_fields, cursor at offset 12:
     returns the decoded fields and cursor.consumed() *)
  Definition unmarshal_dynamic_header (h : header) (p : list N) : result (D * N) :=
    match parse_u32 (skipnN HEADER_LEN p) (h_bo h) with
    | RErr e => RErr e
    | ROk n =>
      match check_array_len n with
      | RErr e => RErr e
      | ROk hfl =>
        if len p - 16 <? hfl then RErr ENotEnoughBytes else
        match decode_fields h (firstnN hfl (skipnN 16 p)) with
        | None => RErr EOther
        | Some d => ROk (d, 16 + hfl)
        end
      end
    end.

  (* wire/unmarshal.rs unmarshal_next_message (align_offset checks the padding bytes) *)
  Definition unmarshal_next_message (h : header) (d : D) (b : list N) (offset : N) (raw_fds : list fd)
    : result msg :=
    let padding := pad8 offset in
    if len b - offset <? padding then RErr ENotEnoughBytes else
    if negb (forallb (fun x => x =? 0) (firstnN padding (skipnN offset b))) then RErr EOther (* PaddingContainedData *) else
    if h_body_len h =? 0 then ROk {| m_hdr := h; m_dyn := d; m_body := []; m_fds := raw_fds |} else
    let offset := offset + padding in
    if len b - offset <? h_body_len h then RErr ENotEnoughBytes else
    if negb (len b - offset =? h_body_len h) then RErr EOther (* NotAllBytesUsed *) else
    ROk {| m_hdr := h; m_dyn := d; m_body := skipnN offset b; m_fds := raw_fds |}.

  (* the tail of get_next_message once a whole message is buffered, as a function of the buffered
     bytes and the collected descriptors; [None] in the first component = the buffer was not taken *)
  Definition finish (p : list N) (fds : list fd) : result msg * bool :=
    match unmarshal_header p with
    | RErr e => (RErr e, false)
    | ROk h =>
      match unmarshal_dynamic_header h p with
      | RErr e => (RErr e, false)
      | ROk (d, consumed) => (unmarshal_next_message h d p consumed fds, true)
      end
    end.

  (* RecvConn::get_next_message *)
  Definition get_next_message (cs : list kchoice) (st : rstate) (q : kq)
    : result msg * rstate * kq * list kchoice :=
    match read_whole_message cs st q with
    | (RErr e, st1, q1, cs1) => (RErr e, st1, q1, cs1)
    | (ROk _, st1, q1, cs1) =>
      match finish (peek st1) (fds_in st1) with
      | (r, false) => (r, st1, q1, cs1)                 (* `?` before take(): buffer stays as it is *)
      | (r, true) => (r, rstate0, q1, cs1)              (* msg_buf_in.take(), mem::take(fds_in) *)
      end
    end.

  (** * Schedules *)
  Inductive tmo := Nonblock | Timed.      (* Timeout::Nonblock | Timeout::Duration (Infinite: a Timed
                                             call whose choices never give up) *)
  Inductive ev :=
  | PeerWrite (bs : list N) (fds : list fd)
  | GetNext (t : tmo) (cs : list kchoice)
  | ReadOnce (t : tmo) (cs : list kchoice).

  Inductive obs := OMsg (m : msg) | ODone | OErr (e : err).

  Definition obs_of_unit (r : result unit) : obs := match r with ROk _ => ODone | RErr e => OErr e end.
  Definition obs_of_msg (r : result msg) : obs := match r with ROk m => OMsg m | RErr e => OErr e end.

  (* one event: new client state, new kernel queue, what the client saw (nothing for a peer write) *)
  Definition step (e : ev) (st : rstate) (q : kq) : rstate * kq * list obs :=
    match e with
    | PeerWrite bs fds => (st, kwrite q bs fds, [])
    | GetNext _ cs =>
      let '(r, st', q', cs') := get_next_message cs st q in (st', arrivals q' cs', [obs_of_msg r])
    | ReadOnce _ cs =>
      let '(r, st', q', cs') := read_once cs st q in (st', arrivals q' cs', [obs_of_unit r])
    end.

  Fixpoint run_from (sched : list ev) (st : rstate) (q : kq) : rstate * kq * list obs :=
    match sched with
    | [] => (st, q, [])
    | e :: sched' =>
      let '(st1, q1, o1) := step e st q in
      let '(st2, q2, o2) := run_from sched' st1 q1 in
      (st2, q2, o1 ++ o2)
    end.

  Definition run (sched : list ev) : rstate * kq * list obs := run_from sched rstate0 [].

  Definition delivered (os : list obs) : list msg :=
    flat_map (fun o => match o with OMsg m => [m] | _ => [] end) os.

  (** The Linux kernel's choice for a recvmsg of [req] bytes in a non-blocking call when nothing
      else is known: everything queued up to the request, stopping at the end of a segment whose
      rights are handed out.  Used to run the model beside the implementation. *)
  Definition linux_choice (q : kq) (req : N) : kchoice := KDeliver (N.min req (klimit q)).

  (* choices for one whole call under [linux_choice]: a call makes at most [fuel] reads *)
  Fixpoint linux_choices (fuel : nat) (st : rstate) (q : kq) : list kchoice :=
    match fuel with
    | O => []
    | S fuel' =>
      match buffer_contains_whole_message st, bytes_needed st with
      | ROk false, ROk n =>
        let c := linux_choice q (len (reserve (buf st) n) - filled st) in
        match refill_buffer st q n c with
        | (ROk _, st', q') => c :: linux_choices fuel' st' q'
        | _ => [c]
        end
      | _, _ => []
      end
    end.
End Decode.

Arguments m_hdr {D} m.
Arguments m_dyn {D} m.
Arguments m_body {D} m.
Arguments m_fds {D} m.
Arguments OMsg {D} m.
Arguments ODone {D}.
Arguments OErr {D} e.
