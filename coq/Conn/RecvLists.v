(** Conn/RecvLists.v - list lemmas (firstnN / skipnN / annotated byte streams) used by the proofs
    about the receive path (C09). *)
From RB Require Import Base.Prelude Conn.Recv.

Lemma len_nat {A} (l : list A) : N.to_nat (len l) = length l.
Proof. unfold len. apply Nat2N.id. Qed.

Lemma firstnN_0 {A} (l : list A) : firstnN 0 l = [].
Proof. reflexivity. Qed.
Lemma skipnN_0 {A} (l : list A) : skipnN 0 l = l.
Proof. reflexivity. Qed.
Lemma firstnN_nil {A} n : firstnN n (@nil A) = [].
Proof. unfold firstnN. apply firstn_nil. Qed.
Lemma skipnN_nil {A} n : skipnN n (@nil A) = [].
Proof. unfold skipnN. apply skipn_nil. Qed.

Lemma firstnN_all {A} n (l : list A) : len l <= n -> firstnN n l = l.
Proof. intros H. unfold firstnN. apply firstn_all2. unfold len in H. lia. Qed.
Lemma skipnN_all {A} n (l : list A) : len l <= n -> skipnN n l = [].
Proof. intros H. unfold skipnN. apply skipn_all2. unfold len in H. lia. Qed.

Lemma firstnN_app_le {A} n (a b : list A) : n <= len a -> firstnN n (a ++ b) = firstnN n a.
Proof.
  intros H. unfold firstnN. rewrite firstn_app.
  replace (N.to_nat n - length a)%nat with 0%nat by (unfold len in H; lia).
  cbn [firstn]. apply app_nil_r.
Qed.
Lemma skipnN_app_le {A} n (a b : list A) : n <= len a -> skipnN n (a ++ b) = skipnN n a ++ b.
Proof.
  intros H. unfold skipnN. rewrite skipn_app.
  replace (N.to_nat n - length a)%nat with 0%nat by (unfold len in H; lia).
  reflexivity.
Qed.
Lemma firstnN_app_ge {A} n (a b : list A) : firstnN (len a + n) (a ++ b) = a ++ firstnN n b.
Proof.
  unfold firstnN. rewrite firstn_app. rewrite firstn_all2 by (unfold len; lia).
  f_equal. f_equal. unfold len. lia.
Qed.
Lemma skipnN_app_ge {A} n (a b : list A) : skipnN (len a + n) (a ++ b) = skipnN n b.
Proof.
  unfold skipnN. rewrite skipn_app. rewrite skipn_all2 by (unfold len; lia).
  cbn [app]. f_equal. unfold len. lia.
Qed.

Lemma firstnN_firstnN {A} a b (l : list A) : firstnN a (firstnN b l) = firstnN (N.min a b) l.
Proof. unfold firstnN. rewrite firstn_firstn. f_equal. lia. Qed.
Lemma skipnN_skipnN {A} a b (l : list A) : skipnN a (skipnN b l) = skipnN (b + a) l.
Proof.
  unfold skipnN. replace (N.to_nat (b + a)) with (N.to_nat b + N.to_nat a)%nat by lia.
  revert l. induction (N.to_nat b) as [|n IH]; intros l; [reflexivity|].
  destruct l as [|x l]; cbn [skipn plus]; [apply skipn_nil|apply IH].
Qed.
Lemma firstnN_add {A} a b (l : list A) : firstnN (a + b) l = firstnN a l ++ firstnN b (skipnN a l).
Proof.
  unfold firstnN, skipnN. replace (N.to_nat (a + b)) with (N.to_nat a + N.to_nat b)%nat by lia.
  revert l. induction (N.to_nat a) as [|n IH]; intros l; [reflexivity|].
  destruct l as [|x l]; cbn [firstn skipn plus app].
  - now rewrite firstn_nil.
  - now rewrite IH.
Qed.
Lemma firstnN_map {A B} (f : A -> B) n l : firstnN n (map f l) = map f (firstnN n l).
Proof. unfold firstnN. apply firstn_map. Qed.
Lemma skipnN_map {A B} (f : A -> B) n l : skipnN n (map f l) = map f (skipnN n l).
Proof. unfold skipnN. apply skipn_map. Qed.
Lemma firstnN_len_le {A} n (l : list A) : n <= len l -> len (firstnN n l) = n.
Proof. intros. rewrite len_firstnN. lia. Qed.

Lemma firstnN_prefix_app {A} n (l a b : list A) :
  skipnN n l = a ++ b -> n <= len l -> forall k, k <= len a -> firstnN (n + k) l = firstnN n l ++ firstnN k a.
Proof.
  intros H Hn k Hk. rewrite firstnN_add. f_equal. rewrite H. now apply firstnN_app_le.
Qed.

(** zeros *)
Lemma firstnN_reserve b n m : m <= len b -> firstnN m (reserve b n) = firstnN m b.
Proof. intros H. unfold reserve. destruct (len b <? n); [|reflexivity]. now apply firstnN_app_le. Qed.
Lemma len_reserve b n : len (reserve b n) = N.max (len b) n.
Proof.
  unfold reserve. destruct (N.ltb_spec (len b) n) as [H|H].
  - rewrite len_app, len_zeros. lia.
  - lia.
Qed.
Lemma len_buf_write b a d : a + len d <= len b -> len (buf_write b a d) = len b.
Proof.
  intros H. unfold buf_write. rewrite !len_app, len_firstnN, len_skipnN. lia.
Qed.
Lemma firstnN_buf_write b a d : a <= len b -> firstnN (a + len d) (buf_write b a d) = firstnN a b ++ d.
Proof.
  intros H. unfold buf_write.
  replace a with (len (firstnN a b)) at 1 by (rewrite len_firstnN; lia).
  rewrite firstnN_app_ge. f_equal.
  rewrite firstnN_app_le by lia. now apply firstnN_all.
Qed.

(** * Annotated byte streams: every byte together with the rights that travel with it *)
Definition abyte := (N * list fd)%type.
Definition plain (bs : list N) : list abyte := map (fun b => (b, [])) bs.
Definition annot (bs : list N) (fds : list fd) : list abyte :=
  match bs with [] => [] | b :: bs' => (b, fds) :: plain bs' end.
Definition bytes_of (l : list abyte) : list N := map fst l.
Definition rights_of (l : list abyte) : list fd := concat (map snd l).
Definition flat (q : kq) : list abyte := flat_map (fun s => annot (fst s) (snd s)) q.

Lemma bytes_of_app a b : bytes_of (a ++ b) = bytes_of a ++ bytes_of b.
Proof. apply map_app. Qed.
Lemma rights_of_app a b : rights_of (a ++ b) = rights_of a ++ rights_of b.
Proof. unfold rights_of. now rewrite map_app, concat_app. Qed.
Lemma len_bytes_of l : len (bytes_of l) = len l.
Proof. apply len_map. Qed.
Lemma bytes_of_plain bs : bytes_of (plain bs) = bs.
Proof. unfold bytes_of, plain. rewrite map_map. cbn [fst]. apply map_id. Qed.
Lemma rights_of_plain bs : rights_of (plain bs) = [].
Proof. induction bs as [|b bs IH]; [reflexivity|]. unfold rights_of in *. cbn [plain map snd concat app]. exact IH. Qed.
Lemma len_plain bs : len (plain bs) = len bs.
Proof. apply len_map. Qed.
Lemma annot_nil_fds bs : annot bs [] = plain bs.
Proof. destruct bs; reflexivity. Qed.
Lemma bytes_of_annot bs fds : bytes_of (annot bs fds) = bs.
Proof. destruct bs as [|b bs]; [reflexivity|]. cbn [annot bytes_of map fst]. f_equal. apply bytes_of_plain. Qed.
Lemma len_annot bs fds : len (annot bs fds) = len bs.
Proof. rewrite <- (bytes_of_annot bs fds) at 2. now rewrite len_bytes_of. Qed.
Lemma rights_of_annot bs fds : bs <> [] -> rights_of (annot bs fds) = fds.
Proof.
  destruct bs as [|b bs]; [congruence|]. intros _. unfold rights_of. cbn [annot map snd concat].
  fold (rights_of (plain bs)). rewrite rights_of_plain. apply app_nil_r.
Qed.
Lemma plain_app a b : plain (a ++ b) = plain a ++ plain b.
Proof. apply map_app. Qed.
Lemma annot_split bs fds k : 0 < k -> annot bs fds = annot (firstnN k bs) fds ++ plain (skipnN k bs).
Proof.
  intros Hk. destruct bs as [|b bs]; [now rewrite firstnN_nil, skipnN_nil|].
  unfold firstnN, skipnN. destruct (N.to_nat k) as [|n] eqn:E; [lia|].
  cbn [firstn skipn annot app]. f_equal. rewrite <- plain_app. now rewrite firstn_skipn.
Qed.

Lemma len_rights_firstn (l : list abyte) n : (length (rights_of (firstn n l)) <= length (rights_of l))%nat.
Proof.
  revert n. induction l as [|x l IH]; intros n; [now rewrite firstn_nil|].
  destruct n; [cbn; lia|]. unfold rights_of in *. cbn [firstn map concat]. rewrite !app_length.
  specialize (IH n). lia.
Qed.
Lemma len_rights_skipn (l : list abyte) n : (length (rights_of (skipn n l)) <= length (rights_of l))%nat.
Proof.
  revert n. induction l as [|x l IH]; intros n; [now rewrite skipn_nil|].
  destruct n; [cbn [skipn]; lia|]. unfold rights_of in *. cbn [skipn map concat]. rewrite app_length.
  specialize (IH n). lia.
Qed.
Lemma len_rights_sub (l : list abyte) a b : len (rights_of (firstnN a (skipnN b l))) <= len (rights_of l).
Proof.
  unfold len, firstnN, skipnN.
  pose proof (len_rights_firstn (skipn (N.to_nat b) l) (N.to_nat a)).
  pose proof (len_rights_skipn l (N.to_nat b)). lia.
Qed.

(** * The kernel queue seen as one annotated stream *)
Definition segs_ok (q : kq) : Prop := Forall (fun s => fst s <> []) q.

Lemma flat_app a b : flat (a ++ b) = flat a ++ flat b.
Proof. unfold flat. now rewrite flat_map_app. Qed.
Lemma flat_cons bs fds q : flat ((bs, fds) :: q) = annot bs fds ++ flat q.
Proof. reflexivity. Qed.

Lemma kavail_flat q : kavail q = len (flat q).
Proof.
  induction q as [|[bs fds] q IH]; [reflexivity|].
  cbn [kavail]. rewrite flat_cons, len_app, len_annot. now rewrite IH.
Qed.

Lemma flat_kwrite q bs fds : flat (kwrite q bs fds) = flat q ++ annot bs fds.
Proof.
  destruct bs as [|b bs]; cbn [kwrite annot].
  - now rewrite app_nil_r.
  - rewrite flat_app. cbn [flat flat_map fst snd annot]. now rewrite app_nil_r.
Qed.
Lemma segs_ok_kwrite q bs fds : segs_ok q -> segs_ok (kwrite q bs fds).
Proof.
  intros H. destruct bs as [|b bs]; cbn [kwrite]; [exact H|].
  apply Forall_app. split; [exact H|]. constructor; [cbn; congruence|constructor].
Qed.

Lemma flat_nil_inv q : segs_ok q -> flat q = [] -> q = [].
Proof.
  intros H E. destruct q as [|[bs fds] q]; [reflexivity|].
  inversion H as [|? ? Hne _]; subst. cbn [fst] in Hne. rewrite flat_cons in E.
  destruct bs; [congruence|discriminate].
Qed.

Lemma krecv_spec q : segs_ok q -> forall k d r q', k <= kavail q -> krecv q k = (d, r, q') ->
  d = bytes_of (firstnN k (flat q)) /\ r = rights_of (firstnN k (flat q))
  /\ flat q' = skipnN k (flat q) /\ segs_ok q'.
Proof.
  induction q as [|[bs fds] q IH]; intros Hq k d r q' Hk E.
  - cbn in E. injection E as <- <- <-. cbn [kavail] in Hk. assert (k = 0) by lia. subst. repeat split; constructor.
  - inversion Hq as [|? ? Hne Hq']; subst. cbn [fst] in Hne.
    cbn [krecv] in E. cbn [kavail] in Hk. rewrite flat_cons.
    destruct (N.eqb_spec k 0) as [->|Hk0].
    { injection E as <- <- <-. repeat split; exact Hq. }
    destruct (N.ltb_spec k (len bs)) as [Hlt|Hge].
    + injection E as <- <- <-.
      rewrite firstnN_app_le by (rewrite len_annot; lia).
      rewrite skipnN_app_le by (rewrite len_annot; lia).
      rewrite (annot_split bs fds k) by lia.
      assert (Hl : len (annot (firstnN k bs) fds) = k) by (rewrite len_annot, len_firstnN; lia).
      rewrite firstnN_app_le by lia. rewrite (firstnN_all k (annot (firstnN k bs) fds)) by lia.
      replace k with (len (annot (firstnN k bs) fds) + 0) at 5 by lia.
      rewrite skipnN_app_ge, skipnN_0.
      assert (Hfn : firstnN k bs <> []).
      { intros E. apply (f_equal len) in E. rewrite len_firstnN, len_nil in E. lia. }
      repeat split.
      * now rewrite bytes_of_annot.
      * now rewrite rights_of_annot.
      * rewrite flat_cons, annot_nil_fds. reflexivity.
      * constructor; [|exact Hq']. cbn [fst]. intros E. apply (f_equal len) in E.
        rewrite len_skipnN, len_nil in E. lia.
    + destruct (krecv q (k - len bs)) as [[b2 f2] q2] eqn:E2. injection E as <- <- <-.
      destruct (IH Hq' (k - len bs) b2 f2 q2 ltac:(lia) E2) as (Hb & Hf & Hfl & Hs).
      replace k with (len (annot bs fds) + (k - len bs)) at 1 2 3 by (rewrite len_annot; lia).
      rewrite firstnN_app_ge, skipnN_app_ge, bytes_of_app, rights_of_app, bytes_of_annot, rights_of_annot by exact Hne.
      subst. repeat split; assumption.
Qed.
