(** Non-vacuity for C20: the formatting model computes the strings Rust prints, the hypotheses of
    the theorems are satisfiable, and the Peer handler model runs. *)
From Coq Require Import String Ascii.
From RB Require Import Base.Prelude Conn.DispatchMsg Conn.Peer Conn.PeerProofs.

Fixpoint s2l (s : string) : list N :=
  match s with EmptyString => [] | String a r => N_of_ascii a :: s2l r end.
Local Notation "# s" := (s2l s%string) (at level 1, format "# s").

Example ex_consts : peer_iface = #"org.freedesktop.DBus.Peer" /\ ping_name = #"Ping"
                    /\ get_machine_id_name = #"GetMachineId" /\ machine_id_path = #"/tmp/dbus_machine_uuid".
Proof. vm_compute. repeat split. Qed.

(* {:X}, {:08X}: minimum width, upper case, no truncation *)
Example ex_hex : hex_digits 0 = #"0" /\ hex_digits 255 = #"FF" /\ hex_digits 291 = #"123"
                 /\ hex_min 8 291 = #"00000123" /\ hex_min 4 1193046 = #"123456" /\ hex_min 2 0 = #"00".
Proof. vm_compute. repeat split. Qed.

Example ex_uuid : format_uuid 291 1 1711276032 = #"00000000000001230000000166000000".
Proof. vm_compute. reflexivity. Qed.
Example ex_uuid_max : format_uuid (2 ^ 64 - 1) (2 ^ 32 - 1) (2 ^ 32 - 1) = #"FFFFFFFFFFFFFFFFFFFFFFFFFFFFFFFF".
Proof. vm_compute. reflexivity. Qed.
Example ex_uuid_zero : format_uuid 0 0 0 = #"00000000000000000000000000000000".
Proof. vm_compute. reflexivity. Qed.

(* the 12 bytes 01 02 .. 0c: rand1 little endian from bytes 0..7, rand2 from bytes 8, 9, 1 (!), 11 *)
Definition draw := [1;2;3;4;5;6;7;8;9;10;11;12].
Example ex_rand : rand1_of draw = 578437695752307201 /\ rand2_of draw = 201460233
                  /\ hex_digits (rand1_of draw) = #"807060504030201" /\ hex_digits (rand2_of draw) = #"C020A09".
Proof. vm_compute. repeat split. Qed.

Definition ex_env := mkEnv 1711276032 draw #"4242.0" WriteDone LinkDone true.
Example ex_DrawOK : DrawOK ex_env.
Proof. split; [reflexivity|]. unfold bytes_ok, byte_ok. repeat constructor. Qed.
Example ex_new_id : new_id ex_env = #"08070605040302010C020A0966000000".
Proof. vm_compute. reflexivity. Qed.

Definition empty_fs : fs := fun _ => None.
Example ex_fresh : match get_machine_id ascii_only ex_env empty_fs with
                   | (Ok id, f1) => id = #"08070605040302010C020A0966000000" /\ f1 machine_id_path = Some id
                                    /\ f1 #"/tmp/other" = None
                   | _ => False
                   end.
Proof. vm_compute. repeat split. Qed.

(* a second call with another draw and clock returns the stored id *)
Definition other_env := mkEnv 5 [255;255;255;255;255;255;255;255;255;255;255;255] #"7.3" (WriteFailed (Some [])) LinkFailed false.
Example ex_stable : match get_machine_id ascii_only ex_env empty_fs with
                    | (Ok id, f1) => match get_machine_id ascii_only other_env f1 with
                                     | (Ok id2, _) => id2 = id
                                     | _ => False
                                     end
                    | _ => False
                    end.
Proof. vm_compute. reflexivity. Qed.

(* storing can fail - the disk is full (the temporary file is created, the write fails), or the link
   fails: an error is returned, NO id file is left (and the temporary file is removed if it can be); a
   later call with space available creates a proper id *)
Definition full_env := mkEnv 1 draw #"4242.1" (WriteFailed (Some [])) LinkDone true.
Example ex_write_fails : fst (get_machine_id ascii_only full_env empty_fs) = Err
                         /\ snd (get_machine_id ascii_only full_env empty_fs) machine_id_path = None
                         /\ snd (get_machine_id ascii_only full_env empty_fs) (tmp_path full_env) = None.
Proof. vm_compute. repeat split. Qed.
Example ex_tmp_path : tmp_path full_env = #"/tmp/dbus_machine_uuid.4242.1.tmp".
Proof. vm_compute. reflexivity. Qed.
Example ex_link_fails : fst (get_machine_id ascii_only (mkEnv 1 draw #"1.0" WriteDone LinkFailed false) empty_fs) = Err
                        /\ snd (get_machine_id ascii_only (mkEnv 1 draw #"1.0" WriteDone LinkFailed false) empty_fs) machine_id_path = None.
Proof. vm_compute. repeat split. Qed.
Example ex_after_failure : match get_machine_id ascii_only ex_env (snd (get_machine_id ascii_only full_env empty_fs)) with
                           | (Ok id, _) => id = #"08070605040302010C020A0966000000"
                           | _ => False
                           end.
Proof. vm_compute. reflexivity. Qed.
(* somebody else stored an id between exists() and the link: the link reports AlreadyExists, the other
   id is kept and returned (modelled at the level of create_and_store) *)
Example ex_already_exists :
  let f := fs_write machine_id_path (new_id ex_env) empty_fs in
  fst (create_and_store_machine_uuid (mkEnv 9 draw #"2.0" WriteDone LinkDone true) f) = Ok tt
  /\ snd (create_and_store_machine_uuid (mkEnv 9 draw #"2.0" WriteDone LinkDone true) f) machine_id_path = Some (new_id ex_env).
Proof. vm_compute. repeat split. Qed.

Definition peer_call (member : option str) (iface : option str) : msg :=
  mkMsg MCall (mkDH iface member (Some #"/x") None (Some 77) (Some #":1.9") None None None None) 0 [].

Example ex_ping : match handle_peer_message ascii_only ex_env empty_fs (peer_call (Some ping_name) (Some peer_iface)) with
                  | (Ok (true, [r]), _) => m_typ r = MReply /\ dh_response_serial (m_dh r) = Some 77
                                         /\ dh_destination (m_dh r) = Some #":1.9" /\ m_body r = []
                  | _ => False
                  end.
Proof. vm_compute. repeat split. Qed.
Example ex_get_id : match handle_peer_message ascii_only ex_env empty_fs (peer_call (Some get_machine_id_name) (Some peer_iface)) with
                    | (Ok (true, [r]), f1) => dh_response_serial (m_dh r) = Some 77 /\ dh_destination (m_dh r) = Some #":1.9"
                                            /\ m_body r = [ #"08070605040302010C020A0966000000" ]
                                            /\ f1 machine_id_path = Some #"08070605040302010C020A0966000000"
                    | _ => False
                    end.
Proof. vm_compute. repeat split. Qed.
Example ex_others :
  handle_peer_message ascii_only ex_env empty_fs (peer_call (Some #"Pong") (Some peer_iface)) = (Ok (false, []), empty_fs)
  /\ handle_peer_message ascii_only ex_env empty_fs (peer_call None (Some peer_iface)) = (Ok (false, []), empty_fs)
  /\ handle_peer_message ascii_only ex_env empty_fs (peer_call (Some ping_name) (Some #"org.freedesktop.DBus.Peers")) = (Ok (false, []), empty_fs)
  /\ handle_peer_message ascii_only ex_env empty_fs (peer_call (Some ping_name) None) = (Ok (false, []), empty_fs).
Proof. repeat split. Qed.
Example ex_filter : filter_peer (m_dh (peer_call (Some ping_name) (Some peer_iface))) = true
                    /\ filter_peer (m_dh (peer_call (Some get_machine_id_name) (Some peer_iface))) = true
                    /\ filter_peer (m_dh (peer_call (Some #"ping") (Some peer_iface))) = false
                    /\ filter_peer (m_dh (peer_call (Some ping_name) None)) = false.
Proof. vm_compute. repeat split. Qed.

(* the specification predicates are inhabited, and the utf8 hypothesis has an instance *)
Example ex_IsPing : IsPing (peer_call (Some ping_name) (Some peer_iface)).
Proof. split; [reflexivity|split; reflexivity]. Qed.
Example ex_IsGetMachineId : IsGetMachineId (peer_call (Some get_machine_id_name) (Some peer_iface)).
Proof. split; [reflexivity|split; reflexivity]. Qed.

(* the same headers on a signal, a method return and an error: not calls, not handled, nothing written,
   although filter_peer (header only) accepts the header *)
Definition peer_msg (t : msgtype) (member : str) : msg :=
  mkMsg t (mkDH (Some peer_iface) (Some member) (Some #"/x") None (Some 77) (Some #":1.9") None None None None) 0 [].
Example ex_non_calls :
  handle_peer_message ascii_only ex_env empty_fs (peer_msg MSignal ping_name) = (Ok (false, []), empty_fs)
  /\ handle_peer_message ascii_only ex_env empty_fs (peer_msg MReply ping_name) = (Ok (false, []), empty_fs)
  /\ handle_peer_message ascii_only ex_env empty_fs (peer_msg MError get_machine_id_name) = (Ok (false, []), empty_fs)
  /\ handle_peer_message ascii_only ex_env empty_fs (peer_msg MInvalid get_machine_id_name) = (Ok (false, []), empty_fs)
  /\ filter_peer (m_dh (peer_msg MSignal ping_name)) = true.
Proof. repeat split. Qed.
Example ex_signal_not_peer_call : ~ IsPeerCall (peer_msg MSignal ping_name).
Proof. intros [[H _]|[H _]]; discriminate. Qed.

(* the hypothesis of C20_id_always_32hex is satisfiable in both branches *)
Example ex_env_absent : IdFileOK empty_fs.
Proof. left. reflexivity. Qed.
Definition planted_fs : fs := fs_write machine_id_path (new_id ex_env) empty_fs.
Example ex_env_planted : IdFileOK planted_fs.
Proof. right. exists ex_env. split; [apply ex_DrawOK|reflexivity]. Qed.
(* a handler that panics because storing failed is a reachable state too, and it keeps the invariant *)
Example ex_reach : Reach ascii_only empty_fs (snd (handle_peer_message ascii_only full_env empty_fs (peer_call (Some get_machine_id_name) (Some peer_iface)))).
Proof. apply Reach_step; [apply Reach_refl|]. split; [reflexivity|]. unfold bytes_ok, byte_ok. repeat constructor. Qed.
Example ex_panics : fst (handle_peer_message ascii_only full_env empty_fs (peer_call (Some get_machine_id_name) (Some peer_iface))) = Panic.
Proof. vm_compute. reflexivity. Qed.
Example ex_planted_returned : match get_machine_id ascii_only other_env planted_fs with
                              | (Ok id, _) => id = #"08070605040302010C020A0966000000"
                              | _ => False
                              end.
Proof. vm_compute. reflexivity. Qed.
Example ex_not_peer : ~ IsPeerCall (peer_call (Some #"Pong") (Some peer_iface)).
Proof. intros [[_ [_ H]]|[_ [_ H]]]; discriminate. Qed.
Example ex_utf8_instance : forall s, Forall (fun c => c < 128) s -> ascii_only s = true.
Proof. exact ascii_only_valid. Qed.
Example ex_MachineId : MachineId #"08070605040302010C020A0966000000".
Proof. rewrite <- ex_new_id. apply new_id_machine_id. apply ex_DrawOK. Qed.
