(** Specification and proofs for C20: the machine id is always 32 hexadecimal digits, stays the
    same while the stored id exists, and the Peer interface answers exactly Ping and GetMachineId. *)
From RB Require Import Base.Prelude Conn.DispatchMsg Conn.Peer.

(* ================================================================= specification *)
Definition is_hex_digit (c : N) : Prop :=
  (48 <= c /\ c <= 57) \/ (65 <= c /\ c <= 70) \/ (97 <= c /\ c <= 102).

(** "a 32-digit hexadecimal string" *)
Definition MachineId (s : str) : Prop := len s = 32 /\ Forall is_hex_digit s.

(** the header names Ping resp. GetMachineId of org.freedesktop.DBus.Peer *)
Definition PingHeader (h : dynheader) : Prop :=
  dh_interface h = Some peer_iface /\ dh_member h = Some ping_name.
Definition GetMachineIdHeader (h : dynheader) : Prop :=
  dh_interface h = Some peer_iface /\ dh_member h = Some get_machine_id_name.
Definition PeerHeader (h : dynheader) : Prop := PingHeader h \/ GetMachineIdHeader h.

(** "a call to Ping or GetMachineId on org.freedesktop.DBus.Peer": a message of type method call *)
Definition IsPing (m : msg) : Prop := m_typ m = MCall /\ PingHeader (m_dh m).
Definition IsGetMachineId (m : msg) : Prop := m_typ m = MCall /\ GetMachineIdHeader (m_dh m).
Definition IsPeerCall (m : msg) : Prop := IsPing m \/ IsGetMachineId m.

(* the value a string of hex digits denotes (most significant digit first) *)
Definition hex_val_char (c : N) : N := if c <? 58 then c - 48 else if c <? 71 then c - 55 else c - 87.
Definition hex_val (l : list N) : N := fold_left (fun a c => 16 * a + hex_val_char c) l 0.

(* ================================================================= hex formatting *)
Lemma hex_char_hex d : d < 16 -> is_hex_digit (hex_char d).
Proof.
  intros H. unfold hex_char, is_hex_digit. destruct (N.ltb_spec d 10) as [H1|H1]; lia.
Qed.

Lemma hex_val_hex_char d : d < 16 -> hex_val_char (hex_char d) = d.
Proof.
  intros H. unfold hex_char, hex_val_char. destruct (N.ltb_spec d 10) as [H1|H1].
  - destruct (N.ltb_spec (48 + d) 58) as [H2|H2]; lia.
  - destruct (N.ltb_spec (55 + d) 58) as [H2|H2]; [lia|].
    destruct (N.ltb_spec (55 + d) 71) as [H3|H3]; lia.
Qed.

Lemma mod16_lt x : x mod 16 < 16.
Proof. apply N.mod_lt. discriminate. Qed.

Lemma hex_loop_hex fuel : forall x acc, Forall is_hex_digit acc -> Forall is_hex_digit (hex_loop fuel x acc).
Proof.
  induction fuel as [|f IH]; intros x acc Hacc; cbn [hex_loop]; [assumption|].
  assert (H1 : Forall is_hex_digit (hex_char (x mod 16) :: acc)).
  { constructor; [apply hex_char_hex, mod16_lt|assumption]. }
  destruct (x / 16 =? 0); [assumption|]. apply IH. assumption.
Qed.

Lemma pow16_succ w : 16 ^ (w + 1) = 16 * 16 ^ w.
Proof. rewrite N.add_1_r, N.pow_succ_r'. reflexivity. Qed.

(* the key lemma: a number below 16^w prints with at most max(1,w) digits *)
Lemma hex_loop_len fuel : forall x acc w, x < 16 ^ w -> len (hex_loop fuel x acc) <= N.max 1 w + len acc.
Proof.
  induction fuel as [|f IH]; intros x acc w Hx; cbn [hex_loop]; [lia|].
  destruct (N.eqb_spec (x / 16) 0) as [Hq|Hq].
  - rewrite len_cons. lia.
  - (* x >= 16, hence w >= 2 *)
    assert (Hw : 2 <= w).
    { destruct (N.lt_ge_cases w 2) as [Hlt|Hge]; [|assumption]. exfalso. apply Hq.
      apply N.div_small. assert (Hc : w = 0 \/ w = 1) by lia. destruct Hc as [->| ->].
      - change (16 ^ 0) with 1 in Hx. lia.
      - change (16 ^ 1) with 16 in Hx. assumption. }
    assert (Hdiv : x / 16 < 16 ^ (w - 1)).
    { apply N.div_lt_upper_bound; [discriminate|]. rewrite <- pow16_succ. replace (w - 1 + 1) with w by lia. assumption. }
    specialize (IH (x / 16) (hex_char (x mod 16) :: acc) (w - 1) Hdiv). rewrite len_cons in IH. lia.
Qed.

Lemma hex_digits_len x w : 1 <= w -> x < 16 ^ w -> len (hex_digits x) <= w.
Proof.
  intros Hw Hx. unfold hex_digits. pose proof (hex_loop_len (S (N.to_nat (N.log2 x))) x [] w Hx) as H.
  rewrite len_nil in H. lia.
Qed.

Lemma hex_digits_hex x : Forall is_hex_digit (hex_digits x).
Proof. apply hex_loop_hex. constructor. Qed.

Lemma len_repeat {A} (a : A) n : len (repeat a n) = N.of_nat n.
Proof. unfold len. now rewrite repeat_length. Qed.

Lemma hex_min_len x w : 1 <= w -> x < 16 ^ w -> len (hex_min w x) = w.
Proof.
  intros Hw Hx. unfold hex_min. rewrite len_app, len_repeat. pose proof (hex_digits_len x w Hw Hx). lia.
Qed.

Lemma hex_min_hex x w : Forall is_hex_digit (hex_min w x).
Proof.
  unfold hex_min. apply Forall_app. split; [|apply hex_digits_hex].
  apply Forall_forall. intros c Hc. apply repeat_spec in Hc. subst. unfold is_hex_digit. lia.
Qed.

(* the digits printed denote the number: the loop's fuel is sufficient and nothing is lost *)
Lemma hex_loop_app fuel : forall x acc, hex_loop fuel x acc = hex_loop fuel x [] ++ acc.
Proof.
  induction fuel as [|f IH]; intros x acc; cbn [hex_loop]; [reflexivity|].
  destruct (x / 16 =? 0); [reflexivity|].
  rewrite IH. rewrite (IH (x / 16) [hex_char (x mod 16)]). rewrite <- app_assoc. reflexivity.
Qed.

Lemma hex_val_snoc l c : hex_val (l ++ [c]) = 16 * hex_val l + hex_val_char c.
Proof. unfold hex_val. rewrite fold_left_app. reflexivity. Qed.

Lemma hex_loop_val fuel : forall x, x < 16 ^ N.of_nat fuel -> fuel <> O -> hex_val (hex_loop fuel x []) = x.
Proof.
  induction fuel as [|f IH]; intros x Hx Hf; [contradiction|]. cbn [hex_loop].
  destruct (N.eqb_spec (x / 16) 0) as [Hq|Hq].
  - unfold hex_val. cbn [fold_left]. rewrite hex_val_hex_char by apply mod16_lt.
    pose proof (N.div_mod x 16 ltac:(discriminate)). lia.
  - rewrite hex_loop_app, hex_val_snoc, hex_val_hex_char by apply mod16_lt.
    assert (Hdiv : x / 16 < 16 ^ N.of_nat f).
    { apply N.div_lt_upper_bound; [discriminate|]. rewrite <- pow16_succ.
      replace (N.of_nat f + 1) with (N.of_nat (S f)) by lia. assumption. }
    rewrite IH.
    + pose proof (N.div_mod x 16 ltac:(discriminate)). lia.
    + assumption.
    + intros ->. change (16 ^ N.of_nat 0) with 1 in Hdiv. clear - Hq Hdiv. set (q := x / 16) in *. clearbody q. lia.
Qed.

Lemma hex_digits_val x : hex_val (hex_digits x) = x.
Proof.
  unfold hex_digits. apply hex_loop_val; [|discriminate].
  rewrite Nat2N.inj_succ, N2Nat.id.
  destruct (N.eq_dec x 0) as [->|Hx]; [reflexivity|].
  assert (H0 : 0 < x) by lia. pose proof (N.log2_spec x H0) as [_ H].
  eapply N.lt_le_trans; [exact H|]. apply N.pow_le_mono_l. lia.
Qed.

Lemma pow2_16 : 2 ^ 64 = 16 ^ 16. Proof. reflexivity. Qed.
Lemma pow2_8 : 2 ^ 32 = 16 ^ 8. Proof. reflexivity. Qed.

(** the id produced from any draw and any clock value is 32 hexadecimal digits *)
Theorem format_uuid_machine_id r1 r2 secs :
  r1 < 2 ^ 64 -> r2 < 2 ^ 32 -> secs < 2 ^ 32 -> MachineId (format_uuid r1 r2 secs).
Proof.
  intros H1 H2 H3. rewrite pow2_16 in H1. rewrite pow2_8 in H2, H3. unfold MachineId, format_uuid. split.
  - rewrite !len_app, !hex_min_len by (assumption || lia). reflexivity.
  - apply Forall_app; split; [apply hex_min_hex|]. apply Forall_app; split; apply hex_min_hex.
Qed.

(* ================================================================= the random words *)
Lemma lor_lt_pow2 a b n : a < 2 ^ n -> b < 2 ^ n -> N.lor a b < 2 ^ n.
Proof.
  intros Ha Hb. destruct (N.eq_dec a 0) as [->|Ha0]; [now rewrite N.lor_0_l|].
  destruct (N.eq_dec b 0) as [->|Hb0]; [now rewrite N.lor_0_r|].
  assert (H0 : 0 < N.lor a b).
  { destruct (N.eq_dec (N.lor a b) 0) as [E|E]; [|lia]. apply N.lor_eq_0_iff in E. lia. }
  apply N.log2_lt_pow2; [assumption|]. rewrite N.log2_lor.
  apply N.log2_lt_pow2 in Ha; [|lia]. apply N.log2_lt_pow2 in Hb; [|lia]. lia.
Qed.

Lemma shiftl_lt a k n : a < 256 -> 8 + k <= n -> N.shiftl a k < 2 ^ n.
Proof.
  intros Ha Hk. rewrite N.shiftl_mul_pow2.
  apply N.lt_le_trans with (256 * 2 ^ k).
  - apply N.mul_lt_mono_pos_r; [|assumption]. apply N.neq_0_lt_0, N.pow_nonzero. discriminate.
  - change 256 with (2 ^ 8). rewrite <- N.pow_add_r. apply N.pow_le_mono_r; [discriminate|assumption].
Qed.

Lemma byte_at_lt rand i : bytes_ok rand -> byte_at rand i < 256.
Proof.
  intros H. unfold byte_at. destruct (nth_in_or_default i rand 0) as [Hin| ->]; [|reflexivity].
  unfold bytes_ok in H. rewrite Forall_forall in H. apply H. assumption.
Qed.

Lemma byte_lt_pow a n : a < 256 -> 8 <= n -> a < 2 ^ n.
Proof.
  intros Ha Hn. apply N.lt_le_trans with (2 ^ 8); [exact Ha|]. apply N.pow_le_mono_r; [discriminate|assumption].
Qed.

Lemma rand1_lt rand : bytes_ok rand -> rand1_of rand < 2 ^ 64.
Proof.
  intros H. unfold rand1_of.
  repeat apply lor_lt_pow2; try (apply shiftl_lt; [apply byte_at_lt; assumption|lia]).
  apply byte_lt_pow; [apply byte_at_lt; assumption|lia].
Qed.

Lemma rand2_lt rand : bytes_ok rand -> rand2_of rand < 2 ^ 32.
Proof.
  intros H. unfold rand2_of.
  repeat apply lor_lt_pow2; try (apply shiftl_lt; [apply byte_at_lt; assumption|lia]).
  apply byte_lt_pow; [apply byte_at_lt; assumption|lia].
Qed.

Lemma secs_lt now : now mod 2 ^ 32 < 2 ^ 32.
Proof. apply N.mod_lt. discriminate. Qed.

(* the id a given environment produces *)
Definition new_id (e : env) : str :=
  format_uuid (rand1_of (e_rand e)) (rand2_of (e_rand e)) (e_now e mod 2 ^ 32).

Lemma new_id_machine_id e : bytes_ok (e_rand e) -> MachineId (new_id e).
Proof.
  intros H. apply format_uuid_machine_id; [apply rand1_lt|apply rand2_lt|apply secs_lt]; assumption.
Qed.

(* a draw of 12 bytes from /dev/urandom *)
Definition DrawOK (e : env) : Prop := len (e_rand e) = 12 /\ bytes_ok (e_rand e).

Lemma hex_ascii s : Forall is_hex_digit s -> Forall (fun c => c < 128) s.
Proof. apply Forall_impl. unfold is_hex_digit. intros c H. lia. Qed.

Lemma hex_no_nul s : Forall is_hex_digit s -> existsb (N.eqb 0) s = false.
Proof.
  induction 1 as [|c l Hc _ IH]; [reflexivity|]. cbn [existsb]. rewrite IH.
  unfold is_hex_digit in Hc. destruct (N.eqb_spec 0 c); [lia|reflexivity].
Qed.

Lemma fs_write_same p d f : fs_write p d f p = Some d.
Proof. unfold fs_write. now rewrite str_eqb_refl. Qed.
Lemma fs_write_other p d f q : q <> p -> fs_write p d f q = f q.
Proof. intros H. unfold fs_write. now rewrite str_eqb_neq. Qed.
Lemma fs_remove_other p f q : q <> p -> fs_remove p f q = f q.
Proof. intros H. unfold fs_remove. now rewrite str_eqb_neq. Qed.

(* the private temporary file is never the id file *)
Lemma tmp_path_neq e : machine_id_path <> tmp_path e.
Proof.
  intros H. apply (f_equal (@length N)) in H. unfold tmp_path in H.
  rewrite app_length in H. cbn [length] in H. lia.
Qed.

(** the id file invariant: "nobody but this code writes the file" means it is absent or holds the
    complete id create_and_store made for SOME draw and clock *)
Definition IdFileOK (f : fs) : Prop :=
  f machine_id_path = None \/ exists e0, bytes_ok (e_rand e0) /\ f machine_id_path = Some (new_id e0).

(* what create_and_store_machine_uuid returns and leaves at the id path, for EVERY outcome of the
   write, the link and the removal of the temporary file *)
Lemma create_and_store_spec e f : DrawOK e ->
  fst (create_and_store_machine_uuid e f)
  = match e_write e with
    | WriteDone => match f machine_id_path with
                   | Some _ => Ok tt                           (* AlreadyExists: the other id is kept *)
                   | None => match e_link e with LinkDone => Ok tt | LinkFailed => Err end
                   end
    | WriteFailed _ => Err
    end
  /\ snd (create_and_store_machine_uuid e f) machine_id_path
     = match f machine_id_path with
       | Some c => Some c
       | None => match e_write e, e_link e with
                 | WriteDone, LinkDone => Some (new_id e)
                 | _, _ => None
                 end
       end.
Proof.
  intros [Hl Hb]. unfold create_and_store_machine_uuid. rewrite Hl.
  change (N.eqb 12 12) with true. cbn [negb]. fold (new_id e).
  destruct (new_id_machine_id e Hb) as [Hlen _]. rewrite Hlen. change (N.eqb 32 32) with true. cbn [negb].
  pose proof (tmp_path_neq e) as Hne.
  destruct (e_write e) as [|[junk|]]; cbn [do_write].
  - unfold do_link. rewrite (fs_write_other _ _ _ _ Hne).
    destruct (f machine_id_path) as [c|] eqn:Hf.
    + cbn [fst snd]. split; [reflexivity|].
      destruct (e_remove_ok e); [rewrite (fs_remove_other _ _ _ Hne)|]; rewrite (fs_write_other _ _ _ _ Hne); exact Hf.
    + rewrite fs_write_same. destruct (e_link e); cbn [fst snd]; (split; [reflexivity|]).
      * destruct (e_remove_ok e); [rewrite (fs_remove_other _ _ _ Hne)|]; apply fs_write_same.
      * destruct (e_remove_ok e); [rewrite (fs_remove_other _ _ _ Hne)|]; rewrite (fs_write_other _ _ _ _ Hne); exact Hf.
  - cbn [fst snd]. split; [reflexivity|].
    assert (H : (if e_remove_ok e then fs_remove (tmp_path e) (fs_write (tmp_path e) junk f) else fs_write (tmp_path e) junk f) machine_id_path = f machine_id_path).
    { destruct (e_remove_ok e); [rewrite (fs_remove_other _ _ _ Hne)|]; apply (fs_write_other _ _ _ _ Hne). }
    rewrite H. destruct (f machine_id_path); [reflexivity|destruct (e_link e); reflexivity].
  - cbn [fst snd]. split; [reflexivity|].
    assert (H : (if e_remove_ok e then fs_remove (tmp_path e) f else f) machine_id_path = f machine_id_path).
    { destruct (e_remove_ok e); [apply (fs_remove_other _ _ _ Hne)|reflexivity]. }
    rewrite H. destruct (f machine_id_path); [reflexivity|destruct (e_link e); reflexivity].
Qed.

(* an id that is stored is never replaced, not even by a panicking call *)
Lemma create_and_store_keeps e f c :
  f machine_id_path = Some c -> snd (create_and_store_machine_uuid e f) machine_id_path = Some c.
Proof.
  intros Hf. unfold create_and_store_machine_uuid.
  destruct (negb (len (e_rand e) =? 12)); [exact Hf|].
  destruct (negb (len (format_uuid (rand1_of (e_rand e)) (rand2_of (e_rand e)) (e_now e mod 2 ^ 32)) =? 32)); [exact Hf|].
  pose proof (tmp_path_neq e) as Hne.
  set (uuid := format_uuid _ _ _).
  assert (Hrm : forall g : fs, g machine_id_path = Some c ->
                (if e_remove_ok e then fs_remove (tmp_path e) g else g) machine_id_path = Some c).
  { intros g Hg. destruct (e_remove_ok e); [rewrite (fs_remove_other _ _ _ Hne)|]; exact Hg. }
  destruct (e_write e) as [|[junk|]]; cbn [do_write].
  - unfold do_link. rewrite (fs_write_other _ _ _ _ Hne), Hf. cbn [snd]. apply Hrm.
    rewrite (fs_write_other _ _ _ _ Hne). exact Hf.
  - cbn [snd]. apply Hrm. rewrite (fs_write_other _ _ _ _ Hne). exact Hf.
  - cbn [snd]. apply Hrm. exact Hf.
Qed.

Lemma create_and_store_invariant e f : DrawOK e -> IdFileOK f -> IdFileOK (snd (create_and_store_machine_uuid e f)).
Proof.
  intros Hd Hinv. destruct (create_and_store_spec e f Hd) as [_ Hp]. unfold IdFileOK. rewrite Hp.
  destruct Hinv as [Hf|(e0 & Hb & Hf)]; rewrite Hf.
  - destruct (e_write e); [|left; reflexivity]. destruct (e_link e); [|left; reflexivity].
    right. exists e. split; [apply Hd|reflexivity].
  - right. exists e0. auto.
Qed.

Section WithUtf8.
  Variable utf8_valid : list N -> bool.
  Hypothesis ascii_valid : forall s, Forall (fun c => c < 128) s -> utf8_valid s = true.

  (** a stored id is returned as it is and nothing is touched, whatever the draw, the clock and the
      outcomes of file operations would be *)
  Theorem get_machine_id_stored e f id : f machine_id_path = Some id -> utf8_valid id = true ->
    get_machine_id utf8_valid e f = (Ok id, f).
  Proof. intros Hf Hu. unfold get_machine_id. rewrite Hf, Hf, Hu. reflexivity. Qed.

  (** no stored id: either the id of this draw and clock is created, stored and returned, or storing
      failed (write or link error), the call returns the io error and NO id file exists afterwards -
      never an empty or partial one *)
  Theorem get_machine_id_fresh e f : DrawOK e -> f machine_id_path = None ->
    exists f1, snd (get_machine_id utf8_valid e f) = f1 /\
      match e_write e, e_link e with
      | WriteDone, LinkDone =>
          fst (get_machine_id utf8_valid e f) = Ok (new_id e) /\ f1 machine_id_path = Some (new_id e) /\ MachineId (new_id e)
      | _, _ => fst (get_machine_id utf8_valid e f) = Err /\ f1 machine_id_path = None
      end.
  Proof.
    intros Hd Hf. destruct (create_and_store_spec e f Hd) as [Hr Hp]. rewrite Hf in Hr, Hp.
    unfold get_machine_id. rewrite Hf.
    destruct (create_and_store_machine_uuid e f) as [r f1] eqn:Hc. cbn [fst snd] in Hr, Hp.
    pose proof (new_id_machine_id e (proj2 Hd)) as Hid.
    destruct (e_write e) as [|l]; [destruct (e_link e)|]; subst r.
    - rewrite Hp. rewrite ascii_valid by (apply hex_ascii, Hid). exists f1. cbn [fst snd]. auto.
    - exists f1. cbn [fst snd]. auto.
    - exists f1. cbn [fst snd]. auto.
  Qed.

  Lemma get_machine_id_keeps e f c :
    f machine_id_path = Some c -> snd (get_machine_id utf8_valid e f) machine_id_path = Some c.
  Proof.
    intros Hf. unfold get_machine_id. rewrite Hf, Hf. destruct (utf8_valid c); exact Hf.
  Qed.

  Lemma get_machine_id_invariant e f : DrawOK e -> IdFileOK f -> IdFileOK (snd (get_machine_id utf8_valid e f)).
  Proof.
    intros Hd Hinv. destruct (f machine_id_path) as [c|] eqn:Hf.
    - unfold IdFileOK. rewrite (get_machine_id_keeps e f c Hf). destruct Hinv as [H|H]; [congruence|]. right.
      destruct H as (e0 & Hb & H). exists e0. split; [assumption|congruence].
    - pose proof (create_and_store_invariant e f Hd Hinv) as Hc. unfold get_machine_id. rewrite Hf.
      destruct (create_and_store_machine_uuid e f) as [r f1]. cbn [snd] in Hc.
      destruct r as [[]| | | |]; try exact Hc.
      destruct (f1 machine_id_path) as [v|]; [destruct (utf8_valid v)|]; exact Hc.
  Qed.

  (** the composed statement about the id.  Hypothesis: nobody but this code writes the id file
      (IdFileOK: absent, or the complete id of some earlier draw and clock).  Then for EVERY draw, clock
      value and outcome of write/link/remove: the call never panics; if it returns an id, that id is 32
      hexadecimal digits, it is the stored id, and every later call - any draw, clock, file-operation
      outcomes - returns exactly that string and leaves the file system alone; if it returns an error,
      storing failed and there is still no id file (so a later call starts afresh); the invariant holds
      afterwards in both cases *)
  Theorem id_always_32hex e f : DrawOK e -> IdFileOK f ->
    let (r, f1) := get_machine_id utf8_valid e f in
    IdFileOK f1 /\
    match r with
    | Ok id => MachineId id /\ f1 machine_id_path = Some id
               /\ forall e2, get_machine_id utf8_valid e2 f1 = (Ok id, f1)
    | Err => f machine_id_path = None /\ f1 machine_id_path = None
             /\ (e_write e <> WriteDone \/ e_link e = LinkFailed)
    | _ => False
    end.
  Proof.
    intros Hd Hinv. pose proof (get_machine_id_invariant e f Hd Hinv) as Hinv1.
    destruct (get_machine_id utf8_valid e f) as [r f1] eqn:Hg. cbn [snd] in Hinv1. split; [exact Hinv1|].
    destruct Hinv as [Hf|(e0 & Hb & Hf)].
    - destruct (get_machine_id_fresh e f Hd Hf) as (f1' & Hs & H). rewrite Hg in Hs, H. cbn [fst snd] in Hs, H. subst f1'.
      destruct (e_write e) as [|l] eqn:Hw; [destruct (e_link e) eqn:Hl|].
      + destruct H as (-> & Hp & Hid). split; [exact Hid|]. split; [exact Hp|].
        intros e2. apply get_machine_id_stored; [exact Hp|]. apply ascii_valid, hex_ascii, Hid.
      + destruct H as (-> & Hp). auto.
      + destruct H as (-> & Hp). split; [exact Hf|]. split; [exact Hp|]. left. discriminate.
    - pose proof (new_id_machine_id e0 Hb) as Hid.
      assert (Hu : utf8_valid (new_id e0) = true) by (apply ascii_valid, hex_ascii, Hid).
      rewrite (get_machine_id_stored e f _ Hf Hu) in Hg. inversion Hg; subst.
      split; [exact Hid|]. split; [exact Hf|]. intros e2. apply get_machine_id_stored; assumption.
  Qed.

  (* ================================================================= the Peer interface *)
  Lemma peer_names_differ : ping_name <> get_machine_id_name.
  Proof. discriminate. Qed.

  Lemma filter_peer_spec h : filter_peer h = true <-> PeerHeader h.
  Proof.
    unfold filter_peer, PeerHeader, PingHeader, GetMachineIdHeader.
    destruct (dh_interface h) as [i|]; [|split; [discriminate|intros [[H _]|[H _]]; discriminate]].
    destruct (str_eqb i peer_iface) eqn:Ei.
    - apply str_eqb_spec in Ei. subst i.
      destruct (dh_member h) as [mem|]; [|split; [discriminate|intros [[_ H]|[_ H]]; discriminate]].
      rewrite orb_true_iff, !str_eqb_spec. split.
      + intros [-> | ->]; auto.
      + intros [[_ H]|[_ H]]; inversion H; auto.
    - split; [discriminate|]. intros [[H _]|[H _]]; inversion H; subst; rewrite str_eqb_refl in Ei; discriminate.
  Qed.

  Lemma is_peer_call_iff m : IsPeerCall m <-> m_typ m = MCall /\ PeerHeader (m_dh m).
  Proof. unfold IsPeerCall, IsPing, IsGetMachineId, PeerHeader. tauto. Qed.

  (** every message that is not a Ping/GetMachineId method call on the Peer interface - any other
      type, interface or member, or absent fields - is reported as not handled; nothing is written
      and the file system is not touched *)
  Theorem handle_peer_other e f m : ~ IsPeerCall m -> handle_peer_message utf8_valid e f m = (Ok (false, []), f).
  Proof.
    intros Hn. unfold handle_peer_message.
    destruct (m_typ m) eqn:Ht; cbn [is_call negb]; try reflexivity.
    unfold IsPeerCall, IsPing, IsGetMachineId, PingHeader, GetMachineIdHeader in Hn. rewrite Ht in Hn.
    destruct (dh_interface (m_dh m)) as [i|]; [|reflexivity].
    destruct (str_eqb i peer_iface) eqn:Ei; [|reflexivity]. apply str_eqb_spec in Ei. subst i.
    destruct (dh_member (m_dh m)) as [mem|]; [|reflexivity].
    destruct (str_eqb mem ping_name) eqn:E1; [apply str_eqb_spec in E1; subst; exfalso; apply Hn; auto|].
    destruct (str_eqb mem get_machine_id_name) eqn:E2; [apply str_eqb_spec in E2; subst; exfalso; apply Hn; auto|].
    reflexivity.
  Qed.

  (** Ping: handled, exactly one message written: the empty reply to the call *)
  Theorem handle_peer_ping e f m : IsPing m ->
    handle_peer_message utf8_valid e f m = (Ok (true, [make_response (m_dh m)]), f).
  Proof.
    intros [Ht [Hi Hm]]. unfold handle_peer_message. rewrite Ht, Hi, Hm, !str_eqb_refl. reflexivity.
  Qed.

  Lemma handle_peer_get_id_unfold e f m : IsGetMachineId m ->
    handle_peer_message utf8_valid e f m
    = match get_machine_id utf8_valid e f with
      | (Ok id, f1) => if existsb (N.eqb 0) id then (Panic, f1)
                       else (Ok (true, [push_str id (make_response (m_dh m))]), f1)
      | (_, f1) => (Panic, f1)
      end.
  Proof.
    intros [Ht [Hi Hm]]. unfold handle_peer_message. rewrite Ht, Hi, Hm, str_eqb_refl. cbn [is_call negb].
    rewrite (str_eqb_neq get_machine_id_name ping_name) by discriminate. rewrite str_eqb_refl. reflexivity.
  Qed.

  (** GetMachineId under the environment hypothesis IdFileOK: unless storing a fresh id fails (an
      environment failure: the handler's unwrap panics, nothing is written, no id file is left),
      the call is handled and exactly one message is written: the reply to the call carrying a
      32-hex-digit id - the stored one, or the fresh one, which is then stored *)
  Theorem handle_peer_get_id e f m : IsGetMachineId m -> DrawOK e -> IdFileOK f ->
    (f machine_id_path = None -> e_write e = WriteDone /\ e_link e = LinkDone) ->
    exists id f1, handle_peer_message utf8_valid e f m = (Ok (true, [push_str id (make_response (m_dh m))]), f1)
      /\ MachineId id /\ f1 machine_id_path = Some id
      /\ match f machine_id_path with
         | Some c => id = c /\ f1 = f
         | None => id = new_id e
         end.
  Proof.
    intros Hm Hd Hinv Hpre. rewrite (handle_peer_get_id_unfold e f m Hm).
    pose proof (id_always_32hex e f Hd Hinv) as H.
    destruct (get_machine_id utf8_valid e f) as [r f1] eqn:Hg. destruct H as [_ H].
    destruct r as [id| | | |]; try contradiction.
    - destruct H as (Hid & Hp & _). rewrite hex_no_nul by apply Hid. exists id, f1.
      split; [reflexivity|]. split; [exact Hid|]. split; [exact Hp|].
      destruct (f machine_id_path) as [c|] eqn:Hf.
      + destruct Hinv as [Hn|(e0 & Hb & Hf')]; [congruence|].
        pose proof (new_id_machine_id e0 Hb) as Hid0. rewrite Hf in Hf'. inversion Hf'; subst c.
        rewrite (get_machine_id_stored e f _ Hf (ascii_valid _ (hex_ascii _ (proj2 Hid0)))) in Hg.
        inversion Hg; subst. auto.
      + destruct (get_machine_id_fresh e f Hd Hf) as (f1' & _ & Hfr). destruct (Hpre eq_refl) as [Hw Hl].
        rewrite Hw, Hl, Hg in Hfr. cbn [fst] in Hfr. destruct Hfr as (Hfr & _). inversion Hfr. reflexivity.
    - destruct H as (Hf & _ & Hfail). destruct (Hpre Hf) as [Hw Hl]. destruct Hfail as [Hfail|Hfail]; congruence.
  Qed.

  (** in EVERY case - any message, any draw, clock, write/link/remove outcome, also when the handler
      panics - the id file invariant is kept and a stored id is never replaced *)
  Theorem handle_peer_invariant e f m : DrawOK e -> IdFileOK f -> IdFileOK (snd (handle_peer_message utf8_valid e f m)).
  Proof.
    intros Hd Hinv.
    assert (Hg : IdFileOK (snd (get_machine_id utf8_valid e f))) by now apply get_machine_id_invariant.
    unfold handle_peer_message.
    destruct (negb (is_call (m_typ m))); [exact Hinv|].
    destruct (dh_interface (m_dh m)) as [i|]; [|exact Hinv].
    destruct (str_eqb i peer_iface); [|exact Hinv].
    destruct (dh_member (m_dh m)) as [mem|]; [|exact Hinv].
    destruct (str_eqb mem ping_name); [exact Hinv|].
    destruct (str_eqb mem get_machine_id_name); [|exact Hinv].
    destruct (get_machine_id utf8_valid e f) as [r f1]. cbn [snd] in Hg.
    destruct r as [id| | | |]; try exact Hg. destruct (existsb (N.eqb 0) id); exact Hg.
  Qed.

  Theorem handle_peer_keeps e f m c :
    f machine_id_path = Some c -> snd (handle_peer_message utf8_valid e f m) machine_id_path = Some c.
  Proof.
    intros Hf. pose proof (get_machine_id_keeps e f c Hf) as Hg. unfold handle_peer_message.
    destruct (negb (is_call (m_typ m))); [exact Hf|].
    destruct (dh_interface (m_dh m)) as [i|]; [|exact Hf].
    destruct (str_eqb i peer_iface); [|exact Hf].
    destruct (dh_member (m_dh m)) as [mem|]; [|exact Hf].
    destruct (str_eqb mem ping_name); [exact Hf|].
    destruct (str_eqb mem get_machine_id_name); [|exact Hf].
    destruct (get_machine_id utf8_valid e f) as [r f1]. cbn [snd] in Hg.
    destruct r as [id| | | |]; try exact Hg. destruct (existsb (N.eqb 0) id); exact Hg.
  Qed.

  (* the states reachable by any sequence of calls of handle_peer_message (any messages, draws, clock
     values and file-operation outcomes) *)
  Inductive Reach (f0 : fs) : fs -> Prop :=
  | Reach_refl : Reach f0 f0
  | Reach_step : forall f e m, Reach f0 f -> DrawOK e -> Reach f0 (snd (handle_peer_message utf8_valid e f m)).

  Theorem reach_invariant f0 f : IdFileOK f0 -> Reach f0 f -> IdFileOK f.
  Proof. intros H0. induction 1; [exact H0|]. now apply handle_peer_invariant. Qed.

  Theorem reach_keeps f0 f c : f0 machine_id_path = Some c -> Reach f0 f -> f machine_id_path = Some c.
  Proof. intros H0. induction 1; [exact H0|]. now apply handle_peer_keeps. Qed.
End WithUtf8.

Lemma ascii_only_valid s : Forall (fun c => c < 128) s -> ascii_only s = true.
Proof.
  intros H. unfold ascii_only. apply forallb_forall. rewrite Forall_forall in H. intros c Hc.
  apply N.ltb_lt. auto.
Qed.
