(** Specification and proofs for C20: the machine id is always 32 hexadecimal digits, stays the
    same while the stored id exists, and the Peer interface answers exactly Ping and GetMachineId. *)
From RB Require Import Base.Prelude Conn.DispatchMsg Conn.Peer.

(* ================================================================= specification *)
Definition is_hex_digit (c : N) : Prop :=
  (48 <= c /\ c <= 57) \/ (65 <= c /\ c <= 70) \/ (97 <= c /\ c <= 102).

(** "a 32-digit hexadecimal string" *)
Definition MachineId (s : str) : Prop := len s = 32 /\ Forall is_hex_digit s.

(** the header names Ping resp. GetMachineId of org.freedesktop.DBus.Peer *)
Definition PingHeader (h : dynheader) : Prop :=
  dh_interface h = Some peer_iface /\ dh_member h = Some ping_name.
Definition GetMachineIdHeader (h : dynheader) : Prop :=
  dh_interface h = Some peer_iface /\ dh_member h = Some get_machine_id_name.
Definition PeerHeader (h : dynheader) : Prop := PingHeader h \/ GetMachineIdHeader h.

(** "a call to Ping or GetMachineId on org.freedesktop.DBus.Peer": a message of type method call *)
Definition IsPing (m : msg) : Prop := m_typ m = MCall /\ PingHeader (m_dh m).
Definition IsGetMachineId (m : msg) : Prop := m_typ m = MCall /\ GetMachineIdHeader (m_dh m).
Definition IsPeerCall (m : msg) : Prop := IsPing m \/ IsGetMachineId m.

(* the value a string of hex digits denotes (most significant digit first) *)
Definition hex_val_char (c : N) : N := if c <? 58 then c - 48 else if c <? 71 then c - 55 else c - 87.
Definition hex_val (l : list N) : N := fold_left (fun a c => 16 * a + hex_val_char c) l 0.

(* ================================================================= hex formatting *)
Lemma hex_char_hex d : d < 16 -> is_hex_digit (hex_char d).
Proof.
  intros H. unfold hex_char, is_hex_digit. destruct (N.ltb_spec d 10) as [H1|H1]; lia.
Qed.

Lemma hex_val_hex_char d : d < 16 -> hex_val_char (hex_char d) = d.
Proof.
  intros H. unfold hex_char, hex_val_char. destruct (N.ltb_spec d 10) as [H1|H1].
  - destruct (N.ltb_spec (48 + d) 58) as [H2|H2]; lia.
  - destruct (N.ltb_spec (55 + d) 58) as [H2|H2]; [lia|].
    destruct (N.ltb_spec (55 + d) 71) as [H3|H3]; lia.
Qed.

Lemma mod16_lt x : x mod 16 < 16.
Proof. apply N.mod_lt. discriminate. Qed.

Lemma hex_loop_hex fuel : forall x acc, Forall is_hex_digit acc -> Forall is_hex_digit (hex_loop fuel x acc).
Proof.
  induction fuel as [|f IH]; intros x acc Hacc; cbn [hex_loop]; [assumption|].
  assert (H1 : Forall is_hex_digit (hex_char (x mod 16) :: acc)).
  { constructor; [apply hex_char_hex, mod16_lt|assumption]. }
  destruct (x / 16 =? 0); [assumption|]. apply IH. assumption.
Qed.

Lemma pow16_succ w : 16 ^ (w + 1) = 16 * 16 ^ w.
Proof. rewrite N.add_1_r, N.pow_succ_r'. reflexivity. Qed.

(* the key lemma: a number below 16^w prints with at most max(1,w) digits *)
Lemma hex_loop_len fuel : forall x acc w, x < 16 ^ w -> len (hex_loop fuel x acc) <= N.max 1 w + len acc.
Proof.
  induction fuel as [|f IH]; intros x acc w Hx; cbn [hex_loop]; [lia|].
  destruct (N.eqb_spec (x / 16) 0) as [Hq|Hq].
  - rewrite len_cons. lia.
  - (* x >= 16, hence w >= 2 *)
    assert (Hw : 2 <= w).
    { destruct (N.lt_ge_cases w 2) as [Hlt|Hge]; [|assumption]. exfalso. apply Hq.
      apply N.div_small. assert (Hc : w = 0 \/ w = 1) by lia. destruct Hc as [->| ->].
      - change (16 ^ 0) with 1 in Hx. lia.
      - change (16 ^ 1) with 16 in Hx. assumption. }
    assert (Hdiv : x / 16 < 16 ^ (w - 1)).
    { apply N.div_lt_upper_bound; [discriminate|]. rewrite <- pow16_succ. replace (w - 1 + 1) with w by lia. assumption. }
    specialize (IH (x / 16) (hex_char (x mod 16) :: acc) (w - 1) Hdiv). rewrite len_cons in IH. lia.
Qed.

Lemma hex_digits_len x w : 1 <= w -> x < 16 ^ w -> len (hex_digits x) <= w.
Proof.
  intros Hw Hx. unfold hex_digits. pose proof (hex_loop_len (S (N.to_nat (N.log2 x))) x [] w Hx) as H.
  rewrite len_nil in H. lia.
Qed.

Lemma hex_digits_hex x : Forall is_hex_digit (hex_digits x).
Proof. apply hex_loop_hex. constructor. Qed.

Lemma len_repeat {A} (a : A) n : len (repeat a n) = N.of_nat n.
Proof. unfold len. now rewrite repeat_length. Qed.

Lemma hex_min_len x w : 1 <= w -> x < 16 ^ w -> len (hex_min w x) = w.
Proof.
  intros Hw Hx. unfold hex_min. rewrite len_app, len_repeat. pose proof (hex_digits_len x w Hw Hx). lia.
Qed.

Lemma hex_min_hex x w : Forall is_hex_digit (hex_min w x).
Proof.
  unfold hex_min. apply Forall_app. split; [|apply hex_digits_hex].
  apply Forall_forall. intros c Hc. apply repeat_spec in Hc. subst. unfold is_hex_digit. lia.
Qed.

(* the digits printed denote the number: the loop's fuel is sufficient and nothing is lost *)
Lemma hex_loop_app fuel : forall x acc, hex_loop fuel x acc = hex_loop fuel x [] ++ acc.
Proof.
  induction fuel as [|f IH]; intros x acc; cbn [hex_loop]; [reflexivity|].
  destruct (x / 16 =? 0); [reflexivity|].
  rewrite IH. rewrite (IH (x / 16) [hex_char (x mod 16)]). rewrite <- app_assoc. reflexivity.
Qed.

Lemma hex_val_snoc l c : hex_val (l ++ [c]) = 16 * hex_val l + hex_val_char c.
Proof. unfold hex_val. rewrite fold_left_app. reflexivity. Qed.

Lemma hex_loop_val fuel : forall x, x < 16 ^ N.of_nat fuel -> fuel <> O -> hex_val (hex_loop fuel x []) = x.
Proof.
  induction fuel as [|f IH]; intros x Hx Hf; [contradiction|]. cbn [hex_loop].
  destruct (N.eqb_spec (x / 16) 0) as [Hq|Hq].
  - unfold hex_val. cbn [fold_left]. rewrite hex_val_hex_char by apply mod16_lt.
    pose proof (N.div_mod x 16 ltac:(discriminate)). lia.
  - rewrite hex_loop_app, hex_val_snoc, hex_val_hex_char by apply mod16_lt.
    assert (Hdiv : x / 16 < 16 ^ N.of_nat f).
    { apply N.div_lt_upper_bound; [discriminate|]. rewrite <- pow16_succ.
      replace (N.of_nat f + 1) with (N.of_nat (S f)) by lia. assumption. }
    rewrite IH.
    + pose proof (N.div_mod x 16 ltac:(discriminate)). lia.
    + assumption.
    + intros ->. change (16 ^ N.of_nat 0) with 1 in Hdiv. clear - Hq Hdiv. set (q := x / 16) in *. clearbody q. lia.
Qed.

Lemma hex_digits_val x : hex_val (hex_digits x) = x.
Proof.
  unfold hex_digits. apply hex_loop_val; [|discriminate].
  rewrite Nat2N.inj_succ, N2Nat.id.
  destruct (N.eq_dec x 0) as [->|Hx]; [reflexivity|].
  assert (H0 : 0 < x) by lia. pose proof (N.log2_spec x H0) as [_ H].
  eapply N.lt_le_trans; [exact H|]. apply N.pow_le_mono_l. lia.
Qed.

Lemma pow2_16 : 2 ^ 64 = 16 ^ 16. Proof. reflexivity. Qed.
Lemma pow2_8 : 2 ^ 32 = 16 ^ 8. Proof. reflexivity. Qed.

(** the id produced from any draw and any clock value is 32 hexadecimal digits *)
Theorem format_uuid_machine_id r1 r2 secs :
  r1 < 2 ^ 64 -> r2 < 2 ^ 32 -> secs < 2 ^ 32 -> MachineId (format_uuid r1 r2 secs).
Proof.
  intros H1 H2 H3. rewrite pow2_16 in H1. rewrite pow2_8 in H2, H3. unfold MachineId, format_uuid. split.
  - rewrite !len_app, !hex_min_len by (assumption || lia). reflexivity.
  - apply Forall_app; split; [apply hex_min_hex|]. apply Forall_app; split; apply hex_min_hex.
Qed.

(* ================================================================= the random words *)
Lemma lor_lt_pow2 a b n : a < 2 ^ n -> b < 2 ^ n -> N.lor a b < 2 ^ n.
Proof.
  intros Ha Hb. destruct (N.eq_dec a 0) as [->|Ha0]; [now rewrite N.lor_0_l|].
  destruct (N.eq_dec b 0) as [->|Hb0]; [now rewrite N.lor_0_r|].
  assert (H0 : 0 < N.lor a b).
  { destruct (N.eq_dec (N.lor a b) 0) as [E|E]; [|lia]. apply N.lor_eq_0_iff in E. lia. }
  apply N.log2_lt_pow2; [assumption|]. rewrite N.log2_lor.
  apply N.log2_lt_pow2 in Ha; [|lia]. apply N.log2_lt_pow2 in Hb; [|lia]. lia.
Qed.

Lemma shiftl_lt a k n : a < 256 -> 8 + k <= n -> N.shiftl a k < 2 ^ n.
Proof.
  intros Ha Hk. rewrite N.shiftl_mul_pow2.
  apply N.lt_le_trans with (256 * 2 ^ k).
  - apply N.mul_lt_mono_pos_r; [|assumption]. apply N.neq_0_lt_0, N.pow_nonzero. discriminate.
  - change 256 with (2 ^ 8). rewrite <- N.pow_add_r. apply N.pow_le_mono_r; [discriminate|assumption].
Qed.

Lemma byte_at_lt rand i : bytes_ok rand -> byte_at rand i < 256.
Proof.
  intros H. unfold byte_at. destruct (nth_in_or_default i rand 0) as [Hin| ->]; [|reflexivity].
  unfold bytes_ok in H. rewrite Forall_forall in H. apply H. assumption.
Qed.

Lemma byte_lt_pow a n : a < 256 -> 8 <= n -> a < 2 ^ n.
Proof.
  intros Ha Hn. apply N.lt_le_trans with (2 ^ 8); [exact Ha|]. apply N.pow_le_mono_r; [discriminate|assumption].
Qed.

Lemma rand1_lt rand : bytes_ok rand -> rand1_of rand < 2 ^ 64.
Proof.
  intros H. unfold rand1_of.
  repeat apply lor_lt_pow2; try (apply shiftl_lt; [apply byte_at_lt; assumption|lia]).
  apply byte_lt_pow; [apply byte_at_lt; assumption|lia].
Qed.

Lemma rand2_lt rand : bytes_ok rand -> rand2_of rand < 2 ^ 32.
Proof.
  intros H. unfold rand2_of.
  repeat apply lor_lt_pow2; try (apply shiftl_lt; [apply byte_at_lt; assumption|lia]).
  apply byte_lt_pow; [apply byte_at_lt; assumption|lia].
Qed.

Lemma secs_lt now : now mod 2 ^ 32 < 2 ^ 32.
Proof. apply N.mod_lt. discriminate. Qed.

(* the id a given environment produces *)
Definition new_id (e : env) : str :=
  format_uuid (rand1_of (e_rand e)) (rand2_of (e_rand e)) (e_now e mod 2 ^ 32).

Lemma new_id_machine_id e : bytes_ok (e_rand e) -> MachineId (new_id e).
Proof.
  intros H. apply format_uuid_machine_id; [apply rand1_lt|apply rand2_lt|apply secs_lt]; assumption.
Qed.

(* a draw of 12 bytes from /dev/urandom *)
Definition DrawOK (e : env) : Prop := len (e_rand e) = 12 /\ bytes_ok (e_rand e).

Lemma create_and_store_spec e f : DrawOK e ->
  create_and_store_machine_uuid e f
  = if e_write_ok e then Ok (fs_write machine_id_path (new_id e) f) else Err.
Proof.
  intros [Hl Hb]. unfold create_and_store_machine_uuid. rewrite Hl. cbn [N.eqb negb].
  change (N.eqb 12 12) with true. cbn [negb]. fold (new_id e).
  destruct (new_id_machine_id e Hb) as [Hlen _]. rewrite Hlen. reflexivity.
Qed.

Lemma hex_ascii s : Forall is_hex_digit s -> Forall (fun c => c < 128) s.
Proof. apply Forall_impl. unfold is_hex_digit. intros c H. lia. Qed.

Lemma hex_no_nul s : Forall is_hex_digit s -> existsb (N.eqb 0) s = false.
Proof.
  induction 1 as [|c l Hc _ IH]; [reflexivity|]. cbn [existsb]. rewrite IH.
  unfold is_hex_digit in Hc. destruct (N.eqb_spec 0 c); [lia|reflexivity].
Qed.

Lemma fs_write_same p d f : fs_write p d f p = Some d.
Proof. unfold fs_write. now rewrite str_eqb_refl. Qed.
Lemma fs_write_other p d f q : q <> p -> fs_write p d f q = f q.
Proof. intros H. unfold fs_write. now rewrite str_eqb_neq. Qed.

Section WithUtf8.
  Variable utf8_valid : list N -> bool.
  Hypothesis ascii_valid : forall s, Forall (fun c => c < 128) s -> utf8_valid s = true.

  (** no stored id: one is created from the draw and the clock, stored, and returned; it is a
      32-digit hexadecimal string whatever was drawn *)
  Theorem get_machine_id_fresh e f : DrawOK e -> e_write_ok e = true -> f machine_id_path = None ->
    exists id, get_machine_id utf8_valid e f = Ok (id, fs_write machine_id_path id f)
               /\ id = new_id e /\ MachineId id.
  Proof.
    intros Hd Hw Hf. exists (new_id e). unfold get_machine_id. rewrite Hf, create_and_store_spec, Hw by assumption.
    cbn [bind]. rewrite fs_write_same. destruct Hd as [_ Hb]. pose proof (new_id_machine_id e Hb) as Hid.
    rewrite ascii_valid by (apply hex_ascii, Hid). auto.
  Qed.

  (** a stored id is returned as it is and nothing is written, whatever the draw and the clock *)
  Theorem get_machine_id_stored e f id : f machine_id_path = Some id -> utf8_valid id = true ->
    get_machine_id utf8_valid e f = Ok (id, f).
  Proof.
    intros Hf Hu. unfold get_machine_id. rewrite Hf. cbn [bind]. rewrite Hf, Hu. reflexivity.
  Qed.

  (** hence: the id returned once is returned by every later call, for any later draw/clock/write
      outcome, as long as the stored id exists (no call removes or rewrites it) *)
  Theorem get_machine_id_stable e f id f1 : DrawOK e ->
    (forall c, f machine_id_path = Some c -> utf8_valid c = true) ->
    get_machine_id utf8_valid e f = Ok (id, f1) ->
    f1 machine_id_path = Some id
    /\ forall e2, get_machine_id utf8_valid e2 f1 = Ok (id, f1).
  Proof.
    intros Hd Hstored H.
    assert (Hboth : f1 machine_id_path = Some id /\ utf8_valid id = true).
    { unfold get_machine_id in H. destruct (f machine_id_path) as [c|] eqn:Hf.
      - cbn [bind] in H. rewrite Hf in H. rewrite (Hstored c eq_refl) in H. inversion H; subst. auto.
      - rewrite create_and_store_spec in H by assumption. destruct (e_write_ok e); [|discriminate].
        cbn [bind] in H. rewrite fs_write_same in H. destruct Hd as [_ Hb].
        pose proof (new_id_machine_id e Hb) as [_ Hid]. rewrite ascii_valid in H by (apply hex_ascii, Hid).
        inversion H; subst. rewrite fs_write_same. split; [reflexivity|]. apply ascii_valid, hex_ascii, Hid. }
    destruct Hboth as [Hf1 Hu]. split; [assumption|]. intros e2. apply get_machine_id_stored; assumption.
  Qed.

  (* ================================================================= the Peer interface *)
  Lemma peer_names_differ : ping_name <> get_machine_id_name.
  Proof. discriminate. Qed.

  Lemma filter_peer_spec h : filter_peer h = true <-> PeerHeader h.
  Proof.
    unfold filter_peer, PeerHeader, PingHeader, GetMachineIdHeader.
    destruct (dh_interface h) as [i|]; [|split; [discriminate|intros [[H _]|[H _]]; discriminate]].
    destruct (str_eqb i peer_iface) eqn:Ei.
    - apply str_eqb_spec in Ei. subst i.
      destruct (dh_member h) as [mem|]; [|split; [discriminate|intros [[_ H]|[_ H]]; discriminate]].
      rewrite orb_true_iff, !str_eqb_spec. split.
      + intros [-> | ->]; auto.
      + intros [[_ H]|[_ H]]; inversion H; auto.
    - split; [discriminate|]. intros [[H _]|[H _]]; inversion H; subst; rewrite str_eqb_refl in Ei; discriminate.
  Qed.

  Lemma is_peer_call_iff m : IsPeerCall m <-> m_typ m = MCall /\ PeerHeader (m_dh m).
  Proof. unfold IsPeerCall, IsPing, IsGetMachineId, PeerHeader. tauto. Qed.

  (** every message that is not a Ping/GetMachineId method call on the Peer interface - any other
      type, interface or member, or absent fields - is reported as not handled; nothing is written
      and the file system is not touched *)
  Theorem handle_peer_other e f m : ~ IsPeerCall m -> handle_peer_message utf8_valid e f m = Ok (false, [], f).
  Proof.
    intros Hn. unfold handle_peer_message.
    destruct (m_typ m) eqn:Ht; cbn [is_call negb]; try reflexivity.
    unfold IsPeerCall, IsPing, IsGetMachineId, PingHeader, GetMachineIdHeader in Hn. rewrite Ht in Hn.
    destruct (dh_interface (m_dh m)) as [i|]; [|reflexivity].
    destruct (str_eqb i peer_iface) eqn:Ei; [|reflexivity]. apply str_eqb_spec in Ei. subst i.
    destruct (dh_member (m_dh m)) as [mem|]; [|reflexivity].
    destruct (str_eqb mem ping_name) eqn:E1; [apply str_eqb_spec in E1; subst; exfalso; apply Hn; auto|].
    destruct (str_eqb mem get_machine_id_name) eqn:E2; [apply str_eqb_spec in E2; subst; exfalso; apply Hn; auto|].
    reflexivity.
  Qed.

  (** Ping: handled, exactly one message written: the empty reply to the call *)
  Theorem handle_peer_ping e f m : IsPing m ->
    handle_peer_message utf8_valid e f m = Ok (true, [make_response (m_dh m)], f).
  Proof.
    intros [Ht [Hi Hm]]. unfold handle_peer_message. rewrite Ht, Hi, Hm, !str_eqb_refl. reflexivity.
  Qed.

  (** GetMachineId: handled, exactly one message written: the reply to the call carrying the id,
      which is the stored id when one exists and a fresh 32-hex-digit id otherwise *)
  Theorem handle_peer_get_id e f m : IsGetMachineId m -> DrawOK e ->
    match f machine_id_path with
    | Some c => utf8_valid c = true /\ existsb (N.eqb 0) c = false
    | None => e_write_ok e = true
    end ->
    exists id f1, handle_peer_message utf8_valid e f m = Ok (true, [push_str id (make_response (m_dh m))], f1)
      /\ f1 machine_id_path = Some id
      /\ match f machine_id_path with
         | Some c => id = c /\ f1 = f
         | None => id = new_id e /\ MachineId id /\ f1 = fs_write machine_id_path id f
         end.
  Proof.
    intros [Ht [Hi Hm]] Hd Hpre. unfold handle_peer_message. rewrite Ht, Hi, Hm, str_eqb_refl.
    cbn [is_call negb].
    rewrite (str_eqb_neq get_machine_id_name ping_name) by discriminate. rewrite str_eqb_refl.
    destruct (f machine_id_path) as [c|] eqn:Hf.
    - destruct Hpre as [Hu Hz]. rewrite (get_machine_id_stored e f c Hf Hu). rewrite Hz.
      exists c, f. auto.
    - destruct (get_machine_id_fresh e f Hd Hpre Hf) as (id & Hg & Hid & HM). rewrite Hg.
      rewrite hex_no_nul by apply HM. exists id, (fs_write machine_id_path id f).
      split; [reflexivity|]. split; [apply fs_write_same|]. auto.
  Qed.

  (** the composed statement about the id: once the stored file holds what create_and_store wrote
      for SOME draw and clock (i.e. nobody else wrote /tmp/dbus_machine_uuid), every call - whatever
      is drawn or read from the clock now, whether or not writing would succeed - returns exactly
      that string, it is 32 hexadecimal digits, and the file system is left as it is *)
  Theorem stored_id_always_32hex e0 f :
    bytes_ok (e_rand e0) ->
    f machine_id_path = Some (new_id e0) ->            (* environment: only create_and_store writes the file *)
    forall e, get_machine_id utf8_valid e f = Ok (new_id e0, f) /\ MachineId (new_id e0).
  Proof.
    intros Hb Hf e. pose proof (new_id_machine_id e0 Hb) as Hid. split; [|exact Hid].
    apply get_machine_id_stored; [exact Hf|]. apply ascii_valid, hex_ascii, Hid.
  Qed.
  (** ... and from ANY state the environment assumption allows (no id file yet, or the file holds
      what create_and_store wrote for some earlier draw and clock): the call returns a 32-digit
      hexadecimal string, and every later call - any later draw, clock value, write outcome -
      returns that same string *)
  Theorem id_always_32hex e f : DrawOK e ->
    match f machine_id_path with
    | None => e_write_ok e = true
    | Some c => exists e0, bytes_ok (e_rand e0) /\ c = new_id e0     (* nobody else writes the file *)
    end ->
    exists id f1, get_machine_id utf8_valid e f = Ok (id, f1) /\ MachineId id
                  /\ forall e2, get_machine_id utf8_valid e2 f1 = Ok (id, f1).
  Proof.
    intros Hd Hpre. destruct (f machine_id_path) as [c|] eqn:Hf.
    - destruct Hpre as (e0 & Hb & ->). exists (new_id e0), f.
      destruct (stored_id_always_32hex e0 f Hb Hf e) as [H1 H2]. split; [exact H1|]. split; [exact H2|].
      intros e2. apply (stored_id_always_32hex e0 f Hb Hf e2).
    - destruct (get_machine_id_fresh e f Hd Hpre Hf) as (id & Hg & -> & HM).
      exists (new_id e), (fs_write machine_id_path (new_id e) f). split; [exact Hg|]. split; [exact HM|].
      destruct Hd as [_ Hb]. intros e2.
      apply (stored_id_always_32hex e (fs_write machine_id_path (new_id e) f) Hb (fs_write_same _ _ _) e2).
  Qed.
End WithUtf8.

Lemma ascii_only_valid s : Forall (fun c => c < 128) s -> ascii_only s = true.
Proof.
  intros H. unfold ascii_only. apply forallb_forall. rewrite Forall_forall in H. intros c Hc.
  apply N.ltb_lt. auto.
Qed.
