(** Specification of the client side of the auth handshake (written from the property text) and the
    theorems relating Conn/Auth.v to it, for every uid, flag and server script. *)
From RB Require Import Base.Prelude Conn.AddrBase Conn.Auth.

(* ================================================================ line endings *)
(* specification: the byte string contains CR LF somewhere *)
Definition has_crlf (l : list N) : Prop := exists a b, l = a ++ CRLF ++ b.
(* [line] is what precedes the FIRST CR LF of [bytes], [rest] what follows it *)
Definition first_line (bytes line rest : list N) : Prop :=
  bytes = line ++ CRLF ++ rest /\ ~ has_crlf (line ++ [CR]).

Lemma has_le_from_app_crlf prev a b : has_le_from prev (a ++ CRLF ++ b) = true.
Proof.
  revert prev; induction a as [|x a IH]; intros prev; cbn [app has_le_from CRLF].
  - destruct ((prev =? CR) && (CR =? LF)); [reflexivity|]. cbn. reflexivity.
  - destruct ((prev =? CR) && (x =? LF)); [reflexivity|apply IH].
Qed.
Lemma has_line_ending_intro l : has_crlf l -> has_line_ending l = true.
Proof.
  intros (a & b & ->). destruct a as [|x a]; cbn [app has_line_ending CRLF].
  - reflexivity.
  - apply has_le_from_app_crlf.
Qed.

Lemma has_find_agree idx prev rest : has_le_from prev rest = true <-> find_le_from idx prev rest <> None.
Proof.
  revert idx prev; induction rest as [|c r IH]; intros idx prev; cbn [has_le_from find_le_from].
  - split; [discriminate|congruence].
  - destruct ((prev =? CR) && (c =? LF)); [split; [discriminate|reflexivity]|apply IH].
Qed.

Lemma find_le_from_some idx prev rest i :
  1 <= idx -> find_le_from idx prev rest = Some i ->
  exists a b, prev :: rest = a ++ CRLF ++ b /\ i = idx - 1 + len a /\ has_line_ending (a ++ [CR]) = false.
Proof.
  revert idx prev; induction rest as [|c r IH]; intros idx prev Hidx H; cbn [find_le_from] in H; [discriminate|].
  destruct ((prev =? CR) && (c =? LF)) eqn:E.
  - apply andb_true_iff in E. destruct E as [E1 E2]. apply N.eqb_eq in E1, E2. subst.
    inversion H; subst. exists [], r. rewrite len_nil. split; [reflexivity|split; [lia|reflexivity]].
  - apply IH in H; [|lia]. destruct H as (a & b & Ea & Ei & Hn).
    exists (prev :: a), b. split; [cbn [app]; now rewrite Ea|]. split; [rewrite len_cons; lia|].
    cbn [app has_line_ending].
    destruct a as [|x a]; cbn [app] in *.
    + inversion Ea; subst. cbn [has_le_from]. now rewrite E.
    + inversion Ea; subst. cbn [has_le_from]. rewrite E. exact Hn.
Qed.

Lemma find_line_ending_some buf i :
  find_line_ending buf = Some i ->
  exists a b, buf = a ++ CRLF ++ b /\ i = len a /\ has_line_ending (a ++ [CR]) = false.
Proof.
  destruct buf as [|b0 r]; cbn [find_line_ending]; [discriminate|]. intros H.
  apply find_le_from_some in H; [|lia]. destruct H as (a & b & Ea & Ei & Hn). exists a, b. repeat split; auto; try lia.
Qed.
Lemma has_line_ending_find buf : has_line_ending buf = true <-> exists i, find_line_ending buf = Some i.
Proof.
  destruct buf as [|b0 r]; cbn [has_line_ending find_line_ending].
  - split; [discriminate|intros [i H]; discriminate].
  - rewrite (has_find_agree 1). destruct (find_le_from 1 b0 r) as [i|]; split; try congruence; eauto.
    intros [i H]; discriminate.
Qed.
Lemma has_line_ending_spec buf : has_line_ending buf = true <-> has_crlf buf.
Proof.
  split; [|apply has_line_ending_intro]. intros H. apply has_line_ending_find in H. destruct H as [i H].
  apply find_line_ending_some in H. destruct H as (a & b & -> & _). now exists a, b.
Qed.
Lemma no_line_ending_spec buf : has_line_ending buf = false <-> ~ has_crlf buf.
Proof. rewrite <- has_line_ending_spec. destruct (has_line_ending buf); split; congruence. Qed.

(* find_line_ending returns exactly the first line *)
Lemma find_line_ending_first_line buf i :
  find_line_ending buf = Some i -> first_line buf (firstnN i buf) (skipnN (i + 2) buf).
Proof.
  intros H. apply find_line_ending_some in H. destruct H as (a & b & -> & -> & Hn).
  rewrite firstnN_app_len. replace (len a + 2) with (len (a ++ CRLF)) by (rewrite len_app; reflexivity).
  rewrite app_assoc, skipnN_app_len. split; [now rewrite <- app_assoc|]. now apply no_line_ending_spec.
Qed.
Lemma first_line_find buf line rest : first_line buf line rest -> find_line_ending buf = Some (len line).
Proof.
  intros [-> Hn]. assert (Hh : has_line_ending (line ++ CRLF ++ rest) = true) by (apply has_line_ending_intro; now exists line, rest).
  apply has_line_ending_find in Hh. destruct Hh as [i Hi]. rewrite Hi. f_equal.
  apply find_line_ending_some in Hi. destruct Hi as (a & b & Ea & -> & Hna).
  apply no_line_ending_spec in Hna.
  (* two decompositions with no earlier CRLF: equal lengths *)
  destruct (N.lt_trichotomy (len a) (len line)) as [Hlt|[Heq|Hgt]]; [exfalso|exact Heq|exfalso].
  - apply Hn. apply app_eq_app in Ea. destruct Ea as [l [[E1 E2]|[E1 E2]]].
    + (* line = a ++ l *) subst line. destruct l as [|x l]; [rewrite app_nil_r in Hlt; lia|].
      cbn [CRLF app] in E2. inversion E2; subst.
      destruct l as [|y l].
      * exists a, []. now rewrite <- app_assoc.
      * inversion H1; subst. exists a, (l ++ [CR]). rewrite <- !app_assoc. reflexivity.
    + subst a. rewrite len_app in Hlt. lia.
  - apply Hna. symmetry in Ea. apply app_eq_app in Ea. destruct Ea as [l [[E1 E2]|[E1 E2]]].
    + subst a. destruct l as [|x l]; [rewrite app_nil_r in Hgt; lia|].
      cbn [CRLF app] in E2. inversion E2; subst.
      destruct l as [|y l].
      * exists line, []. now rewrite <- app_assoc.
      * inversion H1; subst. exists line, (l ++ [CR]). rewrite <- !app_assoc. reflexivity.
    + subst line. rewrite len_app in Hgt. lia.
Qed.
Lemma app_eq_length {A} (a1 a2 b1 b2 : list A) :
  length a1 = length a2 -> a1 ++ b1 = a2 ++ b2 -> a1 = a2 /\ b1 = b2.
Proof.
  revert a2; induction a1 as [|x a1 IH]; intros [|y a2] Hl E; cbn in *; try discriminate; [auto|].
  inversion E; subst. destruct (IH a2) as [-> ->]; auto.
Qed.
Lemma first_line_unique buf l1 r1 l2 r2 : first_line buf l1 r1 -> first_line buf l2 r2 -> l1 = l2 /\ r1 = r2.
Proof.
  intros H1 H2. pose proof (first_line_find _ _ _ H1) as F1. pose proof (first_line_find _ _ _ H2) as F2.
  rewrite F1 in F2. inversion F2 as [Hl]. destruct H1 as [E1 _], H2 as [E2 _]. rewrite E1 in E2.
  assert (Hlen : length l1 = length l2) by (unfold len in Hl; lia).
  apply app_eq_length in E2; [|exact Hlen]. destruct E2 as [-> E]. split; [reflexivity|].
  now apply app_inv_head in E.
Qed.

(* ================================================================ read pieces *)
Lemma cut_concat fuel c : (length c <= fuel)%nat -> concat (cut fuel c) = c.
Proof.
  revert c; induction fuel as [|f IH]; intros c H; cbn [cut].
  - destruct c; [reflexivity|cbn in H; lia].
  - destruct c as [|x c]; [reflexivity|]. cbn [concat]. rewrite IH.
    + apply firstn_skipn.
    + rewrite skipn_length. unfold TMPBUF. cbn [length] in *. lia.
Qed.
Lemma pieces_concat c : concat (pieces c) = c.
Proof. apply cut_concat. lia. Qed.
Lemma cut_bounds fuel c : Forall (fun p => p <> [] /\ (length p <= TMPBUF)%nat) (cut fuel c).
Proof.
  revert c; induction fuel as [|f IH]; intros c; cbn [cut]; [constructor|].
  destruct c as [|x c]; [constructor|]. constructor; [|apply IH]. split.
  - unfold TMPBUF. cbn [firstn]. discriminate.
  - apply firstn_le_length.
Qed.
Lemma concat_flat_map_pieces cs : concat (flat_map pieces cs) = concat cs.
Proof. induction cs as [|c cs IH]; cbn [flat_map concat]; [reflexivity|]. now rewrite concat_app, pieces_concat, IH. Qed.

(* ================================================================ get_uid_as_hex *)
(* specification: the decimal digits of a number, most significant first, and their value *)
Definition dec_value (ds : list N) : N := fold_left (fun a d => 10 * a + d) ds 0.
Definition decimal_of (n : N) (ds : list N) : Prop :=
  dec_value ds = n /\ Forall (fun d => d < 10) ds /\ (ds = [0] \/ exists d r, ds = d :: r /\ d <> 0).
(* ASCII digit d is 0x30+d; its two hex characters are '3' and the digit itself *)
Definition hex_of_digit (d : N) : list N := [51; 48 + d].
Definition hex_of_digits (ds : list N) : list N := concat (map hex_of_digit ds).

Fixpoint le10 (ns : list N) : N := match ns with [] => 0 | d :: r => d + 10 * le10 r end.
Lemma le10_app a b : le10 (a ++ b) = le10 a + 10 ^ len a * le10 b.
Proof.
  induction a as [|x a IH]; cbn [app le10].
  - change (len (@nil N)) with 0. rewrite N.pow_0_r. lia.
  - rewrite IH, len_cons. replace (1 + len a) with (N.succ (len a)) by lia. rewrite N.pow_succ_r'. lia.
Qed.
Lemma dec_value_rev ns : dec_value (rev ns) = le10 ns.
Proof.
  unfold dec_value. induction ns as [|d r IH]; cbn [rev le10]; [reflexivity|].
  rewrite fold_left_app. cbn [fold_left]. rewrite IH. lia.
Qed.

Lemma digits_loop_spec fuel tmp numbers :
  tmp < 10 ^ N.of_nat fuel ->
  exists extra, digits_loop fuel tmp numbers = Ok (numbers ++ extra) /\ le10 extra = tmp
                /\ Forall (fun d => d < 10) extra /\ (tmp = 0 -> extra = [])
                /\ (tmp <> 0 -> exists d r, rev extra = d :: r /\ d <> 0).
Proof.
  revert tmp numbers; induction fuel as [|f IH]; intros tmp numbers H; cbn [digits_loop].
  - cbn in H. assert (tmp = 0) by lia. subst. cbn. exists []. rewrite app_nil_r. repeat split; auto. congruence.
  - destruct (N.eqb_spec tmp 0) as [->|Hne].
    + exists []. rewrite app_nil_r. repeat split; auto. congruence.
    + assert (Hd : tmp / 10 < 10 ^ N.of_nat f).
      { rewrite Nat2N.inj_succ, N.pow_succ_r' in H. apply N.div_lt_upper_bound; lia. }
      destruct (IH (tmp / 10) (numbers ++ [tmp mod 10]) Hd) as (extra & E & Hv & Hall & Hz & Hnz).
      exists ((tmp mod 10) :: extra). rewrite E, <- app_assoc. split; [reflexivity|].
      pose proof (N.div_mod tmp 10 ltac:(lia)) as Hdm. pose proof (N.mod_lt tmp 10 ltac:(lia)) as Hm.
      split; [cbn [le10]; lia|]. split; [constructor; auto|]. split; [congruence|]. intros _.
      destruct (N.eq_dec (tmp / 10) 0) as [Hq|Hq].
      * rewrite (Hz Hq). cbn [rev app]. exists (tmp mod 10), []. split; [reflexivity|]. lia.
      * destruct (Hnz Hq) as (d & r & Er & Hd0). cbn [rev]. rewrite Er. exists d, (r ++ [tmp mod 10]). auto.
Qed.

Lemma hex_digit_spec d : d < 10 -> hex_digit d = Ok (hex_of_digit d).
Proof.
  intros H. unfold hex_of_digit.
  assert (Hc : d = 0 \/ d = 1 \/ d = 2 \/ d = 3 \/ d = 4 \/ d = 5 \/ d = 6 \/ d = 7 \/ d = 8 \/ d = 9) by lia.
  repeat (destruct Hc as [->|Hc]; [reflexivity|]). subst; reflexivity.
Qed.

Lemma firstn_S_nth {A} (l : list A) n d : nth_error l n = Some d -> firstn (S n) l = firstn n l ++ [d].
Proof.
  revert l; induction n as [|n IH]; intros [|x l] H; cbn in *; try discriminate.
  - now inversion H.
  - now rewrite (IH l H).
Qed.

Lemma hex_loop_spec numbers : Forall (fun d => d < 10) numbers ->
  forall n idx hex, (n <= length numbers)%nat -> idx = len numbers - N.of_nat n ->
  hex_loop n idx numbers hex = Ok (hex ++ hex_of_digits (rev (firstn n numbers))).
Proof.
  intros Hall. induction n as [|n IH]; intros idx hex Hn Hidx; cbn [hex_loop].
  - cbn. now rewrite app_nil_r.
  - assert (Hpos : len numbers - 1 - idx = N.of_nat n) by (unfold len in *; lia).
    unfold nthN. rewrite Hpos, Nat2N.id.
    destruct (nth_error numbers n) as [d|] eqn:En; [|apply nth_error_None in En; lia].
    assert (Hd : d < 10). { rewrite Forall_forall in Hall. apply Hall. eapply nth_error_In; eauto. }
    rewrite (hex_digit_spec d Hd). cbn [bind]. rewrite IH; [|lia|unfold len in *; lia].
    rewrite (firstn_S_nth _ _ _ En), rev_app_distr. cbn [rev app]. unfold hex_of_digits. cbn [map concat].
    now rewrite <- app_assoc.
Qed.

(* the AUTH argument is the ASCII-hex of the decimal digits of the uid, for every 32-bit uid *)
Theorem get_uid_as_hex_spec uid : uid < 2 ^ 32 ->
  exists ds, get_uid_as_hex uid = Ok (hex_of_digits ds) /\ decimal_of uid ds.
Proof.
  intros H. unfold get_uid_as_hex. destruct (N.eqb_spec uid 0) as [->|Hne].
  - exists [0]. split; [reflexivity|]. repeat split; auto.
  - assert (Hf : uid < 10 ^ N.of_nat 10) by (cbn; lia).
    destruct (digits_loop_spec 10 uid [] Hf) as (extra & E & Hv & Hall & _ & Hnz).
    cbn [app] in E. rewrite E. cbn [bind]. exists (rev extra). split.
    + rewrite hex_loop_spec; auto; [|unfold len; lia]. cbn [app]. now rewrite firstn_all.
    + split; [now rewrite dec_value_rev|]. split; [now apply Forall_rev|]. right. exact (Hnz Hne).
Qed.
Lemma get_uid_as_hex_ok uid : uid < 2 ^ 32 -> exists hex, get_uid_as_hex uid = Ok hex.
Proof. intros H. destruct (get_uid_as_hex_spec uid H) as (ds & E & _). eauto. Qed.

(* ================================================================ the socket *)
Definition fpieces (fu : list step) : list (list N) := flat_map step_pieces fu.
(* [s'] is [s] after the system calls [evs]: the log grows by them, and every piece is either read
   by them, still queued, or not yet sent by the peer *)
Definition ext (s s' : sock) (evs : list event) : Prop :=
  log s' = log s ++ evs /\ reads evs ++ rq s' ++ fpieces (future s') = rq s ++ fpieces (future s).

Lemma reads_app a b : reads (a ++ b) = reads a ++ reads b.
Proof. induction a as [|[x|x|] a IH]; cbn [app reads]; [reflexivity|exact IH|now rewrite IH|exact IH]. Qed.
Lemma sent_app a b : sent (a ++ b) = sent a ++ sent b.
Proof. induction a as [|[x|x|] a IH]; cbn [app sent]; [reflexivity|now rewrite IH, app_assoc|exact IH|exact IH]. Qed.
Lemma reads_map_R ps : reads (map R ps) = ps.
Proof. induction ps as [|p ps IH]; cbn [map reads]; [reflexivity|now rewrite IH]. Qed.
Lemma sent_map_R ps : sent (map R ps) = [].
Proof. induction ps as [|p ps IH]; cbn [map sent]; [reflexivity|exact IH]. Qed.

Lemma ext_refl s : ext s s [].
Proof. split; [now rewrite app_nil_r|reflexivity]. Qed.
Lemma ext_trans s s' s'' e1 e2 : ext s s' e1 -> ext s' s'' e2 -> ext s s'' (e1 ++ e2).
Proof.
  intros [L1 P1] [L2 P2]. split; [now rewrite L2, L1, app_assoc|].
  rewrite reads_app, <- app_assoc, P2. exact P1.
Qed.

Lemma sock_write_some s b line s' :
  sock_write s b line = Some s' -> closed s = false /\ ext s s' [W b] /\ (line = false -> closed s' = false).
Proof.
  unfold sock_write. destruct (closed s) eqn:Ec; [discriminate|]. intros H. split; [reflexivity|].
  destruct line; [destruct (future s) as [|st fu] eqn:Ef|]; inversion H; subst; clear H; cbn.
  - split; [split; cbn; [reflexivity|now rewrite Ef]|discriminate].
  - split; [split; cbn; [reflexivity|]|discriminate]. rewrite Ef. unfold fpieces. cbn [flat_map]. now rewrite <- app_assoc.
  - split; [split; cbn; reflexivity|auto].
Qed.
Lemma sock_write_none s b line : sock_write s b line = None -> closed s = true.
Proof.
  unfold sock_write. destruct (closed s); [reflexivity|]. destruct line; [destruct (future s)|]; discriminate.
Qed.

Lemma read_loop_spec fuel : forall s buf, (length (rq s) < fuel)%nat ->
  match read_loop fuel s buf with
  | (tag, s', buf') =>
      exists ps, buf' = buf ++ concat ps /\ closed s' = closed s /\ future s' = future s /\ rq s = ps ++ rq s'
        /\ match tag with
           | LDone => log s' = log s ++ map R ps /\ has_line_ending buf' = true
                      /\ (forall ps0 p, ps = ps0 ++ [p] -> has_line_ending (buf ++ concat ps0) = false)
           | LErr => log s' = log s ++ map R ps ++ [E] /\ has_line_ending buf' = false /\ rq s' = [] /\ closed s = true
           | LTooLong => log s' = log s ++ map R ps /\ has_line_ending buf' = false /\ MAX_AUTH_LINE_LEN < len buf'
           | LBlocked => log s' = log s ++ map R ps /\ has_line_ending buf' = false /\ rq s' = [] /\ closed s = false
           | LFuel => False
           end
  end.
Proof.
  induction fuel as [|f IH]; intros s buf Hf; [lia|]. cbn [read_loop].
  destruct (has_line_ending buf) eqn:Eh.
  - exists []. cbn [concat map app]. rewrite !app_nil_r. repeat split; auto.
    intros ps0 p H. destruct ps0; discriminate.
  - destruct (N.ltb_spec MAX_AUTH_LINE_LEN (len buf)) as [Hlong|Hshort].
    { exists []. cbn [concat map app]. rewrite !app_nil_r. repeat split; auto. }
    unfold sock_read. destruct (rq s) as [|p q] eqn:Erq.
    + destruct (closed s) eqn:Ec.
      * exists []. cbn [concat map app rq log closed future]. rewrite !app_nil_r. repeat split; auto.
      * exists []. cbn [concat map app]. rewrite !app_nil_r, Erq. repeat split; auto.
    + set (s1 := {| rq := q; closed := closed s; future := future s; log := log s ++ [R p] |}).
      specialize (IH s1 (buf ++ p)). cbn [length] in Hf.
      assert (Hf1 : (length (rq s1) < f)%nat) by (cbn; lia). specialize (IH Hf1).
      destruct (read_loop f s1 (buf ++ p)) as [[tag s'] buf'].
      destruct IH as (ps & Eb & Ec & Efu & Erq1 & Htag). cbn [rq closed future log s1] in *.
      subst buf'. exists (p :: ps). cbn [concat map]. rewrite <- app_assoc. split; [reflexivity|].
      split; [exact Ec|]. split; [exact Efu|]. split; [now rewrite Erq1|].
      destruct tag.
      * destruct Htag as (El & Hh & Hstop). rewrite El, <- app_assoc. cbn [app]. split; [reflexivity|].
        split; [now rewrite <- app_assoc in Hh|]. intros ps0 p0 E0. destruct ps0 as [|x ps0]; cbn [app] in E0; inversion E0; subst.
        -- cbn [concat]. now rewrite app_nil_r.
        -- cbn [concat]. rewrite app_assoc. now apply (Hstop ps0 p0).
      * destruct Htag as (El & Hh & Hq & Hc). rewrite El, <- app_assoc. cbn [app]. rewrite <- app_assoc in Hh. repeat split; auto.
      * destruct Htag as (El & Hh & Hl). rewrite El, <- app_assoc. cbn [app]. rewrite <- app_assoc in Hh, Hl. repeat split; auto.
      * destruct Htag as (El & Hh & Hq & Hc). rewrite El, <- app_assoc. cbn [app]. rewrite <- app_assoc in Hh. repeat split; auto.
      * exact Htag.
Qed.

(* the bytes read after the first CR LF all come from the last read *)
Definition stops_early (ps : list (list N)) (dropped : list N) : Prop :=
  exists ps0 p, ps = ps0 ++ [p] /\ ~ has_crlf (concat ps0) /\ len dropped < len p.

Lemma stops_early_intro ps0 p line dropped :
  ~ has_crlf (concat ps0) -> first_line (concat (ps0 ++ [p])) line dropped -> len dropped < len p.
Proof.
  intros Hn [E _]. rewrite concat_app in E. cbn [concat] in E. rewrite app_nil_r in E.
  rewrite app_assoc in E. apply app_eq_app in E. destruct E as [l [[E1 E2]|[E1 E2]]].
  - exfalso. apply Hn. rewrite E1. exists line, l. now rewrite <- app_assoc.
  - destruct l as [|x l].
    + exfalso. apply Hn. rewrite app_nil_r in E1. rewrite <- E1. exists line, []. now rewrite app_nil_r.
    + rewrite E2, len_app, len_cons. lia.
Qed.

(* read_message on a fresh buffer *)
Lemma read_message_spec fuel s : (length (rq s) < fuel)%nat ->
  match read_message fuel s [] with
  | (r, s') =>
      exists ps, rq s = ps ++ rq s' /\ closed s' = closed s /\ future s' = future s
        /\ match r with
           | RmLine line => log s' = log s ++ map R ps
                            /\ exists dropped, first_line (concat ps) line dropped /\ utf8_valid line = true /\ stops_early ps dropped
           | RmErr => (log s' = log s ++ map R ps
                       /\ exists line dropped, first_line (concat ps) line dropped /\ utf8_valid line = false)
                      \/ (log s' = log s ++ map R ps ++ [E] /\ ~ has_crlf (concat ps) /\ rq s' = [] /\ closed s = true)
                      \/ (log s' = log s ++ map R ps /\ ~ has_crlf (concat ps) /\ MAX_AUTH_LINE_LEN < len (concat ps))
           | RmBlocked => log s' = log s ++ map R ps /\ ~ has_crlf (concat ps) /\ rq s' = [] /\ closed s = false
           | RmPanic | RmFuel => False
           end
  end.
Proof.
  intros Hf. unfold read_message. pose proof (read_loop_spec fuel s [] Hf) as H.
  destruct (read_loop fuel s []) as [[tag s'] buf']. destruct H as (ps & Eb & Ec & Efu & Erq & Htag).
  cbn [app] in Eb. subst buf'. destruct tag.
  - destruct Htag as (El & Hh & Hstop). apply has_line_ending_find in Hh. destruct Hh as [i Hi]. rewrite Hi.
    pose proof (find_line_ending_first_line _ _ Hi) as Hfl.
    destruct (utf8_valid (firstnN i (concat ps))) eqn:Eu.
    + exists ps. repeat split; auto. exists (skipnN (i + 2) (concat ps)). repeat split; try apply Hfl; auto.
      destruct (exists_last (l := ps)) as (ps0 & p & ->).
      { intros ->. cbn in Hi. discriminate. }
      exists ps0, p. split; [reflexivity|]. specialize (Hstop ps0 p eq_refl). cbn [app] in Hstop.
      apply no_line_ending_spec in Hstop. split; [exact Hstop|]. eapply stops_early_intro; eauto.
    + exists ps. repeat split; auto. left. split; [exact El|]. eauto.
  - destruct Htag as (El & Hh & Hq & Hc). exists ps. repeat split; auto. right. left. apply no_line_ending_spec in Hh. auto.
  - destruct Htag as (El & Hh & Hl). exists ps. repeat split; auto. right. right. apply no_line_ending_spec in Hh. auto.
  - destruct Htag as (El & Hh & Hq & Hc). exists ps. apply no_line_ending_spec in Hh. repeat split; auto.
  - destruct Htag.
Qed.

(* ================================================================ the protocol, as the property text has it *)
(* what the client reads in answer to one of its lines, and how it must judge it *)
(* the command of a reply line is its first space-separated word; a reply accepts iff that word is exactly the
   expected one ("OK" for AUTH, "AGREE_UNIX_FD" for NEGOTIATE_UNIX_FD): OKAY, OKfoo, AGREE_UNIX_FDX do not *)
Definition first_word (line : list N) : list N :=
  match split_once SPACE line with Some (w, _) => w | None => line end.
Definition accepts (word line : list N) : bool := bytes_eqb (first_word line) word.

Lemma strip_prefix_spec pfx s rest : strip_prefix pfx s = Some rest <-> s = pfx ++ rest.
Proof.
  revert s; induction pfx as [|x p IH]; intros s; cbn [strip_prefix app].
  - split; [intros E; now inversion E|intros ->; reflexivity].
  - destruct s as [|y s]; [split; discriminate|]. destruct (N.eqb_spec x y) as [->|Hne].
    + rewrite IH. split; [intros ->; reflexivity|intros E; now inversion E].
    + split; [discriminate|intros E; inversion E; congruence].
Qed.
(* the code's test is the specification's, for a command word without a space *)
Lemma is_command_spec word line : ~ In SPACE word -> is_command line word = accepts word line.
Proof.
  intros Hw. unfold is_command, accepts, first_word.
  destruct (strip_prefix word line) as [rest|] eqn:E.
  - apply strip_prefix_spec in E. subst line. destruct rest as [|c rest].
    + rewrite app_nil_r. rewrite (proj2 (split_once_none SPACE word) Hw). now rewrite bytes_eqb_refl.
    + destruct (N.eqb_spec c SPACE) as [->|Hc].
      * rewrite (proj2 (split_once_some SPACE (word ++ SPACE :: rest) word rest) (conj eq_refl Hw)). now rewrite bytes_eqb_refl.
      * symmetry. apply bytes_eqb_neq. intros Hfw.
        destruct (split_once SPACE (word ++ c :: rest)) as [[w r]|] eqn:Es.
        -- apply split_once_some in Es. destruct Es as [Es Hnw]. subst w. rewrite <- (app_nil_r word) in Es at 2.
           rewrite <- app_assoc in Es. apply app_inv_head in Es. cbn in Es. inversion Es. congruence.
        -- assert (Hl : length (word ++ c :: rest) = length word) by now rewrite Hfw. rewrite app_length in Hl. cbn in Hl. lia.
  - symmetry. apply bytes_eqb_neq. intros Hfw.
    assert (Hs : exists rest, line = word ++ rest).
    { destruct (split_once SPACE line) as [[w r]|] eqn:Es.
      - apply split_once_some in Es. destruct Es as [-> _]. subst w. eauto.
      - subst line. exists []. now rewrite app_nil_r. }
    destruct Hs as [rest Hs]. apply strip_prefix_spec in Hs. congruence.
Qed.
(* in words: the line is the word alone, or the word, a space, and arguments *)
Lemma accepts_iff word line : ~ In SPACE word ->
  (accepts word line = true <-> line = word \/ exists args, line = word ++ SPACE :: args).
Proof.
  intros Hw. unfold accepts, first_word. rewrite bytes_eqb_spec. split.
  - destruct (split_once SPACE line) as [[w r]|] eqn:E.
    + apply split_once_some in E. destruct E as [-> _]. intros ->. right. now exists r.
    + intros ->. now left.
  - intros [->|[args ->]].
    + now rewrite (proj2 (split_once_none SPACE word) Hw).
    + now rewrite (proj2 (split_once_some SPACE (word ++ SPACE :: args) word args) (conj eq_refl Hw)).
Qed.
Lemma OK_no_space : ~ In SPACE OK_. Proof. cbv. intuition discriminate. Qed.
Lemma AGREE_no_space : ~ In SPACE AGREE_UNIX_FD. Proof. cbv. intuition discriminate. Qed.

Inductive reply_shape (word : list N) : list event -> auth_res -> Prop :=
| ReplyAccept ps line dropped :        (* a complete UTF-8 line whose command word is the expected one *)
    first_line (concat ps) line dropped -> stops_early ps dropped ->
    utf8_valid line = true -> accepts word line = true -> reply_shape word (map R ps) AOk
| ReplyReject ps line dropped :        (* a complete UTF-8 line that does not (REJECTED, ERROR, garbage, ...) *)
    first_line (concat ps) line dropped -> stops_early ps dropped ->
    utf8_valid line = true -> accepts word line = false -> reply_shape word (map R ps) ARejected
| ReplyNotUtf8 ps line dropped :       (* a complete line that is not UTF-8 *)
    first_line (concat ps) line dropped -> utf8_valid line = false -> reply_shape word (map R ps) AErr
| ReplyEof ps :                        (* the peer closed before completing a line *)
    ~ has_crlf (concat ps) -> reply_shape word (map R ps ++ [E]) AErr
| ReplyTooLong ps :                    (* more than MAX_AUTH_LINE_LEN bytes without a line ending: given up *)
    ~ has_crlf (concat ps) -> MAX_AUTH_LINE_LEN < len (concat ps) -> reply_shape word (map R ps) AErr
| ReplyBlocked ps :                    (* the peer is silent with the socket open: the client waits in read() *)
    ~ has_crlf (concat ps) -> reply_shape word (map R ps) ABlocked.

(* whatever the peer sends, one reply costs at most MAX_AUTH_LINE_LEN + 1 read calls (each returns at least
   one byte, or 0 once) and at most MAX_AUTH_LINE_LEN + 512 bytes (the size of the read buffer) *)
Definition within_limits (evs : list event) : Prop :=
  len evs <= MAX_AUTH_LINE_LEN + 1 /\ len (received evs) <= MAX_AUTH_LINE_LEN + 512.
Definition reply (word : list N) (evs : list event) (a : auth_res) : Prop :=
  reply_shape word evs a /\ within_limits evs.

Definition accepted (word r : list N) : Prop :=
  exists line dropped, first_line r line dropped /\ utf8_valid line = true /\ accepts word line = true.

Definition AUTH_LINE (hex : list N) : list N := AUTH_EXTERNAL ++ hex ++ CRLF.
Definition NEG_LINE : list N := NEGOTIATE_UNIX_FD ++ CRLF.
Definition BEGIN_LINE : list N := BEGIN ++ CRLF.
(* how a non-accepting reply ends the connection attempt *)
Definition refused (rej : conn_result) (a : auth_res) : conn_result :=
  match a with ARejected => rej | ABlocked => CBlocked | _ => CErr end.

(* the conforming runs of the client: system-call log and reported result *)
Inductive conforming (hex : list N) (with_fd : bool) : list event -> conn_result -> Prop :=
| RunNoPeer :                                   (* the peer is gone before the NUL byte: nothing sent *)
    conforming hex with_fd [] CErr
| RunAuthRefused evs a :
    reply OK_ evs a -> a <> AOk ->
    conforming hex with_fd (W NUL :: W (AUTH_LINE hex) :: evs) (refused CAuthFailed a)
| RunBeginFailed evs :                          (* accepted, no fd negotiation, BEGIN could not be written *)
    with_fd = false -> reply OK_ evs AOk ->
    conforming hex with_fd (W NUL :: W (AUTH_LINE hex) :: evs) CErr
| RunOk evs :
    with_fd = false -> reply OK_ evs AOk ->
    conforming hex with_fd (W NUL :: W (AUTH_LINE hex) :: evs ++ [W BEGIN_LINE]) COk
| RunNegFailed evs :                            (* accepted, NEGOTIATE_UNIX_FD could not be written *)
    with_fd = true -> reply OK_ evs AOk ->
    conforming hex with_fd (W NUL :: W (AUTH_LINE hex) :: evs) CErr
| RunFdRefused evs1 evs2 a :
    with_fd = true -> reply OK_ evs1 AOk -> reply AGREE_UNIX_FD evs2 a -> a <> AOk ->
    conforming hex with_fd (W NUL :: W (AUTH_LINE hex) :: evs1 ++ W NEG_LINE :: evs2) (refused CFdFailed a)
| RunFdBeginFailed evs1 evs2 :
    with_fd = true -> reply OK_ evs1 AOk -> reply AGREE_UNIX_FD evs2 AOk ->
    conforming hex with_fd (W NUL :: W (AUTH_LINE hex) :: evs1 ++ W NEG_LINE :: evs2) CErr
| RunFdOk evs1 evs2 :
    with_fd = true -> reply OK_ evs1 AOk -> reply AGREE_UNIX_FD evs2 AOk ->
    conforming hex with_fd (W NUL :: W (AUTH_LINE hex) :: evs1 ++ W NEG_LINE :: evs2 ++ [W BEGIN_LINE]) COk.

(* ================================================================ the model conforms *)
Definition avail (s : sock) : nat := length (rq s ++ fpieces (future s)).

Lemma ext_avail s s' evs : ext s s' evs -> (avail s' <= avail s)%nat /\ (length (rq s') <= avail s)%nat.
Proof.
  intros [_ P]. unfold avail. rewrite <- P. rewrite !app_length. lia.
Qed.

(* the peer's answer to the next line neither completes a line nor closes the socket (or there is none) *)
Definition silent (fu : list step) : Prop :=
  match fu with [] => True | st :: _ => closes st = false /\ ~ has_crlf (concat (chunks st)) end.

Lemma sock_write_line s b s1 :
  sock_write s b true = Some s1 ->
  future s1 = tl (future s)
  /\ match future s with [] => True | st :: _ => rq s1 = rq s ++ step_pieces st /\ closed s1 = closes st end.
Proof.
  unfold sock_write. destruct (closed s); [discriminate|]. destruct (future s) as [|st fu]; intros H; inversion H; subst; cbn; auto.
Qed.
Lemma sock_write_noline s b s1 : sock_write s b false = Some s1 -> future s1 = future s.
Proof. unfold sock_write. destruct (closed s); [discriminate|]. intros H; inversion H; subst; reflexivity. Qed.
Lemma has_crlf_app_r a b : has_crlf b -> has_crlf (a ++ b).
Proof. intros (x & y & ->). exists (a ++ x), y. now rewrite <- app_assoc. Qed.

Lemma ext_reads s1 s2 ps tail :
  rq s1 = ps ++ rq s2 -> future s2 = future s1 -> log s2 = log s1 ++ map R ps ++ tail -> reads tail = [] ->
  ext s1 s2 (map R ps ++ tail).
Proof.
  intros Erq Efu El Ht. split; [exact El|]. rewrite reads_app, reads_map_R, Ht, app_nil_r, Erq, Efu.
  now rewrite app_assoc.
Qed.

(* ---------------------------------------------------------------- limits that do not depend on the script *)
(* what read() returns: at least one byte, at most the 512 bytes of tmpbuf *)
Definition piece_ok (p : list N) : Prop := p <> [] /\ (length p <= TMPBUF)%nat.
Definition wf (s : sock) : Prop := Forall piece_ok (rq s).

Lemma piece_ok_len p : piece_ok p -> 1 <= len p <= 512.
Proof. intros [Hne Hl]. unfold TMPBUF in Hl. destruct p; [congruence|]. unfold len. cbn [length] in *. lia. Qed.
Lemma step_pieces_ok st : Forall piece_ok (step_pieces st).
Proof.
  unfold step_pieces. induction (chunks st) as [|c cs IH]; cbn [flat_map]; [constructor|].
  apply Forall_app. split; [apply cut_bounds|exact IH].
Qed.
Lemma wf_init scr : wf (sock_init scr).
Proof. apply step_pieces_ok. Qed.
Lemma wf_write s b line s' : wf s -> sock_write s b line = Some s' -> wf s'.
Proof.
  unfold sock_write, wf. intros Hw. destruct (closed s); [discriminate|].
  destruct line; [destruct (future s) as [|st fu]|]; intros H; inversion H; subst; cbn [rq]; auto.
  apply Forall_app. split; [exact Hw|apply step_pieces_ok].
Qed.

Lemma received_app a b : received (a ++ b) = received a ++ received b.
Proof. unfold received. now rewrite reads_app, concat_app. Qed.

(* the loop makes at most MAX_AUTH_LINE_LEN + 1 - len buf read calls and never holds more than
   MAX_AUTH_LINE_LEN + 512 bytes (unless it was handed more) *)
Lemma read_loop_bounds fuel : forall s buf, wf s ->
  match read_loop fuel s buf with
  | (tag, s', buf') =>
      wf s' /\ len (log s') <= len (log s) + (MAX_AUTH_LINE_LEN + 1 - len buf)
      /\ len buf' <= N.max (len buf) (MAX_AUTH_LINE_LEN + 512)
      /\ exists d, buf' = buf ++ d /\ received (log s') = received (log s) ++ d
  end.
Proof.
  induction fuel as [|f IH]; intros s buf Hw; cbn [read_loop].
  - repeat split; [exact Hw|lia|lia|]. exists []. now rewrite !app_nil_r.
  - destruct (has_line_ending buf).
    { repeat split; [exact Hw|lia|lia|]. exists []. now rewrite !app_nil_r. }
    destruct (N.ltb_spec MAX_AUTH_LINE_LEN (len buf)) as [Hlong|Hshort].
    { repeat split; [exact Hw|lia|lia|]. exists []. now rewrite !app_nil_r. }
    unfold sock_read. destruct (rq s) as [|p q] eqn:Erq.
    + destruct (closed s); cbn [log].
      * repeat split; [unfold wf; cbn [rq]; constructor|rewrite len_app; change (len [E]) with 1; lia|lia|].
        exists []. rewrite !app_nil_r. rewrite received_app. cbn. now rewrite app_nil_r.
      * repeat split; [exact Hw|lia|lia|]. exists []. now rewrite !app_nil_r.
    + unfold wf in Hw. rewrite Erq in Hw. inversion Hw as [|? ? Hp Hq]; subst.
      set (s1 := {| rq := q; closed := closed s; future := future s; log := log s ++ [R p] |}).
      specialize (IH s1 (buf ++ p) Hq). destruct (read_loop f s1 (buf ++ p)) as [[tag s'] buf'].
      destruct IH as (Hw' & Hc & Hb & d & Eb & Er). cbn [log s1] in Hc, Er.
      pose proof (piece_ok_len _ Hp) as Hpl. rewrite !len_app in *. change (len [R p]) with 1 in Hc.
      repeat split; [exact Hw'|lia|lia|]. exists (p ++ d). rewrite app_assoc. split; [exact Eb|].
      rewrite Er, received_app. unfold received at 2. cbn [reads concat]. now rewrite app_nil_r, <- app_assoc.
Qed.

Lemma read_message_bounds fuel s : wf s ->
  match read_message fuel s [] with
  | (r, s') => wf s' /\ len (log s') <= len (log s) + MAX_AUTH_LINE_LEN + 1
               /\ exists d, received (log s') = received (log s) ++ d /\ len d <= MAX_AUTH_LINE_LEN + 512
  end.
Proof.
  intros Hw. unfold read_message. pose proof (read_loop_bounds fuel s [] Hw) as H.
  destruct (read_loop fuel s []) as [[tag s'] buf']. destruct H as (Hw' & Hc & Hb & d & Eb & Er).
  cbn [app] in Eb. subst d. change (len (@nil N)) with 0 in *.
  assert (Hres : wf s' /\ len (log s') <= len (log s) + MAX_AUTH_LINE_LEN + 1
                 /\ exists d, received (log s') = received (log s) ++ d /\ len d <= MAX_AUTH_LINE_LEN + 512).
  { split; [exact Hw'|]. split; [lia|]. exists buf'. split; [exact Er|lia]. }
  destruct tag; try exact Hres. destruct (find_line_ending buf'); [|exact Hres].
  destruct (utf8_valid (firstnN n buf')); exact Hres.
Qed.

Lemma limits_from_logs s1 s2 evs :
  log s2 = log s1 ++ evs -> len (log s2) <= len (log s1) + MAX_AUTH_LINE_LEN + 1 ->
  (exists d, received (log s2) = received (log s1) ++ d /\ len d <= MAX_AUTH_LINE_LEN + 512) ->
  within_limits evs.
Proof.
  intros El Hc (d & Er & Hd). rewrite El in Hc, Er. rewrite len_app in Hc. rewrite received_app in Er.
  apply app_inv_head in Er. subst d. split; [lia|exact Hd].
Qed.

(* one request/response exchange: write_message(msg), read_message into a fresh buffer, classify *)
Lemma exchange_spec fuel word msg s :
  (avail s < fuel)%nat -> wf s -> ~ In SPACE word ->
  match write_message msg s with
  | None => closed s = true
  | Some s1 =>
      closed s = false /\
      match read_message fuel s1 [] with
      | (r, s2) => exists evs, ext s s2 (W (msg ++ CRLF) :: evs) /\ reply word evs (classify word r)
                               /\ future s2 = tl (future s)
                               /\ (classify word r = ABlocked -> silent (future s))
                               /\ wf s2
      end
  end.
Proof.
  intros Hf Hwf Hsp. unfold write_message. destruct (sock_write s (msg ++ CRLF) true) as [s1|] eqn:Ew.
  - pose proof (sock_write_line _ _ _ Ew) as [Hfut Hst]. pose proof (wf_write _ _ _ _ Hwf Ew) as Hwf1.
    apply sock_write_some in Ew. destruct Ew as (Hc & Hext & _). split; [exact Hc|].
    destruct (ext_avail _ _ _ Hext) as [_ Hrq].
    pose proof (read_message_spec fuel s1 ltac:(lia)) as H.
    pose proof (read_message_bounds fuel s1 Hwf1) as Hbd.
    destruct (read_message fuel s1 []) as [r s2]. destruct H as (ps & Erq & Ec & Efu & Hr).
    destruct Hbd as (Hwf2 & Hcnt & Hrecv).
    assert (Hlim : forall evs, log s2 = log s1 ++ evs -> within_limits evs).
    { intros evs El. eapply limits_from_logs; eauto. }
    destruct r as [line| | | |]; cbn [classify].
    + rewrite (is_command_spec word line Hsp).
      destruct Hr as (El & dropped & Hfl & Hu & Hstop). exists (map R ps). split; [|split; [|split; [|split]]].
      * apply (ext_trans s s1 s2 [W (msg ++ CRLF)] (map R ps) Hext).
        rewrite <- (app_nil_r (map R ps)). apply ext_reads; auto. now rewrite app_nil_r.
      * split; [|now apply Hlim]. destruct (accepts word line) eqn:Es; econstructor; eauto.
      * congruence.
      * destruct (accepts word line); discriminate.
      * exact Hwf2.
    + destruct Hr as [(El & line & dropped & Hfl & Hu)|[(El & Hn & Hq & Hcl)|(El & Hn & Hl)]].
      * exists (map R ps). split; [|split; [|split; [congruence|split; [discriminate|exact Hwf2]]]].
        -- apply (ext_trans s s1 s2 [W (msg ++ CRLF)] (map R ps) Hext).
           rewrite <- (app_nil_r (map R ps)). apply ext_reads; auto. now rewrite app_nil_r.
        -- split; [|now apply Hlim]. econstructor; eauto.
      * exists (map R ps ++ [E]). split; [|split; [|split; [congruence|split; [discriminate|exact Hwf2]]]].
        -- apply (ext_trans s s1 s2 [W (msg ++ CRLF)] (map R ps ++ [E]) Hext). apply ext_reads; auto.
        -- split; [|now apply Hlim]. now constructor.
      * exists (map R ps). split; [|split; [|split; [congruence|split; [discriminate|exact Hwf2]]]].
        -- apply (ext_trans s s1 s2 [W (msg ++ CRLF)] (map R ps) Hext).
           rewrite <- (app_nil_r (map R ps)). apply ext_reads; auto. now rewrite app_nil_r.
        -- split; [|now apply Hlim]. now apply ReplyTooLong.
    + destruct Hr as (El & Hn & Hq & Hcl). exists (map R ps). split; [|split; [|split; [|split]]].
      * apply (ext_trans s s1 s2 [W (msg ++ CRLF)] (map R ps) Hext).
        rewrite <- (app_nil_r (map R ps)). apply ext_reads; auto. now rewrite app_nil_r.
      * split; [|now apply Hlim]. now constructor.
      * congruence.
      * intros _. rewrite Hq, app_nil_r in Erq. subst ps. unfold silent.
        destruct (future s) as [|st fu]; [exact I|]. destruct Hst as [Hrq1 Hcl1]. split; [congruence|].
        intros Hh. apply Hn. rewrite Hrq1, concat_app. apply has_crlf_app_r.
        unfold step_pieces. now rewrite concat_flat_map_pieces.
      * exact Hwf2.
    + destruct Hr.
    + destruct Hr.
  - now apply sock_write_none in Ew.
Qed.

Lemma reply_total word evs a : reply word evs a -> a <> APanic /\ a <> AFuel.
Proof. intros [H _]. inversion H; split; discriminate. Qed.

Lemma finish_spec s : match finish s with
                      | (res, s') => (res = CErr /\ s' = s /\ closed s = true)
                                     \/ (res = COk /\ ext s s' [W BEGIN_LINE])
                      end.
Proof.
  unfold finish, send_begin, write_message. destruct (sock_write s (BEGIN ++ CRLF) true) as [s'|] eqn:Ew.
  - right. apply sock_write_some in Ew. now destruct Ew as (_ & Hext & _).
  - left. apply sock_write_none in Ew. auto.
Qed.

(* the script leaves the client waiting: the answer to AUTH, or (when it is reached) to NEGOTIATE_UNIX_FD,
   is missing or is neither a complete line nor a close *)
Definition stalls (with_fd : bool) (fu : list step) : Prop :=
  silent fu \/ (with_fd = true /\ silent (tl fu)).

(* every run of the model is a conforming run, and the pieces are accounted for *)
Theorem connect_on_conforms fuel uid hex with_fd s0 :
  get_uid_as_hex uid = Ok hex -> (avail s0 < fuel)%nat -> wf s0 ->
  match connect_on fuel uid with_fd s0 with
  | (res, s) => exists evs, ext s0 s evs /\ conforming hex with_fd evs res
                            /\ (res = CBlocked -> stalls with_fd (future s0))
  end.
Proof.
  intros Hhex Hf Hwf0. unfold connect_on, do_auth.
  destruct (sock_write s0 NUL false) as [s1|] eqn:Ew0.
  2:{ cbn [lift]. exists []. split; [apply ext_refl|split; [constructor|discriminate]]. }
  pose proof (sock_write_noline _ _ _ Ew0) as Hfut1. pose proof (wf_write _ _ _ _ Hwf0 Ew0) as Hwf1.
  apply sock_write_some in Ew0. destruct Ew0 as (Hc0 & Hext0 & Hc1). specialize (Hc1 eq_refl).
  rewrite Hhex. destruct (ext_avail _ _ _ Hext0) as [Hav1 _].
  pose proof (exchange_spec fuel OK_ (AUTH_EXTERNAL ++ hex) s1 ltac:(lia) Hwf1 OK_no_space) as H1.
  destruct (write_message (AUTH_EXTERNAL ++ hex) s1) as [s2|]; [|congruence].
  destruct H1 as [_ H1]. destruct (read_message fuel s2 []) as [r1 s3].
  destruct H1 as (evs1 & Hext1 & Hrep1 & Hfut3 & Hsil1 & Hwf3). rewrite Hfut1 in Hfut3, Hsil1.
  replace ((AUTH_EXTERNAL ++ hex) ++ CRLF) with (AUTH_LINE hex) in Hext1 by (unfold AUTH_LINE; now rewrite app_assoc).
  pose proof (ext_trans _ _ _ _ _ Hext0 Hext1) as Hext03. cbn [app] in Hext03.
  destruct (reply_total _ _ _ Hrep1) as [Hnp1 Hnf1].
  destruct (classify OK_ r1) eqn:Ecl1; try congruence.
  - (* AUTH accepted *)
    destruct (ext_avail _ _ _ Hext03) as [Hav3 _].
    destruct with_fd.
    + unfold negotiate_unix_fds.
      pose proof (exchange_spec fuel AGREE_UNIX_FD NEGOTIATE_UNIX_FD s3 ltac:(lia) Hwf3 AGREE_no_space) as H2.
      destruct (write_message NEGOTIATE_UNIX_FD s3) as [s4|].
      2:{ cbn [lift]. eexists. split; [exact Hext03|split; [now apply RunNegFailed|discriminate]]. }
      destruct H2 as [_ H2]. destruct (read_message fuel s4 []) as [r2 s5].
      destruct H2 as (evs2 & Hext2 & Hrep2 & _ & Hsil2 & _). rewrite Hfut3 in Hsil2. fold NEG_LINE in Hext2.
      pose proof (ext_trans _ _ _ _ _ Hext03 Hext2) as Hext05. cbn [app] in Hext05.
      destruct (reply_total _ _ _ Hrep2) as [Hnp2 Hnf2].
      destruct (classify AGREE_UNIX_FD r2) eqn:Ecl2; try congruence.
      * pose proof (finish_spec s5) as Hfin. destruct (finish s5) as [res s6].
        destruct Hfin as [(-> & -> & _)|(-> & HextB)].
        -- eexists. split; [exact Hext05|split; [now apply RunFdBeginFailed|discriminate]].
        -- pose proof (ext_trans _ _ _ _ _ Hext05 HextB) as Hext06. cbn [app] in Hext06.
           rewrite <- app_assoc in Hext06. cbn [app] in Hext06.
           eexists. split; [exact Hext06|split; [now apply RunFdOk|discriminate]].
      * eexists. split; [exact Hext05|split; [|discriminate]].
        apply (RunFdRefused hex true evs1 evs2 ARejected); auto. discriminate.
      * cbn [lift]. eexists. split; [exact Hext05|split; [|discriminate]].
        apply (RunFdRefused hex true evs1 evs2 AErr); auto. discriminate.
      * cbn [lift]. eexists. split; [exact Hext05|split].
        -- apply (RunFdRefused hex true evs1 evs2 ABlocked); auto. discriminate.
        -- intros _. right. auto.
    + pose proof (finish_spec s3) as Hfin. destruct (finish s3) as [res s4].
      destruct Hfin as [(-> & -> & _)|(-> & HextB)].
      * eexists. split; [exact Hext03|split; [now apply RunBeginFailed|discriminate]].
      * pose proof (ext_trans _ _ _ _ _ Hext03 HextB) as Hext04. cbn [app] in Hext04.
        eexists. split; [exact Hext04|split; [now apply RunOk|discriminate]].
  - eexists. split; [exact Hext03|split; [|discriminate]]. apply (RunAuthRefused hex with_fd evs1 ARejected); auto. discriminate.
  - cbn [lift]. eexists. split; [exact Hext03|split; [|discriminate]]. apply (RunAuthRefused hex with_fd evs1 AErr); auto. discriminate.
  - cbn [lift]. eexists. split; [exact Hext03|split].
    + apply (RunAuthRefused hex with_fd evs1 ABlocked); auto. discriminate.
    + intros _. left. auto.
Qed.

(* ================================================================ consequences of conformance (the property text) *)
(* the conversation: each thing written, paired with everything read before the next write *)
Definition conversation (hex : list N) (with_fd : bool) (r1 r2 : list N) : list (list N * list N) :=
  (NUL, []) :: (AUTH_LINE hex, r1) :: (if with_fd then [(NEG_LINE, r2)] else []) ++ [(BEGIN_LINE, [])].
Definition client_lines (hex : list N) (with_fd : bool) : list (list N) :=
  NUL :: AUTH_LINE hex :: (if with_fd then [NEG_LINE] else []) ++ [BEGIN_LINE].
(* the complete client side of a successful handshake *)
Definition expected_bytes (hex : list N) (with_fd : bool) : list N :=
  NUL ++ AUTH_EXTERNAL ++ hex ++ CRLF ++ (if with_fd then NEGOTIATE_UNIX_FD ++ CRLF else []) ++ BEGIN ++ CRLF.

Lemma expected_bytes_lines hex with_fd : concat (client_lines hex with_fd) = expected_bytes hex with_fd.
Proof.
  unfold client_lines, expected_bytes, AUTH_LINE, NEG_LINE, BEGIN_LINE. destruct with_fd; cbn [concat app];
    rewrite ?app_nil_r, <- ?app_assoc; reflexivity.
Qed.

Lemma segs_map_R x r ps t : segs (Some (x, r)) (map R ps ++ t) = segs (Some (x, r ++ concat ps)) t.
Proof.
  revert r; induction ps as [|p ps IH]; intros r; cbn [map app concat segs].
  - now rewrite app_nil_r.
  - now rewrite IH, app_assoc.
Qed.
Lemma reply_received word evs a : reply word evs a ->
  exists ps, received evs = concat ps /\ (forall x r t, segs (Some (x, r)) (evs ++ t) = segs (Some (x, r ++ concat ps)) t)
             /\ sent evs = []
             /\ (a = AOk -> accepted word (concat ps))
             /\ (a = ARejected -> exists line dropped, first_line (concat ps) line dropped /\ utf8_valid line = true /\ accepts word line = false)
             /\ (a = ABlocked -> ~ has_crlf (concat ps)).
Proof.
  intros [H _]. inversion H; subst; exists ps; unfold received.
  - rewrite reads_map_R, sent_map_R. repeat split; auto; try discriminate. + intros; apply segs_map_R. + intros _. exists line, dropped; auto.
  - rewrite reads_map_R, sent_map_R. repeat split; auto; try discriminate. + intros; apply segs_map_R. + intros _. exists line, dropped; auto.
  - rewrite reads_map_R, sent_map_R. repeat split; auto; try discriminate. intros; apply segs_map_R.
  - rewrite reads_app, reads_map_R, sent_app, sent_map_R. cbn [reads sent app]. rewrite app_nil_r. repeat split; auto; try discriminate.
    intros x r t. rewrite <- app_assoc, segs_map_R. reflexivity.
  - rewrite reads_map_R, sent_map_R. repeat split; auto; try discriminate. intros; apply segs_map_R.
  - rewrite reads_map_R, sent_map_R. repeat split; auto; try discriminate. intros; apply segs_map_R.
Qed.

Lemma sent_segs cur l :
  concat (map fst (segs cur l)) = match cur with Some (x, _) => x | None => [] end ++ sent l.
Proof.
  revert cur; induction l as [|[x|x|] l IH]; intros cur; cbn [segs sent].
  - destruct cur as [[x r]|]; cbn; now rewrite ?app_nil_r.
  - rewrite map_app, concat_app, IH. destruct cur as [[y r]|]; cbn [map concat fst app]; now rewrite ?app_nil_r.
  - destruct cur as [[y r]|]; apply IH.
  - apply IH.
Qed.
Lemma sent_segments l : sent l = concat (map fst (segments l)).
Proof. unfold segments. now rewrite sent_segs. Qed.

(* T-order: the conversation is a prefix of NUL / AUTH -> r1 / NEGOTIATE -> r2 / BEGIN; a line is
   written only after the complete, accepting reply to the previous one; success iff all of it *)
Theorem conforming_order hex with_fd evs res :
  conforming hex with_fd evs res ->
  exists n r1 r2,
    segments evs = firstn n (conversation hex with_fd r1 r2)
    /\ n <> 1%nat
    /\ ((2 < n)%nat -> accepted OK_ r1)
    /\ (with_fd = true -> (3 < n)%nat -> accepted AGREE_UNIX_FD r2)
    /\ (res = COk <-> n = length (conversation hex with_fd r1 r2))
    /\ (n <= length (conversation hex with_fd r1 r2))%nat.
Proof.
  intros H. unfold segments, conversation.
  assert (Hfin : forall P : Prop, P -> P) by auto.
  inversion H; subst; clear H.
  - exists 0%nat, [], []. cbn [segs firstn]. repeat split; auto; try lia; try discriminate; destruct with_fd; cbn; (lia || discriminate).
  - destruct (reply_received _ _ _ H0) as (ps & _ & Hs & _ & _ & _ & _).
    exists 2%nat, (concat ps), []. cbn [segs app]. rewrite <- (app_nil_r evs0), Hs. cbn [segs firstn app].
    repeat split; auto; try lia.
    + intros Hr. destruct a; cbn in Hr; congruence.
    + destruct with_fd; cbn; discriminate.
    + destruct with_fd; cbn; lia.
  - destruct (reply_received _ _ _ H1) as (ps & _ & Hs & _ & Ha & _ & _).
    exists 2%nat, (concat ps), []. cbn [segs app]. rewrite <- (app_nil_r evs0), Hs. cbn [segs firstn app].
    repeat split; auto; try lia; try discriminate; cbn; lia.
  - destruct (reply_received _ _ _ H1) as (ps & _ & Hs & _ & Ha & _ & _).
    exists 3%nat, (concat ps), []. cbn [segs app]. rewrite Hs. cbn [segs firstn app].
    repeat split; auto; try lia; try discriminate; cbn; lia.
  - destruct (reply_received _ _ _ H1) as (ps & _ & Hs & _ & Ha & _ & _).
    exists 2%nat, (concat ps), []. cbn [segs app]. rewrite <- (app_nil_r evs0), Hs. cbn [segs firstn app].
    repeat split; auto; try lia; try discriminate; cbn; lia.
  - destruct (reply_received _ _ _ H1) as (ps1 & _ & Hs1 & _ & Ha1 & _ & _).
    destruct (reply_received _ _ _ H2) as (ps2 & _ & Hs2 & _ & _ & _ & _).
    exists 3%nat, (concat ps1), (concat ps2). cbn [segs app]. rewrite Hs1. cbn [segs app].
    rewrite <- (app_nil_r evs2), Hs2. cbn [segs firstn app].
    repeat split; auto; try lia.
    + intros Hr. destruct a; cbn in Hr; congruence.
    + cbn; discriminate.
    + cbn; lia.
  - destruct (reply_received _ _ _ H1) as (ps1 & _ & Hs1 & _ & Ha1 & _ & _).
    destruct (reply_received _ _ _ H2) as (ps2 & _ & Hs2 & _ & Ha2 & _ & _).
    exists 3%nat, (concat ps1), (concat ps2). cbn [segs app]. rewrite Hs1. cbn [segs app].
    rewrite <- (app_nil_r evs2), Hs2. cbn [segs firstn app].
    repeat split; auto; try lia; try discriminate; cbn; lia.
  - destruct (reply_received _ _ _ H1) as (ps1 & _ & Hs1 & _ & Ha1 & _ & _).
    destruct (reply_received _ _ _ H2) as (ps2 & _ & Hs2 & _ & Ha2 & _ & _).
    exists 4%nat, (concat ps1), (concat ps2). cbn [segs app]. rewrite Hs1. cbn [segs app].
    rewrite Hs2. cbn [segs firstn app].
    repeat split; auto; try lia; try discriminate; cbn; lia.
Qed.

Lemma map_fst_conversation hex with_fd r1 r2 : map fst (conversation hex with_fd r1 r2) = client_lines hex with_fd.
Proof. unfold conversation, client_lines. destruct with_fd; reflexivity. Qed.

(* T-sent: the bytes written are whole lines of the expected conversation, in order *)
Theorem conforming_sent hex with_fd evs res :
  conforming hex with_fd evs res ->
  exists n, sent evs = concat (firstn n (client_lines hex with_fd)) /\ n <> 1%nat
            /\ (res = COk <-> sent evs = expected_bytes hex with_fd)
            /\ exists rest, sent evs ++ rest = expected_bytes hex with_fd.
Proof.
  intros H. destruct (conforming_order _ _ _ _ H) as (n & r1 & r2 & Es & Hn1 & _ & _ & Hok & Hle).
  exists n. rewrite sent_segments, Es, <- firstn_map, map_fst_conversation.
  assert (Hlc : length (conversation hex with_fd r1 r2) = length (client_lines hex with_fd)).
  { rewrite <- (map_fst_conversation hex with_fd r1 r2). now rewrite map_length. }
  rewrite Hlc in *. split; [reflexivity|]. split; [exact Hn1|]. split.
  - rewrite Hok. split.
    + intros ->. now rewrite firstn_all, expected_bytes_lines.
    + intros E. destruct (Nat.eq_dec n (length (client_lines hex with_fd))) as [|Hne]; [assumption|exfalso].
      assert (Hlen : len (concat (firstn n (client_lines hex with_fd))) = len (expected_bytes hex with_fd)) by now rewrite E.
      rewrite <- expected_bytes_lines in Hlen.
      rewrite <- (firstn_skipn n (client_lines hex with_fd)) in Hlen at 2. rewrite concat_app, len_app in Hlen.
      assert (Hsk : len (concat (skipn n (client_lines hex with_fd))) = 0) by lia.
      apply len_0_nil in Hsk.
      assert (Hlt : (n < length (client_lines hex with_fd))%nat) by lia.
      clear - Hsk Hlt. unfold client_lines in *.
      destruct with_fd; cbn [app length] in Hlt;
        repeat (destruct n as [|n]; [cbn in Hsk; discriminate|]); lia.
  - exists (concat (skipn n (client_lines hex with_fd))).
    now rewrite <- concat_app, firstn_skipn, expected_bytes_lines.
Qed.

(* T-total *)
Theorem conforming_total hex with_fd evs res : conforming hex with_fd evs res -> res <> CPanic /\ res <> CFuel.
Proof. intros H. inversion H; subst; try (split; discriminate); destruct a; cbn; split; discriminate. Qed.

(* T-class: AuthFailed / UnixFdNegotiationFailed are reported exactly for a complete UTF-8 reply line that
   does not start with the expected word; Blocked only while the last reply has no line ending *)
Theorem conforming_class hex with_fd evs res :
  conforming hex with_fd evs res ->
  match res with
  | CAuthFailed => exists r1 line dropped, segments evs = [(NUL, []); (AUTH_LINE hex, r1)]
                     /\ first_line r1 line dropped /\ utf8_valid line = true /\ accepts OK_ line = false
  | CFdFailed => with_fd = true /\ exists r1 r2 line dropped,
                     segments evs = [(NUL, []); (AUTH_LINE hex, r1); (NEG_LINE, r2)] /\ accepted OK_ r1
                     /\ first_line r2 line dropped /\ utf8_valid line = true /\ accepts AGREE_UNIX_FD line = false
  | CBlocked => exists before w r, segments evs = before ++ [(w, r)] /\ ~ has_crlf r
  | COk | CErr => True
  | CPanic | CFuel => False
  end.
Proof.
  intros H. unfold segments. inversion H; subst; clear H; try exact I.
  - destruct (reply_received _ _ _ H0) as (ps & _ & Hs & _ & _ & Hrej & Hbl).
    cbn [segs app]. rewrite <- (app_nil_r evs0), Hs. cbn [segs app].
    destruct a; cbn [refused]; try exact I; try congruence.
    + destruct (Hrej eq_refl) as (line & dropped & Hfl & Hu & Hsw). exists (concat ps), line, dropped. auto.
    + exists [(NUL, [])], (AUTH_LINE hex), (concat ps). split; [reflexivity|auto].
  - destruct (reply_received _ _ _ H1) as (ps1 & _ & Hs1 & _ & Ha1 & _ & _).
    destruct (reply_received _ _ _ H2) as (ps2 & _ & Hs2 & _ & _ & Hrej & Hbl).
    cbn [segs app]. rewrite Hs1. cbn [segs app]. rewrite <- (app_nil_r evs2), Hs2. cbn [segs app].
    destruct a; cbn [refused]; try exact I; try congruence.
    + split; [reflexivity|]. destruct (Hrej eq_refl) as (line & dropped & Hfl & Hu & Hsw).
      exists (concat ps1), (concat ps2), line, dropped. auto.
    + exists [(NUL, []); (AUTH_LINE hex, concat ps1)], NEG_LINE, (concat ps2). split; [reflexivity|auto].
Qed.

(* T-reject: a complete reply line that is not acceptable (REJECTED, ERROR, garbage, not UTF-8) is never
   followed by BEGIN, and the attempt does not succeed *)
Lemma begin_not_in_prefix hex : ~ In BEGIN_LINE [NUL; AUTH_LINE hex; NEG_LINE].
Proof. cbv. intuition discriminate. Qed.

Theorem conforming_refusal hex with_fd evs res :
  conforming hex with_fd evs res ->
  forall i w r line dropped,
    nth_error (segments evs) i = Some (w, r) -> first_line r line dropped ->
    (i = 1%nat /\ (utf8_valid line && accepts OK_ line) = false)
    \/ (i = 2%nat /\ with_fd = true /\ (utf8_valid line && accepts AGREE_UNIX_FD line) = false) ->
    ~ In BEGIN_LINE (map fst (segments evs)) /\ res <> COk.
Proof.
  intros H i w r line dropped Hnth Hfl Hcase.
  destruct (conforming_order _ _ _ _ H) as (n & r1 & r2 & Es & Hn1 & Hacc1 & Hacc2 & Hok & Hle).
  rewrite Es in *. clear Es H.
  assert (Hcontra : forall word, accepted word r -> (utf8_valid line && accepts word line) = false -> False).
  { intros word (l2 & d2 & Hfl2 & Hu2 & Hs2) Hb. destruct (first_line_unique _ _ _ _ _ Hfl Hfl2) as [-> _].
    rewrite Hu2, Hs2 in Hb. discriminate. }
  destruct Hcase as [[-> Hb]|(-> & -> & Hb)].
  - assert (Hn : (n <= 2)%nat).
    { destruct (le_lt_dec n 2) as [|Hgt]; [assumption|exfalso].
      apply (Hcontra OK_); [|exact Hb]. specialize (Hacc1 Hgt).
      unfold conversation in Hnth. destruct n as [|[|n]]; try lia. cbn in Hnth. inversion Hnth; subst. exact Hacc1. }
    split.
    + rewrite <- firstn_map, map_fst_conversation. intros Hin.
      apply (begin_not_in_prefix hex). unfold client_lines in Hin.
      destruct n as [|[|[|n]]]; try lia; cbn [firstn In] in Hin |- *; tauto.
    + rewrite Hok. unfold conversation. destruct with_fd; cbn; lia.
  - assert (Hn : (n <= 3)%nat).
    { destruct (le_lt_dec n 3) as [|Hgt]; [assumption|exfalso].
      apply (Hcontra AGREE_UNIX_FD); [|exact Hb]. specialize (Hacc2 eq_refl Hgt).
      unfold conversation in Hnth. destruct n as [|[|[|n]]]; try lia. cbn in Hnth. inversion Hnth; subst. exact Hacc2. }
    split.
    + rewrite <- firstn_map, map_fst_conversation. intros Hin.
      apply (begin_not_in_prefix hex). unfold client_lines in Hin.
      destruct n as [|[|[|[|n]]]]; try lia; cbn [firstn In app] in Hin |- *; tauto.
    + rewrite Hok. unfold conversation. cbn. lia.
Qed.

(* ================================================================ the theorems about connect_to_bus *)
Lemma avail_init scr : avail (sock_init scr) = total_pieces scr.
Proof. unfold avail, sock_init, total_pieces, fpieces. cbn [rq future]. now rewrite app_length. Qed.

Lemma reply_length word evs a : reply word evs a ->
  (length evs <= length (reads evs) + 1)%nat /\ (a = AOk -> length evs = length (reads evs)).
Proof.
  intros [H _]. inversion H; subst; rewrite ?reads_app, ?reads_map_R, ?app_length, ?map_length; cbn [reads length];
    (split; [lia|try discriminate; auto]).
Qed.
Lemma conforming_length hex with_fd evs res :
  conforming hex with_fd evs res -> (length evs <= length (reads evs) + 4)%nat.
Proof.
  intros H. inversion H; subst; clear H; cbn [length reads];
    repeat match goal with Hr : reply _ _ _ |- _ => apply reply_length in Hr; destruct Hr as [? ?] end;
    repeat match goal with Hr : AOk = AOk -> _ |- _ => specialize (Hr eq_refl) end;
    rewrite ?reads_app, ?app_length; cbn [length reads]; rewrite ?reads_app, ?app_length; cbn [length reads]; lia.
Qed.

(* limits of a whole run, whatever the script: at most 2 * (MAX_AUTH_LINE_LEN + 1) read calls plus the four
   writes, and at most 2 * (MAX_AUTH_LINE_LEN + 512) bytes taken from the peer *)
Lemma received_W x t : received (W x :: t) = received t.
Proof. reflexivity. Qed.
Theorem conforming_bounded hex with_fd evs res :
  conforming hex with_fd evs res ->
  len evs <= 2 * (MAX_AUTH_LINE_LEN + 1) + 4 /\ len (received evs) <= 2 * (MAX_AUTH_LINE_LEN + 512).
Proof.
  intros H. inversion H; subst; clear H;
    repeat match goal with Hr : reply _ _ _ |- _ => destruct Hr as [_ [? ?]] end;
    rewrite ?received_W, ?received_app, ?received_W, ?received_app, ?received_W;
    rewrite ?len_cons, ?len_app, ?len_cons, ?len_app, ?len_cons;
    change (received []) with (@nil N); change (received [W BEGIN_LINE]) with (@nil N); change (len (@nil N)) with 0;
    change (len (@nil event)) with 0; unfold MAX_AUTH_LINE_LEN in *; lia.
Qed.

(* A: every run conforms to the protocol; the AUTH argument is the hex of the decimal uid *)
Theorem auth_conforms uid with_fd scr :
  uid < 2 ^ 32 ->
  exists ds, decimal_of uid ds
    /\ match connect_to_bus uid with_fd scr with
       | (res, s) => conforming (hex_of_digits ds) with_fd (log s) res
       end.
Proof.
  intros Hu. destruct (get_uid_as_hex_spec uid Hu) as (ds & Eh & Hd). exists ds. split; [exact Hd|].
  unfold connect_to_bus.
  pose proof (connect_on_conforms (fuel_for scr) uid (hex_of_digits ds) with_fd (sock_init scr) Eh) as H.
  rewrite avail_init in H. specialize (H ltac:(unfold fuel_for; lia) (wf_init scr)).
  destruct (connect_on (fuel_for scr) uid with_fd (sock_init scr)) as [res s].
  destruct H as (evs & [El _] & Hc & _). cbn [sock_init log app] in El. now rewrite El.
Qed.

(* B: termination: a result after at most (pieces of the script + 4) system calls, never a panic; the
   client can only be left waiting by a peer that neither completes a line nor closes *)
Theorem auth_terminates uid with_fd scr :
  uid < 2 ^ 32 ->
  match connect_to_bus uid with_fd scr with
  | (res, s) => res <> CPanic /\ res <> CFuel
                /\ (length (log s) <= total_pieces scr + 4)%nat
                /\ (res = CBlocked -> stalls with_fd (replies scr))
  end.
Proof.
  intros Hu. destruct (get_uid_as_hex_spec uid Hu) as (ds & Eh & Hd).
  unfold connect_to_bus.
  pose proof (connect_on_conforms (fuel_for scr) uid (hex_of_digits ds) with_fd (sock_init scr) Eh) as H.
  rewrite avail_init in H. specialize (H ltac:(unfold fuel_for; lia) (wf_init scr)).
  destruct (connect_on (fuel_for scr) uid with_fd (sock_init scr)) as [res s].
  destruct H as (evs & [El Hp] & Hc & Hb). cbn [sock_init log app] in El. rewrite El.
  destruct (conforming_total _ _ _ _ Hc) as [H1 H2]. split; [exact H1|]. split; [exact H2|]. split; [|exact Hb].
  pose proof (conforming_length _ _ _ _ Hc) as Hl.
  assert (Hr : (length (reads evs) <= total_pieces scr)%nat).
  { rewrite <- avail_init. unfold avail. rewrite <- Hp, app_length. lia. }
  lia.
Qed.

(* B': the same bounds for connect_to_bus, independent of the server's script (however long it is, and
   whether or not it ever ends a line): system calls and bytes read *)
Theorem auth_bounded uid with_fd scr :
  uid < 2 ^ 32 ->
  match connect_to_bus uid with_fd scr with
  | (res, s) => len (log s) <= 2 * (MAX_AUTH_LINE_LEN + 1) + 4
                /\ len (received (log s)) <= 2 * (MAX_AUTH_LINE_LEN + 512)
  end.
Proof.
  intros Hu. destruct (auth_conforms uid with_fd scr Hu) as (ds & _ & H).
  destruct (connect_to_bus uid with_fd scr) as [res s]. exact (conforming_bounded _ _ _ _ H).
Qed.
(* one read_message call on a fresh buffer: at most MAX_AUTH_LINE_LEN + 1 read calls, at most
   MAX_AUTH_LINE_LEN + 512 bytes buffered *)
Theorem read_message_bounded fuel s :
  wf s ->
  match read_message fuel s [] with
  | (r, s') => len (log s') <= len (log s) + MAX_AUTH_LINE_LEN + 1
               /\ exists d, received (log s') = received (log s) ++ d /\ len d <= MAX_AUTH_LINE_LEN + 512
  end.
Proof.
  intros Hw. pose proof (read_message_bounds fuel s Hw) as H. destruct (read_message fuel s []) as [r s']. apply H.
Qed.
(* a reply line is given up exactly when more than MAX_AUTH_LINE_LEN bytes have been read without CR LF *)
Theorem reply_too_long word evs :
  reply word evs AErr ->
  (exists ps, evs = map R ps /\ ~ has_crlf (concat ps) /\ MAX_AUTH_LINE_LEN < len (concat ps))
  \/ (exists ps, evs = map R ps ++ [E] /\ ~ has_crlf (concat ps))
  \/ (exists ps line dropped, evs = map R ps /\ first_line (concat ps) line dropped /\ utf8_valid line = false).
Proof.
  intros [H _]. inversion H; subst.
  - right. right. exists ps, line, dropped. auto.
  - right. left. exists ps. auto.
  - left. exists ps. auto.
Qed.

(* a script answers when each reply that is reached completes a line or closes the socket *)
Definition answers (st : step) : Prop := closes st = true \/ has_crlf (concat (chunks st)).
Definition responsive (with_fd : bool) (scr : script) : Prop :=
  match replies scr with
  | [] => False
  | st0 :: rest => answers st0 /\ (with_fd = true -> match rest with [] => False | st1 :: _ => answers st1 end)
  end.
Theorem auth_not_blocked uid with_fd scr :
  uid < 2 ^ 32 -> responsive with_fd scr -> fst (connect_to_bus uid with_fd scr) <> CBlocked.
Proof.
  intros Hu Hr. pose proof (auth_terminates uid with_fd scr Hu) as H.
  destruct (connect_to_bus uid with_fd scr) as [res s]. cbn [fst]. destruct H as (_ & _ & _ & Hb).
  intros ->. specialize (Hb eq_refl). unfold responsive in Hr. unfold stalls, silent in Hb.
  destruct (replies scr) as [|st0 rest]; [exact Hr|]. destruct Hr as [Ha0 Ha1].
  destruct Hb as [[Hc Hn]|[Hfd Hb]].
  - destruct Ha0 as [Ha0|Ha0]; [congruence|contradiction].
  - specialize (Ha1 Hfd). cbn [tl] in Hb. destruct rest as [|st1 rest']; [exact Ha1|].
    destruct Hb as [Hc Hn]. destruct Ha1 as [Ha1|Ha1]; [congruence|contradiction].
Qed.

(* C: no byte of the script is invented or lost by the model of the socket: what was read, what is still
   queued and what the peer has not sent yet make up the script, in order; the handshake reads whole
   pieces only, and (reply ReplyAccept / stops_early) stops with the read that completes the line *)
Definition step_bytes (st : step) : list N := concat (chunks st).
Theorem auth_bytes uid with_fd scr :
  uid < 2 ^ 32 ->
  match connect_to_bus uid with_fd scr with
  | (res, s) => received (log s) ++ unread s ++ concat (map step_bytes (future s))
                = step_bytes (greeting scr) ++ concat (map step_bytes (replies scr))
  end.
Proof.
  intros Hu. destruct (get_uid_as_hex_spec uid Hu) as (ds & Eh & Hd).
  unfold connect_to_bus.
  pose proof (connect_on_conforms (fuel_for scr) uid (hex_of_digits ds) with_fd (sock_init scr) Eh) as H.
  rewrite avail_init in H. specialize (H ltac:(unfold fuel_for; lia) (wf_init scr)).
  destruct (connect_on (fuel_for scr) uid with_fd (sock_init scr)) as [res s].
  destruct H as (evs & [El Hp] & _ & _). cbn [sock_init log app rq future] in El, Hp. rewrite El.
  assert (Hfp : forall fu, concat (fpieces fu) = concat (map step_bytes fu)).
  { induction fu as [|st fu IH]; [reflexivity|]. unfold fpieces in *. cbn [flat_map map concat].
    rewrite concat_app, IH. unfold step_pieces, step_bytes. now rewrite concat_flat_map_pieces. }
  unfold received, unread. rewrite <- Hfp, <- !concat_app, Hp, concat_app, Hfp.
  unfold step_pieces, step_bytes. now rewrite concat_flat_map_pieces.
Qed.

(* what a pipelining server loses: the bytes after the first CR LF of a reply that arrive in the same
   read are dropped with read_message's local buffer; they are fewer than that one read returned (< 512) *)
Theorem accepted_reply_drops word evs :
  reply word evs AOk ->
  exists ps line dropped, evs = map R ps /\ first_line (concat ps) line dropped /\ stops_early ps dropped.
Proof. intros [H _]. inversion H; subst. exists ps, line, dropped. auto. Qed.
Lemma pieces_small c : (length c <= TMPBUF)%nat -> (length (pieces c) <= 1)%nat.
Proof.
  unfold pieces. intros H. destruct c as [|x c]; [cbn; lia|]. cbn [length cut].
  rewrite skipn_all2 by exact H. cbn [length]. destruct (length c); cbn; lia.
Qed.
