(** Model of rustbus/src/connection/dispatch_conn.rs, clause by clause:
    PathPart, ObjectPathPattern::{new, matches}, PathMatcher::{insert, get_match},
    DispatchConn::{add_handler, run}.  Executable Gallina; the specification it is proved against is
    in DispatchSpec.v.

    Conventions.  Strings are byte lists ([str]).  [HashMap<K,V>] is an association list with unique
    keys; [HashMap::insert] replaces the value of an existing key or adds an entry; the iteration
    order of a map is NOT given by the list: wherever the Rust code iterates a map the model
    iterates a list supplied by an oracle, and the theorems assume only that this list is a
    permutation of the entries.  [Option<Matches>] of [matches] is an [outcome]: [Ok m] = [Some(m)],
    [Err] = [None], [Panic] = the [unwrap] on an empty pattern (never produced by [pattern_new]). *)
From RB Require Import Base.Prelude Conn.DispatchMsg.

(* ---------------------------------------------------------------- std: str::split(char) *)
(* "a/b".split('/') = ["a","b"]; "".split('/') = [""]; "/".split('/') = ["",""] *)
Fixpoint split_on (sep : N) (s : str) : list str :=
  match s with
  | [] => [[]]
  | c :: r =>
      if c =? sep then [] :: split_on sep r
      else match split_on sep r with
           | [] => [[c]]                        (* unreachable: split_on never returns [] *)
           | h :: t => (c :: h) :: t
           end
  end.

Definition slash : N := 47.
Definition colon : N := 58.
Definition star : N := 42.

(* ---------------------------------------------------------------- HashMap as association list *)
Section Assoc.
  Context {K V : Type} (eqb : K -> K -> bool).

  (* HashMap::insert *)
  Fixpoint assoc_insert (k : K) (v : V) (m : list (K * V)) : list (K * V) :=
    match m with
    | [] => [(k, v)]
    | (k', v') :: r => if eqb k' k then (k', v) :: r else (k', v') :: assoc_insert k v r
    end.

  (* HashMap::get *)
  Fixpoint assoc_get (k : K) (m : list (K * V)) : option V :=
    match m with
    | [] => None
    | (k', v') :: r => if eqb k' k then Some v' else assoc_get k r
    end.
End Assoc.

(* ---------------------------------------------------------------- enum PathPart *)
Inductive part := MatchExact (s : str) | MatchAs (s : str) | AcceptAll.
Definition pattern := list part.                (* struct ObjectPathPattern(Vec<PathPart>) *)

(* PathPart::is_accept_all *)
Definition is_accept_all (p : part) : bool := match p with AcceptAll => true | _ => false end.

(* derived Eq/Hash of PathPart and ObjectPathPattern: structural equality *)
Definition part_eqb (a b : part) : bool :=
  match a, b with
  | MatchExact x, MatchExact y => str_eqb x y
  | MatchAs x, MatchAs y => str_eqb x y
  | AcceptAll, AcceptAll => true
  | _, _ => false
  end.
Definition pattern_eqb (a b : pattern) : bool := list_eqb part_eqb a b.

(* struct Matches { matches: HashMap<String,String> } *)
Definition caps := list (str * str).
Definition cap_insert := @assoc_insert str str str_eqb.
Definition cap_get := @assoc_get str str str_eqb.

(* the closure of ObjectPathPattern::new: part.starts_with(':') / part.eq("*") / otherwise *)
Definition part_of (seg : str) : part :=
  match seg with
  | c :: _ => if c =? colon then MatchAs seg
              else if str_eqb seg [star] then AcceptAll else MatchExact seg
  | [] => MatchExact seg
  end.

(* ObjectPathPattern::new *)
Definition pattern_new (path : str) : pattern := map part_of (split_on slash path).

(* the closure given to try_fold in ObjectPathPattern::matches *)
Definition matches_step (pat : pattern) (m : caps) (idx : N) (seg : str) : outcome caps :=
  if len pat <=? idx then
    (* idx >= self.0.len(): the path is too long *)
    match last (map Some pat) None with       (* self.0.last() *)
    | None => Panic                           (* .unwrap() *)
    | Some l => if is_accept_all l then Ok m else Err
    end
  else
    match nthN pat idx with                   (* &self.0[idx] *)
    | None => Panic
    | Some AcceptAll => Ok m
    | Some (MatchExact exact) => if str_eqb exact seg then Ok m else Err
    | Some (MatchAs name) => Ok (cap_insert name seg m)
    end.

(* Iterator::enumerate().try_fold(init, f) over a Vec *)
Fixpoint try_fold_enum {A S} (f : S -> N -> A -> outcome S) (idx : N) (l : list A) (acc : S) : outcome S :=
  match l with
  | [] => Ok acc
  | x :: r => do acc' <- f acc idx x; try_fold_enum f (idx + 1) r acc'
  end.

(* ObjectPathPattern::matches *)
Definition matches (pat : pattern) (query : str) : outcome caps :=
  let parts := split_on slash query in
  if len parts <? len pat then Err
  else try_fold_enum (matches_step pat) 0 parts [].

(* ---------------------------------------------------------------- struct PathMatcher *)
(* pathes: HashMap<ObjectPathPattern, Box<HandleFn>>; a handler is identified by a number *)
Definition routes := list (pattern * N).
Definition route_insert := @assoc_insert pattern N pattern_eqb.
Definition route_get := @assoc_get pattern N pattern_eqb.

(* PathMatcher::insert *)
Definition pm_insert (path_pattern : str) (handler : N) (pm : routes) : routes :=
  route_insert (pattern_new path_pattern) handler pm.

(* PathMatcher::get_match: `for (path, fun) in &mut self.pathes`, [order] = the iteration order *)
Fixpoint get_match_in (order : routes) (query : str) : outcome (option (caps * N)) :=
  match order with
  | [] => Ok None
  | (path, h) :: r =>
      match matches path query with
      | Ok m => Ok (Some (m, h))
      | Err => get_match_in r query
      | _ => Panic
      end
  end.

(* ---------------------------------------------------------------- DispatchConn *)
Inductive handler_id := HDefault | HRoute (h : N).

(* what one handler invocation does: its HandleResult and its calls of
   env.new_dispatches.insert(pattern, handler) in program order *)
Inductive hres := HSome (reply : msg) | HNone | HErr.
Definition hres_ok (r : hres) : bool := match r with HErr => false | _ => true end.

Record event := mkEvent { ev_handler : handler_id; ev_caps : caps; ev_msg : msg }.

(* how run() ended: get_next_message failed (connection closed), or a handler returned Err *)
Inductive run_end := EndRecv | EndHandlerErr.

(* DispatchConn::add_handler *)
Definition add_handler (path : str) (handler : N) (objects : routes) : routes := pm_insert path handler objects.

Section Run.
  (* behaviour of the (FnMut, stateful) handlers: a function of the number of the incoming message *)
  Variable oracle : nat -> handler_id -> caps -> msg -> hres * list (str * N).
  (* iteration order of self.objects.pathes when message i is dispatched *)
  Variable perm : nat -> routes -> routes.
  (* iteration order of env.new_dispatches.pathes.into_iter() after message i *)
  Variable perm_new : nat -> routes -> routes.

  (* the `let result = { if let Some(obj) = &msg.dynheader.object { if let Some((matches, handler)) =
     self.objects.get_match(obj) {..} else {default} } else {default} }` selection *)
  Definition select (i : nat) (objects : routes) (m : msg) : outcome (handler_id * caps) :=
    match dh_object (m_dh m) with
    | Some obj =>
        match get_match_in (perm i objects) obj with
        | Ok (Some (c, h)) => Ok (HRoute h, c)
        | Ok None => Ok (HDefault, [])
        | _ => Panic
        end
    | None => Ok (HDefault, [])
    end.

  (* env.new_dispatches after the handler's inserts *)
  Definition new_dispatches (ins : list (str * N)) : routes :=
    fold_left (fun pm sh => pm_insert (fst sh) (snd sh) pm) ins [].

  (* `for (k, v) in env.new_dispatches.pathes.into_iter() { self.objects.pathes.insert(k, v); }` *)
  Definition apply_new (objects : routes) (nd : routes) : routes :=
    fold_left (fun o kv => route_insert (fst kv) (snd kv) o) nd objects.

  (* the body of `loop` in DispatchConn::run over the messages that arrive before the connection
     closes; returns the invocation log, the messages written, the final routes and how it ended.
     Sending is assumed to succeed (C10 is about sending). *)
  Fixpoint run_loop (i : nat) (incoming : list msg) (objects : routes)
    : outcome (list event * list msg * routes * run_end) :=
    match incoming with
    | [] => Ok ([], [], objects, EndRecv)          (* Err(error) => return Err((None, Connection(error))) *)
    | m :: rest =>
        do wc <- select i objects m;
        let (who, c) := wc in
        let (result, ins) := oracle i who c m in
        let ev := mkEvent who c m in
        let objects' := if hres_ok result
                        then apply_new objects (perm_new i (new_dispatches ins))
                        else objects in
        match result with
        | HSome response =>
            do x <- run_loop (S i) rest objects';
            let '(log, wr, fin, e) := x in Ok (ev :: log, response :: wr, fin, e)
        | HNone =>
            do x <- run_loop (S i) rest objects';
            let '(log, wr, fin, e) := x in Ok (ev :: log, make_response (m_dh m) :: wr, fin, e)
        | HErr => Ok ([ev], [], objects', EndHandlerErr)
        end
    end.
End Run.
