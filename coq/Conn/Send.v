(** Model of the write side of the send path (C10).

    rustbus/src/connection/ll_conn.rs : SendMessageContext::{write_once, write, write_all,
        all_bytes_written, bytes_total, into_progress, resume, force_finish}, Drop,
        SendConn::send_message_write_all
    The connection state, send_message and the header are in Conn/Serial.v.

    The kernel is an explicit argument: every sendmsg call is given a decision [kdec]. *)
From RB Require Import Base.Prelude Conn.Serial.

(* ---------------------------------------------------------------- the socket (modelled, not verified) *)

(* What the peer's end of the AF_UNIX stream socket has been handed: the byte stream and the
   descriptors (identities) that arrived as SCM_RIGHTS, in order. *)
Record world := { wire : list N; fds_delivered : list N }.
Definition world0 : world := {| wire := []; fds_delivered := [] |}.

(* One sendmsg call as decided by the kernel: it takes at most [k] of the offered bytes (KAccept k),
   or none and fails: EAGAIN/EWOULDBLOCK (non-blocking socket, or SO_SNDTIMEO elapsed), and equally any
   other error return of sendmsg (EBADF for a closed attached descriptor, EPIPE): nothing was accepted,
   write_once returns Err and leaves the state as it was. *)
Inductive kdec := KAccept (k : N) | KAgain.

(* sendmsg(fd, iov, [ScmRights(rights)], flags): the accepted bytes are the first min(k, len iov)
   bytes of the gathered iov; the return value is their number; the rights travel with the call iff
   at least one byte was accepted (DESIGN.md section 4). [None] is Err(EAGAIN). *)
Definition sendmsg (w : world) (iov : list N) (rights : list N) (d : kdec) : world * option N :=
  match d with
  | KAgain => (w, None)
  | KAccept k =>
      let acc := firstnN k iov in
      ({| wire := wire w ++ acc;
          fds_delivered := if 1 <=? len acc then fds_delivered w ++ rights else fds_delivered w |},
       Some (len acc))
  end.

(* ---------------------------------------------------------------- SendMessageContext *)

(* bytes_total *)
Definition bytes_total (x : send_ctx) : N := len (header_buf (cx_conn x)) + len (msg_body (cx_msg x)).

(* all_bytes_written *)
Definition all_bytes_written (x : send_ctx) : bool := bytes_sent (cx_state x) =? bytes_total x.

Definition set_bytes_sent (x : send_ctx) (n : N) : send_ctx :=
  {| cx_conn := cx_conn x; cx_msg := cx_msg x;
     cx_state := {| bytes_sent := n; st_serial := st_serial (cx_state x) |} |}.

(* write_once(timeout). The socket option calls around sendmsg (write_timeout, set_write_timeout,
   set_nonblocking) are assumed to succeed on the connection's own descriptor; a zero Duration makes
   set_write_timeout fail before sendmsg is called, which is the same as [KAgain] here: Err and
   nothing changed. Result: the context, the world, and Ok(n) / Err / Panic. *)
Definition write_once (x : send_ctx) (w : world) (d : kdec) : send_ctx * world * outcome N :=
  let hb := header_buf (cx_conn x) in
  let body := msg_body (cx_msg x) in
  let bs := bytes_sent (cx_state x) in
  let header_bytes_sent := N.min bs (len hb) in
  let header_slice_to_send := skipnN header_bytes_sent hb in         (* &header_buf[header_bytes_sent..] *)
  let body_bytes_sent := bs - header_bytes_sent in
  if len body <? body_bytes_sent then (x, w, Panic)                  (* &get_buf()[body_bytes_sent..] out of range *)
  else
    let body_slice_to_send := skipnN body_bytes_sent body in
    let raw_fds := if bs =? 0 then msg_raw_fds (cx_msg x) else [] in
    let '(w', r) := sendmsg w (header_slice_to_send ++ body_slice_to_send) raw_fds d in
    match r with
    | None => (x, w', Err)                                           (* bytes_sent.map_err(..)? *)
    | Some n => (set_bytes_sent x (bs + n), w', Ok n)                (* self.state.bytes_sent += bytes_sent *)
    end.

(* impl Drop for SendMessageContext *)
Definition drop_ctx (x : send_ctx) : outcome unit :=
  if negb (bytes_sent (cx_state x) =? 0) && negb (all_bytes_written x) then Panic else Ok tt.

(* into_progress and resume are in Conn/Serial.v *)

(* One loop iteration of write(timeout) is decided by the clock and the kernel: calc_timeout_left
   reports TimedOut before the call (WTimedOut), or write_once runs with a kernel decision. *)
Inductive wdec := WKernel (d : kdec) | WTimedOut.

(* write(timeout): loop { calc_timeout_left?; write_once?; if all_bytes_written break Ok(serial) };
   finish_if_ok: on Ok the context is dropped (Drop runs), on Err it is handed back.
   The list holds the decisions of the successive iterations; when it runs out the call is still
   blocked in the loop (OutOfFuel). *)
Fixpoint write (x : send_ctx) (w : world) (ds : list wdec) : send_ctx * world * outcome N :=
  match ds with
  | [] => (x, w, OutOfFuel)
  | WTimedOut :: _ => (x, w, Err)
  | WKernel d :: ds =>
      let '(x', w', r) := write_once x w d in
      match r with
      | Ok _ =>
          if all_bytes_written x'
          then (x', w', do _ <- drop_ctx x'; Ok (st_serial (cx_state x')))
          else write x' w' ds
      | Err => (x', w', Err)
      | Panic => (x', w', Panic)
      | UB => (x', w', UB)
      | OutOfFuel => (x', w', OutOfFuel)
      end
  end.

(* write_all = write(Timeout::Infinite): never a time-out, a blocking socket never says EAGAIN *)
Definition blocking (d : wdec) : bool := match d with WKernel (KAccept _) => true | _ => false end.

(* ---------------------------------------------------------------- a caller driving one message *)

(* What can happen between send_message and completion, as seen by a caller that uses write_once:
   the kernel takes up to k bytes, the kernel says EAGAIN (or the timeout elapses), the caller
   suspends (into_progress) and later resumes (resume with the same connection and message). *)
Inductive wev := Accept (k : N) | Again | Suspend | Resume.

Inductive caller :=
| Active (x : send_ctx)
| Suspended (c : send_conn) (m : message) (p : send_state)
| Done (x : send_ctx) (serial : N).        (* all bytes written; the serial reported to the caller *)

Record run := { r_caller : caller; r_world : world; r_panicked : bool }.

(* Events that do not apply in the current state (kernel decisions while no context exists, Resume
   while active, anything after completion) are skipped. *)
Definition run_step (r : run) (e : wev) : run :=
  if r_panicked r then r else
  match r_caller r, e with
  | Active x, Accept k =>
      let '(x', w', res) := write_once x (r_world r) (KAccept k) in
      match res with
      | Ok _ => if all_bytes_written x'
                then {| r_caller := Done x' (st_serial (cx_state x')); r_world := w'; r_panicked := false |}
                else {| r_caller := Active x'; r_world := w'; r_panicked := false |}
      | Err => {| r_caller := Active x'; r_world := w'; r_panicked := false |}
      | _ => {| r_caller := Active x'; r_world := w'; r_panicked := true |}
      end
  | Active x, Again =>
      let '(x', w', res) := write_once x (r_world r) KAgain in
      match res with
      | Ok _ | Err => {| r_caller := Active x'; r_world := w'; r_panicked := false |}
      | _ => {| r_caller := Active x'; r_world := w'; r_panicked := true |}
      end
  | Active x, Suspend =>
      {| r_caller := Suspended (cx_conn x) (cx_msg x) (into_progress x); r_world := r_world r; r_panicked := false |}
  | Suspended c m p, Resume =>
      {| r_caller := Active (resume c m p); r_world := r_world r; r_panicked := false |}
  | _, _ => r
  end.

Definition run_send (x : send_ctx) (w : world) (sched : list wev) : run :=
  fold_left run_step sched {| r_caller := Active x; r_world := w; r_panicked := false |}.

(* observables of a run *)
Definition r_state (r : run) : send_state :=
  match r_caller r with Active x => cx_state x | Suspended _ _ p => p | Done x _ => cx_state x end.
Definition r_completed (r : run) : bool := match r_caller r with Done _ _ => true | _ => false end.
Definition r_reported (r : run) : option N := match r_caller r with Done _ s => Some s | _ => None end.

(* The connection a caller holds again when it gives a message up at any point of a run: by dropping
   the context (Drop: nothing happens at zero bytes or after completion, a panic - which unwinds and
   leaves the connection usable - after a partial write), by force_finish (mem::forget), or by keeping
   only the progress. None of write_once / write / Drop / force_finish touches header_buf or
   serial_counter. *)
Definition r_conn (r : run) : send_conn :=
  match r_caller r with Active x => cx_conn x | Suspended c _ _ => c | Done x _ => cx_conn x end.

(* ---------------------------------------------------------------- send_message_write_all *)

Section WriteAll.
  Variable hdr_fields : message -> option (list N).

  (* send_message_write_all: send_message(msg)?; ctx.write_all().map_err(force_finish_on_error) *)
  Definition send_message_write_all (c : send_conn) (m : message) (w : world) (ds : list wdec)
    : send_conn * world * outcome N :=
    match send_message hdr_fields c m with
    | Ok (c', Some x) => let '(x', w', r) := write x w ds in (cx_conn x', w', r)
    | Ok (c', None) => (c', w, Err)
    | Err => (c, w, Err)
    | Panic => (c, w, Panic)
    | UB => (c, w, UB)
    | OutOfFuel => (c, w, OutOfFuel)
    end.
End WriteAll.
