(** Specification of bus-address resolution (written from the property text: "a bus address of the
    supported kind - unix transport with a path or abstract key, further keys in any order - resolves
    to exactly that socket, and any other string yields an error") and the theorems relating
    Conn/Addr.v to it.

    The supported kind, read strictly: "unix:" followed by comma-separated key=value pairs, no ';'
    anywhere (address lists are not supported), exactly one pair whose key is "path" or "abstract",
    and that pair's value is not empty. Values are taken literally: percent-escapes are not decoded
    (a path written with %xx simply names a file that does not exist). *)
From RB Require Import Base.Prelude Conn.AddrBase Conn.Addr.

(* ---------------------------------------------------------------- specification *)
(* a key=value pair: the key contains none of ',' '=' ';', the value neither ',' nor ';' *)
Definition pair_ok (kv : list N * list N) : Prop :=
  ~ In COMMA (fst kv) /\ ~ In EQUALS (fst kv) /\ ~ In SEMICOLON (fst kv)
  /\ ~ In COMMA (snd kv) /\ ~ In SEMICOLON (snd kv).
Definition render (kv : list N * list N) : list N := fst kv ++ EQUALS :: snd kv.
Definition sock_key (k : list N) : Prop := k = PATH \/ k = ABSTRACT.
Definition sockb (kv : list N * list N) : bool := is_socket_key (fst kv).
(* "unix:" k1=v1,k2=v2,... *)
Definition unix_address (pairs : list (list N * list N)) : list N :=
  UNIX ++ COLON :: join COMMA (map render pairs).
(* [addr] is an address of the supported kind naming the socket [v] (a path if [is_path], else an
   abstract name): exactly one pair has a socket key, its value is [v] and not empty *)
Definition addr_grammar (addr : list N) (is_path : bool) (v : list N) : Prop :=
  exists pairs, addr = unix_address pairs /\ Forall pair_ok pairs
    /\ filter sockb pairs = [((if is_path then PATH else ABSTRACT), v)] /\ v <> [].
(* what the caller of a successfully resolved address holds *)
Definition target (exists_ : list N -> bool) (is_path : bool) (v : list N) : outcome unix_addr :=
  if is_path then (if exists_ v && (len v <? SUN_PATH) then Ok (Path v) else Err)
  else (if len v <? SUN_PATH then Ok (Abstract v) else Err).

Definition ok_or_err {A} (o : outcome A) : Prop := match o with Ok _ | Err => True | _ => False end.

(* ---------------------------------------------------------------- lemmas on join / split *)
Lemma In_join c x l : In x (join c l) -> x = c \/ exists p, In p l /\ In x p.
Proof.
  induction l as [|p l IH]; [intros []|]. destruct l as [|q l].
  - cbn [join]. intros H. right. exists p. split; [now left|exact H].
  - rewrite join_cons. intros H. apply in_app_or in H. destruct H as [H|[H|H]].
    + right. exists p. split; [now left|exact H].
    + now left.
    + destruct (IH H) as [E|(p' & Hp & Hx)]; [now left|]. right. exists p'. split; [now right|exact Hx].
Qed.
Lemma In_join_r c x p l : In p l -> In x p -> In x (join c l).
Proof.
  induction l as [|q l IH]; [intros []|]. intros Hp Hx. destruct l as [|q2 l].
  - destruct Hp as [->|[]]. exact Hx.
  - rewrite join_cons. apply in_or_app. destruct Hp as [->|Hp]; [now left|]. right. right. now apply IH.
Qed.
Lemma split_join_inv c l : l <> [] -> Forall (fun p => ~ In c p) l -> split c (join c l) = l.
Proof.
  induction l as [|p l IH]; [congruence|]. intros _ H. inversion H as [|? ? Hp Hl]; subst.
  destruct l as [|q l].
  - cbn [join]. now apply split_no_sep.
  - rewrite join_cons, split_app by exact Hp. f_equal. apply IH; [discriminate|exact Hl].
Qed.

Lemma render_no_comma kv : pair_ok kv -> ~ In COMMA (render kv).
Proof.
  intros (Hk & _ & _ & Hv & _) Hin. unfold render in Hin. apply in_app_or in Hin.
  destruct Hin as [H|[H|H]]; [auto|discriminate H|auto].
Qed.
Lemma split_once_render kv : ~ In EQUALS (fst kv) -> split_once EQUALS (render kv) = Some (fst kv, snd kv).
Proof. intros H. apply split_once_some. split; [reflexivity|exact H]. Qed.

Lemma is_socket_key_spec k : is_socket_key k = true <-> sock_key k.
Proof. unfold is_socket_key, sock_key. rewrite orb_true_iff, !bytes_eqb_spec. reflexivity. Qed.
Lemma filter_no_sock l : Forall (fun kv => ~ sock_key (fst kv)) l -> filter sockb l = [].
Proof.
  induction 1 as [|kv l Hn Hl IH]; [reflexivity|]. cbn [filter]. unfold sockb at 1.
  destruct (is_socket_key (fst kv)) eqn:E; [apply is_socket_key_spec in E; contradiction|exact IH].
Qed.

(* ---------------------------------------------------------------- the loop, on rendered pairs *)
(* what the loop does with the socket pairs it meets, in order *)
Fixpoint scan_spec (l : list (list N * list N)) (socket : option (bool * list N)) : option (option (bool * list N)) :=
  match l with
  | [] => Some socket
  | (k, v) :: r => if is_some socket || is_nil v then None else scan_spec r (Some (bytes_eqb k PATH, v))
  end.

Lemma scan_pairs_render pairs socket :
  Forall (fun kv => ~ In EQUALS (fst kv)) pairs ->
  scan_pairs (map render pairs) socket = scan_spec (filter sockb pairs) socket.
Proof.
  intros H. revert socket. induction H as [|[k v] pairs Hk Hp IH]; intros socket; [reflexivity|].
  cbn [map scan_pairs filter]. rewrite split_once_render by exact Hk. unfold sockb at 1. cbn [fst snd] in *.
  destruct (is_socket_key k); cbn [scan_spec].
  - destruct (is_some socket || is_nil v); [reflexivity|apply IH].
  - apply IH.
Qed.

Lemma scan_pairs_inv ps : forall socket res,
  scan_pairs ps socket = Some res ->
  exists pairs, ps = map render pairs /\ Forall (fun kv => ~ In EQUALS (fst kv)) pairs.
Proof.
  induction ps as [|pr rest IH]; intros socket res H.
  - exists []. split; [reflexivity|constructor].
  - cbn [scan_pairs] in H. destruct (split_once EQUALS pr) as [[key value]|] eqn:E; [|discriminate].
    apply split_once_some in E. destruct E as [-> Hk].
    assert (Hrest : exists socket' res', scan_pairs rest socket' = Some res').
    { destruct (is_socket_key key); [destruct (is_some socket || is_nil value); [discriminate|]|]; eauto. }
    destruct Hrest as (s' & r' & Hr). destruct (IH _ _ Hr) as (pairs & -> & Hall).
    exists ((key, value) :: pairs). split; [reflexivity|]. constructor; [exact Hk|exact Hall].
Qed.

Lemma scan_spec_one l (b : bool) v :
  scan_spec l None = Some (Some (b, v)) <-> exists k, l = [(k, v)] /\ v <> [] /\ bytes_eqb k PATH = b.
Proof.
  split.
  - destruct l as [|[k v'] r]; cbn [scan_spec]; [discriminate|]. cbn [is_some orb].
    destruct v' as [|x v']; cbn [is_nil]; [discriminate|].
    destruct r as [|[k2 v2] r]; cbn [scan_spec is_some orb]; [|discriminate].
    intros H. inversion H; subst. exists k. repeat split; auto. discriminate.
  - intros (k & -> & Hv & <-). cbn [scan_spec is_some orb]. destruct v; [congruence|reflexivity].
Qed.

Lemma no_semicolon_spec addr : existsb (N.eqb SEMICOLON) addr = false <-> ~ In SEMICOLON addr.
Proof.
  split.
  - intros H Hin. assert (E : existsb (N.eqb SEMICOLON) addr = true); [|congruence].
    apply existsb_exists. exists SEMICOLON. split; [exact Hin|apply N.eqb_refl].
  - intros H. destruct (existsb (N.eqb SEMICOLON) addr) eqn:E; [|reflexivity].
    apply existsb_exists in E. destruct E as (x & Hin & Hx). apply N.eqb_eq in Hx. subst. contradiction.
Qed.

Lemma unix_address_no_semicolon pairs : Forall pair_ok pairs -> ~ In SEMICOLON (unix_address pairs).
Proof.
  intros Hok Hin. unfold unix_address in Hin. apply in_app_or in Hin. destruct Hin as [H|[H|H]].
  - cbv in H. intuition discriminate.
  - discriminate H.
  - apply In_join in H. destruct H as [H|(p & Hp & Hx)]; [discriminate H|].
    apply in_map_iff in Hp. destruct Hp as (kv & <- & Hkv). rewrite Forall_forall in Hok.
    destruct (Hok kv Hkv) as (_ & _ & Hks & _ & Hvs). unfold render in Hx. apply in_app_or in Hx.
    destruct Hx as [Hx|[Hx|Hx]]; [auto|discriminate Hx|auto].
Qed.

Lemma split_once_unix rest : split_once COLON (UNIX ++ COLON :: rest) = Some (UNIX, rest).
Proof. apply split_once_some. split; [reflexivity|]. cbv. intuition discriminate. Qed.

(* ---------------------------------------------------------------- parser = grammar *)
Definition pre_of (is_path : bool) (v : list N) : addr_pre := if is_path then PPath v else PAbstract v.

Lemma parse_pre_grammar addr (is_path : bool) v : addr_grammar addr is_path v -> parse_pre addr = pre_of is_path v.
Proof.
  intros (pairs & -> & Hok & Hf & Hv). unfold parse_pre.
  rewrite (proj2 (no_semicolon_spec _) (unix_address_no_semicolon _ Hok)).
  unfold unix_address. rewrite split_once_unix, bytes_eqb_refl.
  assert (Hne : map render pairs <> []) by (destruct pairs; [discriminate Hf|discriminate]).
  rewrite split_join_inv; [|exact Hne|].
  2:{ apply Forall_forall. intros p Hp. apply in_map_iff in Hp. destruct Hp as (kv & <- & Hkv).
      apply render_no_comma. rewrite Forall_forall in Hok. now apply Hok. }
  rewrite scan_pairs_render.
  2:{ eapply Forall_impl; [|exact Hok]. intros kv H. apply H. }
  rewrite Hf. cbn [scan_spec is_some orb]. destruct v as [|x v]; [congruence|]. cbn [is_nil].
  destruct is_path; reflexivity.
Qed.

Lemma parse_pre_grammar_inv addr (is_path : bool) v : parse_pre addr = pre_of is_path v -> addr_grammar addr is_path v.
Proof.
  unfold parse_pre. intros H.
  destruct (existsb (N.eqb SEMICOLON) addr) eqn:Es; [destruct is_path; discriminate|].
  apply no_semicolon_spec in Es.
  destruct (split_once COLON addr) as [[sys rest]|] eqn:E; [|destruct is_path; discriminate].
  apply split_once_some in E. destruct E as [-> _].
  destruct (bytes_eqb sys UNIX) eqn:Eu; [|destruct is_path; discriminate].
  apply bytes_eqb_spec in Eu. subst sys.
  destruct (scan_pairs (split COMMA rest) None) as [res|] eqn:Esc; [|destruct is_path; discriminate].
  destruct (scan_pairs_inv _ _ _ Esc) as (pairs & Eps & Hke).
  rewrite Eps, scan_pairs_render in Esc by exact Hke.
  assert (Hres : res = Some (is_path, v)).
  { destruct res as [[[|] v']|]; destruct is_path; cbn in H; congruence. }
  subst res. apply scan_spec_one in Esc. destruct Esc as (k & Hf & Hv & Hb).
  destruct (split_join COMMA rest) as [Ej Hnc]. rewrite Eps in Ej, Hnc.
  exists pairs. split; [unfold unix_address; now rewrite Ej|]. split; [|split; [|exact Hv]].
  - apply Forall_forall. intros kv Hkv.
    assert (Hin : In (render kv) (map render pairs)) by (apply in_map; exact Hkv).
    rewrite Forall_forall in Hnc, Hke. specialize (Hnc _ Hin). specialize (Hke _ Hkv).
    assert (Hsemi : forall x, In x (render kv) -> In x (UNIX ++ COLON :: rest)).
    { intros x Hx. apply in_or_app. right. right. rewrite <- Ej. eapply In_join_r; eauto. }
    unfold pair_ok. repeat split.
    + intros Hx. apply Hnc. unfold render. apply in_or_app. now left.
    + exact Hke.
    + intros Hx. apply Es, Hsemi. unfold render. apply in_or_app. now left.
    + intros Hx. apply Hnc. unfold render. apply in_or_app. right. now right.
    + intros Hx. apply Es, Hsemi. unfold render. apply in_or_app. right. now right.
  - rewrite Hf. f_equal. f_equal.
    assert (Hsk : sockb (k, v) = true).
    { assert (Hin : In (k, v) (filter sockb pairs)) by (rewrite Hf; now left). apply filter_In in Hin. apply Hin. }
    unfold sockb, is_socket_key in Hsk. cbn [fst] in Hsk. rewrite Hb in Hsk.
    destruct is_path; [now apply bytes_eqb_spec in Hb|]. cbn [orb] in Hsk. now apply bytes_eqb_spec in Hsk.
Qed.

Lemma resolve_target exists_ is_path v : resolve exists_ (pre_of is_path v) = target exists_ is_path v.
Proof. unfold resolve, target, pre_of. destruct is_path; [|reflexivity]. destruct (exists_ v), (len v <? SUN_PATH); reflexivity. Qed.

(* T1: an address of the supported kind resolves to exactly the socket it names *)
Theorem addr_grammar_resolves exists_ addr is_path v :
  addr_grammar addr is_path v -> parse_dbus_addr_str exists_ addr = target exists_ is_path v.
Proof. intros H. unfold parse_dbus_addr_str. rewrite (parse_pre_grammar _ _ _ H). apply resolve_target. Qed.

(* T2: exactly those strings resolve, and to that socket *)
Theorem addr_resolves_iff exists_ addr r :
  parse_dbus_addr_str exists_ addr = Ok r <->
  exists (is_path : bool) v, addr_grammar addr is_path v /\ len v < SUN_PATH
    /\ (is_path = true -> exists_ v = true) /\ r = (if is_path then Path v else Abstract v).
Proof.
  split.
  - unfold parse_dbus_addr_str. intros H. destruct (parse_pre addr) as [|p|k] eqn:E; cbn [resolve] in H; [discriminate| |].
    + destruct (exists_ p) eqn:Ee; [|discriminate]. destruct (N.ltb_spec (len p) SUN_PATH) as [Hl|Hl]; [|discriminate].
      inversion H; subst. exists true, p. split; [now apply parse_pre_grammar_inv|]. auto.
    + destruct (N.ltb_spec (len k) SUN_PATH) as [Hl|Hl]; [|discriminate].
      inversion H; subst. exists false, k. split; [now apply parse_pre_grammar_inv|]. repeat split; auto. discriminate.
  - intros (is_path & v & Hg & Hl & He & ->). rewrite (addr_grammar_resolves exists_ _ _ _ Hg). unfold target.
    apply N.ltb_lt in Hl. rewrite Hl. destruct is_path; [|reflexivity]. now rewrite (He eq_refl).
Qed.

(* T3: total - a result or an error, never a panic (no indexing, no unwrap on these paths) *)
Theorem addr_total exists_ addr : ok_or_err (parse_dbus_addr_str exists_ addr).
Proof.
  unfold parse_dbus_addr_str, resolve. destruct (parse_pre addr) as [|p|k]; cbn; [exact I| |].
  - destruct (exists_ p), (len p <? SUN_PATH); exact I.
  - destruct (len k <? SUN_PATH); exact I.
Qed.
Theorem session_total exists_ env : ok_or_err (get_session_bus_path exists_ env).
Proof.
  unfold get_session_bus_path. destruct env as [b|]; [|exact I]. destruct (utf8_valid b); [apply addr_total|exact I].
Qed.

(* T4: any other string yields an error *)
Theorem addr_other_is_error exists_ addr :
  (forall is_path v, ~ addr_grammar addr is_path v) -> parse_dbus_addr_str exists_ addr = Err.
Proof.
  intros H. pose proof (addr_total exists_ addr) as Ht.
  destruct (parse_dbus_addr_str exists_ addr) as [r| | | |] eqn:E; try reflexivity; try destruct Ht.
  apply addr_resolves_iff in E. destruct E as (is_path & v & Hg & _). exfalso. exact (H _ _ Hg).
Qed.

(* ---------------------------------------------------------------- readable instances *)
Lemma filter_one before kv after :
  Forall (fun kv => ~ sock_key (fst kv)) before -> Forall (fun kv => ~ sock_key (fst kv)) after -> sock_key (fst kv) ->
  filter sockb (before ++ kv :: after) = [kv].
Proof.
  intros Hb Ha Hk. rewrite filter_app. cbn [filter]. rewrite (filter_no_sock _ Hb), (filter_no_sock _ Ha).
  unfold sockb. apply is_socket_key_spec in Hk. now rewrite Hk.
Qed.

(* further keys in any order, before and after the socket pair *)
Theorem addr_path_resolves exists_ before p after :
  Forall pair_ok (before ++ (PATH, p) :: after) ->
  Forall (fun kv => ~ sock_key (fst kv)) before -> Forall (fun kv => ~ sock_key (fst kv)) after -> p <> [] ->
  parse_dbus_addr_str exists_ (unix_address (before ++ (PATH, p) :: after)) = target exists_ true p.
Proof.
  intros Hok Hb Ha Hp. apply addr_grammar_resolves. exists (before ++ (PATH, p) :: after).
  split; [reflexivity|]. split; [exact Hok|]. split; [|exact Hp]. apply filter_one; auto. now left.
Qed.
Theorem addr_abstract_resolves exists_ before k after :
  Forall pair_ok (before ++ (ABSTRACT, k) :: after) ->
  Forall (fun kv => ~ sock_key (fst kv)) before -> Forall (fun kv => ~ sock_key (fst kv)) after -> k <> [] ->
  parse_dbus_addr_str exists_ (unix_address (before ++ (ABSTRACT, k) :: after)) = target exists_ false k.
Proof.
  intros Hok Hb Ha Hk. apply addr_grammar_resolves. exists (before ++ (ABSTRACT, k) :: after).
  split; [reflexivity|]. split; [exact Hok|]. split; [|exact Hk]. apply filter_one; auto. now right.
Qed.

(* the error classes the property and its history name, explicitly *)
Theorem addr_semicolon exists_ addr : In SEMICOLON addr -> parse_dbus_addr_str exists_ addr = Err.
Proof.
  intros H. unfold parse_dbus_addr_str, parse_pre.
  destruct (existsb (N.eqb SEMICOLON) addr) eqn:E; [reflexivity|]. apply no_semicolon_spec in E. contradiction.
Qed.
Theorem addr_no_colon exists_ addr : ~ In COLON addr -> parse_dbus_addr_str exists_ addr = Err.
Proof.
  intros H. unfold parse_dbus_addr_str, parse_pre. apply split_once_none in H. rewrite H.
  now destruct (existsb (N.eqb SEMICOLON) addr).
Qed.
Theorem addr_other_transport exists_ sys rest :
  ~ In COLON sys -> sys <> UNIX -> parse_dbus_addr_str exists_ (sys ++ COLON :: rest) = Err.
Proof.
  intros Hc Hne. unfold parse_dbus_addr_str, parse_pre.
  assert (E : split_once COLON (sys ++ COLON :: rest) = Some (sys, rest)) by (apply split_once_some; auto).
  rewrite E, (bytes_eqb_neq _ _ Hne). now destruct (existsb (N.eqb SEMICOLON) (sys ++ COLON :: rest)).
Qed.
(* well-formed pairs, but none / two of them name a socket, or the socket value is empty *)
Theorem addr_socket_count exists_ pairs :
  Forall pair_ok pairs -> pairs <> [] ->
  (forall kv, filter sockb pairs <> [kv]) \/ (exists k, filter sockb pairs = [(k, [])]) ->
  parse_dbus_addr_str exists_ (unix_address pairs) = Err.
Proof.
  intros Hok Hne Hbad. unfold parse_dbus_addr_str, parse_pre.
  rewrite (proj2 (no_semicolon_spec _) (unix_address_no_semicolon _ Hok)).
  unfold unix_address. rewrite split_once_unix, bytes_eqb_refl.
  rewrite split_join_inv.
  2:{ destruct pairs; [congruence|discriminate]. }
  2:{ apply Forall_forall. intros p Hp. apply in_map_iff in Hp. destruct Hp as (kv & <- & Hkv).
      apply render_no_comma. rewrite Forall_forall in Hok. now apply Hok. }
  rewrite scan_pairs_render.
  2:{ eapply Forall_impl; [|exact Hok]. intros kv H. apply H. }
  destruct (scan_spec (filter sockb pairs) None) as [[[b v]|]|] eqn:E; try reflexivity.
  apply scan_spec_one in E. destruct E as (k & Ef & Hv & _). exfalso.
  destruct Hbad as [Hbad|[k' Hbad]]; [exact (Hbad _ Ef)|]. rewrite Ef in Hbad. inversion Hbad. congruence.
Qed.
(* a piece without '=' anywhere in the comma-separated list, before or after the socket pair *)
Lemma scan_pairs_bad ps bad : In bad ps -> ~ In EQUALS bad -> forall socket, scan_pairs ps socket = None.
Proof.
  intros Hin He. induction ps as [|pr rest IH]; [destruct Hin|]. intros socket. cbn [scan_pairs].
  destruct Hin as [->|Hin].
  - apply split_once_none in He. now rewrite He.
  - destruct (split_once EQUALS pr) as [[key value]|]; [|reflexivity].
    destruct (is_socket_key key); [destruct (is_some socket || is_nil value); [reflexivity|]|]; now apply IH.
Qed.
Theorem addr_pair_without_equals exists_ pieces bad :
  Forall (fun p => ~ In COMMA p) pieces -> In bad pieces -> ~ In EQUALS bad ->
  parse_dbus_addr_str exists_ (UNIX ++ COLON :: join COMMA pieces) = Err.
Proof.
  intros Hnc Hin He. unfold parse_dbus_addr_str, parse_pre.
  destruct (existsb (N.eqb SEMICOLON) (UNIX ++ COLON :: join COMMA pieces)); [reflexivity|].
  rewrite split_once_unix, bytes_eqb_refl, split_join_inv; [|destruct pieces; [destruct Hin|discriminate]|exact Hnc].
  now rewrite (scan_pairs_bad _ _ Hin He).
Qed.
