(** Specification of bus-address resolution (written from the property text: "unix transport with
    a path or abstract key, further keys in any order, resolves to exactly that socket; any other
    string yields an error") and the theorems relating Conn/Addr.v to it. *)
From RB Require Import Base.Prelude Conn.AddrBase Conn.Addr.

(* ---------------------------------------------------------------- specification *)
(* a key=value pair: the key contains neither ',' nor '=', the value no ',' *)
Definition pair_ok (kv : list N * list N) : Prop :=
  ~ In COMMA (fst kv) /\ ~ In EQUALS (fst kv) /\ ~ In COMMA (snd kv).
Definition render (kv : list N * list N) : list N := fst kv ++ EQUALS :: snd kv.
Definition sock_key (k : list N) : Prop := k = PATH \/ k = ABSTRACT.
(* "unix:" k1=v1,k2=v2,... *)
Definition unix_address (pairs : list (list N * list N)) : list N :=
  UNIX ++ COLON :: join COMMA (map render pairs).
(* what the caller of a successfully resolved address holds *)
Definition target (exists_ : list N -> bool) (is_path : bool) (v : list N) : outcome unix_addr :=
  if is_path then (if exists_ v && (len v <? SUN_PATH) then Ok (Path v) else Err)
  else (if len v <? SUN_PATH then Ok (Abstract v) else Err).

(* the text actually accepted (used for the converse): pairs before the socket key each followed by
   a comma, the socket pair, and a tail that is empty or starts with a comma and is NOT inspected *)
Definition accepted_text (before : list (list N * list N)) (key v tail : list N) : list N :=
  UNIX ++ COLON :: concat (map (fun kv => render kv ++ [COMMA]) before) ++ render (key, v) ++ tail.
Definition tail_ok (tail : list N) : Prop := tail = [] \/ exists t, tail = COMMA :: t.

Definition ok_or_err {A} (o : outcome A) : Prop := match o with Ok _ | Err => True | _ => False end.

(* ---------------------------------------------------------------- lemmas *)
Lemma render_no_comma kv : pair_ok kv -> ~ In COMMA (render kv).
Proof.
  intros (Hk & _ & Hv) Hin. unfold render in Hin. apply in_app_or in Hin.
  destruct Hin as [H|[H|H]]; [auto|discriminate H|auto].
Qed.
Lemma split_once_render kv : ~ In EQUALS (fst kv) -> split_once EQUALS (render kv) = Some (fst kv, snd kv).
Proof. intros H. apply split_once_some. split; [reflexivity|exact H]. Qed.

Lemma not_sock_key_eqb k : ~ sock_key k -> bytes_eqb k PATH = false /\ bytes_eqb k ABSTRACT = false.
Proof. intros H. split; apply bytes_eqb_neq; intros E; apply H; [now left|now right]. Qed.

Lemma scan_pairs_skip before key v tail :
  Forall pair_ok before -> Forall (fun kv => ~ sock_key (fst kv)) before ->
  pair_ok (key, v) -> tail_ok tail ->
  scan_pairs (split COMMA (concat (map (fun kv => render kv ++ [COMMA]) before) ++ render (key, v) ++ tail))
  = if bytes_eqb key PATH then PPath v else if bytes_eqb key ABSTRACT then PAbstract v
    else match tail with [] => PErr | _ :: t => scan_pairs (split COMMA t) end.
Proof.
  intros Hok Hns Hkv Ht. induction before as [|kv before IH]; cbn [map concat app].
  - assert (Hs : split COMMA (render (key, v) ++ tail)
                 = render (key, v) :: match tail with [] => [] | _ :: t => split COMMA t end).
    { destruct Ht as [->|[t ->]].
      - rewrite app_nil_r. apply split_no_sep. now apply render_no_comma.
      - apply split_app. now apply render_no_comma. }
    rewrite Hs. cbn [scan_pairs]. rewrite split_once_render by (apply Hkv). cbn [fst snd].
    destruct (bytes_eqb key PATH); [reflexivity|]. destruct (bytes_eqb key ABSTRACT); [reflexivity|].
    destruct tail; reflexivity.
  - inversion Hok as [|? ? Hkv1 Hok']; subst. inversion Hns as [|? ? Hn1 Hns']; subst.
    rewrite <- !app_assoc. cbn [app]. rewrite split_app by (now apply render_no_comma).
    cbn [scan_pairs]. rewrite split_once_render by (apply Hkv1).
    destruct (not_sock_key_eqb _ Hn1) as [-> ->]. now apply IH.
Qed.

Lemma join_render_split before x after :
  join COMMA (map render (before ++ x :: after))
  = concat (map (fun kv => render kv ++ [COMMA]) before) ++ render x
    ++ match after with [] => [] | _ => COMMA :: join COMMA (map render after) end.
Proof.
  induction before as [|kv before IH]; cbn [map concat app].
  - destruct after as [|y after]; cbn [map join]; [now rewrite app_nil_r|reflexivity].
  - destruct (before ++ x :: after) as [|z zs] eqn:E; [destruct before; discriminate|].
    cbn [map] in *. rewrite join_cons, IH. rewrite <- !app_assoc. reflexivity.
Qed.

Lemma parse_pre_unix rest : parse_pre (UNIX ++ COLON :: rest) = scan_pairs (split COMMA rest).
Proof.
  unfold parse_pre. assert (E : split_once COLON (UNIX ++ COLON :: rest) = Some (UNIX, rest)).
  { apply split_once_some. split; [reflexivity|]. cbv. intuition discriminate. }
  rewrite E. now rewrite bytes_eqb_refl.
Qed.

Lemma tail_ok_after (after : list (list N * list N)) :
  tail_ok match after with [] => [] | _ => COMMA :: join COMMA (map render after) end.
Proof. destruct after; [now left|right; eexists; reflexivity]. Qed.

(* first socket key wins, whatever follows *)
Lemma parse_pre_first_wins before key v after :
  Forall pair_ok before -> Forall (fun kv => ~ sock_key (fst kv)) before -> pair_ok (key, v) -> sock_key key ->
  parse_pre (unix_address (before ++ (key, v) :: after))
  = if bytes_eqb key PATH then PPath v else PAbstract v.
Proof.
  intros Hok Hns Hkv Hsk. unfold unix_address. rewrite parse_pre_unix, join_render_split.
  rewrite scan_pairs_skip by (auto using tail_ok_after).
  destruct Hsk as [->| ->]; reflexivity.
Qed.

Lemma resolve_target exists_ v :
  resolve exists_ (PPath v) = target exists_ true v /\ resolve exists_ (PAbstract v) = target exists_ false v.
Proof. unfold resolve, target. split; [|reflexivity]. destruct (exists_ v), (len v <? SUN_PATH); reflexivity. Qed.

(* T1: an address of the supported kind resolves to the socket of its FIRST path|abstract pair *)
Theorem addr_path_resolves exists_ before p after :
  Forall pair_ok before -> Forall (fun kv => ~ sock_key (fst kv)) before -> ~ In COMMA p ->
  parse_dbus_addr_str exists_ (unix_address (before ++ (PATH, p) :: after)) = target exists_ true p.
Proof.
  intros Hok Hns Hp. unfold parse_dbus_addr_str. rewrite parse_pre_first_wins.
  - apply resolve_target.
  - exact Hok.
  - exact Hns.
  - repeat split; cbn [fst snd]; auto; cbv; intuition discriminate.
  - now left.
Qed.
Theorem addr_abstract_resolves exists_ before k after :
  Forall pair_ok before -> Forall (fun kv => ~ sock_key (fst kv)) before -> ~ In COMMA k ->
  parse_dbus_addr_str exists_ (unix_address (before ++ (ABSTRACT, k) :: after)) = target exists_ false k.
Proof.
  intros Hok Hns Hp. unfold parse_dbus_addr_str. rewrite parse_pre_first_wins.
  - apply resolve_target.
  - exact Hok.
  - exact Hns.
  - repeat split; cbn [fst snd]; auto; cbv; intuition discriminate.
  - now right.
Qed.

(* a well-formed unix address without a path|abstract key is an error *)
Theorem addr_no_socket_key exists_ pairs :
  Forall pair_ok pairs -> Forall (fun kv => ~ sock_key (fst kv)) pairs ->
  parse_dbus_addr_str exists_ (unix_address pairs) = Err.
Proof.
  intros Hok Hns. unfold parse_dbus_addr_str, unix_address. rewrite parse_pre_unix.
  destruct pairs as [|kv pairs]; [reflexivity|].
  assert (E : scan_pairs (split COMMA (join COMMA (map render (kv :: pairs)))) = PErr); [|now rewrite E].
  revert kv Hok Hns. induction pairs as [|kv2 pairs IH]; intros kv Hok Hns;
    inversion Hok as [|? ? Hkv Hok']; subst; inversion Hns as [|? ? Hn Hns']; subst.
  - cbn [map join]. rewrite split_no_sep by (now apply render_no_comma). cbn [scan_pairs].
    rewrite split_once_render by (apply Hkv). now destruct (not_sock_key_eqb _ Hn) as [-> ->].
  - cbn [map]. rewrite join_cons. rewrite split_app by (now apply render_no_comma). cbn [scan_pairs].
    rewrite split_once_render by (apply Hkv). destruct (not_sock_key_eqb _ Hn) as [-> ->].
    apply (IH kv2 Hok' Hns').
Qed.

(* ---------------------------------------------------------------- converse: only such strings resolve *)
Lemma scan_pairs_inv ps (is_path : bool) v :
  Forall (fun p => ~ In COMMA p) ps ->
  scan_pairs ps = (if is_path then PPath v else PAbstract v) ->
  exists before rest,
    join COMMA ps = concat (map (fun kv => render kv ++ [COMMA]) before)
                    ++ render ((if is_path then PATH else ABSTRACT), v)
                    ++ match rest with [] => [] | _ => COMMA :: join COMMA rest end
    /\ Forall pair_ok before /\ Forall (fun kv => ~ sock_key (fst kv)) before /\ ~ In COMMA v.
Proof.
  induction ps as [|pr rest IH]; intros Hnc Hs; cbn [scan_pairs] in Hs.
  - destruct is_path; discriminate.
  - inversion Hnc as [|? ? Hp Hrest]; subst.
    destruct (split_once EQUALS pr) as [[key value]|] eqn:E; [|destruct is_path; discriminate].
    apply split_once_some in E. destruct E as [-> Hke].
    assert (Hkc : ~ In COMMA key) by (intros H; apply Hp; apply in_or_app; now left).
    assert (Hvc : ~ In COMMA value) by (intros H; apply Hp; apply in_or_app; right; now right).
    assert (Hj : join COMMA ((key ++ EQUALS :: value) :: rest)
                 = (key ++ EQUALS :: value) ++ match rest with [] => [] | _ => COMMA :: join COMMA rest end).
    { destruct rest; [cbn [join]; now rewrite app_nil_r|reflexivity]. }
    destruct (bytes_eqb key PATH) eqn:E1.
    { apply bytes_eqb_spec in E1. subst key. destruct is_path; [|discriminate]. inversion Hs; subst.
      exists [], rest. cbn [map concat app]. repeat split; auto. }
    destruct (bytes_eqb key ABSTRACT) eqn:E2.
    { apply bytes_eqb_spec in E2. subst key. destruct is_path; [discriminate|]. inversion Hs; subst.
      exists [], rest. cbn [map concat app]. repeat split; auto. }
    destruct (IH Hrest Hs) as (before & rest' & Ej & Hok & Hns & Hv).
    exists ((key, value) :: before), rest'. split; [|split; [|split]]; auto.
    + destruct rest as [|q rest]; [destruct is_path; discriminate Hs|].
      rewrite join_cons, Ej. cbn [map concat]. change (render (key, value)) with (key ++ EQUALS :: value).
      set (Z := render (_, v) ++ _). rewrite <- !app_assoc. reflexivity.
    + constructor; [|exact Hok]. repeat split; auto.
    + constructor; [|exact Hns]. cbn [fst]. intros [->| ->]; [now rewrite bytes_eqb_refl in E1|now rewrite bytes_eqb_refl in E2].
Qed.

Lemma parse_pre_inv addr (is_path : bool) v :
  parse_pre addr = (if is_path then PPath v else PAbstract v) ->
  exists before tail, addr = accepted_text before (if is_path then PATH else ABSTRACT) v tail
    /\ Forall pair_ok before /\ Forall (fun kv => ~ sock_key (fst kv)) before /\ ~ In COMMA v /\ tail_ok tail.
Proof.
  unfold parse_pre. intros H.
  destruct (split_once COLON addr) as [[sys pairs]|] eqn:E; [|destruct is_path; discriminate].
  apply split_once_some in E. destruct E as [-> _].
  destruct (bytes_eqb sys UNIX) eqn:Es; [|destruct is_path; discriminate].
  apply bytes_eqb_spec in Es. subst sys.
  destruct (split_join COMMA pairs) as [Ej Hnc].
  destruct (scan_pairs_inv _ _ _ Hnc H) as (before & rest & Ej' & Hok & Hns & Hv).
  exists before, (match rest with [] => [] | _ => COMMA :: join COMMA rest end).
  unfold accepted_text. rewrite <- Ej' , Ej. repeat split; auto.
  destruct rest; [now left|right; eexists; reflexivity].
Qed.

(* T2: whenever an address resolves, it is "unix:" + pairs without socket key + the socket pair +
   (nothing | ',' anything), and the result is exactly that pair's socket *)
Theorem addr_resolves_only exists_ addr r :
  parse_dbus_addr_str exists_ addr = Ok r ->
  exists before (is_path : bool) v tail,
    addr = accepted_text before (if is_path then PATH else ABSTRACT) v tail
    /\ Forall pair_ok before /\ Forall (fun kv => ~ sock_key (fst kv)) before /\ ~ In COMMA v /\ tail_ok tail
    /\ len v < SUN_PATH
    /\ r = (if is_path then Path v else Abstract v) /\ (is_path = true -> exists_ v = true).
Proof.
  unfold parse_dbus_addr_str. intros H. destruct (parse_pre addr) as [|p|k] eqn:E; cbn [resolve] in H; [discriminate| |].
  - destruct (exists_ p) eqn:Ee; [|discriminate]. destruct (N.ltb_spec (len p) SUN_PATH) as [Hl|Hl]; [|discriminate].
    inversion H; subst. destruct (parse_pre_inv addr true p E) as (before & tail & Ea & Hok & Hns & Hv & Ht).
    exists before, true, p, tail. repeat split; auto.
  - destruct (N.ltb_spec (len k) SUN_PATH) as [Hl|Hl]; [|discriminate].
    inversion H; subst. destruct (parse_pre_inv addr false k E) as (before & tail & Ea & Hok & Hns & Hv & Ht).
    exists before, false, k, tail. repeat split; auto. discriminate.
Qed.

(* and the accepted texts do resolve (so T2 is an exact characterisation) *)
Theorem addr_accepted_text_resolves exists_ before (is_path : bool) v tail :
  Forall pair_ok before -> Forall (fun kv => ~ sock_key (fst kv)) before -> ~ In COMMA v -> tail_ok tail ->
  parse_dbus_addr_str exists_ (accepted_text before (if is_path then PATH else ABSTRACT) v tail)
  = target exists_ is_path v.
Proof.
  intros Hok Hns Hv Ht. unfold parse_dbus_addr_str, accepted_text. rewrite parse_pre_unix.
  rewrite scan_pairs_skip; auto.
  - destruct is_path; cbn [bytes_eqb PATH ABSTRACT]; apply resolve_target.
  - destruct is_path; repeat split; cbn [fst snd]; auto; cbv; intuition discriminate.
Qed.

(* T3: other transports, no ':' at all, a pair without '=' before the socket key: errors *)
Theorem addr_no_colon exists_ addr : ~ In COLON addr -> parse_dbus_addr_str exists_ addr = Err.
Proof. intros H. unfold parse_dbus_addr_str, parse_pre. apply split_once_none in H. now rewrite H. Qed.
Theorem addr_other_transport exists_ sys rest :
  ~ In COLON sys -> sys <> UNIX -> parse_dbus_addr_str exists_ (sys ++ COLON :: rest) = Err.
Proof.
  intros Hc Hne. unfold parse_dbus_addr_str, parse_pre.
  assert (E : split_once COLON (sys ++ COLON :: rest) = Some (sys, rest)) by (apply split_once_some; auto).
  rewrite E. now rewrite bytes_eqb_neq.
Qed.
Theorem addr_pair_without_equals exists_ before bad tail :
  Forall pair_ok before -> Forall (fun kv => ~ sock_key (fst kv)) before ->
  ~ In EQUALS bad -> ~ In COMMA bad -> tail_ok tail ->
  parse_dbus_addr_str exists_ (UNIX ++ COLON :: concat (map (fun kv => render kv ++ [COMMA]) before) ++ bad ++ tail) = Err.
Proof.
  intros Hok Hns He Hc Ht. unfold parse_dbus_addr_str. rewrite parse_pre_unix.
  assert (E : scan_pairs (split COMMA (concat (map (fun kv => render kv ++ [COMMA]) before) ++ bad ++ tail)) = PErr);
    [|now rewrite E].
  induction before as [|kv before IH]; cbn [map concat app].
  - assert (Hs : exists more, split COMMA (bad ++ tail) = bad :: more).
    { destruct Ht as [->|[t ->]]; [rewrite app_nil_r, split_no_sep by assumption; now eexists|].
      rewrite split_app by assumption. now eexists. }
    destruct Hs as [more ->]. cbn [scan_pairs]. apply split_once_none in He. now rewrite He.
  - inversion Hok as [|? ? Hkv Hok']; subst. inversion Hns as [|? ? Hn Hns']; subst.
    rewrite <- !app_assoc. cbn [app]. rewrite split_app by (now apply render_no_comma).
    cbn [scan_pairs]. rewrite split_once_render by (apply Hkv).
    destruct (not_sock_key_eqb _ Hn) as [-> ->]. now apply IH.
Qed.

(* T4: total - a result or an error, never a panic (no indexing, no unwrap on these paths) *)
Theorem addr_total exists_ addr : ok_or_err (parse_dbus_addr_str exists_ addr).
Proof.
  unfold parse_dbus_addr_str, resolve. destruct (parse_pre addr) as [|p|k]; cbn; [exact I| |].
  - destruct (exists_ p), (len p <? SUN_PATH); exact I.
  - destruct (len k <? SUN_PATH); exact I.
Qed.
Theorem session_total exists_ env : ok_or_err (get_session_bus_path exists_ env).
Proof.
  unfold get_session_bus_path. destruct env as [b|]; [|exact I]. destruct (utf8_valid b); [apply addr_total|exact I].
Qed.
