(** Non-vacuity for C13: the model computes, the hypotheses of the theorems are satisfiable, and the
    boundaries (serial 2^32-2 / 2^32-1, NUL in an error text, preset serials) behave as stated. *)
From RB Require Import Base.Prelude Conn.Serial Conn.SerialProofs.
From Coq Require Import Sorting.Sorted.

(* a header-field marshaller for the examples: one field "member = Ab" (code 3, signature s), and a
   validation failure for messages whose flags are 255 *)
Definition ex_fields (m : message) : option (list N) :=
  if msg_flags m =? 255 then None else Some [3; 1; 115; 0; 2; 0; 0; 0; 65; 98; 0].

Definition ex_dyn (preset : option N) : dynheader :=
  {| dh_interface := None; dh_member := Some [65; 98]; dh_object := None; dh_destination := None;
     dh_serial := preset; dh_sender := None; dh_signature := None; dh_error_name := None;
     dh_response_serial := None; dh_num_fds := None |}.
Definition ex_msg (bo : endian) (flags : N) (preset : option N) (body : list N) : message :=
  {| msg_typ := MCall; msg_flags := flags; msg_dyn := ex_dyn preset; msg_bo := bo; msg_body := body; msg_raw_fds := [] |}.

(* the marshalled header: 'l', Call, flags 0, version 1, body length 3, serial 7, fields length 11, fields, 5 zero bytes *)
Example ex_marshal_le : marshal ex_fields (ex_msg LE 0 None [1; 2; 3]) 7 []
  = Ok [108; 1; 0; 1; 3; 0; 0; 0; 7; 0; 0; 0; 11; 0; 0; 0; 3; 1; 115; 0; 2; 0; 0; 0; 65; 98; 0; 0; 0; 0; 0; 0].
Proof. vm_compute. reflexivity. Qed.
Example ex_marshal_be : marshal ex_fields (ex_msg BE 4 None []) 16909060 []
  = Ok [66; 1; 4; 1; 0; 0; 0; 0; 1; 2; 3; 4; 0; 0; 0; 11; 3; 1; 115; 0; 2; 0; 0; 0; 65; 98; 0; 0; 0; 0; 0; 0].
Proof. vm_compute. reflexivity. Qed.
Example ex_wire_serial_be : wire_serial [66; 1; 4; 1; 0; 0; 0; 0; 1; 2; 3; 4; 0; 0; 0; 11] = Some 16909060.
Proof. vm_compute. reflexivity. Qed.
Example ex_marshal_invalid_type :
  marshal ex_fields {| msg_typ := MInvalid; msg_flags := 0; msg_dyn := ex_dyn None; msg_bo := LE; msg_body := []; msg_raw_fds := [] |} 1 [] = Err.
Proof. vm_compute. reflexivity. Qed.

Example ex_parse_u32 : parse_u32 (u32_bytes BE 4294967294) BE = Ok 4294967294 /\ parse_u32 [1; 2; 3] LE = Err.
Proof. vm_compute. auto. Qed.

(* a history: alloc, send, preset send (serial 0x01020304, big endian), alloc, failing send, alloc *)
Definition ex_ops : list op :=
  [OpAlloc; OpSend (ex_msg LE 0 None [1; 2; 3]); OpSend (ex_msg BE 0 (Some 16909060) []); OpAlloc;
   OpSend (ex_msg LE 255 None []); OpAlloc].
Example ex_history_wf : Forall op_wf ex_ops.
Proof.
  unfold ex_ops.
  repeat (apply Forall_cons; [cbn; try exact I; intros p H; inversion H; subst; vm_compute; split; reflexivity|]).
  apply Forall_nil.
Qed.
Example ex_history :
  exists c hb1 hb2, run_ops ex_fields ex_ops conn_init
    = Ok (c, [EvAlloc 1; EvSent None 2 hb1; EvSent (Some 16909060) 16909060 hb2; EvAlloc 3; EvSendErr None []; EvAlloc 5])
    /\ serial_counter c = 6 /\ wire_serial hb1 = Some 2 /\ wire_serial hb2 = Some 16909060.
Proof. do 3 eexists. vm_compute. repeat split; reflexivity. Qed.
(* the failed send consumed serial 4: it is never handed out *)
Example ex_history_issued : forall c evs, run_ops ex_fields ex_ops conn_init = Ok (c, evs) -> issued evs = [1; 2; 3; 5].
Proof. intros c evs H. vm_compute in H. inversion H; subst. reflexivity. Qed.
Example ex_history_spec : forall c evs, run_ops ex_fields ex_ops conn_init = Ok (c, evs) -> serials_spec evs.
Proof. intros c evs H. eapply serials_fresh_increasing; [exact ex_history_wf|exact H]. Qed.
Example ex_nallocs : nallocs ex_ops = 5.
Proof. vm_compute. reflexivity. Qed.

(* a send suspended and resumed with three allocations in between, fresh and preset; a failing one *)
Example ex_resumed :
  exists c hb1 hb2, run_ops ex_fields [OpAlloc; OpSendResumed (ex_msg LE 0 None [1; 2; 3]) 3; OpSendResumed (ex_msg BE 0 (Some 7) []) 1;
                                      OpSendResumed (ex_msg LE 255 None []) 2; OpAlloc] conn_init
    = Ok (c, [EvAlloc 1; EvSentResumed None [3; 4; 5] 2 hb1; EvSentResumed (Some 7) [6] 7 hb2; EvSendErr None [8; 9]; EvAlloc 10])
    /\ wire_serial hb1 = Some 2 /\ wire_serial hb2 = Some 7 /\ serial_counter c = 11.
Proof. do 3 eexists. vm_compute. repeat split; reflexivity. Qed.
Example ex_resumed_issued : issued [EvAlloc 1; EvSentResumed None [3; 4; 5] 2 []; EvSentResumed (Some 7) [6] 7 []; EvSendErr None [8; 9]; EvAlloc 10]
  = [1; 2; 3; 4; 5; 6; 8; 9; 10].
Proof. reflexivity. Qed.
Example ex_resumed_runs_out :
  step ex_fields {| header_buf := []; serial_counter := 4294967293 |} (OpSendResumed (ex_msg LE 0 None []) 2) = Panic
  /\ is_ok (step ex_fields {| header_buf := []; serial_counter := 4294967293 |} (OpSendResumed (ex_msg LE 0 None []) 1)) = true.
Proof. vm_compute. auto. Qed.

(* sends that are not completed keep their serial: dropped at zero bytes, force_finish after a partial
   write, I/O error; preset and fresh; the next serials go on from there *)
Example ex_abandoned :
  exists c hb0 hb1 hb2 hb3, run_ops ex_fields [OpSend (ex_msg LE 0 None []); OpSendAbandoned (ex_msg LE 0 None []) DroppedAtZero; OpAlloc;
                                          OpSendAbandoned (ex_msg BE 0 (Some 1) []) IoError; OpSendAbandoned (ex_msg LE 0 None [1]) ForceFinished; OpAlloc] conn_init
    = Ok (c, [EvSent None 1 hb0; EvAbandoned None 2 hb1; EvAlloc 3; EvAbandoned (Some 1) 1 hb2; EvAbandoned None 4 hb3; EvAlloc 5])
    /\ serial_counter c = 6.
Proof. do 5 eexists. vm_compute. split; reflexivity. Qed.
(* the end of the serial space reached by sends: 4294967294 is the last fresh serial, the next fresh send panics *)
Example ex_sends_at_the_end :
  alloc_many 4294967293 conn_init = Ok ({| header_buf := []; serial_counter := 4294967294 |}, 4294967293)
  /\ (exists c hb hb2, run_ops ex_fields [OpSend (ex_msg LE 0 None []); OpSend (ex_msg LE 0 (Some 4294967295) [])]
                     {| header_buf := []; serial_counter := 4294967294 |}
                   = Ok (c, [EvSent None 4294967294 hb; EvSent (Some 4294967295) 4294967295 hb2]))
  /\ run_ops ex_fields [OpSend (ex_msg LE 0 None []); OpSend (ex_msg LE 0 None [])] {| header_buf := []; serial_counter := 4294967294 |} = Panic
  /\ alloc_many 4294967295 conn_init = Panic.
Proof. vm_compute. repeat split; try reflexivity. do 3 eexists. reflexivity. Qed.
(* a header field array above 2^26 bytes is refused (check_marshalled_array_len) *)
Example ex_fields_too_long : check_marshalled_array_len (2^26) = Ok (2^26) /\ check_marshalled_array_len (2^26 + 1) = Err.
Proof. vm_compute. auto. Qed.

(* the end of the serial space: 2^32-2 is the last serial, asking again panics *)
Example ex_last_serial :
  alloc_serial {| header_buf := []; serial_counter := 4294967294 |}
    = Ok (4294967294, {| header_buf := []; serial_counter := 4294967295 |})
  /\ alloc_serial {| header_buf := []; serial_counter := 4294967295 |} = Panic
  /\ step ex_fields {| header_buf := []; serial_counter := 4294967295 |} (OpSend (ex_msg LE 0 None [])) = Panic
  /\ is_ok (step ex_fields {| header_buf := []; serial_counter := 4294967295 |} (OpSend (ex_msg LE 0 (Some 9) []))) = true.
Proof. vm_compute. auto. Qed.

(* replies *)
Definition ex_call : dynheader :=
  {| dh_interface := Some [105; 46; 102]; dh_member := Some [77]; dh_object := Some [47; 111];
     dh_destination := Some [58; 49; 46; 50]; dh_serial := Some 77; dh_sender := Some [58; 49; 46; 57];
     dh_signature := Some [115]; dh_error_name := None; dh_response_serial := None; dh_num_fds := None |}.
Example ex_make_response :
  dh_response_serial (msg_dyn (make_response ex_call)) = Some 77
  /\ dh_destination (msg_dyn (make_response ex_call)) = Some [58; 49; 46; 57]
  /\ msg_typ (make_response ex_call) = MReply.
Proof. vm_compute. auto. Qed.
Example ex_hello : hello_matches 7 (msg_dyn (make_response ex_call)) = false
  /\ hello_matches 77 (msg_dyn (make_response ex_call)) = true /\ hello_matches 1 dh_default = false.
Proof. vm_compute. auto. Qed.

Example ex_unknown_method : exists r, unknown_method ex_call = Ok r
  /\ dh_response_serial (msg_dyn r) = Some 77 /\ dh_destination (msg_dyn r) = Some [58; 49; 46; 57]
  /\ msg_typ r = MError
  (* body: length 44, "No calls to i.f.M are accepted for object /o", NUL *)
  /\ msg_body r = [44; 0; 0; 0] ++ s_no_calls_to ++ [105; 46; 102; 46; 77] ++ s_accepted_for ++ [47; 111; 0].
Proof. eexists. vm_compute. repeat split; reflexivity. Qed.
Example ex_invalid_args : exists r, invalid_args ex_call (Some [117; 117]) = Ok r
  /\ reply_spec ex_call r /\ dh_error_name (msg_dyn r) = Some s_invalid_args.
Proof.
  destruct (invalid_args ex_call (Some [117; 117])) as [r| | | |] eqn:E; try (vm_compute in E; discriminate).
  exists r. split; [reflexivity|]. split; [eapply invalid_args_spec; exact E|].
  unfold invalid_args in E. apply make_error_response_spec in E. tauto.
Qed.
(* no sender, no serial (a hand-built header): the reply has no destination and no reply serial *)
Example ex_reply_nobody : reply_spec dh_default (make_response dh_default)
  /\ dh_destination (msg_dyn (make_response dh_default)) = None.
Proof. split; [apply make_response_spec|reflexivity]. Qed.
(* a hand-built header with a NUL byte in the member name: push_param(text).unwrap() panics *)
Example ex_unknown_method_nul :
  unknown_method {| dh_interface := None; dh_member := Some [77; 0]; dh_object := None; dh_destination := None;
                    dh_serial := Some 1; dh_sender := None; dh_signature := None; dh_error_name := None;
                    dh_response_serial := None; dh_num_fds := None |} = Panic.
Proof. vm_compute. reflexivity. Qed.
Example ex_call_no_nul : opt_no_nul (dh_interface ex_call) /\ opt_no_nul (dh_member ex_call) /\ opt_no_nul (dh_object ex_call).
Proof. vm_compute. auto. Qed.
