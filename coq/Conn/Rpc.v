(** Conn/Rpc.v - executable model of RpcConn (rustbus/src/connection/rpc_conn.rs) and of
    standard_messages::unknown_method / DynamicHeader::make_error_response.

    The receive side below RpcConn (RecvConn::get_next_message, property C09) is a black box that
    hands over the next message that has arrived, or reports a time-out when none has; the send side
    (SendConn::send_message + write_all, property C10) is a black box that puts the message on the
    wire.  Strings are byte lists. *)
From RB Require Import Base.Prelude.

(* message_builder.rs MessageType *)
Inductive kind := KCall | KReply | KError | KSignal | KInvalid.
Definition kind_eqb (a b : kind) : bool :=
  match a, b with
  | KCall, KCall | KReply, KReply | KError, KError | KSignal, KSignal | KInvalid, KInvalid => true
  | _, _ => false
  end.

(* what RpcConn looks at in a received MarshalledMessage: typ and dynheader; [r_tag] stands for
   everything else (flags, body) *)
Record rmsg := {
  r_kind : kind;
  r_serial : N;                       (* dynheader.serial, always Some for a received message *)
  r_reply : option N;                 (* dynheader.response_serial *)
  r_sender : option (list N);
  r_iface : option (list N);
  r_member : option (list N);
  r_object : option (list N);
  r_tag : N
}.

(* the error message built by standard_messages::unknown_method *)
Record emsg := {
  e_reply : N;                        (* response_serial: the serial of the call *)
  e_dest : option (list N);           (* destination: the sender of the call *)
  e_name : list N;                    (* error_name *)
  e_text : list N                     (* the one string in the body *)
}.

Definition str_unknown_method : list N :=   (* "org.freedesktop.DBus.Error.UnknownMethod" *)
  [111;114;103;46;102;114;101;101;100;101;115;107;116;111;112;46;68;66;117;115;46;69;114;114;111;114;46;85;110;107;110;111;119;110;77;101;116;104;111;100].
Definition str_no_calls_to : list N := [78;111;32;99;97;108;108;115;32;116;111;32].   (* "No calls to " *)
Definition str_accepted : list N :=                                                   (* " are accepted for object " *)
  [32;97;114;101;32;97;99;99;101;112;116;101;100;32;102;111;114;32;111;98;106;101;99;116;32].
Definition opt_str (o : option (list N)) : list N := match o with Some s => s | None => [] end.

(* standard_messages.rs unknown_method + message_builder.rs DynamicHeader::make_error_response *)
Definition unknown_method (call : rmsg) : emsg :=
  {| e_reply := r_serial call;
     e_dest := r_sender call;
     e_name := str_unknown_method;
     e_text := str_no_calls_to ++ opt_str (r_iface call) ++ [46] ++ opt_str (r_member call)
               ++ str_accepted ++ opt_str (r_object call) |}.

(** * State *)
(* struct RpcConn { signals: VecDeque, calls: VecDeque, responses: HashMap<NonZeroU32, _>, conn, filter }
   plus the two ends of the black boxes: [avail] = messages that have arrived on the socket and have
   not been read yet, [wire] = error replies written to the socket so far *)
Record rpc := {
  signals : list rmsg;
  calls : list rmsg;
  responses : list (N * rmsg);
  avail : list rmsg;
  wire : list emsg
}.
Definition rpc0 : rpc := {| signals := []; calls := []; responses := []; avail := []; wire := [] |}.

(* connection::Error as far as RpcConn produces or forwards it *)
Inductive rerr := RTimedOut | RUnexpectedMessageType.

(** HashMap::remove / HashMap::insert on an association list: insert replaces an existing key *)
Fixpoint map_remove (k : N) (l : list (N * rmsg)) : option rmsg * list (N * rmsg) :=
  match l with
  | [] => (None, [])
  | (k', v) :: l' =>
    if k' =? k then (Some v, l')
    else let '(r, l'') := map_remove k l' in (r, (k', v) :: l'')
  end.
Definition map_insert (k : N) (v : rmsg) (l : list (N * rmsg)) : list (N * rmsg) :=
  snd (map_remove k l) ++ [(k, v)].

Section Filter.
  (* MessageFilter = Box<dyn Fn(&MarshalledMessage) -> bool> *)
  Variable filter : rmsg -> bool.

  (* RpcConn::try_get_response *)
  Definition try_get_response (serial : N) (st : rpc) : option rmsg * rpc :=
    let '(r, m) := map_remove serial (responses st) in
    (r, {| signals := signals st; calls := calls st; responses := m; avail := avail st; wire := wire st |}).

  (* RpcConn::try_get_signal: VecDeque::pop_front *)
  Definition try_get_signal (st : rpc) : option rmsg * rpc :=
    match signals st with
    | [] => (None, st)
    | m :: t => (Some m, {| signals := t; calls := calls st; responses := responses st; avail := avail st; wire := wire st |})
    end.

  (* RpcConn::try_get_call *)
  Definition try_get_call (st : rpc) : option rmsg * rpc :=
    match calls st with
    | [] => (None, st)
    | m :: t => (Some m, {| signals := signals st; calls := t; responses := responses st; avail := avail st; wire := wire st |})
    end.

  (* the insert part shared by insert_message_or_send_error and refill_all: `match msg.typ` under
     `if filter(&msg)`.  Panic = `response_serial.unwrap()` on None *)
  Definition insert_accepted (msg : rmsg) (st : rpc) : outcome (option rerr * rpc) :=
    match r_kind msg with
    | KCall => Ok (None, {| signals := signals st; calls := calls st ++ [msg]; responses := responses st; avail := avail st; wire := wire st |})
    | KInvalid => Ok (Some RUnexpectedMessageType, st)
    | KError | KReply =>
      match r_reply msg with
      | None => Panic
      | Some s => Ok (None, {| signals := signals st; calls := calls st; responses := map_insert s msg (responses st); avail := avail st; wire := wire st |})
      end
    | KSignal => Ok (None, {| signals := signals st ++ [msg]; calls := calls st; responses := responses st; avail := avail st; wire := wire st |})
    end.

  (* RpcConn::insert_message_or_send_error: a rejected call is answered on the wire at once *)
  Definition insert_message_or_send_error (msg : rmsg) (st : rpc) : outcome (option rerr * rpc) :=
    if filter msg then insert_accepted msg st
    else match r_kind msg with
         | KCall => Ok (None, {| signals := signals st; calls := calls st; responses := responses st; avail := avail st;
                                  wire := wire st ++ [unknown_method msg] |})
         | KInvalid => Ok (Some RUnexpectedMessageType, st)
         | KError | KReply | KSignal => Ok (None, st)           (* just drop it *)
         end.

  (* the black box RecvConn::get_next_message *)
  Definition get_next_message (st : rpc) : option rmsg * rpc :=
    match avail st with
    | [] => (None, st)                                           (* Err(TimedOut) *)
    | m :: t => (Some m, {| signals := signals st; calls := calls st; responses := responses st; avail := t; wire := wire st |})
    end.

  (* RpcConn::try_refill_once: get_next_message(..)?; insert_message_or_send_error(msg)?; Ok(Some(typ)) *)
  Definition try_refill_once (st : rpc) : outcome ((rerr + option kind) * rpc) :=
    match get_next_message st with
    | (None, st') => Ok (inl RTimedOut, st')
    | (Some msg, st') =>
      match insert_message_or_send_error msg st' with
      | Ok (None, st'') => Ok (inr (Some (r_kind msg)), st'')
      | Ok (Some e, st'') => Ok (inl e, st'')
      | Err => Err | Panic => Panic | UB => UB | OutOfFuel => OutOfFuel
      end
    end.

  (* RpcConn::refill_once: `loop { if let Some(typ) = self.try_refill_once(..)? { break Ok(typ) } }`;
     try_refill_once never answers Ok(None), the fuel of the loop is never used up *)
  Fixpoint refill_once_loop (fuel : nat) (st : rpc) : outcome ((rerr + kind) * rpc) :=
    match fuel with
    | O => OutOfFuel
    | S fuel' =>
      match try_refill_once st with
      | Ok (inl e, st') => Ok (inl e, st')
      | Ok (inr (Some typ), st') => Ok (inr typ, st')
      | Ok (inr None, st') => refill_once_loop fuel' st'
      | Err => Err | Panic => Panic | UB => UB | OutOfFuel => OutOfFuel
      end
    end.
  Definition refill_once (st : rpc) : outcome ((rerr + kind) * rpc) := refill_once_loop 1 st.

  (* the three wait loops: `loop { if let Some(msg) = self.try_get_X() { return Ok(msg) }
     self.refill_once(calc_timeout_left(..)?)?; }`.  [budget] = how many times calc_timeout_left
     still succeeds (the time-out of the call strikes after that many refills). *)
  Fixpoint wait_loop (try_get : rpc -> option rmsg * rpc) (budget : nat) (st : rpc)
    : outcome ((rerr + rmsg) * rpc) :=
    match try_get st with
    | (Some msg, st') => Ok (inr msg, st')
    | (None, st') =>
      match budget with
      | O => Ok (inl RTimedOut, st')
      | S budget' =>
        match refill_once st' with
        | Ok (inl e, st'') => Ok (inl e, st'')
        | Ok (inr _, st'') => wait_loop try_get budget' st''
        | Err => Err | Panic => Panic | UB => UB | OutOfFuel => OutOfFuel
        end
      end
    end.
  Definition wait_response (serial : N) := wait_loop (try_get_response serial).
  Definition wait_signal := wait_loop try_get_signal.
  Definition wait_call := wait_loop try_get_call.

  (* RpcConn::refill_all: drains the socket without blocking; replies to filtered calls are collected
     and returned, not sent.  One loop iteration per available message. *)
  Fixpoint refill_all_loop (fuel : nat) (filtered_out : list emsg) (st : rpc)
    : outcome ((rerr + list emsg) * rpc) :=
    match fuel with
    | O => OutOfFuel
    | S fuel' =>
      match get_next_message st with
      | (None, st') => Ok (inr filtered_out, st')                 (* Err(TimedOut) => break *)
      | (Some msg, st') =>
        if filter msg then
          match insert_accepted msg st' with
          | Ok (None, st'') => refill_all_loop fuel' filtered_out st''
          | Ok (Some e, st'') => Ok (inl e, st'')
          | Err => Err | Panic => Panic | UB => UB | OutOfFuel => OutOfFuel
          end
        else
          match r_kind msg with
          | KCall => refill_all_loop fuel' (filtered_out ++ [unknown_method msg]) st'
          | KInvalid => Ok (inl RUnexpectedMessageType, st')
          | KError | KReply | KSignal => refill_all_loop fuel' filtered_out st'
          end
      end
    end.
  Definition refill_all (st : rpc) : outcome ((rerr + list emsg) * rpc) :=
    refill_all_loop (S (length (avail st))) [] st.

  (** * Operations of the client, interleaved with arrivals *)
  Inductive op :=
  | Arrive (m : rmsg)                         (* the peer's next message lands in the socket *)
  | TryResp (s : N) | TrySignal | TryCall
  | WaitResp (s : N) (budget : nat) | WaitSignal (budget : nat) | WaitCall (budget : nat)
  | RefillOnce | RefillAll.

  (* what the caller of an operation sees *)
  Inductive res :=
  | RNothing                                  (* Arrive *)
  | RNone | RMsg (m : rmsg)                   (* Option / Ok(msg) *)
  | RFail (e : rerr)
  | RType (k : kind)                          (* refill_once *)
  | RErrors (l : list emsg).                  (* refill_all *)

  Definition res_of_opt (o : option rmsg) : res := match o with Some m => RMsg m | None => RNone end.
  Definition res_of_wait (r : rerr + rmsg) : res := match r with inl e => RFail e | inr m => RMsg m end.

  Definition arrive (m : rmsg) (st : rpc) : rpc :=
    {| signals := signals st; calls := calls st; responses := responses st; avail := avail st ++ [m]; wire := wire st |}.

  Definition step (o : op) (st : rpc) : outcome (res * rpc) :=
    match o with
    | Arrive m => Ok (RNothing, arrive m st)
    | TryResp s => let '(r, st') := try_get_response s st in Ok (res_of_opt r, st')
    | TrySignal => let '(r, st') := try_get_signal st in Ok (res_of_opt r, st')
    | TryCall => let '(r, st') := try_get_call st in Ok (res_of_opt r, st')
    | WaitResp s b => do x <- wait_response s b st; Ok (res_of_wait (fst x), snd x)
    | WaitSignal b => do x <- wait_signal b st; Ok (res_of_wait (fst x), snd x)
    | WaitCall b => do x <- wait_call b st; Ok (res_of_wait (fst x), snd x)
    | RefillOnce => do x <- refill_once st;
                    Ok (match fst x with inl e => RFail e | inr k => RType k end, snd x)
    | RefillAll => do x <- refill_all st;
                   Ok (match fst x with inl e => RFail e | inr l => RErrors l end, snd x)
    end.

  (* the result of every operation together with the error replies that appeared on the wire during it *)
  Fixpoint run_from (ops : list op) (st : rpc) : outcome (list (res * list emsg) * rpc) :=
    match ops with
    | [] => Ok ([], st)
    | o :: ops' =>
      do x <- step o st;
      let '(r, st') := x in
      do y <- run_from ops' st';
      Ok ((r, skipn (length (wire st)) (wire st')) :: fst y, snd y)
    end.
  Definition run (ops : list op) := run_from ops rpc0.
End Filter.

(** The filters the correspondence check installs (the same table is written in
    harness/src/bin/c14.rs): predicates on (type, member). *)
Definition starts_with (c : N) (o : option (list N)) : bool :=
  match o with Some (x :: _) => x =? c | _ => false end.
Definition len_even (o : option (list N)) : bool :=
  match o with Some s => N.even (len s) | None => true end.
Definition is_response (k : kind) : bool := match k with KReply | KError => true | _ => false end.

Definition filter_family (i : N) (m : rmsg) : bool :=
  let k := r_kind m in
  match i with
  | 0 => true
  | 1 => false
  | 2 => kind_eqb k KCall
  | 3 => negb (kind_eqb k KCall)
  | 4 => kind_eqb k KSignal
  | 5 => negb (kind_eqb k KSignal)
  | 6 => is_response k
  | 7 => negb (is_response k)
  | 8 => starts_with 65 (r_member m)
  | 9 => negb (starts_with 65 (r_member m))
  | 10 => negb (kind_eqb k KCall) || starts_with 65 (r_member m)
  | 11 => negb (kind_eqb k KSignal) || len_even (r_member m)
  | 12 => negb (kind_eqb k KError)
  | 13 => negb (kind_eqb k KReply)
  | 14 => match k with KCall => negb (len_even (r_member m)) | KSignal => starts_with 66 (r_member m) | _ => true end
  | _ => match k with KCall | KSignal => false | _ => true end
  end.
