(** Conn/RpcProofs.v - the RpcConn model refines the specification of Conn/RpcSpec.v (C14), and what
    that specification implies: exactly-once delivery, routing, order, one error per rejected call. *)
From RB Require Import Base.Prelude Conn.Rpc Conn.RpcSpec.
From Coq Require Import Permutation.

Lemma kind_eqb_eq a b : kind_eqb a b = true <-> a = b.
Proof. destruct a, b; cbn; split; intros H; try reflexivity; try discriminate. Qed.

Lemma resp_keys_app a b : resp_keys (a ++ b) = resp_keys a ++ resp_keys b.
Proof. unfold resp_keys. apply flat_map_app. Qed.
Lemma resp_keys_cons m l : resp_keys (m :: l) = resp_keys [m] ++ resp_keys l.
Proof. apply (resp_keys_app [m] l). Qed.

Lemma NoDup_app_r {A} (a b : list A) : NoDup (a ++ b) -> NoDup b.
Proof. induction a as [|x a IH]; [auto|]. cbn [app]. intros H. inversion H; auto. Qed.

Section Refinement.
  Variable filter : rmsg -> bool.

  (** * The abstraction relation *)
  Definition consistent (kv : N * rmsg) : Prop :=
    r_reply (snd kv) = Some (fst kv) /\ is_response (r_kind (snd kv)) = true.

  Definition R (st : rpc) (ss : sstate) : Prop :=
    signals st = q_signals ss /\ calls st = q_calls ss /\ map snd (responses st) = pending ss
    /\ avail st = sock ss /\ Forall consistent (responses st).

  (** messages still to be read are valid, carry pairwise distinct reply serials, none of which is
      waiting in [pending] *)
  Definition Inv (ss : sstate) (future : list rmsg) : Prop :=
    Forall valid_msg (sock ss ++ future)
    /\ NoDup (resp_keys (sock ss ++ future))
    /\ (forall s, In s (resp_keys (sock ss ++ future)) -> ~ In s (resp_keys (pending ss))).

  Lemma keys_of_consistent l : Forall consistent l -> resp_keys (map snd l) = map fst l.
  Proof.
    induction 1 as [|[k v] l [H1 H2] _ IH]; [reflexivity|].
    cbn [map fst snd] in *. rewrite resp_keys_cons.
    rewrite IH. unfold resp_keys. cbn [flat_map]. rewrite H2, H1. reflexivity.
  Qed.

  Lemma map_remove_absent k l : ~ In k (map fst l) -> map_remove k l = (None, l).
  Proof.
    induction l as [|[k' v] l IH]; intros H; [reflexivity|]. cbn [map_remove].
    cbn [map fst In] in H. destruct (N.eqb_spec k' k) as [E|E]; [tauto|].
    rewrite IH by tauto. reflexivity.
  Qed.

  Lemma map_remove_spec s l r l' : Forall consistent l -> map_remove s l = (r, l') ->
    take_pending s (map snd l) = (r, map snd l') /\ Forall consistent l'.
  Proof.
    revert r l'. induction l as [|[k v] l IH]; intros r l' H E.
    - cbn in E. injection E as <- <-. split; [reflexivity|constructor].
    - inversion H as [|? ? [H1 H2] H']; subst. cbn [fst snd] in *. cbn [map_remove] in E. cbn [map snd take_pending].
      unfold reply_is. rewrite H1.
      destruct (N.eqb_spec k s) as [Ek|Ek].
      + injection E as <- <-. split; [reflexivity|exact H'].
      + destruct (map_remove s l) as [r0 l0] eqn:E0. injection E as <- <-.
        destruct (IH _ _ H' eq_refl) as [E1 H1']. rewrite E1. split; [reflexivity|].
        constructor; [split; assumption|exact H1'].
  Qed.

  Lemma take_pending_incl s l r l' : take_pending s l = (r, l') -> incl (resp_keys l') (resp_keys l).
  Proof.
    revert r l'. induction l as [|m l IH]; intros r l' E.
    - cbn in E. injection E as <- <-. apply incl_refl.
    - cbn [take_pending] in E. destruct (reply_is s m).
      + injection E as <- <-. rewrite resp_keys_cons. apply incl_appr, incl_refl.
      + destruct (take_pending s l) as [r0 l0] eqn:E0. injection E as <- <-.
        rewrite (resp_keys_cons m l0), (resp_keys_cons m l).
        apply incl_app_app; [apply incl_refl|]. now apply (IH _ _ eq_refl).
  Qed.

  (** * Filing one message: model = specification *)
  Lemma file_with_sock ss m t : file filter (with_sock ss t) m = with_sock (file filter ss m) t.
  Proof. unfold file, with_sock. destruct (accepted_signal filter m), (accepted_call filter m), (accepted_response filter m); reflexivity. Qed.
  Lemma file_all_with_sock ms : forall ss t, file_all filter (with_sock ss t) ms = with_sock (file_all filter ss ms) t.
  Proof. induction ms as [|m ms IH]; intros ss t; [reflexivity|]. cbn [file_all fold_left]. rewrite file_with_sock. apply IH. Qed.
  Lemma with_sock_with_sock ss a b : with_sock (with_sock ss a) b = with_sock ss b.
  Proof. reflexivity. Qed.
  Lemma with_sock_same ss : with_sock ss (sock ss) = ss.
  Proof. destruct ss; reflexivity. Qed.
  Lemma sock_file ss m : sock (file filter ss m) = sock ss.
  Proof. unfold file. destruct (accepted_signal filter m), (accepted_call filter m), (accepted_response filter m); reflexivity. Qed.

  Lemma errors_for_app a b : errors_for filter (a ++ b) = errors_for filter a ++ errors_for filter b.
  Proof. unfold errors_for. now rewrite filter_app, map_app. Qed.
  Lemma errors_for_cons m l : errors_for filter (m :: l) = errors_for filter [m] ++ errors_for filter l.
  Proof. apply (errors_for_app [m] l). Qed.
  Lemma errors_for_accepted m : filter m = true -> errors_for filter [m] = [].
  Proof. intros H. unfold errors_for, rejected_call. cbn [List.filter]. rewrite H. reflexivity. Qed.

  Definition fresh (ss : sstate) (m : rmsg) : Prop :=
    forall s, is_response (r_kind m) = true -> r_reply m = Some s -> ~ In s (resp_keys (pending ss)).

  Lemma insert_accepted_file st ss m : R st ss -> valid_msg m -> fresh ss m -> filter m = true ->
    exists st1, insert_accepted m st = Ok (None, st1) /\ R st1 (file filter ss m)
                /\ wire st1 = wire st /\ avail st1 = avail st.
  Proof.
    intros (Rs & Rc & Rp & Ra & Rk) [Vk Vr] Fr F.
    unfold insert_accepted, file, accepted_signal, accepted_call, accepted_response. rewrite F. cbn [andb].
    destruct (r_kind m) eqn:K; cbn [kind_eqb is_response]; try congruence.
    - eexists. split; [reflexivity|]. repeat split; cbn; congruence.
    - destruct (r_reply m) as [s|] eqn:Er; [|exfalso; now apply Vr].
      assert (Hs : ~ In s (map fst (responses st))).
      { rewrite <- (keys_of_consistent _ Rk), Rp. apply (Fr s); [rewrite K; reflexivity|exact Er]. }
      eexists. split; [reflexivity|]. unfold map_insert. rewrite (map_remove_absent _ _ Hs). cbn [snd].
      repeat split; cbn; try congruence.
      + now rewrite map_app, Rp.
      + apply Forall_app. split; [exact Rk|]. constructor; [|constructor]. split; cbn; [exact Er|now rewrite K].
    - destruct (r_reply m) as [s|] eqn:Er; [|exfalso; now apply Vr].
      assert (Hs : ~ In s (map fst (responses st))).
      { rewrite <- (keys_of_consistent _ Rk), Rp. apply (Fr s); [rewrite K; reflexivity|exact Er]. }
      eexists. split; [reflexivity|]. unfold map_insert. rewrite (map_remove_absent _ _ Hs). cbn [snd].
      repeat split; cbn; try congruence.
      + now rewrite map_app, Rp.
      + apply Forall_app. split; [exact Rk|]. constructor; [|constructor]. split; cbn; [exact Er|now rewrite K].
    - eexists. split; [reflexivity|]. repeat split; cbn; congruence.
  Qed.

  Lemma file_rejected ss m : filter m = false -> file filter ss m = ss.
  Proof. intros F. unfold file, accepted_signal, accepted_call, accepted_response. rewrite F. reflexivity. Qed.

  Lemma insert_file st ss m : R st ss -> valid_msg m -> fresh ss m ->
    exists st1, insert_message_or_send_error filter m st = Ok (None, st1) /\ R st1 (file filter ss m)
                /\ wire st1 = wire st ++ errors_for filter [m] /\ avail st1 = avail st.
  Proof.
    intros HR V Fr. unfold insert_message_or_send_error. destruct (filter m) eqn:F.
    - destruct (insert_accepted_file st ss m HR V Fr F) as (st1 & E & R1 & W & A).
      exists st1. rewrite errors_for_accepted, app_nil_r by exact F. auto.
    - rewrite file_rejected by exact F. destruct V as [Vk _].
      unfold errors_for, rejected_call. cbn [List.filter]. rewrite F. cbn [negb andb].
      destruct HR as (Rs & Rc & Rp & Ra & Rk).
      destruct (r_kind m) eqn:K; cbn [kind_eqb map]; try congruence;
        (eexists; split; [reflexivity|]); rewrite ?app_nil_r; repeat split; cbn; assumption.
  Qed.

  (** filing keeps the freshness invariant *)
  Lemma resp_keys_file ss m : incl (resp_keys (pending (file filter ss m))) (resp_keys (pending ss) ++ resp_keys [m]).
  Proof.
    unfold file. destruct (accepted_signal filter m); [cbn; apply incl_appl, incl_refl|].
    destruct (accepted_call filter m); [cbn; apply incl_appl, incl_refl|].
    destruct (accepted_response filter m); cbn [pending].
    - rewrite resp_keys_app. apply incl_refl.
    - apply incl_appl, incl_refl.
  Qed.

  Lemma inv_pop ss m t future : sock ss = m :: t -> Inv ss future ->
    valid_msg m /\ fresh ss m /\ Inv (with_sock (file filter ss m) t) future.
  Proof.
    intros E (V & ND & Fr). rewrite E in *. cbn [app] in *.
    inversion V as [|? ? Vm V']; subst.
    rewrite (resp_keys_cons m (t ++ future)) in *.
    split; [exact Vm|]. split.
    - intros s Hk Hr. apply Fr. apply in_or_app. left. unfold resp_keys. cbn [flat_map]. rewrite Hk, Hr. now left.
    - split; [exact V'|]. split; [now apply NoDup_app_r in ND|].
      intros s Hs Hp. cbn [with_sock pending sock] in *.
      apply resp_keys_file in Hp. apply in_app_or in Hp. destruct Hp as [Hp|Hp].
      + apply (Fr s); [apply in_or_app; now right|exact Hp].
      + (* s is the key of m and also occurs later: contradicts NoDup *)
        clear -ND Hs Hp. induction (resp_keys [m]) as [|x l IH]; [destruct Hp|].
        cbn [app] in ND. inversion ND as [|? ? Hn ND']; subst. destruct Hp as [->|Hp].
        * apply Hn. apply in_or_app. now right.
        * now apply IH.
  Qed.

  (** * One refill_once *)
  Lemma refill_once_spec st ss future : R st ss -> Inv ss future ->
    match sock ss with
    | [] => refill_once filter st = Ok (inl RTimedOut, st)
    | m :: t => exists st1, refill_once filter st = Ok (inr (r_kind m), st1)
                            /\ R st1 (with_sock (file filter ss m) t)
                            /\ wire st1 = wire st ++ errors_for filter [m]
    end.
  Proof.
    intros HR HI. pose proof HR as (Rs & Rc & Rp & Ra & Rk).
    unfold refill_once, refill_once_loop, try_refill_once, get_next_message. rewrite Ra.
    destruct (sock ss) as [|m t] eqn:Es; [reflexivity|].
    destruct (inv_pop ss m t future Es HI) as (V & Fr & _).
    set (st0 := {| signals := signals st; calls := calls st; responses := responses st; avail := t; wire := wire st |}).
    assert (R0 : R st0 (with_sock ss t)) by (repeat split; cbn; assumption).
    assert (Fr0 : fresh (with_sock ss t) m) by exact Fr.
    destruct (insert_file st0 _ m R0 V Fr0) as (st1 & E & R1 & W & A).
    rewrite E. exists st1. split; [reflexivity|]. rewrite file_with_sock in R1. split; [exact R1|exact W].
  Qed.

  (** * The wait loops against [scan] *)
  Section Wait.
    Variable try_get : rpc -> option rmsg * rpc.
    Variable p : rmsg -> bool.
    Variable miss : sstate -> Prop.
    Hypothesis G1 : forall st ss, R st ss -> miss ss -> try_get st = (None, st).
    Hypothesis G2 : forall ss m, miss ss -> p m = false -> miss (file filter ss m).
    Hypothesis G3 : forall st1 ss m, R st1 (file filter ss m) -> miss ss -> p m = true -> fresh ss m -> valid_msg m ->
      exists st2, try_get st1 = (Some m, st2) /\ R st2 ss /\ wire st2 = wire st1.
    Hypothesis G4 : forall m, p m = true -> filter m = true.
    Hypothesis G5 : forall ss t, miss ss -> miss (with_sock ss t).

    Lemma wait_scan b : forall st ss future, R st ss -> miss ss -> Inv ss future ->
      exists r e st' ss', wait_loop filter try_get b st = Ok (r, st')
        /\ scan filter p b ss = (res_of_wait r, e, ss')
        /\ R st' ss' /\ wire st' = wire st ++ e /\ Inv ss' future.
    Proof.
      induction b as [|b IH]; intros st ss future HR HM HI.
      - cbn [wait_loop]. rewrite (G1 _ _ HR HM).
        exists (inl RTimedOut), [], st, ss. unfold scan. cbn [firstn split_first skipn file_all fold_left].
        rewrite with_sock_same, app_nil_r. auto.
      - cbn [wait_loop]. rewrite (G1 _ _ HR HM).
        pose proof (refill_once_spec st ss future HR HI) as HO.
        destruct (sock ss) as [|m t] eqn:Es.
        + rewrite HO. exists (inl RTimedOut), [], st, ss. unfold scan. rewrite Es.
          cbn [firstn split_first skipn file_all fold_left].
          replace (with_sock ss []) with ss by (symmetry; rewrite <- Es; apply with_sock_same).
          rewrite app_nil_r. auto.
        + destruct HO as (st1 & E1 & R1 & W1). rewrite E1.
          destruct (inv_pop ss m t future Es HI) as (V & Fr & I1).
          unfold scan. rewrite Es. cbn [firstn split_first].
          destruct (p m) eqn:Pm.
          * (* the message asked for: filed, then taken at once *)
            assert (R1' : R st1 (file filter (with_sock ss t) m)) by (rewrite file_with_sock; exact R1).
            destruct (G3 st1 (with_sock ss t) m R1' (G5 _ _ HM) Pm Fr V) as (st2 & E2 & R2 & W2).
            assert (I0 : Inv (with_sock ss t) future).
            { destruct HI as (V0 & N0 & F0). rewrite Es in *. cbn [app] in *. split; [inversion V0; assumption|]. split.
              - rewrite resp_keys_cons in N0. now apply NoDup_app_r in N0.
              - intros s Hs. apply F0. rewrite resp_keys_cons. apply in_or_app. now right. }
            exists (inr m), [], st2, (with_sock ss t). cbn [res_of_wait skipn length file_all fold_left].
            rewrite W2, W1, (errors_for_accepted _ (G4 _ Pm)), !app_nil_r.
            split; [destruct b; cbn [wait_loop]; rewrite E2; reflexivity|].
            split; [reflexivity|]. split; [exact R2|]. split; [reflexivity|exact I0].
          * (* something else: filed, the wait goes on *)
            assert (HM1 : miss (with_sock (file filter ss m) t)) by (apply G5, G2; assumption).
            destruct (IH st1 _ future R1 HM1 I1) as (r & e & st' & ss' & EW & ES & R' & W' & I').
            unfold scan in ES. cbn [sock with_sock] in ES.
            exists r, (errors_for filter [m] ++ e), st', ss'.
            split; [exact EW|]. split; [|split; [exact R'|split; [rewrite W', W1, app_assoc; reflexivity|exact I']]].
            destruct (split_first p (firstn b t)) as [[bef x]|] eqn:SF.
            -- injection ES as <- <- <-. cbn [length skipn file_all fold_left].
               rewrite file_all_with_sock, with_sock_with_sock, <- errors_for_cons. reflexivity.
            -- injection ES as <- <- <-. cbn [skipn file_all fold_left].
               rewrite file_all_with_sock, with_sock_with_sock, <- errors_for_cons. reflexivity.
    Qed.
  End Wait.

  (** * The three instances *)
  Lemma take_pending_none s l l' : take_pending s l = (None, l') -> l' = l.
  Proof.
    revert l'. induction l as [|m l IH]; intros l' E; cbn [take_pending] in E.
    - now injection E as <-.
    - destruct (reply_is s m); [discriminate|]. destruct (take_pending s l) as [r0 l0] eqn:E0.
      injection E as -> <-. f_equal. now apply IH.
  Qed.
  Lemma take_pending_snoc s l m : fst (take_pending s l) = None ->
    take_pending s (l ++ [m]) = if reply_is s m then (Some m, l) else (None, l ++ [m]).
  Proof.
    induction l as [|x l IH]; intros H; cbn [app take_pending] in *.
    - destruct (reply_is s m); reflexivity.
    - destruct (reply_is s x); [discriminate|].
      destruct (take_pending s l) as [r0 l0] eqn:E0. cbn [fst] in *. rewrite (IH H).
      destruct (reply_is s m); reflexivity.
  Qed.
  Lemma map_remove_none s l l' : map_remove s l = (None, l') -> l' = l.
  Proof.
    revert l'. induction l as [|[k v] l IH]; intros l' E; cbn [map_remove] in E.
    - now injection E as <-.
    - destruct (k =? s); [discriminate|]. destruct (map_remove s l) as [r0 l0] eqn:E0.
      injection E as -> <-. f_equal. now apply IH.
  Qed.

  Lemma rpc_eta st : {| signals := signals st; calls := calls st; responses := responses st; avail := avail st; wire := wire st |} = st.
  Proof. destruct st; reflexivity. Qed.

  Lemma accepted_signal_file ss m : accepted_signal filter m = true ->
    file filter ss m = {| q_signals := q_signals ss ++ [m]; q_calls := q_calls ss; pending := pending ss; sock := sock ss |}.
  Proof. intros H. unfold file. now rewrite H. Qed.
  Lemma accepted_call_file ss m : accepted_call filter m = true ->
    file filter ss m = {| q_signals := q_signals ss; q_calls := q_calls ss ++ [m]; pending := pending ss; sock := sock ss |}.
  Proof.
    intros H. unfold file. rewrite H. replace (accepted_signal filter m) with false; [reflexivity|].
    unfold accepted_signal, accepted_call in *. apply andb_true_iff in H. destruct H as [_ H]. apply kind_eqb_eq in H. rewrite H.
    now rewrite andb_false_r.
  Qed.
  Lemma accepted_response_file ss m : accepted_response filter m = true ->
    file filter ss m = {| q_signals := q_signals ss; q_calls := q_calls ss; pending := pending ss ++ [m]; sock := sock ss |}.
  Proof.
    intros H. unfold file. rewrite H. unfold accepted_signal, accepted_call, accepted_response in *.
    apply andb_true_iff in H. destruct H as [_ H].
    destruct (r_kind m); cbn in H; try discriminate; cbn [kind_eqb]; now rewrite !andb_false_r.
  Qed.
  Lemma not_signal_file ss m : accepted_signal filter m = false -> q_signals (file filter ss m) = q_signals ss.
  Proof. intros H. unfold file. rewrite H. destruct (accepted_call filter m), (accepted_response filter m); reflexivity. Qed.
  Lemma not_call_file ss m : accepted_call filter m = false -> q_calls (file filter ss m) = q_calls ss.
  Proof. intros H. unfold file. rewrite H. destruct (accepted_signal filter m), (accepted_response filter m); reflexivity. Qed.

  Lemma wait_signal_scan b st ss future : R st ss -> q_signals ss = [] -> Inv ss future ->
    exists r e st' ss', wait_signal filter b st = Ok (r, st')
      /\ scan filter (accepted_signal filter) b ss = (res_of_wait r, e, ss')
      /\ R st' ss' /\ wire st' = wire st ++ e /\ Inv ss' future.
  Proof.
    apply (wait_scan try_get_signal (accepted_signal filter) (fun ss => q_signals ss = [])).
    - intros st0 ss0 (Rs & _) H. unfold try_get_signal. now rewrite Rs, H.
    - intros ss0 m H Hp. now rewrite not_signal_file.
    - intros st1 ss0 m HR H Hp _ _. rewrite (accepted_signal_file _ _ Hp) in HR.
      destruct HR as (Rs & Rc & Rp & Ra & Rk). cbn in Rs, Rc, Rp, Ra. rewrite H in Rs. cbn in Rs.
      unfold try_get_signal. rewrite Rs. eexists. split; [reflexivity|]. split; [|reflexivity].
      repeat split; cbn; try assumption. now rewrite H.
    - intros m H. unfold accepted_signal in H. now apply andb_true_iff in H.
    - auto.
  Qed.

  Lemma wait_call_scan b st ss future : R st ss -> q_calls ss = [] -> Inv ss future ->
    exists r e st' ss', wait_call filter b st = Ok (r, st')
      /\ scan filter (accepted_call filter) b ss = (res_of_wait r, e, ss')
      /\ R st' ss' /\ wire st' = wire st ++ e /\ Inv ss' future.
  Proof.
    apply (wait_scan try_get_call (accepted_call filter) (fun ss => q_calls ss = [])).
    - intros st0 ss0 (_ & Rc & _) H. unfold try_get_call. now rewrite Rc, H.
    - intros ss0 m H Hp. now rewrite not_call_file.
    - intros st1 ss0 m HR H Hp _ _. rewrite (accepted_call_file _ _ Hp) in HR.
      destruct HR as (Rs & Rc & Rp & Ra & Rk). cbn in Rs, Rc, Rp, Ra. rewrite H in Rc. cbn in Rc.
      unfold try_get_call. rewrite Rc. eexists. split; [reflexivity|]. split; [|reflexivity].
      repeat split; cbn; try assumption. now rewrite H.
    - intros m H. unfold accepted_call in H. now apply andb_true_iff in H.
    - auto.
  Qed.

  Lemma try_get_response_spec s st ss : R st ss ->
    exists r p st', try_get_response s st = (r, st') /\ take_pending s (pending ss) = (r, p)
      /\ R st' {| q_signals := q_signals ss; q_calls := q_calls ss; pending := p; sock := sock ss |}
      /\ wire st' = wire st.
  Proof.
    intros (Rs & Rc & Rp & Ra & Rk). unfold try_get_response.
    destruct (map_remove s (responses st)) as [r l'] eqn:E.
    destruct (map_remove_spec s _ _ _ Rk E) as [E1 K1]. rewrite Rp in E1.
    exists r, (map snd l'). eexists. split; [reflexivity|]. split; [exact E1|]. split; [|reflexivity].
    repeat split; cbn; assumption.
  Qed.

  Lemma wait_response_scan s b st ss future : R st ss -> fst (take_pending s (pending ss)) = None -> Inv ss future ->
    exists r e st' ss', wait_response filter s b st = Ok (r, st')
      /\ scan filter (accepted_response_for filter s) b ss = (res_of_wait r, e, ss')
      /\ R st' ss' /\ wire st' = wire st ++ e /\ Inv ss' future.
  Proof.
    apply (wait_scan (try_get_response s) (accepted_response_for filter s) (fun ss => fst (take_pending s (pending ss)) = None)).
    - intros st0 ss0 HR H. destruct (try_get_response_spec s st0 ss0 HR) as (r & p0 & st' & E & ET & _ & _).
      rewrite ET in H. cbn in H. subst r. unfold try_get_response in *.
      destruct (map_remove s (responses st0)) as [r l'] eqn:EM. injection E as -> <-.
      apply map_remove_none in EM. subst l'. now rewrite rpc_eta.
    - intros ss0 m H Hp. unfold file.
      destruct (accepted_signal filter m); [exact H|]. destruct (accepted_call filter m); [exact H|].
      destruct (accepted_response filter m) eqn:A; [|exact H]. cbn [pending].
      rewrite take_pending_snoc by exact H. unfold accepted_response_for in Hp. rewrite A in Hp. cbn in Hp. now rewrite Hp.
    - intros st1 ss0 m HR H Hp _ _. unfold accepted_response_for in Hp. apply andb_true_iff in Hp. destruct Hp as [A Hr].
      rewrite (accepted_response_file _ _ A) in HR.
      destruct (try_get_response_spec s st1 _ HR) as (r & p0 & st2 & E & ET & R2 & W2).
      cbn [pending] in ET. rewrite take_pending_snoc, Hr in ET by exact H. injection ET as <- <-.
      exists st2. split; [exact E|]. split; [|exact W2]. destruct ss0; exact R2.
    - intros m H. unfold accepted_response_for, accepted_response in H.
      apply andb_true_iff in H. destruct H as [H _]. now apply andb_true_iff in H.
    - auto.
  Qed.

  (** * refill_all *)
  Lemma refill_all_spec : forall l fuel acc st ss future, R st ss -> sock ss = l -> Inv ss future ->
    (length l < fuel)%nat ->
    exists st', refill_all_loop filter fuel acc st = Ok (inr (acc ++ errors_for filter l), st')
                /\ R st' (with_sock (file_all filter ss l) []) /\ wire st' = wire st
                /\ Inv (with_sock (file_all filter ss l) []) future.
  Proof.
    induction l as [|m t IH]; intros fuel acc st ss future HR Es HI Hf.
    - destruct fuel; [cbn in Hf; lia|]. pose proof HR as (Rs & Rc & Rp & Ra & Rk).
      cbn [refill_all_loop]. unfold get_next_message. rewrite Ra, Es.
      exists st. cbn [file_all fold_left]. rewrite app_nil_r.
      replace (with_sock ss []) with ss by (symmetry; rewrite <- Es; apply with_sock_same). auto.
    - destruct fuel; [cbn in Hf; lia|]. pose proof HR as (Rs & Rc & Rp & Ra & Rk).
      cbn [refill_all_loop]. unfold get_next_message. rewrite Ra, Es.
      destruct (inv_pop ss m t future Es HI) as (V & Fr & I1).
      set (st0 := {| signals := signals st; calls := calls st; responses := responses st; avail := t; wire := wire st |}).
      assert (R0 : R st0 (with_sock ss t)) by (repeat split; cbn; assumption).
      cbn [file_all fold_left]. rewrite errors_for_cons, app_assoc.
      destruct (filter m) eqn:F.
      + destruct (insert_accepted_file st0 _ m R0 V Fr F) as (st1 & E & R1 & W & A). rewrite E.
        rewrite file_with_sock in R1.
        destruct (IH fuel acc st1 _ future R1 eq_refl I1 ltac:(cbn in Hf; lia)) as (st' & E' & R' & W' & I').
        rewrite file_all_with_sock, with_sock_with_sock in R', I'.
        exists st'. rewrite errors_for_accepted, app_nil_r by exact F. rewrite E'. rewrite W', W. auto.
      + rewrite file_rejected in * by exact F.
        assert (EE : errors_for filter [m] = match r_kind m with KCall => [unknown_method m] | _ => [] end).
        { unfold errors_for, rejected_call. cbn [List.filter]. rewrite F. cbn [negb andb].
          destruct (r_kind m); reflexivity. }
        destruct V as [Vk Vr].
        destruct (r_kind m) eqn:K; try congruence; rewrite EE, ?app_nil_r.
        1: destruct (IH fuel (acc ++ [unknown_method m]) st0 _ future R0 eq_refl I1 ltac:(cbn in Hf; lia)) as (st' & E' & R' & W' & I').
        2-4: destruct (IH fuel acc st0 _ future R0 eq_refl I1 ltac:(cbn in Hf; lia)) as (st' & E' & R' & W' & I').
        all: rewrite file_all_with_sock, with_sock_with_sock in R', I'.
        all: exists st'; rewrite E'; auto.
  Qed.

  (** * One operation *)
  Lemma inv_shrink ss p' future :
    incl (resp_keys p') (resp_keys (pending ss)) -> Inv ss future ->
    Inv {| q_signals := q_signals ss; q_calls := q_calls ss; pending := p'; sock := sock ss |} future.
  Proof.
    intros Hi (V & N & F). split; [exact V|]. split; [exact N|]. cbn [pending sock].
    intros s Hs Hp. apply (F s Hs). now apply Hi.
  Qed.
  Lemma inv_queues ss a b future : Inv ss future ->
    Inv {| q_signals := a; q_calls := b; pending := pending ss; sock := sock ss |} future.
  Proof. intros H. exact H. Qed.

  Definition op_arrivals (o : op) : list rmsg := match o with Arrive m => [m] | _ => [] end.

  Lemma step_refines o st ss future : R st ss -> Inv ss (op_arrivals o ++ future) ->
    exists r e st' ss', step filter o st = Ok (r, st') /\ sstep filter o ss = (r, e, ss')
      /\ R st' ss' /\ wire st' = wire st ++ e /\ Inv ss' future.
  Proof.
    intros HR HI. pose proof HR as (Rs & Rc & Rp & Ra & Rk).
    destruct o as [m|s| | |s b|b|b| | ]; cbn [op_arrivals app] in HI; cbn [step sstep].
    - (* Arrive *)
      eexists _, [], _, _. split; [reflexivity|]. split; [reflexivity|]. rewrite app_nil_r.
      split; [repeat split; cbn; try assumption; now rewrite Ra|]. split; [reflexivity|].
      destruct HI as (V & N & F). unfold Inv. cbn [with_sock sock pending]. rewrite <- !app_assoc. cbn [app]. auto.
    - (* TryResp *)
      destruct (try_get_response_spec s st ss HR) as (r & p0 & st' & E & ET & R' & W). rewrite E, ET.
      eexists _, [], _, _. split; [reflexivity|]. split; [reflexivity|]. rewrite app_nil_r.
      split; [exact R'|]. split; [exact W|]. apply inv_shrink; [|exact HI]. now apply (take_pending_incl s _ r).
    - (* TrySignal *)
      unfold try_get_signal. rewrite Rs. destruct (q_signals ss) as [|m t] eqn:E.
      + eexists _, [], _, _. split; [reflexivity|]. split; [reflexivity|]. rewrite app_nil_r. auto.
      + eexists _, [], _, _. split; [reflexivity|]. split; [reflexivity|]. rewrite app_nil_r.
        split; [repeat split; cbn; assumption|]. split; [reflexivity|]. now apply inv_queues.
    - (* TryCall *)
      unfold try_get_call. rewrite Rc. destruct (q_calls ss) as [|m t] eqn:E.
      + eexists _, [], _, _. split; [reflexivity|]. split; [reflexivity|]. rewrite app_nil_r. auto.
      + eexists _, [], _, _. split; [reflexivity|]. split; [reflexivity|]. rewrite app_nil_r.
        split; [repeat split; cbn; assumption|]. split; [reflexivity|]. now apply inv_queues.
    - (* WaitResp *)
      destruct (try_get_response_spec s st ss HR) as (r & p0 & st1 & E & ET & R1 & W1). rewrite ET.
      destruct r as [m|].
      + unfold wait_response. destruct b; cbn [wait_loop]; rewrite E; cbn [bind fst snd res_of_wait].
        all: eexists _, [], _, _; split; [reflexivity|]; split; [reflexivity|]; rewrite app_nil_r.
        all: split; [exact R1|]; split; [exact W1|]; apply inv_shrink; [|exact HI]; now apply (take_pending_incl s _ (Some m)).
      + assert (HM : fst (take_pending s (pending ss)) = None) by now rewrite ET.
        destruct (wait_response_scan s b st ss future HR HM HI) as (r & e & st' & ss' & EW & ES & R' & W' & I').
        rewrite EW, ES. cbn [bind fst snd]. eexists _, _, _, _. split; [reflexivity|]. split; [reflexivity|]. auto.
    - (* WaitSignal *)
      destruct (q_signals ss) as [|m t] eqn:E.
      + destruct (wait_signal_scan b st ss future HR E HI) as (r & e & st' & ss' & EW & ES & R' & W' & I').
        rewrite EW, ES. cbn [bind fst snd]. eexists _, _, _, _. split; [reflexivity|]. split; [reflexivity|]. auto.
      + unfold wait_signal. assert (ET : try_get_signal st = (Some m, {| signals := t; calls := calls st; responses := responses st; avail := avail st; wire := wire st |})).
        { unfold try_get_signal. now rewrite Rs. }
        destruct b; cbn [wait_loop]; rewrite ET; cbn [bind fst snd res_of_wait].
        all: eexists _, [], _, _; split; [reflexivity|]; split; [reflexivity|]; rewrite app_nil_r.
        all: split; [repeat split; cbn; assumption|]; split; [reflexivity|]; now apply inv_queues.
    - (* WaitCall *)
      destruct (q_calls ss) as [|m t] eqn:E.
      + destruct (wait_call_scan b st ss future HR E HI) as (r & e & st' & ss' & EW & ES & R' & W' & I').
        rewrite EW, ES. cbn [bind fst snd]. eexists _, _, _, _. split; [reflexivity|]. split; [reflexivity|]. auto.
      + unfold wait_call. assert (ET : try_get_call st = (Some m, {| signals := signals st; calls := t; responses := responses st; avail := avail st; wire := wire st |})).
        { unfold try_get_call. now rewrite Rc. }
        destruct b; cbn [wait_loop]; rewrite ET; cbn [bind fst snd res_of_wait].
        all: eexists _, [], _, _; split; [reflexivity|]; split; [reflexivity|]; rewrite app_nil_r.
        all: split; [repeat split; cbn; assumption|]; split; [reflexivity|]; now apply inv_queues.
    - (* RefillOnce *)
      pose proof (refill_once_spec st ss future HR HI) as HO.
      destruct (sock ss) as [|m t] eqn:Es.
      + rewrite HO. cbn [bind fst snd]. eexists _, [], _, _. split; [reflexivity|]. split; [reflexivity|]. rewrite app_nil_r. auto.
      + destruct HO as (st1 & E1 & R1 & W1). rewrite E1. cbn [bind fst snd].
        destruct (inv_pop ss m t future Es HI) as (_ & _ & I1).
        eexists _, _, _, _. split; [reflexivity|]. split; [reflexivity|]. auto.
    - (* RefillAll *)
      unfold refill_all. rewrite Ra.
      destruct (refill_all_spec (sock ss) (S (length (sock ss))) [] st ss future HR eq_refl HI ltac:(lia)) as (st' & E & R' & W & I').
      rewrite E. cbn [bind fst snd app]. eexists _, [], _, _. split; [reflexivity|]. split; [reflexivity|]. rewrite app_nil_r. auto.
  Qed.

  (** * Whole runs *)
  Lemma arrivals_cons o ops : arrivals (o :: ops) = op_arrivals o ++ arrivals ops.
  Proof. reflexivity. Qed.

  Lemma run_refines ops : forall st ss, R st ss -> Inv ss (arrivals ops) ->
    exists st', run_from filter ops st = Ok (fst (srun_from filter ops ss), st')
                /\ R st' (snd (srun_from filter ops ss)).
  Proof.
    induction ops as [|o ops IH]; intros st ss HR HI.
    - exists st. split; [reflexivity|exact HR].
    - rewrite arrivals_cons in HI.
      destruct (step_refines o st ss (arrivals ops) HR HI) as (r & e & st1 & ss1 & E & ES & R1 & W & I1).
      cbn [run_from srun_from]. rewrite E, ES. cbn [bind].
      destruct (IH st1 ss1 R1 I1) as (st' & E' & R').
      rewrite E'. cbn [bind]. destruct (srun_from filter ops ss1) as [rs ss'] eqn:ER. cbn [fst snd] in *.
      exists st'. split; [|exact R']. rewrite W. f_equal. f_equal. f_equal. f_equal.
      rewrite skipn_app, skipn_all, Nat.sub_diag. reflexivity.
  Qed.

  Theorem refinement ops :
    Forall valid_msg (arrivals ops) -> distinct_reply_serials (arrivals ops) ->
    exists st', run filter ops = Ok (fst (srun filter ops), st') /\ R st' (snd (srun filter ops)).
  Proof.
    intros V N. apply run_refines.
    - repeat split; try reflexivity. constructor.
    - split; [exact V|]. split; [exact N|]. intros s _ [].
  Qed.
End Refinement.
