(** Conn/RecvExamples.v - the receive-path model computes, and the hypotheses of the C09 theorems
    are satisfiable (concrete frames, a concrete schedule with cuts inside the fixed header, a
    time-out in the middle of a message, descriptors on the second message). *)
From RB Require Import Base.Prelude Conn.Recv Conn.RecvLists Conn.RecvProofs.

Definition Dx := list N.
Definition decx (_ : header) (b : list N) : option Dx := Some b.

(* little endian call, serial 1, no fields, no body *)
Definition f1 : list N := [108;1;0;1; 0;0;0;0; 1;0;0;0; 0;0;0;0].
(* big endian signal, serial 5, three bytes of fields, five bytes of padding, two bytes of body *)
Definition f2 : list N := [66;4;0;1; 0;0;0;2; 0;0;0;5; 0;0;0;3; 7;7;7; 0;0;0;0;0; 9;9].
Definition sentx : list smsg := [(f1, []); (f2, [40; 41])].

Example f1_frame : Frame Dx decx f1.
Proof. apply (Frame_intro Dx decx LE 1 0 1 [] []); cbn; try lia; discriminate. Qed.
Example f2_frame : Frame Dx decx f2.
Proof. apply (Frame_intro Dx decx BE 4 0 5 [7;7;7] [9;9]); cbn; try lia; discriminate. Qed.

Example sentx_ok : Forall (frame_ok Dx decx) sentx.
Proof.
  constructor; [|constructor; [|constructor]]; apply Frame_frame_ok; try apply f1_frame; try apply f2_frame; cbn; unfold cmsg_cap; lia.
Qed.

(* peer: 5 bytes of f1 | client: get_next (times out, keeps the 5 bytes) | peer: the rest of f1 and,
   in a second write with the two descriptors, 10 bytes of f2 | client: read_once twice, get_next
   (message 1), get_next (blocked in the middle of message 2; the rest arrives during the call) *)
Definition schedx : list ev :=
  [ PeerWrite (firstnN 5 f1) [];
    GetNext Nonblock [KDeliver 100; KDeliver 100];
    PeerWrite (skipnN 5 f1) [];
    PeerWrite (firstnN 10 f2) [40; 41];
    ReadOnce Nonblock [KDeliver 3];
    ReadOnce Nonblock [KDeliver 100];
    GetNext Nonblock [KDeliver 100];
    GetNext Timed [KDeliver 1; KDeliver 100; KArrive (skipnN 10 f2) []; KDeliver 7; KDeliver 100; KDeliver 100] ].

Example schedx_chunking : chunking sentx schedx [].
Proof. vm_compute. reflexivity. Qed.

Definition hdr1 := {| h_bo := LE; h_typ := 1; h_flags := 0; h_body_len := 0; h_serial := 1 |}.
Definition hdr2 := {| h_bo := BE; h_typ := 4; h_flags := 0; h_body_len := 2; h_serial := 5 |}.

Example schedx_run :
  snd (run Dx decx schedx) =
  [ OErr ETimedOut; ODone; ODone;
    OMsg {| m_hdr := hdr1; m_dyn := []; m_body := []; m_fds := [] |};
    OMsg {| m_hdr := hdr2; m_dyn := [7;7;7]; m_body := [9;9]; m_fds := [40; 41] |} ].
Proof. vm_compute. reflexivity. Qed.

(* the theorem applied to this schedule *)
Example schedx_theorem : exists n, Forall2 (is_message_of Dx decx) (delivered Dx (snd (run Dx decx schedx))) (firstn n sentx).
Proof.
  destruct (run Dx decx schedx) as [[st q] os] eqn:E.
  destruct (reassembly_full Dx decx sentx schedx [] st q os sentx_ok schedx_chunking E) as (n & _ & H & _).
  exists n. exact H.
Qed.

(* under the Linux choice the second read_once above stops at the end of the segment that carried
   the descriptors *)
Example linux_limit : klimit [([1;2;3], []); ([4;5], [40]); ([6], [])] = 5.
Proof. reflexivity. Qed.

(* a zero-length recvmsg would detach the rights of the next segment (D17, fixed in read_once) *)
Example zero_length_read : krecv0 [([4;5], [40]); ([6], [])] = ([40], [([4;5], []); ([6], [])]).
Proof. reflexivity. Qed.

(* why the hypothesis about the sender is needed: one write carrying the tail of f1 and the head of f2,
   with f2's descriptors attached to it (so they ride on a byte of f1), is not a [chunking], and the
   receive path indeed hands the descriptors out with message 1 *)
Definition sched_bad : list ev :=
  [ PeerWrite (firstnN 10 f1) [];
    PeerWrite (skipnN 10 f1 ++ firstnN 4 f2) [40; 41];
    PeerWrite (skipnN 4 f2) [];
    GetNext Nonblock [KDeliver 100; KDeliver 100; KDeliver 100];
    GetNext Nonblock [KDeliver 100; KDeliver 100; KDeliver 100] ].
Example sched_bad_misattributes :
  map (fun o => match o with OMsg m => m_fds m | _ => [] end) (snd (run Dx decx sched_bad)) = [[40; 41]; []].
Proof. vm_compute. reflexivity. Qed.
Example sched_bad_not_chunking : ~ chunking sentx sched_bad [].
Proof. vm_compute. intros H. discriminate H. Qed.
