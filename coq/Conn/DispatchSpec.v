(** Specification for C19, written from the property text, independent of the model's functions
    (it shares only the data types [part], [msg], [event] and the string splitter).

    "one whose path pattern matches the object path segment by segment (literal segments equal,
     named segments captured under their name, a wildcard matching one segment or, as last segment,
     any non-empty tail)" *)
From RB Require Import Base.Prelude Conn.DispatchMsg Conn.Dispatch.
From Coq Require Import Permutation.

(* which part a pattern segment denotes: ":name" named, "*" wildcard, anything else literal *)
Inductive PartOf : str -> part -> Prop :=
| PO_named : forall s, PartOf (colon :: s) (MatchAs (colon :: s))
| PO_wild : PartOf [star] AcceptAll
| PO_lit : forall s, (forall t, s <> colon :: t) -> s <> [star] -> PartOf s (MatchExact s).

(* [Matches pat segments raw]: the pattern matches; [raw] lists the (name, segment) captures in
   path order *)
Inductive Matches : pattern -> list str -> list (str * str) -> Prop :=
| M_nil : Matches [] [] []
| M_exact : forall s ps qs r, Matches ps qs r -> Matches (MatchExact s :: ps) (s :: qs) r
| M_named : forall n s ps qs r, Matches ps qs r -> Matches (MatchAs n :: ps) (s :: qs) ((n, s) :: r)
| M_wild : forall s ps qs r, Matches ps qs r -> Matches (AcceptAll :: ps) (s :: qs) r
| M_wild_tail : forall tail, tail <> [] -> Matches [AcceptAll] tail [].

(* the last capture recorded under a name ("later same-named capture overrides") *)
Fixpoint lookup_last {K V} (eqb : K -> K -> bool) (l : list (K * V)) (k : K) : option V :=
  match l with
  | [] => None
  | (k', v) :: r =>
      match lookup_last eqb r k with
      | Some w => Some w
      | None => if eqb k' k then Some v else None
      end
  end.

(* a capture map (finite map given by its entries) holds exactly the last capture of every name *)
Definition CapsOf (raw : list (str * str)) (c : caps) : Prop :=
  NoDup (map fst c) /\ forall n v, In (n, v) c <-> lookup_last str_eqb raw n = Some v.

Definition MatchesCaps (pat : pattern) (query : str) (c : caps) : Prop :=
  exists raw, Matches pat (split_on slash query) raw /\ CapsOf raw c.

Definition NoMatch (pat : pattern) (query : str) : Prop :=
  forall raw, ~ Matches pat (split_on slash query) raw.

(** "Each incoming message is given to exactly one handler: one whose path pattern matches the
     object path ..., otherwise the default handler" *)
Definition Chosen (R : routes) (m : msg) (who : handler_id) (c : caps) : Prop :=
  match dh_object (m_dh m) with
  | None => who = HDefault /\ c = []
  | Some obj =>
      (exists p h, who = HRoute h /\ In (p, h) R /\ MatchesCaps p obj c)
      \/ (who = HDefault /\ c = [] /\ forall p h, In (p, h) R -> NoMatch p obj)
  end.

(** the routing table after a successful handler that asked for the routes [ins] (pattern string,
    handler), in the order it asked: a later request for the same pattern wins, everything else
    stays *)
Definition RoutesAfter (R : routes) (ins : list (str * N)) (R' : routes) : Prop :=
  let insP := map (fun sh => (pattern_new (fst sh), snd sh)) ins in
  NoDup (map fst R')
  /\ forall p h, In (p, h) R' <->
        (lookup_last pattern_eqb insP p = Some h
         \/ (lookup_last pattern_eqb insP p = None /\ In (p, h) R)).

Section RunSpec.
  Variable oracle : nat -> handler_id -> caps -> msg -> hres * list (str * N).

  (** the observable behaviour of run() on the messages [msgs] arriving from message number [i] on
      with routing table [R]: invocation log, messages written, final routing table, how it ended *)
  Inductive RunSpec : nat -> routes -> list msg -> list event -> list msg -> routes -> run_end -> Prop :=
  | RS_closed : forall i R, RunSpec i R [] [] [] R EndRecv
  | RS_ok : forall i R m rest who c res ins r R1 log wr Rf e,
      Chosen R m who c ->                                   (* exactly one handler, a matching one or the default *)
      oracle i who c m = (res, ins) -> res <> HErr ->       (* it succeeds *)
      match res with HSome hr => r = hr | _ => EmptyReplyTo m r end ->   (* exactly one message written *)
      RoutesAfter R ins R1 ->                               (* its routes apply to all later messages *)
      RunSpec (S i) R1 rest log wr Rf e ->
      RunSpec i R (m :: rest) (mkEvent who c m :: log) (r :: wr) Rf e
  | RS_err : forall i R m rest who c ins,
      Chosen R m who c ->
      oracle i who c m = (HErr, ins) ->                     (* it fails: nothing written, routes never applied, run stops *)
      RunSpec i R (m :: rest) [mkEvent who c m] [] R EndHandlerErr.
End RunSpec.

(* well-formed routing table: a map (unique keys) whose patterns have at least one part *)
Definition WF (R : routes) : Prop := NoDup (map fst R) /\ Forall (fun e => fst e <> []) R.
