(** Model of rustbus/src/auth.rs (write_message, has_line_ending, find_line_ending, read_message,
    get_uid_as_hex, do_auth, negotiate_unix_fds, send_begin) and of the sequencing in
    rustbus/src/connection/ll_conn.rs DuplexConn::connect_to_bus, run against a scripted server.

    The server script is the explicit nondeterminism argument (DESIGN.md section 3): what the server
    has sent when the connection is accepted ([greeting]) and, for each line the client writes, what
    it sends in response ([replies]); every item is a list of chunks (arbitrary bytes, arbitrary
    splitting) followed by "closes the socket" or not. A chunk is what one [read] may return (at most
    512 bytes of it at a time, the size of read_message's tmpbuf). *)
From RB Require Import Base.Prelude Conn.AddrBase.
From Coq Require String.

(* string literals as bytes; the String notations stay local to this module *)
Module AuthLits.
Import String.
Definition AUTH_EXTERNAL : list N := Eval compute in s2b "AUTH EXTERNAL ".
Definition NEGOTIATE_UNIX_FD : list N := Eval compute in s2b "NEGOTIATE_UNIX_FD".
Definition BEGIN : list N := Eval compute in s2b "BEGIN".
Definition OK_ : list N := Eval compute in s2b "OK".
Definition AGREE_UNIX_FD : list N := Eval compute in s2b "AGREE_UNIX_FD".
End AuthLits.
Export AuthLits.

Definition CR : N := 13.
Definition LF : N := 10.
Definition CRLF : list N := [CR; LF].
Definition NUL : list N := [0].

(* ------------------------------------------------------------------ the scripted peer *)
Record step := { chunks : list (list N); closes : bool }.
Record script := { greeting : step; replies : list step }.

Inductive event :=
| W (bytes : list N)   (* a write/sendmsg that succeeded, with its payload *)
| R (bytes : list N)   (* a read that returned these bytes *)
| E.                   (* a read that returned 0 bytes (end of file) or an error *)

Record sock := {
  rq : list (list N);     (* what read() will return next, piece by piece *)
  closed : bool;          (* the peer has closed: reads past rq see EOF, writes fail (EPIPE) *)
  future : list step;     (* the peer's reactions to the lines still to come *)
  log : list event        (* the system calls made so far *)
}.

(* read(&mut tmpbuf[..512]) returns at most 512 bytes: a longer chunk arrives in several reads *)
Definition TMPBUF : nat := 512.
Fixpoint cut (fuel : nat) (c : list N) : list (list N) :=
  match fuel with
  | O => []
  | S f => match c with
           | [] => []
           | _ :: _ => firstn TMPBUF c :: cut f (skipn TMPBUF c)
           end
  end.
Definition pieces (c : list N) : list (list N) := cut (length c) c.
Definition step_pieces (st : step) : list (list N) := flat_map pieces (chunks st).

Definition sock_init (scr : script) : sock :=
  {| rq := step_pieces (greeting scr); closed := closes (greeting scr); future := replies scr; log := [] |}.

(* a blocking write of a few bytes on a stream socket: all or error. [line = true]: the peer
   reacts to it with its next scripted step *)
Definition sock_write (s : sock) (bytes : list N) (line : bool) : option sock :=
  if closed s then None
  else
    match line, future s with
    | true, st :: fu =>
        Some {| rq := rq s ++ step_pieces st; closed := closes st; future := fu; log := log s ++ [W bytes] |}
    | _, _ => Some {| rq := rq s; closed := closed s; future := future s; log := log s ++ [W bytes] |}
    end.

Inductive rd := RData (b : list N) | REof | RBlock.
(* stream.read(&mut tmpbuf): the next piece; 0 bytes at end of file (or an error, same class);
   never returns while the peer is silent with the socket open *)
Definition sock_read (s : sock) : rd * sock :=
  match rq s with
  | p :: q => (RData p, {| rq := q; closed := closed s; future := future s; log := log s ++ [R p] |})
  | [] => if closed s
          then (REof, {| rq := []; closed := closed s; future := future s; log := log s ++ [E] |})
          else (RBlock, s)
  end.

(* ------------------------------------------------------------------ auth.rs *)
(* write_message: msg bytes, '\r', '\n', write_all *)
Definition write_message (msg : list N) (s : sock) : option sock := sock_write s (msg ++ CRLF) true.

(* has_line_ending: for idx in 1..buf.len() { if buf[idx-1] == '\r' && buf[idx] == '\n' { return true } } false *)
Fixpoint has_le_from (prev : N) (rest : list N) : bool :=
  match rest with
  | [] => false
  | c :: r => if (prev =? CR) && (c =? LF) then true else has_le_from c r
  end.
Definition has_line_ending (buf : list N) : bool :=
  match buf with [] => false | b0 :: r => has_le_from b0 r end.

(* find_line_ending: same loop, return Some(idx - 1) *)
Fixpoint find_le_from (idx : N) (prev : N) (rest : list N) : option N :=
  match rest with
  | [] => None
  | c :: r => if (prev =? CR) && (c =? LF) then Some (idx - 1) else find_le_from (idx + 1) c r
  end.
Definition find_line_ending (buf : list N) : option N :=
  match buf with [] => None | b0 :: r => find_le_from 1 b0 r end.

(* const MAX_AUTH_LINE_LEN: usize = 16 * 1024 *)
Definition MAX_AUTH_LINE_LEN : N := 16384.

Inductive loop_end := LDone | LErr | LTooLong | LBlocked | LFuel.
(* while !has_line_ending(buf) {
     if buf.len() > MAX_AUTH_LINE_LEN { return Err(InvalidData) }
     let bytes = stream.read(..)?; if bytes == 0 { return Err(UnexpectedEof) }
     buf.extend_from_slice(&tmpbuf[..bytes]) } *)
Fixpoint read_loop (fuel : nat) (s : sock) (buf : list N) : loop_end * sock * list N :=
  match fuel with
  | O => (LFuel, s, buf)
  | S f =>
      if has_line_ending buf then (LDone, s, buf)
      else if MAX_AUTH_LINE_LEN <? len buf then (LTooLong, s, buf)
      else match sock_read s with
           | (RData b, s') => read_loop f s' (buf ++ b)
           | (REof, s') => (LErr, s', buf)
           | (RBlock, s') => (LBlocked, s', buf)
           end
  end.

Inductive rm_result :=
| RmLine (line : list N)
| RmErr | RmBlocked | RmPanic | RmFuel.

(* read_message: the loop, then
     let idx = find_line_ending(buf).unwrap(); let line = buf.drain(0..idx).collect();
     String::from_utf8(line).map_err(..) *)
Definition read_message (fuel : nat) (s : sock) (buf : list N) : rm_result * sock :=
  match read_loop fuel s buf with
  | (LDone, s', buf') =>
      match find_line_ending buf' with
      | None => (RmPanic, s')
      | Some idx =>
          let line := firstnN idx buf' in
          if utf8_valid line then (RmLine line, s') else (RmErr, s')
      end
  | (LErr, s', _) => (RmErr, s')
  | (LTooLong, s', _) => (RmErr, s')
  | (LBlocked, s', _) => (RmBlocked, s')
  | (LFuel, s', _) => (RmFuel, s')
  end.

(* get_uid_as_hex: while tmp > 0 { numbers.push(tmp % 10); tmp /= 10 } ; a u32 has at most 10 digits *)
Fixpoint digits_loop (fuel : nat) (tmp : N) (numbers : list N) : outcome (list N) :=
  match fuel with
  | O => if tmp =? 0 then Ok numbers else OutOfFuel
  | S f => if tmp =? 0 then Ok numbers else digits_loop f (tmp / 10) (numbers ++ [tmp mod 10])
  end.
(* match numbers[..] { 0 => "30", ..., 9 => "39", _ => unreachable!() } *)
Definition hex_digit (d : N) : outcome (list N) :=
  match d with
  | 0 => Ok [51; 48] | 1 => Ok [51; 49] | 2 => Ok [51; 50] | 3 => Ok [51; 51] | 4 => Ok [51; 52]
  | 5 => Ok [51; 53] | 6 => Ok [51; 54] | 7 => Ok [51; 55] | 8 => Ok [51; 56] | 9 => Ok [51; 57]
  | _ => Panic
  end.
(* for idx in 0..numbers.len() { hex.push_str(match numbers[numbers.len() - 1 - idx] ..) } *)
Fixpoint hex_loop (n : nat) (idx : N) (numbers hex : list N) : outcome (list N) :=
  match n with
  | O => Ok hex
  | S n' =>
      match nthN numbers (len numbers - 1 - idx) with
      | None => Panic
      | Some d => do h <- hex_digit d; hex_loop n' (idx + 1) numbers (hex ++ h)
      end
  end.
Definition get_uid_as_hex (uid : N) : outcome (list N) :=
  if uid =? 0 then Ok [51; 48]
  else do numbers <- digits_loop 10 uid []; hex_loop (length numbers) 0 numbers [].

Inductive auth_res := AOk | ARejected | AErr | ABlocked | APanic | AFuel.
(* str::strip_prefix *)
Fixpoint strip_prefix (pfx s : list N) : option (list N) :=
  match pfx, s with
  | [], _ => Some s
  | x :: p', y :: s' => if x =? y then strip_prefix p' s' else None
  | _ :: _, [] => None
  end.
Definition SPACE : N := 32.
(* is_command: match line.strip_prefix(command) { Some(rest) => rest.is_empty() || rest.starts_with(' '), None => false } *)
Definition is_command (line command : list N) : bool :=
  match strip_prefix command line with
  | Some rest => match rest with [] => true | c :: _ => c =? SPACE end
  | None => false
  end.

(* `if is_command(&msg, word) { Ok(AuthResult::Ok) } else { Ok(AuthResult::Rejected) }`, io errors by `?` *)
Definition classify (word : list N) (r : rm_result) : auth_res :=
  match r with
  | RmLine line => if is_command line word then AOk else ARejected
  | RmErr => AErr
  | RmBlocked => ABlocked
  | RmPanic => APanic
  | RmFuel => AFuel
  end.

(* do_auth: sendmsg of one NUL byte, write_message("AUTH EXTERNAL <hex uid>"), read_message into a
   fresh buffer, is_command(msg, "OK") *)
Definition do_auth (fuel : nat) (uid : N) (s : sock) : auth_res * sock :=
  match sock_write s NUL false with
  | None => (AErr, s)
  | Some s1 =>
      match get_uid_as_hex uid with
      | Ok hex =>
          match write_message (AUTH_EXTERNAL ++ hex) s1 with
          | None => (AErr, s1)
          | Some s2 => let (r, s3) := read_message fuel s2 [] in (classify OK_ r, s3)
          end
      | _ => (APanic, s1)
      end
  end.

(* negotiate_unix_fds *)
Definition negotiate_unix_fds (fuel : nat) (s : sock) : auth_res * sock :=
  match write_message NEGOTIATE_UNIX_FD s with
  | None => (AErr, s)
  | Some s1 => let (r, s2) := read_message fuel s1 [] in (classify AGREE_UNIX_FD r, s2)
  end.

(* send_begin *)
Definition send_begin (s : sock) : option sock := write_message BEGIN s.

Inductive conn_result := COk | CAuthFailed | CFdFailed | CErr | CBlocked | CPanic | CFuel.
Definition lift (a : auth_res) : conn_result :=
  match a with AOk => COk | ARejected => CErr | AErr => CErr | ABlocked => CBlocked | APanic => CPanic | AFuel => CFuel end.

Definition finish (s : sock) : conn_result * sock :=
  match send_begin s with
  | None => (CErr, s)
  | Some s' => (COk, s')
  end.

(* DuplexConn::connect_to_bus after connect(): do_auth? / AuthFailed, negotiate_unix_fds? /
   UnixFdNegotiationFailed, send_begin?, Ok *)
Definition connect_on (fuel : nat) (uid : N) (with_unix_fd : bool) (s0 : sock) : conn_result * sock :=
  match do_auth fuel uid s0 with
  | (AOk, s1) =>
      if with_unix_fd then
        match negotiate_unix_fds fuel s1 with
        | (AOk, s2) => finish s2
        | (ARejected, s2) => (CFdFailed, s2)
        | (e, s2) => (lift e, s2)
        end
      else finish s1
  | (ARejected, s1) => (CAuthFailed, s1)
  | (e, s1) => (lift e, s1)
  end.

Definition total_pieces (scr : script) : nat :=
  length (step_pieces (greeting scr)) + length (flat_map step_pieces (replies scr)).
Definition fuel_for (scr : script) : nat := S (total_pieces scr).

Definition connect_to_bus (uid : N) (with_unix_fd : bool) (scr : script) : conn_result * sock :=
  connect_on (fuel_for scr) uid with_unix_fd (sock_init scr).

(* ------------------------------------------------------------------ observables *)
Fixpoint sent (l : list event) : list N :=
  match l with [] => [] | W b :: t => b ++ sent t | _ :: t => sent t end.
(* the pieces obtained by read(), in order *)
Fixpoint reads (l : list event) : list (list N) :=
  match l with [] => [] | R b :: t => b :: reads t | _ :: t => reads t end.
Definition received (l : list event) : list N := concat (reads l).
(* the conversation as (what was written, everything read before the next write) *)
Fixpoint segs (cur : option (list N * list N)) (l : list event) : list (list N * list N) :=
  match l with
  | [] => match cur with Some c => [c] | None => [] end
  | W x :: t => (match cur with Some c => [c] | None => [] end) ++ segs (Some (x, [])) t
  | R b :: t => match cur with
                | Some (x, r) => segs (Some (x, r ++ b)) t
                | None => segs None t
                end
  | E :: t => segs cur t
  end.
Definition segments (l : list event) : list (list N * list N) := segs None l.
Definition unread (s : sock) : list N := concat (rq s).
