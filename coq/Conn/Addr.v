(** Model of rustbus/src/connection.rs: parse_dbus_addr_str, get_session_bus_path,
    get_system_bus_path. Addresses are the UTF-8 bytes of the Rust [&str] (the separators ':' ','
    '=' are ASCII, so splitting the bytes is splitting the string). File existence
    ([PathBuf::exists]) is the explicit argument [exists_]. *)
From RB Require Import Base.Prelude Conn.AddrBase.
From Coq Require String.

(* string literals as bytes; the String notations stay local to this module *)
Module Lits.
Import String.
Definition UNIX : list N := Eval compute in s2b "unix".
Definition PATH : list N := Eval compute in s2b "path".
Definition ABSTRACT : list N := Eval compute in s2b "abstract".
Definition SYSTEM_BUS : list N := Eval compute in s2b "/run/dbus/system_bus_socket".
End Lits.
Export Lits.

Definition COLON : N := 58.
Definition COMMA : N := 44.
Definition EQUALS : N := 61.

(* nix::sys::socket::UnixAddr as far as the caller can observe it (path() / as_abstract()) *)
Inductive unix_addr :=
| Path (p : list N)
| Abstract (k : list N).

(* what the parser decides before the file system is asked *)
Inductive addr_pre :=
| PErr                    (* NoAddressFound / AddressTypeNotSupported *)
| PPath (p : list N)      (* the one socket key is "path" *)
| PAbstract (k : list N). (* the one socket key is "abstract" *)

Definition SEMICOLON : N := 59.

Definition is_socket_key (key : list N) : bool := bytes_eqb key PATH || bytes_eqb key ABSTRACT.
Definition is_nil (l : list N) : bool := match l with [] => true | _ => false end.
Definition is_some {A} (o : option A) : bool := match o with Some _ => true | None => false end.

(* parse_dbus_addr_str: `let mut socket = None; for pair in addr_pairs.split(',')` with the body
     let (key, value) = pair.split_once('=').ok_or(..)?;
     if key == "path" || key == "abstract" {
         if socket.is_some() || value.is_empty() { return Err(..) }
         socket = Some((key, value));
     }
   [socket] is (key == "path", value); None = an error return, Some socket = the loop ran to its end *)
Fixpoint scan_pairs (pairs : list (list N)) (socket : option (bool * list N)) : option (option (bool * list N)) :=
  match pairs with
  | [] => Some socket
  | pr :: rest =>
      match split_once EQUALS pr with
      | None => None
      | Some (key, value) =>
          if is_socket_key key then
            if is_some socket || is_nil value then None
            else scan_pairs rest (Some (bytes_eqb key PATH, value))
          else scan_pairs rest socket
      end
  end.

(* parse_dbus_addr_str up to the `match socket`: addr.contains(';'), split_once(':'), the "unix" test,
   the loop *)
Definition parse_pre (addr : list N) : addr_pre :=
  if existsb (N.eqb SEMICOLON) addr then PErr
  else
    match split_once COLON addr with
    | None => PErr
    | Some (addr_system, addr_pairs) =>
        if bytes_eqb addr_system UNIX then
          match scan_pairs (split COMMA addr_pairs) None with
          | Some (Some (true, value)) => PPath value
          | Some (Some (false, value)) => PAbstract value
          | Some None | None => PErr
          end
        else PErr
    end.

(* sockaddr_un.sun_path has 108 bytes: UnixAddr::new / new_abstract fail with ENAMETOOLONG when
   `len >= 108` (nix 0.28 src/sys/socket/addr.rs) *)
Definition SUN_PATH : N := 108.

(* `match socket`: Some(("path", value)) => if p.exists() { UnixAddr::new(&p) } else { PathDoesNotExist },
   Some((_, value)) => UnixAddr::new_abstract(value.as_bytes()) (Linux), None => AddressTypeNotSupported *)
Definition resolve (exists_ : list N -> bool) (pre : addr_pre) : outcome unix_addr :=
  match pre with
  | PErr => Err
  | PPath p => if exists_ p then (if len p <? SUN_PATH then Ok (Path p) else Err) else Err
  | PAbstract k => if len k <? SUN_PATH then Ok (Abstract k) else Err
  end.

Definition parse_dbus_addr_str (exists_ : list N -> bool) (addr : list N) : outcome unix_addr :=
  resolve exists_ (parse_pre addr).

(* get_session_bus_path: std::env::var fails when the variable is unset or not valid Unicode *)
Definition get_session_bus_path (exists_ : list N -> bool) (env : option (list N)) : outcome unix_addr :=
  match env with
  | None => Err
  | Some bytes => if utf8_valid bytes then parse_dbus_addr_str exists_ bytes else Err
  end.

(* get_system_bus_path *)
Definition get_system_bus_path (exists_ : list N -> bool) : outcome unix_addr :=
  if exists_ SYSTEM_BUS then Ok (Path SYSTEM_BUS) else Err.
