(** Conn/RpcSpec.v - what RpcConn is supposed to do (property C14), written from the documentation of
    rpc_conn.rs and the property text, independently of the code's loops: three containers - signals
    and calls in arrival order, replies/errors waiting for the caller that asks for their reply
    serial - plus the socket; every operation is described in one step ("take it if it is there,
    otherwise read up to the first message that satisfies the request and file everything before
    it").  A message the filter rejects is filed nowhere; a rejected call produces exactly one
    unknown-method error. *)
From RB Require Import Base.Prelude Conn.Rpc.

Record sstate := {
  q_signals : list rmsg;        (* accepted signals, oldest first *)
  q_calls : list rmsg;          (* accepted calls, oldest first *)
  pending : list rmsg;          (* accepted replies and errors nobody has asked for yet *)
  sock : list rmsg              (* arrived, not read yet *)
}.
Definition sstate0 : sstate := {| q_signals := []; q_calls := []; pending := []; sock := [] |}.

Definition reply_is (s : N) (m : rmsg) : bool :=
  match r_reply m with Some s' => s' =? s | None => false end.

Section Spec.
  Variable filter : rmsg -> bool.

  Definition accepted_signal (m : rmsg) : bool := filter m && kind_eqb (r_kind m) KSignal.
  Definition accepted_call (m : rmsg) : bool := filter m && kind_eqb (r_kind m) KCall.
  Definition accepted_response (m : rmsg) : bool := filter m && is_response (r_kind m).
  Definition accepted_response_for (s : N) (m : rmsg) : bool := accepted_response m && reply_is s m.
  Definition rejected_call (m : rmsg) : bool := negb (filter m) && kind_eqb (r_kind m) KCall.

  (* one message read from the socket goes to its container, or nowhere *)
  Definition file (st : sstate) (m : rmsg) : sstate :=
    if accepted_signal m then {| q_signals := q_signals st ++ [m]; q_calls := q_calls st; pending := pending st; sock := sock st |}
    else if accepted_call m then {| q_signals := q_signals st; q_calls := q_calls st ++ [m]; pending := pending st; sock := sock st |}
    else if accepted_response m then {| q_signals := q_signals st; q_calls := q_calls st; pending := pending st ++ [m]; sock := sock st |}
    else st.
  Definition file_all (st : sstate) (ms : list rmsg) : sstate := fold_left file ms st.

  (* the errors owed for a stretch of messages read from the socket: one per rejected call, in order *)
  Definition errors_for (ms : list rmsg) : list emsg := map unknown_method (List.filter rejected_call ms).

  Definition with_sock (st : sstate) (s : list rmsg) : sstate :=
    {| q_signals := q_signals st; q_calls := q_calls st; pending := pending st; sock := s |}.

  (* first element satisfying p, with what precedes it *)
  Fixpoint split_first (p : rmsg -> bool) (l : list rmsg) : option (list rmsg * rmsg) :=
    match l with
    | [] => None
    | m :: l' => if p m then Some ([], m)
                 else match split_first p l' with Some (b, x) => Some (m :: b, x) | None => None end
    end.

  (* take the first pending reply for serial s *)
  Fixpoint take_pending (s : N) (l : list rmsg) : option rmsg * list rmsg :=
    match l with
    | [] => (None, [])
    | m :: l' => if reply_is s m then (Some m, l')
                 else let '(r, l'') := take_pending s l' in (r, m :: l'')
    end.

  (* a blocking wait whose container holds nothing suitable: read at most [budget] messages, stop at
     the first one that satisfies [p] and hand it out; everything read before it is filed, rejected
     calls among it are answered on the wire *)
  Definition scan (p : rmsg -> bool) (budget : nat) (st : sstate) : res * list emsg * sstate :=
    let pre := firstn budget (sock st) in
    match split_first p pre with
    | Some (before, m) =>
      (RMsg m, errors_for before, with_sock (file_all st before) (skipn (S (length before)) (sock st)))
    | None =>
      (RFail RTimedOut, errors_for pre, with_sock (file_all st pre) (skipn budget (sock st)))
    end.

  (* result, error replies written to the wire during the operation, new state *)
  Definition sstep (o : op) (st : sstate) : res * list emsg * sstate :=
    match o with
    | Arrive m => (RNothing, [], with_sock st (sock st ++ [m]))
    | TrySignal =>
      match q_signals st with
      | [] => (RNone, [], st)
      | m :: t => (RMsg m, [], {| q_signals := t; q_calls := q_calls st; pending := pending st; sock := sock st |})
      end
    | TryCall =>
      match q_calls st with
      | [] => (RNone, [], st)
      | m :: t => (RMsg m, [], {| q_signals := q_signals st; q_calls := t; pending := pending st; sock := sock st |})
      end
    | TryResp s =>
      let '(r, p) := take_pending s (pending st) in
      (res_of_opt r, [], {| q_signals := q_signals st; q_calls := q_calls st; pending := p; sock := sock st |})
    | WaitSignal b =>
      match q_signals st with
      | m :: t => (RMsg m, [], {| q_signals := t; q_calls := q_calls st; pending := pending st; sock := sock st |})
      | [] => scan accepted_signal b st
      end
    | WaitCall b =>
      match q_calls st with
      | m :: t => (RMsg m, [], {| q_signals := q_signals st; q_calls := t; pending := pending st; sock := sock st |})
      | [] => scan accepted_call b st
      end
    | WaitResp s b =>
      match take_pending s (pending st) with
      | (Some m, p) => (RMsg m, [], {| q_signals := q_signals st; q_calls := q_calls st; pending := p; sock := sock st |})
      | (None, _) => scan (accepted_response_for s) b st
      end
    | RefillOnce =>
      match sock st with
      | [] => (RFail RTimedOut, [], st)
      | m :: t => (RType (r_kind m), errors_for [m], with_sock (file st m) t)
      end
    | RefillAll =>
      (* nothing is written to the wire: the errors owed are handed to the caller *)
      (RErrors (errors_for (sock st)), [], with_sock (file_all st (sock st)) [])
    end.

  Fixpoint srun_from (ops : list op) (st : sstate) : list (res * list emsg) * sstate :=
    match ops with
    | [] => ([], st)
    | o :: ops' =>
      let '(r, e, st') := sstep o st in
      let '(rs, st'') := srun_from ops' st' in
      ((r, e) :: rs, st'')
    end.
  Definition srun (ops : list op) := srun_from ops sstate0.
End Spec.

(** the arrivals of an operation sequence, and what makes them well formed: types as unmarshal_header
    can produce them, replies and errors carry a reply serial (validate_header_fields), and no two
    of them carry the same one *)
Definition arrivals (ops : list op) : list rmsg :=
  flat_map (fun o => match o with Arrive m => [m] | _ => [] end) ops.
Definition valid_msg (m : rmsg) : Prop :=
  r_kind m <> KInvalid /\ (is_response (r_kind m) = true -> r_reply m <> None).
Definition resp_keys (l : list rmsg) : list N :=
  flat_map (fun m => if is_response (r_kind m) then match r_reply m with Some s => [s] | None => [] end else []) l.
Definition distinct_reply_serials (l : list rmsg) : Prop := NoDup (resp_keys l).
