(** C13: specification (written from the property text and the D-Bus header layout) and proofs
    about the model in Conn/Serial.v. *)
From RB Require Import Base.Prelude Conn.Serial.
From Coq Require Import Sorting.Sorted.

(* ---------------------------------------------------------------- specification *)

(* D-Bus message header: byte 0 is the endianness flag ('l' little, 'B' big), bytes 8..11 hold
   the serial as a 32 bit unsigned integer in that endianness. *)
Definition wire_serial (hb : list N) : option N :=
  match hb with
  | e :: _ :: _ :: _ :: _ :: _ :: _ :: _ :: b8 :: b9 :: b10 :: b11 :: _ =>
      if e =? 108 then Some (b8 + 256 * b9 + 65536 * b10 + 16777216 * b11)
      else if e =? 66 then Some (b11 + 256 * b10 + 65536 * b9 + 16777216 * b8)
      else None
  | _ => None
  end.

(* the serials the connection chose itself, in the order it handed them out *)
Definition issued_of (e : event) : list N :=
  match e with
  | EvAlloc s => [s]
  | EvSent None reported _ => [reported]
  | EvSent (Some _) _ _ => []
  | EvSendErr _ between => between
  | EvAbandoned None serial _ => [serial]      (* handed to the caller by ctx.serial(), never to be reused *)
  | EvAbandoned (Some _) _ _ => []
  | EvSentResumed None between reported _ => reported :: between   (* its own serial was taken first *)
  | EvSentResumed (Some _) between _ _ => between
  end.
Definition issued (evs : list event) : list N := flat_map issued_of evs.

(* what the caller is told and what the peer reads, for one sent message *)
Definition sent_ok (e : event) : Prop :=
  match e with
  | EvSent preset reported hb =>
      (forall p, preset = Some p -> reported = p) /\ wire_serial hb = Some reported
  | EvSentResumed preset _ reported hb =>
      (forall p, preset = Some p -> reported = p) /\ wire_serial hb = Some reported
  | EvAbandoned preset serial hb =>      (* whatever part of the header went out carries this serial *)
      (forall p, preset = Some p -> serial = p) /\ wire_serial hb = Some serial
  | _ => True
  end.

Definition serials_spec (evs : list event) : Prop :=
  StronglySorted N.lt (issued evs)
  /\ Forall (fun s => 0 < s < 2^32) (issued evs)
  /\ Forall sent_ok evs.

(* preset serials are NonZeroU32 values *)
Definition op_wf (o : op) : Prop :=
  match o with
  | OpAlloc => True
  | OpSend m | OpSendResumed m _ | OpSendAbandoned m _ => forall p, dh_serial (msg_dyn m) = Some p -> 0 < p < 2^32
  end.

(* number of serials a history takes from the counter *)
Definition fresh (m : message) : N := match dh_serial (msg_dyn m) with None => 1 | Some _ => 0 end.
Definition serials_taken (o : op) : N :=
  match o with
  | OpAlloc => 1
  | OpSend m | OpSendAbandoned m _ => fresh m
  | OpSendResumed m k => fresh m + N.of_nat k
  end.
Definition nallocs (ops : list op) : N := fold_right (fun o n => serials_taken o + n) 0 ops.

(* replies *)
Definition is_reply_type (t : mtype) : Prop := t = MReply \/ t = MError.
Definition reply_spec (call : dynheader) (r : message) : Prop :=
  dh_response_serial (msg_dyn r) = dh_serial call
  /\ dh_destination (msg_dyn r) = dh_sender call
  /\ is_reply_type (msg_typ r)
  /\ dh_serial (msg_dyn r) = None.        (* the reply gets a fresh serial of its own when sent *)

(* ---------------------------------------------------------------- byte lemmas *)

Ltac Zify.zify_post_hook ::= Z.to_euclidean_division_equations.

Lemma pow_consts : 2^8 = 256 /\ 2^16 = 65536 /\ 2^24 = 16777216 /\ 2^32 = 4294967296 /\ 2^27 = 134217728.
Proof. repeat split; reflexivity. Qed.

Lemma le_bytes32_roundtrip v : v < 2^32 ->
  v mod 256 + 256 * ((v / 2^8) mod 256) + 65536 * ((v / 2^16) mod 256) + 16777216 * ((v / 2^24) mod 256) = v.
Proof.
  destruct pow_consts as (-> & -> & -> & -> & _). intros H.
  replace (v / 65536) with (v / 256 / 256) by (rewrite N.div_div by discriminate; reflexivity).
  replace (v / 16777216) with (v / 256 / 256 / 256) by (rewrite !N.div_div by discriminate; reflexivity).
  lia.
Qed.

Lemma parse_write_u32 bo v : v < 2^32 -> parse_u32 (u32_bytes bo v) bo = Ok v.
Proof.
  intros H. pose proof (le_bytes32_roundtrip v H) as R.
  destruct bo; cbn [u32_bytes le_bytes32 rev app parse_u32]; f_equal;
    destruct pow_consts as (E8 & E16 & E24 & _); rewrite E8, E16, E24 in *; lia.
Qed.

Lemma len_u32_bytes bo v : len (u32_bytes bo v) = 4.
Proof. destruct bo; reflexivity. Qed.

Lemma u32_bytes_bytes bo v : bytes_ok (u32_bytes bo v).
Proof.
  assert (forall x, byte_ok (x mod 256)) by (intros x; unfold byte_ok; apply N.mod_lt; discriminate).
  destruct bo; cbn [u32_bytes le_bytes32 rev app]; repeat constructor; auto.
Qed.

Lemma insert_u32_at_ok bo v pos buf : pos + 4 <= len buf ->
  insert_u32_at bo v pos buf = Ok (firstnN pos buf ++ u32_bytes bo v ++ skipnN (pos + 4) buf).
Proof.
  intros H. unfold insert_u32_at. destruct (N.ltb_spec (len buf) (pos + 4)) as [L|L]; [lia|reflexivity].
Qed.

Lemma insert_u32_at_cases bo v pos buf :
  (pos + 4 <= len buf /\ insert_u32_at bo v pos buf = Ok (firstnN pos buf ++ u32_bytes bo v ++ skipnN (pos + 4) buf))
  \/ (len buf < pos + 4 /\ insert_u32_at bo v pos buf = Panic).
Proof.
  unfold insert_u32_at. destruct (N.ltb_spec (len buf) (pos + 4)) as [L|L]; [right|left]; split; auto; lia.
Qed.

Lemma len_pad_to_align_ge a buf : len buf <= len (pad_to_align a buf).
Proof.
  unfold pad_to_align. destruct (_ =? a); [lia|]. rewrite len_app. lia.
Qed.

Lemma pad_to_align_app a buf : exists z, pad_to_align a buf = buf ++ z.
Proof.
  unfold pad_to_align. destruct (_ =? a); [exists []; now rewrite app_nil_r|eexists; reflexivity].
Qed.

Lemma len_pad_to_align_8 buf : len (pad_to_align 8 buf) mod 8 = 0.
Proof.
  unfold pad_to_align. destruct (N.eqb_spec (8 - len buf mod 8) 8) as [E|E].
  - lia.
  - rewrite len_app, len_zeros. remember (len buf) as n. lia.
Qed.

(* ---------------------------------------------------------------- the marshalled header *)

Section Proofs.
  Variable hdr_fields : message -> option (list N).

  (* marshal_header on the cleared buffer, in closed form: the exact layout of the first 16 bytes *)
  Lemma marshal_header_eq m s : marshal_header hdr_fields m s [] =
    match typ_code (msg_typ m) with
    | None => Err
    | Some t => match hdr_fields m with
                | None => Err
                | Some fs => if MAX_ARRAY_LEN <? len fs then Err else
                             Ok ([bo_byte (msg_bo m); t; msg_flags m; 1; 0; 0; 0; 0] ++ u32_bytes (msg_bo m) s
                                 ++ u32_bytes (msg_bo m) (len fs mod 2^32) ++ fs)
                end
    end.
  Proof.
    unfold marshal_header. destruct (typ_code (msg_typ m)) as [t|]; [|reflexivity].
    destruct (hdr_fields m) as [fs|]; [|reflexivity].
    unfold write_u32, check_marshalled_array_len.
    destruct (msg_bo m); cbn [u32_bytes le_bytes32 rev app].
    all: rewrite !len_cons, ?len_rev; change (len (le_bytes32 s)) with 4; change (len (@nil N)) with 0.
    all: match goal with |- context [?a - ?b - 4] => replace (a - b - 4) with (len fs) by lia end.
    all: destruct (MAX_ARRAY_LEN <? len fs); [reflexivity|]; cbn [bind].
    all: match goal with |- insert_u32_at _ _ ?p _ = _ => replace p with 12 by lia end.
    all: unfold insert_u32_at.
    all: rewrite !len_cons.
    all: match goal with |- (if ?a <? ?b then _ else _) = _ => destruct (N.ltb_spec a b) as [L|L]; [exfalso; lia|] end.
    all: unfold firstnN, skipnN; change (N.to_nat (12 + 4)) with 16%nat; change (N.to_nat 12) with 12%nat.
    all: cbn [firstn skipn app u32_bytes le_bytes32 rev].
    all: reflexivity.
  Qed.

  (* marshal on the cleared buffer, in closed form: fixed part with the body length patched into
     bytes 4..8, fields, zero padding [z] to a multiple of 8; never a panic *)
  Lemma marshal_eq m s : exists z, (16 + len (match hdr_fields m with Some fs => fs | None => [] end) + len z) mod 8 = 0 /\
    marshal hdr_fields m s [] =
    match typ_code (msg_typ m) with
    | None => Err
    | Some t => match hdr_fields m with
                | None => Err
                | Some fs =>
                    if MAX_ARRAY_LEN <? len fs then Err else
                    let hb := [bo_byte (msg_bo m); t; msg_flags m; 1] ++ u32_bytes (msg_bo m) (len (msg_body m) mod 2^32)
                              ++ u32_bytes (msg_bo m) s ++ u32_bytes (msg_bo m) (len fs mod 2^32) ++ fs ++ z in
                    if MAX_MESSAGE_LEN <? len hb + len (msg_body m) then Err else Ok hb
                end
    end.
  Proof.
    unfold marshal. rewrite marshal_header_eq.
    assert (Z : forall fs : list N, (16 + len fs + len (zeros ((8 - (16 + len fs) mod 8) mod 8))) mod 8 = 0).
    { intros fs. rewrite len_zeros. remember (len fs) as n. lia. }
    destruct (typ_code (msg_typ m)) as [t|].
    2:{ destruct (hdr_fields m) as [fs|].
        - eexists. split; [apply Z|reflexivity].
        - exists []. split; reflexivity. }
    destruct (hdr_fields m) as [fs|]; [|exists []; split; reflexivity].
    destruct (MAX_ARRAY_LEN <? len fs); [eexists; split; [apply Z|reflexivity]|].
    cbn [bind].
    pose proof (len_pad_to_align_8 ([bo_byte (msg_bo m); t; msg_flags m; 1; 0; 0; 0; 0] ++ u32_bytes (msg_bo m) s ++ u32_bytes (msg_bo m) (len fs mod 2 ^ 32) ++ fs)) as M8.
    destruct (pad_to_align_app 8 ([bo_byte (msg_bo m); t; msg_flags m; 1; 0; 0; 0; 0] ++ u32_bytes (msg_bo m) s ++ u32_bytes (msg_bo m) (len fs mod 2 ^ 32) ++ fs)) as [z Hz].
    rewrite Hz in *. exists z. split.
    { rewrite !len_app, !len_u32_bytes in M8.
      change (len [bo_byte (msg_bo m); t; msg_flags m; 1; 0; 0; 0; 0]) with 8 in M8.
      replace (16 + len fs + len z) with (8 + (4 + (4 + len fs)) + len z) by lia. exact M8. }
    clear M8 Hz Z. cbv zeta.
    destruct (msg_bo m); cbn [u32_bytes le_bytes32 rev app].
    all: rewrite !len_cons.
    all: match goal with |- (if ?c then _ else _) = _ => destruct c; [reflexivity|] end.
    all: unfold insert_u32_at; rewrite !len_cons.
    all: match goal with |- (if ?a <? ?b then _ else _) = _ => destruct (N.ltb_spec a b) as [L|L]; [exfalso; lia|] end.
    all: unfold firstnN, skipnN; change (N.to_nat (4 + 4)) with 8%nat; change (N.to_nat 4) with 4%nat.
    all: cbn [firstn skipn app u32_bytes le_bytes32 rev].
    all: reflexivity.
  Qed.

  Lemma marshal_shape m s hb : marshal hdr_fields m s [] = Ok hb ->
    exists t fs z, typ_code (msg_typ m) = Some t /\ hdr_fields m = Some fs /\
      hb = [bo_byte (msg_bo m); t; msg_flags m; 1] ++ u32_bytes (msg_bo m) (len (msg_body m) mod 2^32)
           ++ u32_bytes (msg_bo m) s ++ u32_bytes (msg_bo m) (len fs mod 2^32) ++ fs ++ z
      /\ len hb mod 8 = 0 /\ len hb + len (msg_body m) <= MAX_MESSAGE_LEN.
  Proof.
    destruct (marshal_eq m s) as (z & M8 & ->).
    destruct (typ_code (msg_typ m)) as [t|]; [|discriminate].
    destruct (hdr_fields m) as [fs|]; [|discriminate].
    destruct (MAX_ARRAY_LEN <? len fs); [discriminate|]. cbv zeta.
    match goal with |- (if ?a <? ?b then _ else _) = _ -> _ => destruct (N.ltb_spec a b) as [L|L]; [discriminate|] end.
    intros H. injection H as Hhb. subst hb. exists t, fs, z. repeat split; try exact L.
    rewrite !len_cons, !len_app, !len_u32_bytes.
    replace (1 + (1 + (1 + (1 + (4 + (4 + (4 + (len fs + len z)))))))) with (16 + len fs + len z) by lia. exact M8.
  Qed.

  Lemma marshal_total m s : marshal hdr_fields m s [] <> Panic /\ marshal hdr_fields m s [] <> UB
    /\ marshal hdr_fields m s [] <> OutOfFuel.
  Proof.
    destruct (marshal_eq m s) as (z & _ & ->).
    destruct (typ_code (msg_typ m)) as [t|]; [|repeat split; discriminate].
    destruct (hdr_fields m) as [fs|]; [|repeat split; discriminate].
    destruct (MAX_ARRAY_LEN <? len fs); [repeat split; discriminate|]. cbv zeta.
    destruct (_ <? _); repeat split; discriminate.
  Qed.

  (* the serial in bytes 8..12 of the marshalled header, read as the D-Bus spec says, is the chosen one *)
  Lemma marshal_wire_serial m s hb : s < 2^32 -> marshal hdr_fields m s [] = Ok hb -> wire_serial hb = Some s.
  Proof.
    intros Hs H. apply marshal_shape in H. destruct H as (t & fs & z & _ & _ & -> & _).
    pose proof (le_bytes32_roundtrip s Hs) as R.
    destruct pow_consts as (E8 & E16 & E24 & _).
    destruct (msg_bo m); cbn [u32_bytes le_bytes32 rev app bo_byte wire_serial];
      rewrite ?E8, ?E16, ?E24 in *.
    - change (108 =? 108) with true. cbv iota. f_equal. lia.
    - change (66 =? 108) with false. change (66 =? 66) with true. cbv iota. f_equal. lia.
  Qed.

  Lemma marshal_len_ge_16 m s hb : marshal hdr_fields m s [] = Ok hb -> 16 <= len hb.
  Proof.
    intros H. apply marshal_shape in H. destruct H as (t & fs & z & _ & _ & -> & _).
    rewrite !len_app, !len_u32_bytes. cbn [len length N.of_nat]. lia.
  Qed.

  (* ---------------------------------------------------------------- alloc_serial / send_message *)

  Definition conn_ok (c : send_conn) : Prop := 1 <= serial_counter c < 2^32.

  Lemma conn_init_ok : conn_ok conn_init.
  Proof. unfold conn_ok, conn_init. cbn. destruct pow_consts as (_ & _ & _ & -> & _). lia. Qed.

  Lemma alloc_serial_spec c : conn_ok c ->
    (serial_counter c + 1 < 2^32 /\
     alloc_serial c = Ok (serial_counter c, {| header_buf := header_buf c; serial_counter := serial_counter c + 1 |}))
    \/ (serial_counter c + 1 = 2^32 /\ alloc_serial c = Panic).
  Proof.
    intros [L U]. unfold alloc_serial. destruct (N.ltb_spec (serial_counter c + 1) (2^32)) as [H|H].
    - left. split; [exact H|reflexivity].
    - right. split; [lia|reflexivity].
  Qed.

  (* serials in [lo, hi) in increasing order *)
  Definition in_range (lo hi : N) (l : list N) : Prop :=
    StronglySorted N.lt l /\ Forall (fun s => lo <= s < hi) l.

  Lemma in_range_nil lo hi : in_range lo hi [].
  Proof. split; constructor. Qed.

  Lemma in_range_cons lo mid hi s l : lo <= s < mid -> mid <= hi -> in_range mid hi l -> in_range lo hi (s :: l).
  Proof.
    intros Hs Hm [S F]. split.
    - constructor; [exact S|]. eapply Forall_impl; [|exact F]. cbn beta. intros a Ha. lia.
    - constructor; [lia|]. eapply Forall_impl; [|exact F]. cbn beta. intros a Ha. lia.
  Qed.

  Lemma in_range_app lo mid hi l1 l2 : lo <= mid -> mid <= hi -> in_range lo mid l1 -> in_range mid hi l2 -> in_range lo hi (l1 ++ l2).
  Proof.
    intros H1 H2. induction l1 as [|a l1 IH]; intros [S1 F1] R2.
    - cbn [app]. destruct R2 as [S F]. split; [exact S|]. eapply Forall_impl; [|exact F]. cbn beta. intros a Ha. lia.
    - inversion S1; subst. inversion F1; subst. cbn [app].
      assert (IH' : in_range lo hi (l1 ++ l2)) by (apply IH; [split; assumption|exact R2]).
      destruct IH' as [S F]. split.
      + constructor; [exact S|]. apply Forall_app. split; [assumption|].
        destruct R2 as [_ F2]. eapply Forall_impl; [|exact F2]. cbn beta. intros b Hb. lia.
      + constructor; [lia|exact F].
  Qed.

  Lemma in_range_widen lo lo' hi hi' l : lo' <= lo -> hi <= hi' -> in_range lo hi l -> in_range lo' hi' l.
  Proof. intros H1 H2 [S F]. split; [exact S|]. eapply Forall_impl; [|exact F]. cbn beta. intros a Ha. lia. Qed.

  (* k allocations in a row: the next k serials, or the panic when they run out *)
  Lemma alloc_n_spec k : forall c, conn_ok c ->
    (serial_counter c + N.of_nat k < 2^32 /\
     exists c' ss, alloc_n k c = Ok (c', ss) /\ conn_ok c' /\ serial_counter c' = serial_counter c + N.of_nat k
                   /\ header_buf c' = header_buf c /\ in_range (serial_counter c) (serial_counter c') ss)
    \/ (2^32 <= serial_counter c + N.of_nat k /\ alloc_n k c = Panic).
  Proof.
    induction k as [|k IH]; intros c Hc; cbn [alloc_n].
    - left. split; [unfold conn_ok in Hc; lia|]. exists c, []. repeat split; try apply Hc; try lia; constructor.
    - destruct (alloc_serial_spec c Hc) as [[L ->]|[E ->]]; cbn [bind].
      + set (c1 := {| header_buf := header_buf c; serial_counter := serial_counter c + 1 |}).
        assert (Hc1 : conn_ok c1) by (unfold conn_ok, c1 in *; cbn [serial_counter]; lia).
        destruct (IH c1 Hc1) as [(Lk & c' & ss & -> & Hc' & Hn & Hh & R)|(Lk & ->)]; cbn [bind].
        * left. unfold c1 in *. cbn [serial_counter header_buf] in *. split; [lia|].
          exists c', (serial_counter c :: ss). split; [reflexivity|]. split; [exact Hc'|]. split; [lia|]. split; [exact Hh|].
          eapply in_range_cons; [| |exact R]; lia.
        * right. unfold c1 in Lk. cbn [serial_counter] in Lk. split; [lia|reflexivity].
      + right. split; [lia|reflexivity].
  Qed.

  (* send_message: Ok with or without a context, or the panic of alloc_serial; the facts about the context *)
  Lemma send_message_cases c m : conn_ok c -> (forall p, dh_serial (msg_dyn m) = Some p -> 0 < p < 2^32) ->
    (serial_counter c + fresh m < 2^32 /\
     exists c' x, send_message hdr_fields c m = Ok (c', x) /\ conn_ok c'
       /\ serial_counter c' = serial_counter c + fresh m
       /\ match x with
          | None => True
          | Some x => cx_conn x = c' /\ cx_msg x = m /\ bytes_sent (cx_state x) = 0
                      /\ ctx_serial x = (match dh_serial (msg_dyn m) with Some p => p | None => serial_counter c end)
                      /\ wire_serial (header_buf c') = Some (ctx_serial x)
          end)
    \/ (fresh m = 1 /\ serial_counter c + 1 = 2^32 /\ send_message hdr_fields c m = Panic).
  Proof.
    intros Hc Hw. unfold send_message, fresh.
    destruct (dh_serial (msg_dyn m)) as [p|] eqn:Ep; cbn [bind].
    - left. split; [unfold conn_ok in Hc; lia|].
      pose proof (marshal_total m p) as (T1 & T2 & T3). cbn [header_buf serial_counter].
      destruct (marshal hdr_fields m p []) as [hb| | | |] eqn:Em; try congruence.
      + eexists. eexists. split; [reflexivity|]. cbn [serial_counter header_buf]. split; [exact Hc|]. split; [cbn [serial_counter]; lia|].
        cbn [ctx_serial cx_conn cx_msg cx_state bytes_sent st_serial header_buf]. repeat split.
        eapply marshal_wire_serial; [|exact Em]. apply (Hw p eq_refl).
      + eexists. eexists. split; [reflexivity|]. cbn [serial_counter]. split; [exact Hc|]. split; [cbn [serial_counter]; lia|exact I].
    - destruct (alloc_serial_spec c Hc) as [[L ->]|[E ->]]; cbn [bind]; [left|right; auto].
      split; [exact L|].
      pose proof (marshal_total m (serial_counter c)) as (T1 & T2 & T3). cbn [header_buf serial_counter].
      destruct (marshal hdr_fields m (serial_counter c) []) as [hb| | | |] eqn:Em; try congruence.
      + eexists. eexists. split; [reflexivity|]. cbn [serial_counter header_buf].
        split; [unfold conn_ok in *; cbn [serial_counter]; lia|]. split; [reflexivity|].
        cbn [ctx_serial cx_conn cx_msg cx_state bytes_sent st_serial header_buf]. repeat split.
        eapply marshal_wire_serial; [|exact Em]. unfold conn_ok in Hc. lia.
      + eexists. eexists. split; [reflexivity|]. cbn [serial_counter].
        split; [unfold conn_ok in *; cbn [serial_counter]; lia|]. split; [reflexivity|exact I].
  Qed.

  (* one step of a history: Ok with the serials of this step in [counter before, counter after),
     or the panic exactly when the step needs more serials than are left *)
  Lemma step_cases c o : conn_ok c -> op_wf o ->
    (serial_counter c + serials_taken o < 2^32 /\
     exists c' e, step hdr_fields c o = Ok (c', e) /\ conn_ok c'
       /\ serial_counter c' = serial_counter c + serials_taken o
       /\ in_range (serial_counter c) (serial_counter c') (issued_of e) /\ sent_ok e)
    \/ (2^32 <= serial_counter c + serials_taken o /\ step hdr_fields c o = Panic).
  Proof.
    intros Hc Hw. destruct o as [|m|m k|m how]; cbn [step serials_taken].
    - destruct (alloc_serial_spec c Hc) as [[L ->]|[E ->]]; cbn [bind]; [left|right; split; [lia|reflexivity]].
      split; [exact L|]. eexists. eexists. split; [reflexivity|].
      split; [unfold conn_ok in *; cbn [serial_counter]; lia|]. cbn [serial_counter issued_of sent_ok].
      split; [reflexivity|]. split; [|exact I].
      apply (in_range_cons _ (serial_counter c + 1)); [lia|lia|apply in_range_nil].
    - cbn [op_wf] in Hw.
      destruct (send_message_cases c m Hc Hw) as [(L & c' & x & -> & Hc' & Hn & Hx)|(F & E & ->)]; cbn [bind];
        [left|right; split; [lia|reflexivity]].
      split; [exact L|]. destruct x as [x|].
      + destruct Hx as (X1 & X2 & X3 & X4 & X5).
        eexists. eexists. split; [reflexivity|]. split; [exact Hc'|]. split; [exact Hn|].
        rewrite X1. cbn [issued_of sent_ok]. unfold fresh in *.
        destruct (dh_serial (msg_dyn m)) as [p|].
        * split; [apply in_range_nil|]. split; [intros q Hq; inversion Hq as [Hq']; rewrite <- Hq'; exact X4|exact X5].
        * split; [|split; [intros q Hq; discriminate|exact X5]]. rewrite X4. cbv beta iota in Hn.
          apply (in_range_cons _ (serial_counter c')); [lia|lia|apply in_range_nil].
      + eexists. eexists. split; [reflexivity|]. split; [exact Hc'|]. split; [exact Hn|].
        cbn [issued_of sent_ok]. split; [apply in_range_nil|exact I].
    - cbn [op_wf] in Hw.
      destruct (send_message_cases c m Hc Hw) as [(L & c1 & x & -> & Hc1 & Hn1 & Hx)|(F & E & ->)]; cbn [bind];
        [|right; split; [lia|reflexivity]].
      destruct (alloc_n_spec k c1 Hc1) as [(Lk & c' & ss & -> & Hc' & Hn & Hh & R)|(Lk & ->)]; cbn [bind];
        [left|right; split; [lia|reflexivity]].
      split; [lia|]. destruct x as [x|]; cbn [option_map].
      + destruct Hx as (X1 & X2 & X3 & X4 & X5).
        eexists. eexists. split; [reflexivity|]. split; [exact Hc'|]. split; [lia|].
        cbn [issued_of sent_ok]. unfold ctx_serial, resume, into_progress in *. cbn [cx_state cx_conn]. rewrite Hh.
        unfold fresh in *.
        destruct (dh_serial (msg_dyn m)) as [p|].
        * split; [eapply in_range_widen; [| |exact R]; lia|].
          split; [intros q Hq; inversion Hq as [Hq']; rewrite <- Hq'; exact X4|exact X5].
        * split; [|split; [intros q Hq; discriminate|exact X5]]. rewrite X4.
          eapply in_range_cons; [| |exact R]; lia.
      + eexists. eexists. split; [reflexivity|]. split; [exact Hc'|]. split; [lia|].
        cbn [issued_of sent_ok]. split; [eapply in_range_widen; [| |exact R]; lia|exact I].
      - cbn [op_wf] in Hw.
      destruct (send_message_cases c m Hc Hw) as [(L & c' & x & -> & Hc' & Hn & Hx)|(F & E & ->)]; cbn [bind];
        [left|right; split; [lia|reflexivity]].
      split; [exact L|]. destruct x as [x|].
      + destruct Hx as (X1 & X2 & X3 & X4 & X5).
        eexists. eexists. split; [reflexivity|]. split; [exact Hc'|]. split; [exact Hn|].
        rewrite X1. cbn [issued_of sent_ok]. unfold fresh in *.
        destruct (dh_serial (msg_dyn m)) as [p|].
        * split; [apply in_range_nil|]. split; [intros q Hq; inversion Hq as [Hq']; rewrite <- Hq'; exact X4|exact X5].
        * split; [|split; [intros q Hq; discriminate|exact X5]]. rewrite X4. cbv beta iota in Hn.
          apply (in_range_cons _ (serial_counter c')); [lia|lia|apply in_range_nil].
      + eexists. eexists. split; [reflexivity|]. split; [exact Hc'|]. split; [exact Hn|].
        cbn [issued_of sent_ok]. split; [apply in_range_nil|exact I].
  Qed.

  (* in particular for a send that is suspended, sees k allocations, and is resumed: the serial of the
     resumed context is the one chosen by send_message and the one in the header it transmits *)
  Lemma step_spec c o c' e : conn_ok c -> op_wf o -> step hdr_fields c o = Ok (c', e) ->
    conn_ok c' /\ serial_counter c' = serial_counter c + serials_taken o
    /\ StronglySorted N.lt (issued_of e)
    /\ Forall (fun s => serial_counter c <= s < serial_counter c') (issued_of e)
    /\ sent_ok e.
  Proof.
    intros Hc Hw H. destruct (step_cases c o Hc Hw) as [(_ & c2 & e2 & E & Hc' & Hn & [S F] & So)|(_ & E)];
      rewrite E in H; [|discriminate].
    inversion H; subst. auto.
  Qed.

  Lemma nallocs_cons o ops : nallocs (o :: ops) = serials_taken o + nallocs ops.
  Proof. reflexivity. Qed.

  (* histories: every serial handed out lies in [counter before, counter after), in increasing order;
     a history ends Ok iff the counter does not run out *)
  Lemma run_ops_cases ops : forall c, conn_ok c -> Forall op_wf ops ->
    (serial_counter c + nallocs ops < 2^32 /\
     exists c' evs, run_ops hdr_fields ops c = Ok (c', evs) /\ conn_ok c'
       /\ serial_counter c' = serial_counter c + nallocs ops
       /\ in_range (serial_counter c) (serial_counter c') (issued evs) /\ Forall sent_ok evs)
    \/ (2^32 <= serial_counter c + nallocs ops /\ run_ops hdr_fields ops c = Panic).
  Proof.
    induction ops as [|o ops IH]; intros c Hc Hw; cbn [run_ops].
    - left. unfold nallocs. cbn [fold_right]. split; [unfold conn_ok in Hc; lia|].
      exists c, []. split; [reflexivity|]. split; [exact Hc|]. split; [lia|]. split; [apply in_range_nil|constructor].
    - inversion Hw as [|? ? Hwo Hwops]; subst. rewrite nallocs_cons.
      destruct (step_cases c o Hc Hwo) as [(L & c1 & e & -> & Hc1 & Hn1 & R1 & S1)|(L & ->)]; cbn [bind];
        [|right; split; [lia|reflexivity]].
      destruct (IH c1 Hc1 Hwops) as [(L2 & c' & evs & -> & Hc' & Hn & R & S)|(L2 & ->)]; cbn [bind];
        [left|right; split; [lia|reflexivity]].
      split; [lia|]. exists c', (e :: evs). split; [reflexivity|]. split; [exact Hc'|]. split; [lia|].
      split; [|constructor; assumption].
      unfold issued. cbn [flat_map]. apply (in_range_app _ (serial_counter c1)); try lia; assumption.
  Qed.

  Lemma run_ops_spec ops c c' evs : conn_ok c -> Forall op_wf ops ->
    run_ops hdr_fields ops c = Ok (c', evs) ->
    conn_ok c' /\ serial_counter c' = serial_counter c + nallocs ops
    /\ StronglySorted N.lt (issued evs)
    /\ Forall (fun s => serial_counter c <= s < serial_counter c') (issued evs)
    /\ Forall sent_ok evs.
  Proof.
    intros Hc Hw H. destruct (run_ops_cases ops c Hc Hw) as [(_ & c2 & evs2 & E & Hc' & Hn & [S F] & So)|(_ & E)];
      rewrite E in H; [|discriminate].
    inversion H; subst. auto.
  Qed.

  Lemma run_ops_outcome ops c : conn_ok c -> Forall op_wf ops ->
    (serial_counter c + nallocs ops < 2^32 -> exists c' evs, run_ops hdr_fields ops c = Ok (c', evs))
    /\ (2^32 <= serial_counter c + nallocs ops -> run_ops hdr_fields ops c = Panic).
  Proof.
    intros Hc Hw. destruct (run_ops_cases ops c Hc Hw) as [(L & c2 & evs2 & E & _)|(L & E)]; split; intros G;
      try lia; eauto.
  Qed.

  (* what k calls of alloc_serial return and leave behind, explicitly *)
  Lemma alloc_n_serials k : forall c c' ss, alloc_n k c = Ok (c', ss) ->
    ss = map (fun i => serial_counter c + N.of_nat i) (seq 0 k)
    /\ c' = {| header_buf := header_buf c; serial_counter := serial_counter c + N.of_nat k |}.
  Proof.
    induction k as [|k IH]; intros c c' ss; cbn [alloc_n].
    - intros H. inversion H; subst. split; [reflexivity|]. destruct c' as [hb n]. cbn [header_buf serial_counter N.of_nat]. f_equal; lia.
    - unfold alloc_serial. destruct (_ <? _); cbn [bind]; [|discriminate].
      destruct (alloc_n k _) as [[c1 ss1]| | | |] eqn:E; cbn [bind]; try discriminate.
      intros H. inversion H; subst. apply IH in E. destruct E as [-> ->]. cbn [serial_counter header_buf]. split.
      + cbn [seq map]. f_equal; [f_equal; lia|]. rewrite <- seq_shift, map_map. apply map_ext. intros i. lia.
      + f_equal. lia.
  Qed.

  Lemma last_map_seq (f : nat -> N) k d : last (map f (seq 0 (S k))) d = f k.
  Proof. rewrite seq_S, map_app. cbn [map Nat.add]. apply last_last. Qed.

  (* alloc_many k = k times alloc_serial: same connection afterwards, its serial = the last one returned, same panic *)
  Theorem alloc_many_spec : forall k c, conn_ok c -> 1 <= k ->
    match alloc_n (N.to_nat k) c with
    | Ok (c', ss) => alloc_many k c = Ok (c', last ss 0)
    | Panic => alloc_many k c = Panic
    | _ => False
    end.
  Proof.
    intros k c Hc Hk. unfold alloc_many.
    destruct (alloc_n_spec (N.to_nat k) c Hc) as [(L & c' & ss & E & _)|(L & E)]; rewrite E.
    - rewrite N2Nat.id in L. destruct (N.ltb_spec (serial_counter c + k) (2^32)) as [G|G]; [|lia].
      apply alloc_n_serials in E. destruct E as [-> ->]. rewrite N2Nat.id. f_equal. f_equal.
      destruct (N.to_nat k) as [|n] eqn:En; [lia|]. rewrite last_map_seq. lia.
    - rewrite N2Nat.id in L. destruct (N.ltb_spec (serial_counter c + k) (2^32)) as [G|G]; [lia|reflexivity].
  Qed.

  (* ---------------------------------------------------------------- top-level statements *)

  Theorem serials_fresh_increasing : forall ops c' evs, Forall op_wf ops ->
    run_ops hdr_fields ops conn_init = Ok (c', evs) -> serials_spec evs.
  Proof.
    intros ops c' evs Hw H. destruct (run_ops_spec ops _ _ _ conn_init_ok Hw H) as (Hc & _ & Hs & Hr & Hsent).
    split; [exact Hs|]. split; [|exact Hsent].
    eapply Forall_impl; [|exact Hr]. cbn beta. intros a Ha. unfold conn_ok, conn_init in *. cbn [serial_counter] in *. lia.
  Qed.

  (* a history runs to its end iff it takes fewer than 2^32-1 serials; otherwise the model, like the
     code ("run out of serials"), panics *)
  Theorem history_outcome : forall ops, Forall op_wf ops ->
    (nallocs ops < 2^32 - 1 -> exists c' evs, run_ops hdr_fields ops conn_init = Ok (c', evs))
    /\ (2^32 - 1 <= nallocs ops -> run_ops hdr_fields ops conn_init = Panic).
  Proof.
    intros ops Hw. destruct (run_ops_outcome ops conn_init conn_init_ok Hw) as [A B].
    unfold conn_init in *. cbn [serial_counter] in *. destruct pow_consts as (_ & _ & _ & E & _). rewrite E in *.
    split; intros L; [apply A|apply B]; lia.
  Qed.

  (* continuing from any reachable connection state: new serials exceed everything issued before *)
  Theorem serials_exceed_earlier : forall ops1 ops2 c1 evs1 c2 evs2,
    Forall op_wf ops1 -> Forall op_wf ops2 ->
    run_ops hdr_fields ops1 conn_init = Ok (c1, evs1) -> run_ops hdr_fields ops2 c1 = Ok (c2, evs2) ->
    forall a b, In a (issued evs1) -> In b (issued evs2) -> a < b.
  Proof.
    intros ops1 ops2 c1 evs1 c2 evs2 W1 W2 H1 H2 a b Ha Hb.
    destruct (run_ops_spec ops1 _ _ _ conn_init_ok W1 H1) as (Hc1 & _ & _ & R1 & _).
    destruct (run_ops_spec ops2 _ _ _ Hc1 W2 H2) as (_ & _ & _ & R2 & _).
    rewrite Forall_forall in R1, R2. specialize (R1 a Ha). specialize (R2 b Hb). cbn beta in *. lia.
  Qed.
End Proofs.

(* ---------------------------------------------------------------- replies *)

Theorem make_response_spec : forall call, reply_spec call (make_response call).
Proof. intros call. unfold reply_spec, is_reply_type. cbn. auto. Qed.

(* send_hello accepts exactly the replies that carry the serial of its Hello; a reply built by
   make_response from the received Hello header is one *)
Theorem hello_correlation : forall serial resp,
  hello_matches serial resp = true <-> dh_response_serial resp = Some serial.
Proof.
  intros serial resp. unfold hello_matches. destruct (dh_response_serial resp) as [s|]; [|split; discriminate].
  destruct (N.eqb_spec s serial) as [E|E]; split; intros H; congruence.
Qed.

Theorem hello_reply_accepted : forall call serial, dh_serial call = Some serial ->
  hello_matches serial (msg_dyn (make_response call)) = true.
Proof. intros call serial H. apply hello_correlation. cbn. exact H. Qed.

Lemma make_error_response_spec : forall call name text r,
  make_error_response call name text = Ok r -> reply_spec call r /\ dh_error_name (msg_dyn r) = Some name.
Proof.
  intros call name text r. unfold make_error_response.
  destruct text as [t|].
  - destruct (marshal_text t); try discriminate. intros H. inversion H; subst.
    unfold reply_spec, is_reply_type. cbn. repeat split; auto.
  - intros H. inversion H; subst. unfold reply_spec, is_reply_type. cbn. repeat split; auto.
Qed.

(* make_error_response cannot fail with an error; it panics exactly when the text holds a NUL byte *)
Lemma make_error_response_outcome : forall call name text,
  match text with
  | Some t => if existsb (N.eqb 0) t then make_error_response call name text = Panic
              else exists r, make_error_response call name text = Ok r
  | None => exists r, make_error_response call name text = Ok r
  end.
Proof.
  intros call name [t|]; unfold make_error_response, marshal_text.
  - destruct (existsb (N.eqb 0) t); [reflexivity|eauto].
  - eauto.
Qed.

Theorem unknown_method_spec : forall call r, unknown_method call = Ok r -> reply_spec call r.
Proof. intros call r H. unfold unknown_method in H. apply make_error_response_spec in H. tauto. Qed.

Theorem invalid_args_spec : forall call sig r, invalid_args call sig = Ok r -> reply_spec call r.
Proof. intros call sig r H. unfold invalid_args in H. apply make_error_response_spec in H. tauto. Qed.

(* names of a decoded header contain no NUL byte (header decoding validates them, C06); then the
   standard replies never panic *)
Definition no_nul (s : list N) : Prop := existsb (N.eqb 0) s = false.
Definition opt_no_nul (o : option (list N)) : Prop := match o with Some s => no_nul s | None => True end.

Lemma existsb_app_false {A} (f : A -> bool) a b : existsb f a = false -> existsb f b = false -> existsb f (a ++ b) = false.
Proof. intros Ha Hb. rewrite existsb_app, Ha, Hb. reflexivity. Qed.

Lemma opt_str_no_nul o : opt_no_nul o -> existsb (N.eqb 0) (opt_str o) = false.
Proof. destruct o; cbn; auto. Qed.

Theorem unknown_method_total : forall call,
  opt_no_nul (dh_interface call) -> opt_no_nul (dh_member call) -> opt_no_nul (dh_object call) ->
  exists r, unknown_method call = Ok r.
Proof.
  intros call Hi Hm Ho. unfold unknown_method.
  match goal with |- exists r, make_error_response ?c ?n (Some ?t) = Ok r =>
    pose proof (make_error_response_outcome c n (Some t)) as H; cbv beta iota in H;
    assert (E : existsb (N.eqb 0) t = false) end.
  { repeat apply existsb_app_false; try apply opt_str_no_nul; auto; reflexivity. }
  rewrite E in H. exact H.
Qed.

Theorem invalid_args_total : forall call sig,
  opt_no_nul (dh_interface call) -> opt_no_nul (dh_member call) -> opt_no_nul (dh_object call) -> opt_no_nul sig ->
  exists r, invalid_args call sig = Ok r.
Proof.
  intros call sig Hi Hm Ho Hs. unfold invalid_args.
  match goal with |- exists r, make_error_response ?c ?n (Some ?t) = Ok r =>
    pose proof (make_error_response_outcome c n (Some t)) as H; cbv beta iota in H;
    assert (E : existsb (N.eqb 0) t = false) end.
  { repeat apply existsb_app_false; try apply opt_str_no_nul; auto; try reflexivity.
    destruct sig as [s|]; [|reflexivity]. apply existsb_app_false; [reflexivity|exact Hs]. }
  rewrite E in H. exact H.
Qed.
