(** Non-vacuity for C19: the model computes, the specification relations are inhabited, and the
    hypotheses of the theorems are satisfiable. *)
From Coq Require Import String Ascii Permutation.
From RB Require Import Base.Prelude Conn.DispatchMsg Conn.Dispatch Conn.DispatchSpec Conn.DispatchProofs.

Fixpoint s2l (s : string) : list N :=
  match s with EmptyString => [] | String a r => N_of_ascii a :: s2l r end.
Local Notation "# s" := (s2l s%string) (at level 1, format "# s").

Example ex_split : split_on slash #"/a//b/" = [ #""; #"a"; #""; #"b"; #"" ] /\ split_on slash #"" = [ #"" ] /\ split_on slash #"/" = [ #""; #"" ].
Proof. vm_compute. repeat split. Qed.

Example ex_new : pattern_new #"/ab/:id/*/**/:" = [MatchExact #""; MatchExact #"ab"; MatchAs #":id"; AcceptAll; MatchExact #"**"; MatchAs #":"].
Proof. vm_compute. reflexivity. Qed.

(* the crate's own unit test test_path_matcher *)
Definition p1 := pattern_new #"/ABCD/:1/:2/:3/DEF".
Example ex_happy : matches p1 #"/ABCD/A/B/C/DEF" = Ok [( #":1", #"A"); ( #":2", #"B"); ( #":3", #"C")].
Proof. vm_compute. reflexivity. Qed.
Example ex_short : matches p1 #"ABCD/A" = Err /\ matches p1 #"ABCD/A/B/C" = Err.
Proof. vm_compute. repeat split. Qed.
Example ex_long : matches p1 #"ABCD/A/B/C/DEF/GHI" = Err /\ matches p1 #"/ABCD/A/B/C/DEF/GHI" = Err.
Proof. vm_compute. repeat split. Qed.
Definition p2 := pattern_new #"/ABCD/:1/:2/:3/DEF/*".
Example ex_tail : is_ok (matches p2 #"/ABCD/A/B/C/DEF/GHI") = true /\ is_ok (matches p2 #"/ABCD/A/B/C/DEF/GHI/JKLMN") = true
                  /\ matches p2 #"/ABCD/A/B/C/DEF" = Err.
Proof. vm_compute. repeat split. Qed.
Definition p3 := pattern_new #"/ABCD/*/:1/:2/:3/DEF".
Example ex_middle : is_ok (matches p3 #"/ABCD/WILD/A/B/C/DEF") = true /\ matches p3 #"/ABCD/TOO/WILD/A/B/C/DEF" = Err.
Proof. vm_compute. repeat split. Qed.

(* a later capture under the same name overrides; a wildcard also matches an empty segment *)
Example ex_override : matches (pattern_new #"/:x/:x") #"/a/b" = Ok [( #":x", #"b")].
Proof. vm_compute. reflexivity. Qed.
Example ex_root : matches (pattern_new #"/*") #"/" = Ok [] /\ matches (pattern_new #"/*") #"/a/b/c" = Ok [] /\ matches (pattern_new #"/*") #"" = Err.
Proof. vm_compute. repeat split. Qed.
(* the unwrap in matches is only reachable with an empty pattern, which new() never builds *)
Example ex_panic : matches [] #"/a" = Panic.
Proof. vm_compute. reflexivity. Qed.

(* the specification relation is inhabited, and agrees *)
Example ex_Matches : Matches (pattern_new #"/:x/*/:x") [ #""; #"a"; #"w"; #"b" ] [( #":x", #"a"); ( #":x", #"b")].
Proof. vm_compute. repeat constructor. Qed.
Example ex_Matches_tail : Matches (pattern_new #"/a/*") [ #""; #"a"; #"b"; #"c" ] [].
Proof. vm_compute. apply M_exact, M_exact, M_wild_tail. discriminate. Qed.
Example ex_CapsOf : CapsOf [( #":x", #"a"); ( #":x", #"b")] [( #":x", #"b")].
Proof.
  destruct (matches_sound (pattern_new #"/:x/:x") #"/a/b" _ (pattern_new_nonempty _) ex_override) as (raw & Hm & Hc).
  assert (raw = [( #":x", #"a"); ( #":x", #"b")]).
  { eapply Matches_fun; [exact Hm|]. vm_compute. repeat constructor. }
  subst. exact Hc.
Qed.

(* get_match: the first matching entry in iteration order; both orders of a two-entry map *)
Definition R2 : routes := add_handler #"/a/:x" 2 (add_handler #"/*" 1 []).
Example ex_WF : WF R2.
Proof. apply add_handler_WF, add_handler_WF, WF_nil. Qed.
Example ex_get_match : get_match_in R2 #"/a/b" = Ok (Some ([], 1)) /\ get_match_in (rev R2) #"/a/b" = Ok (Some ([( #":x", #"b")], 2))
                       /\ get_match_in R2 #"/b" = Ok (Some ([], 1)) /\ get_match_in R2 #"b" = Ok None.
Proof. vm_compute. repeat split. Qed.
Example ex_insert_replaces : add_handler #"/*" 7 R2 = [(pattern_new #"/*", 7); (pattern_new #"/a/:x", 2)].
Proof. vm_compute. reflexivity. Qed.

(* a run: message 0 goes to handler 1 which registers /new -> 5 and answers itself; message 1 goes to
   the new handler 5, which returns None (empty reply); message 2 has no route: default handler, which
   fails after asking for a route; message 3 is never dispatched *)
Definition call (serial : N) (path sender : string) : msg :=
  mkMsg MCall (mkDH None (Some #"M") (Some #path) None (Some serial) (Some #sender) None None None None) 0 [].
Definition my_reply : msg := push_str #"hello" (make_response (m_dh (call 10 "/a" ":1.5"))).
Definition ex_oracle (i : nat) (who : handler_id) (c : caps) (m : msg) : hres * list (str * N) :=
  match i with
  | 0%nat => (HSome my_reply, [( #"/new", 5)])
  | 1%nat => (HNone, [])
  | _ => (HErr, [( #"/never", 9)])
  end.
Definition ex_msgs := [call 10 "/a" ":1.5"; call 11 "/new" ":1.6"; call 12 "/zzz/y" ":1.7"; call 13 "/a" ":1.5"].
Definition ex_routes : routes := add_handler #"/a" 1 [].
Definition id_perm (i : nat) (l : routes) := l.
Definition rev_perm (i : nat) (l : routes) := rev l.

Example ex_run :
  run_loop ex_oracle rev_perm id_perm 0 ex_msgs ex_routes
  = Ok ([mkEvent (HRoute 1) [] (call 10 "/a" ":1.5"); mkEvent (HRoute 5) [] (call 11 "/new" ":1.6");
         mkEvent HDefault [] (call 12 "/zzz/y" ":1.7")],
        [my_reply; make_response (m_dh (call 11 "/new" ":1.6"))],
        [(pattern_new #"/a", 1); (pattern_new #"/new", 5)],
        EndHandlerErr).
Proof. vm_compute. reflexivity. Qed.

Example ex_empty_reply : let r := make_response (m_dh (call 11 "/new" ":1.6")) in
  m_typ r = MReply /\ dh_response_serial (m_dh r) = Some 11 /\ dh_destination (m_dh r) = Some #":1.6".
Proof. vm_compute. repeat split. Qed.

(* the hypotheses of C19_run are satisfiable and its conclusion is about this very run *)
Example ex_perms : (forall i l, Permutation (rev_perm i l) l) /\ (forall i l, Permutation (id_perm i l) l).
Proof. split; intros i l; [apply Permutation_sym, Permutation_rev|apply Permutation_refl]. Qed.

Example ex_RunSpec : exists log wr Rf, RunSpec ex_oracle 0 ex_routes ex_msgs log wr Rf EndHandlerErr /\ length log = 3%nat /\ length wr = 2%nat.
Proof.
  destruct ex_perms as [H1 H2].
  destruct (run_loop_spec ex_oracle rev_perm id_perm H1 H2 ex_msgs 0%nat ex_routes) as (log & wr & Rf & e & Hrun & Hspec & _).
  { apply add_handler_WF, WF_nil. }
  rewrite ex_run in Hrun. inversion Hrun; subst. do 3 eexists. split; [exact Hspec|split; reflexivity].
Qed.

(* run to the end of the input when no handler fails *)
Example ex_run_closed :
  match run_loop (fun _ _ _ _ => (HNone, [])) id_perm id_perm 0 ex_msgs ex_routes with
  | Ok (log, wr, _, e) => (length log, length wr, e) = (4%nat, 4%nat, EndRecv)
  | _ => False
  end.
Proof. vm_compute. reflexivity. Qed.

(* the hypotheses of the singleton theorem are satisfiable: in R2 only "/*" matches "/b", so whatever
   the iteration order, handler 1 is the one called *)
Example ex_singleton : forall who c, Chosen R2 (call 1 "/b" ":1.1") who c -> who = HRoute 1.
Proof.
  intros who c Hch.
  assert (Hne1 : pattern_new #"/*" <> []) by apply pattern_new_nonempty.
  assert (Hne2 : pattern_new #"/a/:x" <> []) by apply pattern_new_nonempty.
  destruct (chosen_singleton R2 (call 1 "/b" ":1.1") who c #"/b" (pattern_new #"/*") 1) as [H _]; auto.
  - apply ex_WF.
  - vm_compute. auto.
  - intros Hn. apply (matches_none _ _ Hne1) in Hn. vm_compute in Hn. discriminate.
  - intros p h Hin Hm. vm_compute in Hin. destruct Hin as [Hin|[Hin|[]]]; inversion Hin; subst; [reflexivity|].
    exfalso. apply Hm. apply (matches_none _ _ Hne2). vm_compute. reflexivity.
Qed.
