(** Conn/RpcExamples.v - the RpcConn model and its specification compute, and the hypotheses of the
    C14 theorems are satisfiable. *)
From RB Require Import Base.Prelude Conn.Rpc Conn.RpcSpec Conn.RpcProofs Conn.RpcConsequences.

Definition mk (k : kind) (serial : N) (reply : option N) (member : list N) : rmsg :=
  {| r_kind := k; r_serial := serial; r_reply := reply; r_sender := Some [58; 49]; r_iface := Some [105];
     r_member := Some member; r_object := Some [47]; r_tag := 0 |}.

Definition sA := mk KSignal 1 None [65; 49].        (* signal "A1" *)
Definition cB := mk KCall 2 None [66; 50; 50].      (* call "B22": rejected by filter 8 (member starts with 'A') *)
Definition r7 := mk KReply 3 (Some 7) [].           (* reply to serial 7; its member is Some [] *)
Definition cA := mk KCall 4 None [65; 120].         (* call "Ax" *)
Definition e9 := mk KError 5 (Some 9) [65].

(* replies have no member "starting with A", so filter 10 (calls must start with 'A', the rest passes) *)
Definition opsx : list op :=
  [ Arrive sA; Arrive cB; TryCall; WaitResp 7 5; Arrive r7; Arrive cA; Arrive e9;
    WaitResp 9 1; WaitResp 9 10; TrySignal; WaitCall 3; RefillAll; TryResp 7; WaitSignal 2 ].

Example opsx_valid : Forall valid_msg (arrivals opsx).
Proof. repeat constructor; cbn; congruence. Qed.
Example opsx_distinct : distinct_reply_serials (arrivals opsx).
Proof. unfold distinct_reply_serials. cbn. repeat constructor; cbn; intuition congruence. Qed.

Example opsx_run :
  option_map fst (match run (filter_family 10) opsx with Ok x => Some x | _ => None end) =
  Some [ (RNothing, []); (RNothing, []); (RNone, []);
         (RFail RTimedOut, [unknown_method cB]);          (* reads both messages, answers the rejected call *)
         (RNothing, []); (RNothing, []); (RNothing, []);
         (RFail RTimedOut, []);                            (* budget 1: reads r7 only *)
         (RMsg e9, []);                                    (* reads cA, then e9 *)
         (RMsg sA, []); (RMsg cA, []); (RErrors [], []); (RMsg r7, []); (RFail RTimedOut, []) ].
Proof. vm_compute. reflexivity. Qed.

Example opsx_spec_agrees :
  match run (filter_family 10) opsx with Ok x => fst x = fst (srun (filter_family 10) opsx) | _ => False end.
Proof. vm_compute. reflexivity. Qed.

(* the theorem applied *)
Example opsx_theorem : exists st', run (filter_family 10) opsx = Ok (fst (srun (filter_family 10) opsx), st').
Proof. destruct (refinement (filter_family 10) opsx opsx_valid opsx_distinct) as (st' & E & _). now exists st'. Qed.

(* refill_all hands the errors back instead of sending them *)
Example refill_all_returns :
  option_map fst (match run (filter_family 3) [Arrive cB; Arrive sA; Arrive cA; RefillAll; TrySignal]
                  with Ok x => Some x | _ => None end) =
  Some [ (RNothing, []); (RNothing, []); (RNothing, []);
         (RErrors [unknown_method cB; unknown_method cA], []); (RMsg sA, []) ].
Proof. vm_compute. reflexivity. Qed.

(* without distinct reply serials HashMap::insert would replace the earlier reply: the hypothesis matters *)
Example same_serial_replaces :
  option_map fst (match run (filter_family 0) [Arrive r7; Arrive (mk KError 6 (Some 7) []); RefillAll; TryResp 7; TryResp 7]
                  with Ok x => Some x | _ => None end) =
  Some [ (RNothing, []); (RNothing, []); (RErrors [], []); (RMsg (mk KError 6 (Some 7) []), []); (RNone, []) ].
Proof. vm_compute. reflexivity. Qed.
