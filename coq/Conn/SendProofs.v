(** C10: specification (written from the property text) and proofs about Conn/Send.v. *)
From RB Require Import Base.Prelude Conn.Serial Conn.SerialProofs Conn.Send.

(* ---------------------------------------------------------------- specification *)

Definition is_prefix {A} (p l : list A) : Prop := exists rest, l = p ++ rest.

(* The kernel's total appetite while the caller actually holds a context: the sum of the k of the
   Accept events that happen while the send is not suspended. A function of the schedule alone. *)
Fixpoint accepted_sum (active : bool) (sched : list wev) : N :=
  match sched with
  | [] => 0
  | Accept k :: s => (if active then k else 0) + accepted_sum active s
  | Again :: s => accepted_sum active s
  | Suspend :: s => accepted_sum false s
  | Resume :: s => accepted_sum true s
  end.

(* What the property promises for one message (header [hb], body, descriptors [fds], serial) sent on
   a socket whose peer had already received [w0]: [r] is the situation after any schedule. *)
Record send_spec (hb body fds : list N) (serial : N) (w0 : world) (r : run) : Prop := {
  sp_no_panic : r_panicked r = false;
  (* the peer has received, after what was there before, a prefix [p] of header ++ body ... *)
  sp_wire : exists p, wire (r_world r) = wire w0 ++ p /\ is_prefix p (hb ++ body)
            (* ... and the send position is exactly its length *)
            /\ bytes_sent (r_state r) = len p
            (* completion is reported exactly when every byte has been written *)
            /\ (r_completed r = true <-> p = hb ++ body)
            (* the descriptors have been transferred exactly once as soon as the first byte is out, not before *)
            /\ fds_delivered (r_world r) = fds_delivered w0 ++ match p with [] => [] | _ => fds end;
  (* the serial reported on completion is the one chosen for the message and the one in the header *)
  sp_reported : forall s, r_reported r = Some s -> s = serial /\ wire_serial hb = Some s;
  sp_serial_kept : st_serial (r_state r) = serial }.

(* ---------------------------------------------------------------- list lemmas *)

Lemma firstn_plus {A} (a m : nat) (l : list A) : firstn (a + m) l = firstn a l ++ firstn m (skipn a l).
Proof.
  revert l. induction a as [|a IH]; intros l; [reflexivity|].
  destruct l as [|x l]; cbn [Nat.add firstn skipn app].
  - now rewrite firstn_nil.
  - now rewrite IH.
Qed.

Lemma firstn_clamp {A} (k : nat) (l : list A) : firstn k l = firstn (Nat.min k (length l)) l.
Proof.
  destruct (Nat.le_ge_cases k (length l)) as [H|H].
  - now rewrite Nat.min_l.
  - rewrite Nat.min_r by assumption. rewrite firstn_all. now apply firstn_all2.
Qed.

(* the two slices of write_once are the unsent rest of header ++ body *)
Lemma slice_lemma (s : N) (hb body : list N) :
  skipnN (N.min s (len hb)) hb ++ skipnN (s - N.min s (len hb)) body = skipnN s (hb ++ body).
Proof.
  unfold skipnN, len. rewrite skipn_app.
  destruct (N.le_ge_cases s (N.of_nat (length hb))) as [H|H].
  - rewrite N.min_l by assumption.
    replace (N.to_nat (s - s)) with 0%nat by lia.
    replace (N.to_nat s - length hb)%nat with 0%nat by lia. reflexivity.
  - rewrite N.min_r by assumption. rewrite Nat2N.id, skipn_all.
    rewrite (skipn_all2 hb) by lia.
    replace (N.to_nat (s - N.of_nat (length hb))) with (N.to_nat s - length hb)%nat by lia. reflexivity.
Qed.

(* taking up to k more bytes after the first a *)
Lemma firstnN_extend {A} (a k : N) (l : list A) : a <= len l ->
  firstnN a l ++ firstnN k (skipnN a l) = firstnN (a + N.min k (len l - a)) l.
Proof.
  intros H. unfold firstnN, skipnN, len in *.
  rewrite (firstn_clamp (N.to_nat k)). rewrite skipn_length.
  replace (N.to_nat (a + N.min k (N.of_nat (length l) - a)))
    with (N.to_nat a + Nat.min (N.to_nat k) (length l - N.to_nat a))%nat by lia.
  now rewrite firstn_plus.
Qed.

Lemma firstnN_clamp {A} (k : N) (l : list A) : firstnN k l = firstnN (N.min k (len l)) l.
Proof.
  unfold firstnN, len. rewrite (firstn_clamp (N.to_nat k)). f_equal. lia.
Qed.

Lemma firstnN_all {A} (n : N) (l : list A) : len l <= n -> firstnN n l = l.
Proof. intros H. unfold firstnN, len in *. apply firstn_all2. lia. Qed.

Lemma firstnN_0 {A} (l : list A) : firstnN 0 l = [].
Proof. reflexivity. Qed.

Lemma firstnN_prefix {A} (n : N) (l : list A) : is_prefix (firstnN n l) l.
Proof. exists (skipnN n l). symmetry. apply firstnN_skipnN. Qed.

Lemma firstnN_nil_iff {A} (n : N) (l : list A) : n <= len l -> (firstnN n l = [] <-> n = 0).
Proof.
  intros H. split.
  - intros E. apply (f_equal len) in E. rewrite len_firstnN in E. cbn in E. lia.
  - intros ->. reflexivity.
Qed.

(* ---------------------------------------------------------------- write_once *)

Lemma write_once_again x w : bytes_sent (cx_state x) <= bytes_total x -> write_once x w KAgain = (x, w, Err).
Proof.
  intros H. unfold write_once, bytes_total in *.
  destruct (N.ltb_spec (len (msg_body (cx_msg x)))
              (bytes_sent (cx_state x) - N.min (bytes_sent (cx_state x)) (len (header_buf (cx_conn x))))) as [L|L];
    [lia|reflexivity].
Qed.

Lemma write_once_accept x w k : bytes_sent (cx_state x) <= bytes_total x ->
  let bs := bytes_sent (cx_state x) in
  let acc := firstnN k (skipnN bs (header_buf (cx_conn x) ++ msg_body (cx_msg x))) in
  write_once x w (KAccept k) =
    (set_bytes_sent x (bs + len acc),
     {| wire := wire w ++ acc;
        fds_delivered := if 1 <=? len acc
                         then fds_delivered w ++ (if bs =? 0 then msg_raw_fds (cx_msg x) else [])
                         else fds_delivered w |},
     Ok (len acc)).
Proof.
  intros H. unfold write_once, bytes_total in *. cbv zeta.
  destruct (N.ltb_spec (len (msg_body (cx_msg x)))
              (bytes_sent (cx_state x) - N.min (bytes_sent (cx_state x)) (len (header_buf (cx_conn x))))) as [L|L];
    [lia|].
  rewrite slice_lemma. reflexivity.
Qed.

(* ---------------------------------------------------------------- the invariant *)

Section Inv.
  Variables (hb body fds : list N) (serial : N) (w0 : world).
  Let L := hb ++ body.

  (* a context and a world that belong to this message, with everything up to bytes_sent on the wire *)
  Definition Inv (x : send_ctx) (w : world) : Prop :=
    header_buf (cx_conn x) = hb /\ msg_body (cx_msg x) = body /\ msg_raw_fds (cx_msg x) = fds
    /\ st_serial (cx_state x) = serial
    /\ bytes_sent (cx_state x) <= len L
    /\ wire w = wire w0 ++ firstnN (bytes_sent (cx_state x)) L
    /\ fds_delivered w = fds_delivered w0 ++ (if bytes_sent (cx_state x) =? 0 then [] else fds).

  Lemma Inv_total x w : Inv x w -> bytes_total x = len L.
  Proof. intros (H1 & H2 & _). unfold bytes_total, L. now rewrite H1, H2, len_app. Qed.

  (* EAGAIN / time-out: nothing changes *)
  Lemma write_once_again_inv x w : Inv x w -> write_once x w KAgain = (x, w, Err).
  Proof. intros I. apply write_once_again. rewrite (Inv_total x w I). apply I. Qed.

  (* the kernel takes up to k bytes: exactly the next min(k, remaining) bytes go out, the position
     advances by that number, the descriptors go with the first byte *)
  Lemma write_once_accept_inv x w k : Inv x w ->
    let bs := bytes_sent (cx_state x) in
    let n := N.min k (len L - bs) in
    exists x' w', write_once x w (KAccept k) = (x', w', Ok n)
      /\ bytes_sent (cx_state x') = bs + n
      /\ wire w' = wire w ++ firstnN n (skipnN bs L)
      /\ Inv x' w'.
  Proof.
    intros I. pose proof (Inv_total x w I) as T.
    destruct I as (H1 & H2 & H3 & H4 & H5 & H6 & H7). cbv zeta.
    rewrite write_once_accept by (rewrite T; exact H5). cbv zeta. rewrite H1, H2, H3. fold L.
    assert (E : len (firstnN k (skipnN (bytes_sent (cx_state x)) L)) = N.min k (len L - bytes_sent (cx_state x)))
      by (rewrite len_firstnN, len_skipnN; reflexivity).
    rewrite E. set (bs := bytes_sent (cx_state x)) in *. set (n := N.min k (len L - bs)) in *.
    eexists. eexists. split; [reflexivity|]. cbn [set_bytes_sent cx_state bytes_sent wire].
    split; [reflexivity|]. split.
    { f_equal. rewrite (firstnN_clamp k), len_skipnN. reflexivity. }
    unfold Inv. cbn [set_bytes_sent cx_conn cx_msg cx_state bytes_sent st_serial wire fds_delivered].
    repeat split; auto.
    - subst n. lia.
    - rewrite H6, <- app_assoc. f_equal. subst n. apply firstnN_extend. exact H5.
    - rewrite H7. destruct (N.leb_spec 1 n) as [G|G].
      + destruct (N.eqb_spec bs 0) as [Z|Z].
        * destruct (N.eqb_spec (bs + n) 0); [lia|]. now rewrite app_nil_r.
        * destruct (N.eqb_spec (bs + n) 0); [lia|]. now rewrite app_nil_r.
      + replace (bs + n) with bs by lia. reflexivity.
  Qed.
End Inv.

(* ---------------------------------------------------------------- schedules *)

Section Run.
  Variables (hb body fds : list N) (serial : N) (w0 : world).
  Let L := hb ++ body.
  Notation INV := (Inv hb body fds serial w0).

  (* the situation after any number of events *)
  Definition RInv (r : run) : Prop :=
    r_panicked r = false /\
    match r_caller r with
    | Active x => INV x (r_world r) /\ bytes_sent (cx_state x) < len L
    | Suspended c m p => INV (resume c m p) (r_world r) /\ bytes_sent p < len L
    | Done x s => INV x (r_world r) /\ bytes_sent (cx_state x) = len L /\ s = serial
    end.

  Definition r_active (r : run) : bool := match r_caller r with Suspended _ _ _ => false | _ => true end.

  Lemma RInv_uniform r : RInv r ->
    exists x, INV x (r_world r) /\ cx_state x = r_state r
              /\ (r_completed r = true <-> bytes_sent (r_state r) = len L)
              /\ (forall s, r_reported r = Some s -> s = serial).
  Proof.
    destruct r as [c w p]. unfold RInv, r_state, r_completed, r_reported. cbn [r_caller r_world r_panicked].
    intros [_ H]. destruct c as [x|c m st|x s].
    - destruct H as [I B]. exists x. split; [exact I|]. split; [reflexivity|]. split; [split; [discriminate|intros E; lia]|discriminate].
    - destruct H as [I B]. exists (resume c m st). split; [exact I|]. split; [reflexivity|]. split; [split; [discriminate|intros E; lia]|discriminate].
    - destruct H as (I & B & ->). exists x. split; [exact I|]. split; [reflexivity|]. split; [split; auto|]. intros s0 E. now inversion E.
  Qed.

  (* one event: the invariant is kept, and the position moves by exactly what the kernel took *)
  Lemma run_step_inv r e : RInv r ->
    RInv (run_step r e)
    /\ forall rest, N.min (len L) (bytes_sent (r_state (run_step r e)) + accepted_sum (r_active (run_step r e)) rest)
                    = N.min (len L) (bytes_sent (r_state r) + accepted_sum (r_active r) (e :: rest)).
  Proof.
    destruct r as [c w p]. unfold RInv, run_step, r_state, r_active. cbn [r_caller r_world r_panicked].
    intros [-> H]. destruct c as [x|c m st|x s].
    - destruct H as [I B]. destruct e as [k| | |].
      + destruct (write_once_accept_inv hb body fds serial w0 x w k I) as (x' & w' & E & Hbs & _ & I').
        cbv zeta in E. rewrite E.
        pose proof (Inv_total _ _ _ _ _ _ _ I') as T. unfold all_bytes_written. rewrite T.
        destruct (N.eqb_spec (bytes_sent (cx_state x')) (len (hb ++ body))) as [Q|Q];
          cbn [r_caller r_world r_panicked accepted_sum]; (split; [split; [reflexivity|]|]).
        * split; [exact I'|]. split; [exact Q|]. apply I'.
        * intros rest. fold L in Q. rewrite Hbs in *. fold L. lia.
        * split; [exact I'|]. destruct I' as (_ & _ & _ & _ & G & _). fold L in Q, G |- *. lia.
        * intros rest. rewrite Hbs. fold L. lia.
      + rewrite (write_once_again_inv _ _ _ _ _ _ _ I). cbn [r_caller r_world r_panicked accepted_sum].
        split; [split; [reflexivity|split; assumption]|intros rest; reflexivity].
      + cbn [r_caller r_world r_panicked accepted_sum]. split; [split; [reflexivity|]|].
        * split; [|exact B]. exact I.
        * intros rest. unfold into_progress. lia.
      + cbn [r_caller r_world r_panicked accepted_sum].
        split; [split; [reflexivity|split; assumption]|intros rest; reflexivity].
    - destruct H as [I B]. destruct e as [k| | |]; cbn [r_caller r_world r_panicked accepted_sum];
        (split; [split; [reflexivity|split; assumption]|]); intros rest; try reflexivity.
    - destruct H as (I & B & ->). destruct e as [k| | |]; cbn [r_caller r_world r_panicked accepted_sum];
        (split; [split; [reflexivity|split; [exact I|split; [exact B|reflexivity]]]|]); intros rest; lia.
  Qed.

  Lemma run_inv sched : forall r, RInv r ->
    RInv (fold_left run_step sched r)
    /\ bytes_sent (r_state (fold_left run_step sched r))
       = N.min (len L) (bytes_sent (r_state r) + accepted_sum (r_active r) sched).
  Proof.
    induction sched as [|e sched IH]; intros r H; cbn [fold_left].
    - split; [exact H|]. cbn [accepted_sum].
      destruct (RInv_uniform r H) as (x & I & E & _). destruct I as (_ & _ & _ & _ & G & _).
      rewrite E in G. fold L in G. lia.
    - destruct (run_step_inv r e H) as [H' Hs]. destruct (IH _ H') as [H'' Hb]. split; [exact H''|].
      rewrite Hb. apply Hs.
  Qed.

  (* from the invariant to the specification *)
  Lemma RInv_spec r : wire_serial hb = Some serial -> RInv r -> send_spec hb body fds serial w0 r.
  Proof.
    intros Hws H. pose proof H as [Hp _]. destruct (RInv_uniform r H) as (x & I & E & Hc & Hr).
    destruct I as (_ & _ & _ & Hser & G & Hw & Hf). rewrite E in *. fold L in G, Hw.
    split.
    - exact Hp.
    - exists (firstnN (bytes_sent (r_state r)) L). split; [exact Hw|]. split; [apply firstnN_prefix|].
      split; [rewrite len_firstnN; lia|]. split.
      + rewrite Hc. fold L. split.
        * intros Q. rewrite Q. now apply firstnN_all.
        * intros Q. apply (f_equal len) in Q. rewrite len_firstnN in Q. lia.
      + rewrite Hf. f_equal.
        destruct (N.eqb_spec (bytes_sent (r_state r)) 0) as [Z|Z].
        * rewrite Z. reflexivity.
        * destruct (firstnN (bytes_sent (r_state r)) L) eqn:Q; [|reflexivity].
          apply firstnN_nil_iff in Q; [contradiction|exact G].
    - intros s Hs. apply Hr in Hs. subst s. auto.
    - exact Hser.
  Qed.

  (* ---- the statements about run_send: any context/world that belong to this message, not yet complete *)
  Variables (x : send_ctx) (w : world).
  Hypothesis Hx : INV x w.
  Hypothesis Hpartial : bytes_sent (cx_state x) < len L.

  Lemma run_send_start : RInv {| r_caller := Active x; r_world := w; r_panicked := false |}.
  Proof. split; [reflexivity|]. cbn [r_caller r_world]. auto. Qed.

  Theorem run_send_spec : wire_serial hb = Some serial ->
    forall sched, send_spec hb body fds serial w0 (run_send x w sched).
  Proof.
    intros Hws sched. apply RInv_spec; [exact Hws|]. unfold run_send. apply run_inv. apply run_send_start.
  Qed.

  (* closed form: what is on the wire is determined by the total the kernel was willing to take *)
  Theorem run_send_closed_form : forall sched,
    let r := run_send x w sched in
    let total := bytes_sent (cx_state x) + accepted_sum true sched in
    wire (r_world r) = wire w0 ++ firstnN total (hb ++ body)
    /\ bytes_sent (r_state r) = N.min (len (hb ++ body)) total
    /\ r_completed r = (len (hb ++ body) <=? total).
  Proof.
    intros sched. cbv zeta. unfold run_send.
    destruct (run_inv sched _ run_send_start) as [H Hb].
    cbn [r_state r_caller r_active] in Hb. fold L.
    destruct (RInv_uniform _ H) as (x' & I & E & Hc & _).
    destruct I as (_ & _ & _ & _ & _ & Hw & _). rewrite E in Hw. fold L in Hw.
    split; [|split].
    - rewrite Hw, Hb. f_equal. rewrite (firstnN_clamp (_ + _) L). f_equal. lia.
    - exact Hb.
    - destruct (N.leb_spec (len L) (bytes_sent (cx_state x) + accepted_sum true sched)) as [Q|Q].
      + apply Hc. rewrite Hb. lia.
      + destruct (r_completed _) eqn:C; [|reflexivity]. destruct Hc as [Hc1 _]. specialize (Hc1 eq_refl). rewrite Hb in Hc1. lia.
  Qed.
End Run.

(* suspending and resuming straight away is invisible *)
Lemma suspend_resume_identity x w :
  run_step (run_step {| r_caller := Active x; r_world := w; r_panicked := false |} Suspend) Resume
  = {| r_caller := Active x; r_world := w; r_panicked := false |}.
Proof. destruct x as [c m st]. reflexivity. Qed.

Lemma resume_into_progress x : resume (cx_conn x) (cx_msg x) (into_progress x) = x.
Proof. destruct x. reflexivity. Qed.

(* ---------------------------------------------------------------- write / write_all / Drop *)

Section Write.
  Variables (hb body fds : list N) (serial : N) (w0 : world).
  Let L := hb ++ body.
  Notation INV := (Inv hb body fds serial w0).

  (* Drop panics exactly on a partially sent message *)
  Lemma drop_ctx_spec x w : INV x w ->
    (drop_ctx x = Panic <-> 0 < bytes_sent (cx_state x) < len L) /\ (drop_ctx x = Panic \/ drop_ctx x = Ok tt).
  Proof.
    intros I. pose proof (Inv_total _ _ _ _ _ _ _ I) as T. destruct I as (_ & _ & _ & _ & G & _). fold L in G, T.
    unfold drop_ctx, all_bytes_written. rewrite T.
    destruct (N.eqb_spec (bytes_sent (cx_state x)) 0) as [Z|Z];
      destruct (N.eqb_spec (bytes_sent (cx_state x)) (len L)) as [Q|Q]; cbn [negb andb];
      (split; [split; [intros E; try discriminate; lia|intros E; try reflexivity; lia]|auto]).
  Qed.

  (* write(timeout) under any decisions of clock and kernel: never a panic; Ok only with every byte
     written and with the message's serial; otherwise the context comes back in a state from which
     sending can continue (the invariant holds) *)
  Theorem write_spec ds : forall x w, INV x w ->
    exists x' w' r, write x w ds = (x', w', r) /\ INV x' w'
      /\ bytes_sent (cx_state x) <= bytes_sent (cx_state x')
      /\ match r with
         | Ok s => s = serial /\ bytes_sent (cx_state x') = len L
         | Err | OutOfFuel => True
         | Panic | UB => False
         end.
  Proof.
    induction ds as [|d ds IH]; intros x w I; cbn [write].
    - exists x, w, OutOfFuel. split; [reflexivity|split; [exact I|split; [lia|trivial]]].
    - destruct d as [[k|]|].
      + destruct (write_once_accept_inv hb body fds serial w0 x w k I) as (x' & w' & E & Hbs & _ & I').
        cbv zeta in E. rewrite E.
        pose proof (Inv_total _ _ _ _ _ _ _ I') as T. unfold all_bytes_written at 1. rewrite T.
        destruct (N.eqb_spec (bytes_sent (cx_state x')) (len (hb ++ body))) as [Q|Q].
        * exists x', w'.
          assert (D : drop_ctx x' = Ok tt).
          { unfold drop_ctx, all_bytes_written. rewrite T.
            destruct (N.eqb_spec (bytes_sent (cx_state x')) (len (hb ++ body))); [|contradiction].
            now rewrite andb_false_r. }
          rewrite D. cbn [bind]. eexists. split; [reflexivity|]. split; [exact I'|]. split; [lia|].
          split; [apply I'|exact Q].
        * destruct (IH x' w' I') as (x'' & w'' & r & Ew & I'' & Hm & Hr).
          exists x'', w'', r. split; [exact Ew|]. split; [exact I''|]. split; [lia|exact Hr].
      + rewrite (write_once_again_inv _ _ _ _ _ _ _ I). exists x, w, Err. split; [reflexivity|split; [exact I|split; [lia|trivial]]].
      + exists x, w, Err. split; [reflexivity|split; [exact I|split; [lia|trivial]]].
  Qed.

  (* every byte written <-> the peer holds the whole message, with its descriptors, once *)
  Lemma Inv_complete x w : INV x w -> 0 < len L -> bytes_sent (cx_state x) = len L ->
    wire w = wire w0 ++ hb ++ body /\ fds_delivered w = fds_delivered w0 ++ fds.
  Proof.
    intros (_ & _ & _ & _ & _ & Hw & Hf) P Q. fold L in Hw. rewrite Q in *. split.
    - rewrite Hw. f_equal. apply firstnN_all. unfold L. lia.
    - rewrite Hf. destruct (N.eqb_spec (len L) 0); [lia|reflexivity].
  Qed.

  (* at any point: what the peer has of this message is a prefix, with the descriptors iff it is not empty *)
  Lemma Inv_partial x w : INV x w ->
    exists p, wire w = wire w0 ++ p /\ is_prefix p (hb ++ body)
              /\ fds_delivered w = fds_delivered w0 ++ match p with [] => [] | _ => fds end
              /\ len p = bytes_sent (cx_state x).
  Proof.
    intros (_ & _ & _ & _ & G & Hw & Hf). fold L in G, Hw.
    exists (firstnN (bytes_sent (cx_state x)) L). split; [exact Hw|]. split; [apply firstnN_prefix|]. split.
    - rewrite Hf. f_equal. destruct (N.eqb_spec (bytes_sent (cx_state x)) 0) as [Z|Z].
      + rewrite Z. reflexivity.
      + destruct (firstnN (bytes_sent (cx_state x)) L) eqn:Q; [|reflexivity].
        apply firstnN_nil_iff in Q; [contradiction|exact G].
    - rewrite len_firstnN. lia.
  Qed.

  (* write_all on a blocking socket (every sendmsg takes at least one byte) returns Ok after at most
     as many iterations as there are bytes left *)
  Theorem write_all_terminates ds : forall x w, INV x w ->
    Forall (fun d => exists k, d = WKernel (KAccept k) /\ 1 <= k) ds ->
    bytes_sent (cx_state x) < len L -> len L - bytes_sent (cx_state x) <= len ds ->
    exists x' w', write x w ds = (x', w', Ok serial) /\ INV x' w' /\ bytes_sent (cx_state x') = len L.
  Proof.
    induction ds as [|d ds IH]; intros x w I F P Hn.
    - rewrite len_nil in Hn. lia.
    - inversion F as [|? ? (k & -> & Hk) F']; subst. cbn [write].
      destruct (write_once_accept_inv hb body fds serial w0 x w k I) as (x' & w' & E & Hbs & _ & I').
      cbv zeta in E. rewrite E.
      pose proof (Inv_total _ _ _ _ _ _ _ I') as T. unfold all_bytes_written at 1. rewrite T.
      destruct (N.eqb_spec (bytes_sent (cx_state x')) (len (hb ++ body))) as [Q|Q].
      + exists x', w'.
        assert (D : drop_ctx x' = Ok tt).
        { unfold drop_ctx, all_bytes_written. rewrite T.
          destruct (N.eqb_spec (bytes_sent (cx_state x')) (len (hb ++ body))); [|contradiction].
          now rewrite andb_false_r. }
        rewrite D. cbn [bind]. split; [|split; [exact I'|exact Q]].
        f_equal. f_equal. apply I'.
      + fold L in Q, Hbs. rewrite len_cons in Hn.
        assert (G : bytes_sent (cx_state x') <= len L) by apply I'.
        apply (IH x' w' I' F'); lia.
  Qed.
End Write.

(* ---------------------------------------------------------------- the connection during a run *)

Lemma write_once_conn x w d : cx_conn (fst (fst (write_once x w d))) = cx_conn x /\ cx_msg (fst (fst (write_once x w d))) = cx_msg x.
Proof.
  unfold write_once. destruct (_ <? _); [split; reflexivity|].
  destruct d as [k|]; cbn [sendmsg]; split; reflexivity.
Qed.

Lemma run_step_conn r e : r_conn (run_step r e) = r_conn r.
Proof.
  unfold run_step. destruct (r_panicked r); [reflexivity|].
  destruct r as [c w p]. cbn [r_caller r_world]. destruct c as [x|c m st|x s]; destruct e as [k| | |]; try reflexivity.
  - pose proof (write_once_conn x w (KAccept k)) as [E _].
    destruct (write_once x w (KAccept k)) as [[x' w'] res]. cbn [fst] in E.
    destruct res; try (destruct (all_bytes_written x')); unfold r_conn; cbn [r_caller]; exact E.
  - pose proof (write_once_conn x w KAgain) as [E _].
    destruct (write_once x w KAgain) as [[x' w'] res]. cbn [fst] in E.
    destruct res; unfold r_conn; cbn [r_caller]; exact E.
Qed.

Lemma run_send_conn x w sched : r_conn (run_send x w sched) = cx_conn x.
Proof.
  unfold run_send.
  assert (G : forall r, r_conn (fold_left run_step sched r) = r_conn r).
  { induction sched as [|e sched IH]; intros r; cbn [fold_left]; [reflexivity|]. rewrite IH. apply run_step_conn. }
  rewrite G. reflexivity.
Qed.

(* ---------------------------------------------------------------- from send_message *)

Section FromSendMessage.
  Variable hdr_fields : message -> option (list N).

  Lemma send_message_ctx c m c' x : send_message hdr_fields c m = Ok (c', Some x) ->
    exists serial,
      cx_conn x = c' /\ cx_msg x = m /\ cx_state x = {| bytes_sent := 0; st_serial := serial |}
      /\ marshal hdr_fields m serial [] = Ok (header_buf c')
      /\ match dh_serial (msg_dyn m) with
         | Some p => serial = p /\ serial_counter c' = serial_counter c
         | None => serial = serial_counter c /\ serial_counter c' = serial_counter c + 1 /\ serial_counter c + 1 < 2^32
         end.
  Proof.
    unfold send_message. destruct (dh_serial (msg_dyn m)) as [p|]; cbn [bind].
    - cbn [header_buf serial_counter].
      destruct (marshal hdr_fields m p []) as [h| | | |] eqn:E; try discriminate.
      intros H. inversion H; subst; clear H. exists p. cbn [cx_conn cx_msg cx_state header_buf serial_counter]. repeat split; auto.
    - unfold alloc_serial. destruct (N.ltb_spec (serial_counter c + 1) (2^32)) as [Lt|Lt]; cbn [bind]; [|discriminate].
      cbn [header_buf serial_counter].
      destruct (marshal hdr_fields m (serial_counter c) []) as [h| | | |] eqn:E; try discriminate.
      intros H. inversion H; subst; clear H. exists (serial_counter c).
      cbn [cx_conn cx_msg cx_state header_buf serial_counter]. repeat split; auto.
  Qed.

  (* the context returned by send_message starts the invariant, whatever the peer already holds *)
  Lemma send_message_inv c m c' x w0 : conn_ok c -> op_wf (OpSend m) ->
    send_message hdr_fields c m = Ok (c', Some x) ->
    Inv (header_buf c') (msg_body m) (msg_raw_fds m) (ctx_serial x) w0 x w0
    /\ bytes_sent (cx_state x) = 0
    /\ 16 <= len (header_buf c')
    /\ wire_serial (header_buf c') = Some (ctx_serial x)
    /\ ctx_serial x = match dh_serial (msg_dyn m) with Some p => p | None => serial_counter c end.
  Proof.
    intros Hc Hw H. destruct (send_message_ctx _ _ _ _ H) as (s & E1 & E2 & E3 & Em & Es).
    unfold ctx_serial. rewrite E3. cbn [st_serial bytes_sent].
    assert (Hs : s < 2^32 /\ s = match dh_serial (msg_dyn m) with Some p => p | None => serial_counter c end).
    { cbn [op_wf] in Hw. destruct (dh_serial (msg_dyn m)) as [p|].
      - destruct Es as [-> _]. split; [apply (Hw p eq_refl)|reflexivity].
      - destruct Es as (-> & _ & _). split; [apply Hc|reflexivity]. }
    destruct Hs as [Hs1 Hs2].
    split; [|split; [reflexivity|split; [eapply marshal_len_ge_16; exact Em|split; [eapply marshal_wire_serial; eauto|exact Hs2]]]].
    unfold Inv. rewrite E1, E2, E3. cbn [bytes_sent st_serial]. repeat split; auto.
    - lia.
    - now rewrite firstnN_0, app_nil_r.
    - now rewrite app_nil_r.
  Qed.

  (* send_message does not look at what an earlier message left in header_buf *)
  Lemma send_message_forgets_header c m :
    send_message hdr_fields c m = send_message hdr_fields {| header_buf := []; serial_counter := serial_counter c |} m.
  Proof.
    unfold send_message. destruct (dh_serial (msg_dyn m)) as [p|]; cbn [bind]; [reflexivity|].
    unfold alloc_serial. cbn [serial_counter header_buf]. destruct (_ <? _); reflexivity.
  Qed.

  Lemma send_message_conn_ok c m c' x : conn_ok c -> op_wf (OpSend m) ->
    send_message hdr_fields c m = Ok (c', x) -> conn_ok c'.
  Proof.
    intros Hc Hw H. cbn [op_wf] in Hw.
    destruct (send_message_cases hdr_fields c m Hc Hw) as [(_ & c2 & x2 & E & Hc2 & _)|(_ & _ & E)]; rewrite E in H;
      [|discriminate].
    inversion H; subst. exact Hc2.
  Qed.

  (* C10, stated from the API: send one message under any schedule *)
  Theorem send_exactly_once : forall c m c' x w0 sched,
    conn_ok c -> op_wf (OpSend m) -> send_message hdr_fields c m = Ok (c', Some x) ->
    send_spec (header_buf c') (msg_body m) (msg_raw_fds m) (ctx_serial x) w0 (run_send x w0 sched).
  Proof.
    intros c m c' x w0 sched Hc Hw H.
    destruct (send_message_inv c m c' x w0 Hc Hw H) as (I & Z & G & Hws & _).
    apply run_send_spec; auto. rewrite Z, len_app. lia.
  Qed.

  Theorem send_closed_form : forall c m c' x w0 sched,
    conn_ok c -> op_wf (OpSend m) -> send_message hdr_fields c m = Ok (c', Some x) ->
    let r := run_send x w0 sched in
    let total := accepted_sum true sched in
    wire (r_world r) = wire w0 ++ firstnN total (header_buf c' ++ msg_body m)
    /\ bytes_sent (r_state r) = N.min (len (header_buf c' ++ msg_body m)) total
    /\ r_completed r = (len (header_buf c' ++ msg_body m) <=? total).
  Proof.
    intros c m c' x w0 sched Hc Hw H.
    destruct (send_message_inv c m c' x w0 Hc Hw H) as (I & Z & G & Hws & _).
    pose proof (run_send_closed_form _ _ _ _ _ x w0 I) as C. rewrite Z in C.
    apply C. rewrite len_app. lia.
  Qed.

  (* Giving a message up does not disturb the next one. Whatever happened to the first message (any
     schedule, stopped at any point: not started, partially written, suspended, complete) and however the
     caller got rid of its context, the connection it holds again is [r_conn]; a message sent on it
     satisfies the whole specification relative to what the peer holds by then. *)
  Theorem next_message_unaffected : forall c m c' x w sched m2 c2 x2 sched2,
    conn_ok c -> op_wf (OpSend m) -> send_message hdr_fields c m = Ok (c', Some x) ->
    let r := run_send x w sched in
    op_wf (OpSend m2) -> send_message hdr_fields (r_conn r) m2 = Ok (c2, Some x2) ->
    send_spec (header_buf c2) (msg_body m2) (msg_raw_fds m2) (ctx_serial x2) (r_world r) (run_send x2 (r_world r) sched2).
  Proof.
    intros c m c' x w sched m2 c2 x2 sched2 Hc Hw H r Hw2 H2.
    assert (E : r_conn r = c').
    { unfold r. rewrite run_send_conn. destruct (send_message_ctx _ _ _ _ H) as (s & E1 & _). exact E1. }
    rewrite E in H2.
    apply (send_exactly_once c' m2 c2 x2 (r_world r) sched2); [exact (send_message_conn_ok c m c' (Some x) Hc Hw H)|exact Hw2|exact H2].
  Qed.

  (* ... nor does a message that send_message refused (a header field failed validation after part of
     the header had been written, or the message is too long) *)
  Theorem next_after_refused : forall c m c' m2 c2 x2 w sched2,
    conn_ok c -> op_wf (OpSend m) -> send_message hdr_fields c m = Ok (c', None) ->
    op_wf (OpSend m2) -> send_message hdr_fields c' m2 = Ok (c2, Some x2) ->
    send_spec (header_buf c2) (msg_body m2) (msg_raw_fds m2) (ctx_serial x2) w (run_send x2 w sched2).
  Proof.
    intros c m c' m2 c2 x2 w sched2 Hc Hw H Hw2 H2.
    apply (send_exactly_once c' m2 c2 x2 w sched2); [exact (send_message_conn_ok c m c' None Hc Hw H)|exact Hw2|exact H2].
  Qed.

  (* send_message_write_all: Ok(s) means the peer holds header ++ body and the descriptors, once,
     after what it held before, and s is the serial in the header; no panic in any case *)
  Theorem send_message_write_all_spec : forall c m w0 ds c' w' r,
    conn_ok c -> op_wf (OpSend m) ->
    send_message_write_all hdr_fields c m w0 ds = (c', w', r) ->
    match r with
    | Ok s => wire w' = wire w0 ++ header_buf c' ++ msg_body m
              /\ fds_delivered w' = fds_delivered w0 ++ msg_raw_fds m
              /\ wire_serial (header_buf c') = Some s
              /\ s = match dh_serial (msg_dyn m) with Some p => p | None => serial_counter c end
    | Err | OutOfFuel =>
        (* whatever was written is a prefix of this message's header ++ body after what was there, with the
           descriptors iff at least one byte went out (Err also stands for a refused message: p = []) *)
        exists p, wire w' = wire w0 ++ p /\ is_prefix p (header_buf c' ++ msg_body m)
                  /\ fds_delivered w' = fds_delivered w0 ++ match p with [] => [] | _ => msg_raw_fds m end
    | Panic => dh_serial (msg_dyn m) = None /\ serial_counter c + 1 = 2^32    (* "run out of serials" *)
    | UB => False
    end.
  Proof.
    intros c m w0 ds c' w' r Hc Hw. unfold send_message_write_all.
    destruct (send_message hdr_fields c m) as [[c1 [x|]]| | | |] eqn:E.
    - destruct (send_message_inv c m c1 x w0 Hc Hw E) as (I & Z & G & Hws & Hser).
      destruct (write_spec _ _ _ _ _ ds x w0 I) as (x' & w'' & r' & Ew & I' & _ & Hr).
      rewrite Ew. intros H. inversion H; subst; clear H.
      assert (Hhb : header_buf (cx_conn x') = header_buf c1) by apply I'.
      destruct r as [s| | | |]; try contradiction.
      + destruct Hr as [-> Q]. rewrite Hhb.
        destruct (Inv_complete _ _ _ _ _ _ _ I') as [A B]; [rewrite len_app; lia|exact Q|].
        repeat split; auto.
      + rewrite Hhb. destruct (Inv_partial _ _ _ _ _ _ _ I') as (p & A & B & C & _). exists p. auto.
      + rewrite Hhb. destruct (Inv_partial _ _ _ _ _ _ _ I') as (p & A & B & C & _). exists p. auto.
    - intros H. injection H as Ec Ew Er. subst c' w' r. exists []. rewrite !app_nil_r. repeat split. eexists; reflexivity.
    - intros H. injection H as Ec Ew Er. subst c' w' r. exists []. rewrite !app_nil_r. repeat split. eexists; reflexivity.
    - intros H. injection H as Ec Ew Er. subst c' w' r. revert E. unfold send_message.
      destruct (dh_serial (msg_dyn m)) as [p|]; cbn [bind].
      + pose proof (marshal_total hdr_fields m p) as (T1 & T2 & T3). cbn [header_buf serial_counter].
        destruct (marshal hdr_fields m p []); try congruence; discriminate.
      + destruct (alloc_serial_spec c Hc) as [[Lt ->]|[Eq ->]]; cbn [bind]; [|auto].
        pose proof (marshal_total hdr_fields m (serial_counter c)) as (T1 & T2 & T3). cbn [header_buf serial_counter].
        destruct (marshal hdr_fields m (serial_counter c) []); try congruence; discriminate.
    - exfalso. revert E. unfold send_message.
      destruct (dh_serial (msg_dyn m)) as [p|]; cbn [bind].
      + pose proof (marshal_total hdr_fields m p) as (T1 & T2 & T3). cbn [header_buf serial_counter].
        destruct (marshal hdr_fields m p []); try congruence; discriminate.
      + destruct (alloc_serial_spec c Hc) as [[Lt ->]|[Eq ->]]; cbn [bind]; [|discriminate].
        pose proof (marshal_total hdr_fields m (serial_counter c)) as (T1 & T2 & T3). cbn [header_buf serial_counter].
        destruct (marshal hdr_fields m (serial_counter c) []); try congruence; discriminate.
    - exfalso. revert E. unfold send_message.
      destruct (dh_serial (msg_dyn m)) as [p|]; cbn [bind].
      + pose proof (marshal_total hdr_fields m p) as (T1 & T2 & T3). cbn [header_buf serial_counter].
        destruct (marshal hdr_fields m p []); try congruence; discriminate.
      + destruct (alloc_serial_spec c Hc) as [[Lt ->]|[Eq ->]]; cbn [bind]; [|discriminate].
        pose proof (marshal_total hdr_fields m (serial_counter c)) as (T1 & T2 & T3). cbn [header_buf serial_counter].
        destruct (marshal hdr_fields m (serial_counter c) []); try congruence; discriminate.
  Qed.
End FromSendMessage.
