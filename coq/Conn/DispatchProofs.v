(** Proofs for C19: the matcher of dispatch_conn.rs satisfies the segment-by-segment specification,
    PathMatcher::get_match returns a matching entry (the only one when there is only one), and
    DispatchConn::run behaves as RunSpec says. *)
From RB Require Import Base.Prelude Conn.DispatchMsg Conn.Dispatch Conn.DispatchSpec.
From Coq Require Import Permutation.

(* ================================================================= str::split *)
Lemma split_on_nonempty sep s : split_on sep s <> [].
Proof.
  destruct s as [|c r]; cbn [split_on]; [discriminate|].
  destruct (c =? sep); [discriminate|]. destruct (split_on sep r); discriminate.
Qed.

(* joining the pieces with the separator gives the string back, and no piece holds the separator:
   the defining property of str::split *)
Fixpoint join (sep : N) (l : list str) : str :=
  match l with
  | [] => []
  | [x] => x
  | x :: r => x ++ sep :: join sep r
  end.

Lemma join_split sep s : join sep (split_on sep s) = s.
Proof.
  induction s as [|c r IH]; [reflexivity|]. cbn [split_on].
  destruct (N.eqb_spec c sep) as [->|Hne].
  - pose proof (split_on_nonempty sep r) as Hn. destruct (split_on sep r) as [|h t] eqn:E; [contradiction|].
    cbn [join app]. now rewrite <- IH.
  - pose proof (split_on_nonempty sep r) as Hn. destruct (split_on sep r) as [|h t] eqn:E; [contradiction|].
    rewrite <- IH. destruct t; reflexivity.
Qed.

Lemma split_no_sep sep s : Forall (fun seg => ~ In sep seg) (split_on sep s).
Proof.
  induction s as [|c r IH]; cbn [split_on].
  - constructor; auto.
  - destruct (N.eqb_spec c sep) as [->|Hne].
    + constructor; auto.
    + destruct (split_on sep r) as [|h t]; [constructor; [|constructor]|].
      * intros [H|[]]. congruence.
      * inversion IH; subst. constructor; auto. intros [H|H]; [congruence|contradiction].
Qed.

(* ================================================================= association lists *)
Section AssocFacts.
  Context {K V : Type} (eqb : K -> K -> bool).
  Hypothesis eqb_spec : forall a b, eqb a b = true <-> a = b.

  Lemma eqb_refl' a : eqb a a = true. Proof. now apply eqb_spec. Qed.
  Lemma eqb_false a b : a <> b -> eqb a b = false.
  Proof. intros H. destruct (eqb a b) eqn:E; [|reflexivity]. apply eqb_spec in E. contradiction. Qed.

  Lemma assoc_get_insert k (v : V) m k' :
    assoc_get eqb k' (assoc_insert eqb k v m) = if eqb k k' then Some v else assoc_get eqb k' m.
  Proof.
    induction m as [|[a b] r IH]; cbn [assoc_insert assoc_get]; [reflexivity|].
    destruct (eqb a k) eqn:Eak.
    - apply eqb_spec in Eak. subst a. cbn [assoc_get]. destruct (eqb k k'); reflexivity.
    - cbn [assoc_get]. rewrite IH. destruct (eqb a k') eqn:Eak'; [|reflexivity].
      destruct (eqb k k') eqn:Ekk'; [|reflexivity].
      apply eqb_spec in Eak', Ekk'. subst. rewrite eqb_refl' in Eak. discriminate.
  Qed.

  Lemma assoc_insert_keys k (v : V) m x :
    In x (map fst (assoc_insert eqb k v m)) <-> x = k \/ In x (map fst m).
  Proof.
    induction m as [|[a b] r IH]; cbn [assoc_insert map fst In].
    - intuition.
    - destruct (eqb a k) eqn:Eak.
      + apply eqb_spec in Eak. subst a. cbn [map fst In]. intuition.
      + cbn [map fst In]. rewrite IH. intuition.
  Qed.

  Lemma assoc_insert_nodup k (v : V) m : NoDup (map fst m) -> NoDup (map fst (assoc_insert eqb k v m)).
  Proof.
    induction m as [|[a b] r IH]; cbn [assoc_insert map fst]; intros Hnd.
    - constructor; [intros []|constructor].
    - inversion Hnd as [|? ? Hni Hnd']; subst. destruct (eqb a k) eqn:Eak.
      + cbn [map fst]. constructor; assumption.
      + cbn [map fst]. constructor; [|auto]. rewrite assoc_insert_keys. intros [->|H]; [|contradiction].
        rewrite eqb_refl' in Eak. discriminate.
  Qed.

  Lemma assoc_get_in k (v : V) m : NoDup (map fst m) -> (assoc_get eqb k m = Some v <-> In (k, v) m).
  Proof.
    induction m as [|[a b] r IH]; cbn [assoc_get map fst In]; intros Hnd.
    - split; [discriminate|contradiction].
    - inversion Hnd as [|? ? Hni Hnd']; subst. destruct (eqb a k) eqn:Eak.
      + apply eqb_spec in Eak. subst a. split.
        * intros H; inversion H; auto.
        * intros [H|H]; [inversion H; reflexivity|]. exfalso. apply Hni. apply in_map_iff. exists (k, v). auto.
      + rewrite (IH Hnd'). split; [auto|]. intros [H|H]; [|assumption]. inversion H; subst.
        rewrite eqb_refl' in Eak. discriminate.
  Qed.

  Lemma assoc_get_none k (m : list (K * V)) : assoc_get eqb k m = None <-> ~ In k (map fst m).
  Proof.
    induction m as [|[a b] r IH]; cbn [assoc_get map fst In].
    - intuition.
    - destruct (eqb a k) eqn:Eak.
      + apply eqb_spec in Eak. subst. split; [discriminate|]. intros H; exfalso; auto.
      + rewrite IH. split; [|tauto]. intros H [H1|H1]; [|auto]. subst. rewrite eqb_refl' in Eak. discriminate.
  Qed.

  (* a sequence of inserts: the last value inserted under a key wins, other keys keep their value *)
  Lemma assoc_get_fold (l : list (K * V)) m0 k :
    assoc_get eqb k (fold_left (fun m kv => assoc_insert eqb (fst kv) (snd kv) m) l m0)
    = match lookup_last eqb l k with Some w => Some w | None => assoc_get eqb k m0 end.
  Proof.
    revert m0. induction l as [|[a b] r IH]; intros m0; cbn [fold_left lookup_last fst snd]; [reflexivity|].
    rewrite IH. destruct (lookup_last eqb r k); [reflexivity|]. rewrite assoc_get_insert. destruct (eqb a k); reflexivity.
  Qed.

  Lemma assoc_fold_nodup (l : list (K * V)) m0 :
    NoDup (map fst m0) -> NoDup (map fst (fold_left (fun m kv => assoc_insert eqb (fst kv) (snd kv) m) l m0)).
  Proof.
    revert m0. induction l as [|[a b] r IH]; intros m0 H; cbn [fold_left fst snd]; [assumption|].
    apply IH. now apply assoc_insert_nodup.
  Qed.

  Lemma assoc_fold_keys (l : list (K * V)) m0 x :
    In x (map fst (fold_left (fun m kv => assoc_insert eqb (fst kv) (snd kv) m) l m0))
    <-> In x (map fst l) \/ In x (map fst m0).
  Proof.
    revert m0. induction l as [|[a b] r IH]; intros m0; cbn [fold_left fst snd map In]; [tauto|].
    rewrite IH, assoc_insert_keys. intuition (subst; auto).
  Qed.

  (* with unique keys the last (= only) entry of a key is found by membership *)
  Lemma lookup_last_in (l : list (K * V)) k v :
    NoDup (map fst l) -> (lookup_last eqb l k = Some v <-> In (k, v) l).
  Proof.
    revert v. induction l as [|[a b] r IH]; cbn [lookup_last map fst In]; intros v Hnd.
    - split; [discriminate|contradiction].
    - inversion Hnd as [|? ? Hni Hnd']; subst. assert (IH' := fun v => IH v Hnd'). clear IH. rename IH' into IH.
      destruct (lookup_last eqb r k) as [w|] eqn:E.
      + split.
        * intros H; inversion H; subst. right. now apply IH.
        * intros [H|H]; [|now apply IH]. inversion H; subst. exfalso. apply Hni.
          apply in_map_iff. exists (k, w). split; [reflexivity|]. now apply IH.
      + destruct (eqb a k) eqn:Eak.
        * apply eqb_spec in Eak. subst a. split; [intros H; inversion H; auto|].
          intros [H|H]; [inversion H; reflexivity|]. apply IH in H. discriminate.
        * split; [discriminate|]. intros [H|H]; [inversion H; subst; rewrite eqb_refl' in Eak; discriminate|].
          apply IH in H. discriminate.
  Qed.

  Lemma lookup_last_none (l : list (K * V)) k : lookup_last eqb l k = None <-> ~ In k (map fst l).
  Proof.
    induction l as [|[a b] r IH]; cbn [lookup_last map fst In]; [tauto|].
    destruct (lookup_last eqb r k) eqn:E.
    - split; [discriminate|]. intros H. exfalso. assert (Hn : ~ In k (map fst r)) by tauto.
      apply IH in Hn. discriminate.
    - destruct (eqb a k) eqn:Eak.
      + apply eqb_spec in Eak. subst. split; [discriminate|]. intros H; exfalso; auto.
      + split; [|reflexivity]. intros _ [H|H]; [subst; rewrite eqb_refl' in Eak; discriminate|].
        apply IH in H; auto.
  Qed.
End AssocFacts.

(* ================================================================= equality of parts/patterns *)
Lemma part_eqb_spec a b : part_eqb a b = true <-> a = b.
Proof.
  destruct a, b; cbn [part_eqb]; try (split; [discriminate|discriminate]); try (split; reflexivity).
  - rewrite str_eqb_spec. split; [intros ->; reflexivity|intros H; inversion H; reflexivity].
  - rewrite str_eqb_spec. split; [intros ->; reflexivity|intros H; inversion H; reflexivity].
Qed.
Lemma pattern_eqb_spec a b : pattern_eqb a b = true <-> a = b.
Proof. apply list_eqb_spec. exact part_eqb_spec. Qed.

(* ================================================================= ObjectPathPattern::new *)
Lemma part_of_spec seg : PartOf seg (part_of seg).
Proof.
  destruct seg as [|c r]; cbn [part_of].
  - apply PO_lit; [intros t H; discriminate|discriminate].
  - destruct (N.eqb_spec c colon) as [->|Hc]; [apply PO_named|].
    destruct (str_eqb (c :: r) [star]) eqn:E.
    + apply str_eqb_spec in E. rewrite E. apply PO_wild.
    + apply PO_lit.
      * intros t H. inversion H. contradiction.
      * intros H. rewrite H, str_eqb_refl in E. discriminate.
Qed.

Lemma PartOf_fun seg p q : PartOf seg p -> PartOf seg q -> p = q.
Proof.
  intros Hp Hq. inversion Hp; subst; inversion Hq; subst; try reflexivity;
    try match goal with H : forall t, _ :: _ <> _ :: t |- _ => exfalso; eapply H; reflexivity end;
    try congruence.
  all: try (exfalso; match goal with H : [star] = colon :: _ |- _ => inversion H end).
  all: try (exfalso; match goal with H : colon :: _ = [star] |- _ => inversion H end).
Qed.

Lemma pattern_new_spec path : Forall2 PartOf (split_on slash path) (pattern_new path).
Proof.
  unfold pattern_new. induction (split_on slash path) as [|s l IH]; cbn [map]; constructor; auto using part_of_spec.
Qed.

Lemma pattern_new_nonempty path : pattern_new path <> [].
Proof.
  unfold pattern_new. pose proof (split_on_nonempty slash path). destruct (split_on slash path); [contradiction|discriminate].
Qed.

(* ================================================================= the matcher *)
(* a structurally recursive reference matcher (proof device; the specification is [Matches]) *)
Fixpoint match_ref (pat : pattern) (q : list str) : option (list (str * str)) :=
  match pat, q with
  | [], [] => Some []
  | [], _ :: _ => None
  | _ :: _, [] => None
  | p :: ps, s :: qs =>
      match p with
      | MatchExact e => if str_eqb e s then match_ref ps qs else None
      | MatchAs n => match match_ref ps qs with Some r => Some ((n, s) :: r) | None => None end
      | AcceptAll => match ps with
                     | [] => Some []
                     | _ :: _ => match_ref ps qs
                     end
      end
  end.

Lemma Matches_match_ref pat q raw : Matches pat q raw <-> match_ref pat q = Some raw.
Proof.
  split.
  - induction 1 as [|s ps qs r H IH|n s ps qs r H IH|s ps qs r H IH|tail Ht]; cbn [match_ref].
    + reflexivity.
    + now rewrite str_eqb_refl.
    + now rewrite IH.
    + destruct ps as [|p ps']; [|exact IH]. inversion H; subst; reflexivity.
    + destruct tail; [contradiction|reflexivity].
  - revert q raw. induction pat as [|p ps IH]; intros q raw H.
    + destruct q; cbn [match_ref] in H; [|discriminate]. inversion H. constructor.
    + destruct q as [|s qs]; cbn [match_ref] in H; [discriminate|].
      destruct p as [e|n|].
      * destruct (str_eqb e s) eqn:E; [|discriminate]. apply str_eqb_spec in E. subst. constructor. auto.
      * destruct (match_ref ps qs) as [r|] eqn:E; [|discriminate]. inversion H; subst. constructor. auto.
      * destruct ps as [|p' ps'].
        -- inversion H; subst. destruct qs.
           ++ apply M_wild. constructor.
           ++ apply M_wild_tail. discriminate.
        -- apply M_wild. auto.
Qed.

Lemma Matches_fun pat q r1 r2 : Matches pat q r1 -> Matches pat q r2 -> r1 = r2.
Proof. rewrite !Matches_match_ref. congruence. Qed.

Definition ins_all (raw : list (str * str)) (m : caps) : caps :=
  fold_left (fun m kv => cap_insert (fst kv) (snd kv) m) raw m.

Lemma last_map_some (pat : pattern) : pat <> [] -> exists l, last (map Some pat) None = Some l /\ l = last pat AcceptAll.
Proof.
  induction pat as [|p ps IH]; [contradiction|]. intros _. destruct ps as [|p' ps'].
  - exists p. auto.
  - destruct IH as (l & H1 & H2); [discriminate|]. exists l. split.
    + change (map Some (p :: p' :: ps')) with (Some p :: map Some (p' :: ps')). cbn [last].
      cbn [map] in H1 |- *. exact H1.
    + cbn [last] in H2 |- *. exact H2.
Qed.

(* once the index is past the pattern: fine iff nothing is left or the last part is a wildcard *)
Lemma fold_overflow pat idx parts m :
  pat <> [] -> len pat <= idx ->
  try_fold_enum (matches_step pat) idx parts m
  = match parts with [] => Ok m | _ :: _ => if is_accept_all (last pat AcceptAll) then Ok m else Err end.
Proof.
  intros Hne. revert idx m. induction parts as [|s r IH]; intros idx m Hle; cbn [try_fold_enum]; [reflexivity|].
  unfold matches_step at 1. destruct (N.leb_spec (len pat) idx) as [_|H]; [|lia].
  destruct (last_map_some pat Hne) as (l & -> & ->).
  destruct (is_accept_all (last pat AcceptAll)) eqn:E; cbn [bind]; [|reflexivity].
  rewrite IH by lia. destruct r; reflexivity.
Qed.

Lemma nthN_app_len {A} (pre : list A) x suf : nthN (pre ++ x :: suf) (len pre) = Some x.
Proof.
  unfold nthN, len. rewrite Nat2N.id. rewrite nth_error_app2 by lia. now rewrite Nat.sub_diag.
Qed.

Lemma last_cons_ne {A} (a : A) l d : l <> [] -> last (a :: l) d = last l d.
Proof. destruct l; [contradiction|reflexivity]. Qed.

Lemma last_app_cons {A} (pre : list A) x suf d : last (pre ++ x :: suf) d = last (x :: suf) d.
Proof.
  induction pre as [|a pre IH]; [reflexivity|]. cbn [app]. rewrite last_cons_ne; [exact IH|].
  destruct pre; discriminate.
Qed.

Lemma fold_matches suf : forall pre parts m,
  suf <> [] -> (length suf <= length parts)%nat ->
  try_fold_enum (matches_step (pre ++ suf)) (len pre) parts m
  = match match_ref suf parts with Some raw => Ok (ins_all raw m) | None => Err end.
Proof.
  induction suf as [|x suf' IH]; intros pre parts m Hne Hlen; [contradiction|].
  destruct parts as [|s qs]; [cbn [length] in Hlen; lia|].
  cbn [try_fold_enum]. unfold matches_step at 1.
  assert (Hidx : len pre < len (pre ++ x :: suf')) by (rewrite len_app, len_cons; lia).
  destruct (N.leb_spec (len (pre ++ x :: suf')) (len pre)) as [H|_]; [lia|].
  rewrite nthN_app_len.
  assert (Hnext : pre ++ x :: suf' = (pre ++ [x]) ++ suf') by now rewrite <- app_assoc.
  assert (Hlen1 : len pre + 1 = len (pre ++ [x])) by (rewrite len_app, len_cons, len_nil; lia).
  cbn [length] in Hlen.
  (* what happens after this part, for any accumulated map m1 *)
  assert (Hrest : forall m1,
    try_fold_enum (matches_step (pre ++ x :: suf')) (len pre + 1) qs m1
    = match suf' with
      | [] => match qs with [] => Ok m1 | _ :: _ => if is_accept_all x then Ok m1 else Err end
      | _ :: _ => match match_ref suf' qs with Some raw => Ok (ins_all raw m1) | None => Err end
      end).
  { intros m1. destruct suf' as [|y suf''].
    - rewrite fold_overflow.
      + rewrite last_app_cons. reflexivity.
      + destruct pre; discriminate.
      + rewrite len_app, len_cons, len_nil. lia.
    - rewrite Hnext, Hlen1. apply IH; [discriminate|lia]. }
  destruct x as [e|n|]; cbn [match_ref].
  - destruct (str_eqb e s); cbn [bind]; [|reflexivity]. rewrite Hrest.
    destruct suf' as [|y suf'']; [|reflexivity]. destruct qs; reflexivity.
  - cbn [bind]. rewrite Hrest. destruct suf' as [|y suf''].
    + destruct qs; cbn [match_ref is_accept_all]; reflexivity.
    + destruct (match_ref (y :: suf'') qs); reflexivity.
  - cbn [bind]. rewrite Hrest. destruct suf' as [|y suf'']; [|reflexivity].
    destruct qs; reflexivity.
Qed.

Lemma match_ref_short pat : forall q, (length q < length pat)%nat -> match_ref pat q = None.
Proof.
  induction pat as [|p ps IH]; intros q Hl; [cbn in Hl; lia|].
  destruct q as [|s qs]; [reflexivity|]. cbn [length] in Hl. cbn [match_ref].
  destruct p as [e|n|].
  - destruct (str_eqb e s); [|reflexivity]. apply IH. lia.
  - rewrite IH by lia. reflexivity.
  - destruct ps; [cbn in Hl; lia|]. apply IH. lia.
Qed.

(* the model's matcher computes the reference matcher and folds the captures into a map *)
Lemma matches_ref pat query : pat <> [] ->
  matches pat query = match match_ref pat (split_on slash query) with
                      | Some raw => Ok (ins_all raw [])
                      | None => Err
                      end.
Proof.
  intros Hne. unfold matches. set (parts := split_on slash query).
  destruct (N.ltb_spec (len parts) (len pat)) as [Hlt|Hge].
  - rewrite match_ref_short; [reflexivity|]. unfold len in Hlt. lia.
  - change pat with ([] ++ pat) at 1. change 0 with (@len part []).
    apply fold_matches; [assumption|]. unfold len in Hge. lia.
Qed.

Lemma ins_all_caps raw : CapsOf raw (ins_all raw []).
Proof.
  split.
  - unfold ins_all, cap_insert. apply (assoc_fold_nodup str_eqb str_eqb_spec). constructor.
  - intros n v. unfold ins_all, cap_insert.
    rewrite <- (assoc_get_in str_eqb str_eqb_spec) by (apply (assoc_fold_nodup str_eqb str_eqb_spec); constructor).
    rewrite (assoc_get_fold str_eqb str_eqb_spec). cbn [assoc_get].
    destruct (lookup_last str_eqb raw n); split; congruence.
Qed.

Theorem matches_sound pat q m : pat <> [] -> matches pat q = Ok m -> MatchesCaps pat q m.
Proof.
  intros Hne H. rewrite matches_ref in H by assumption.
  destruct (match_ref pat (split_on slash q)) as [raw|] eqn:E; [|discriminate].
  inversion H; subst. exists raw. split; [now apply Matches_match_ref|apply ins_all_caps].
Qed.

Theorem matches_complete pat q raw : pat <> [] -> Matches pat (split_on slash q) raw ->
  exists m, matches pat q = Ok m /\ CapsOf raw m.
Proof.
  intros Hne H. apply Matches_match_ref in H. exists (ins_all raw []). split; [|apply ins_all_caps].
  rewrite matches_ref by assumption. now rewrite H.
Qed.

Theorem matches_none pat q : pat <> [] -> (matches pat q = Err <-> NoMatch pat q).
Proof.
  intros Hne. rewrite matches_ref by assumption. unfold NoMatch. split.
  - intros H raw Hm. apply Matches_match_ref in Hm. rewrite Hm in H. discriminate.
  - intros H. destruct (match_ref pat (split_on slash q)) as [raw|] eqn:E; [|reflexivity].
    exfalso. apply (H raw). now apply Matches_match_ref.
Qed.

Theorem matches_total pat q : pat <> [] -> (exists m, matches pat q = Ok m) \/ matches pat q = Err.
Proof.
  intros Hne. rewrite matches_ref by assumption. destruct (match_ref pat (split_on slash q)); eauto.
Qed.

(* two capture maps for the same captures have the same entries *)
Lemma CapsOf_same raw c1 c2 : CapsOf raw c1 -> CapsOf raw c2 -> forall n v, In (n, v) c1 <-> In (n, v) c2.
Proof. intros [_ H1] [_ H2] n v. rewrite H1, H2. tauto. Qed.

(* ================================================================= PathMatcher::get_match *)
Lemma get_match_in_spec order q :
  Forall (fun e => fst e <> []) order ->
  match get_match_in order q with
  | Ok (Some (c, h)) => exists p, In (p, h) order /\ matches p q = Ok c
  | Ok None => forall p h, In (p, h) order -> matches p q = Err
  | _ => False
  end.
Proof.
  induction order as [|[p h] r IH]; intros Hwf; cbn [get_match_in].
  - intros p h [].
  - inversion Hwf as [|? ? Hp Hr]; subst. cbn [fst] in Hp. specialize (IH Hr).
    destruct (matches_total p q Hp) as [[m Hm]|Hm]; rewrite Hm.
    + exists p. split; [left; reflexivity|assumption].
    + destruct (get_match_in r q) as [[[c h']|]| | | |]; try contradiction.
      * destruct IH as (p' & Hin & Hm'). exists p'. split; [right; assumption|assumption].
      * intros p' h' [Hin|Hin]; [inversion Hin; subst; assumption|eauto].
Qed.

(* ================================================================= routing table updates *)
Lemma WF_nil : WF [].
Proof. split; constructor. Qed.

Lemma route_insert_WF p h R : p <> [] -> WF R -> WF (route_insert p h R).
Proof.
  intros Hp [Hnd Hne]. split.
  - apply (assoc_insert_nodup pattern_eqb pattern_eqb_spec). assumption.
  - clear Hnd. induction R as [|[a b] r IH]; cbn [route_insert assoc_insert].
    + constructor; [assumption|constructor].
    + inversion Hne; subst. unfold route_insert in IH. destruct (pattern_eqb a p); constructor; auto.
Qed.

Lemma add_handler_WF s h R : WF R -> WF (add_handler s h R).
Proof. apply route_insert_WF. apply pattern_new_nonempty. Qed.

Lemma new_dispatches_eq ins :
  new_dispatches ins
  = fold_left (fun m kv => assoc_insert pattern_eqb (fst kv) (snd kv) m)
              (map (fun sh => (pattern_new (fst sh), snd sh)) ins) [].
Proof.
  unfold new_dispatches. generalize (@nil (pattern * N)).
  induction ins as [|[s h] r IH]; intros acc; cbn [fold_left map fst snd]; [reflexivity|].
  rewrite IH. reflexivity.
Qed.

Lemma new_dispatches_WF ins : WF (new_dispatches ins).
Proof.
  unfold new_dispatches. assert (H : WF []) by apply WF_nil. revert H. generalize (@nil (pattern * N)).
  induction ins as [|[s h] r IH]; intros acc Hacc; cbn [fold_left fst snd]; [assumption|].
  apply IH. unfold pm_insert. apply route_insert_WF; [apply pattern_new_nonempty|assumption].
Qed.

Lemma apply_new_WF R nd : WF R -> Forall (fun e => fst e <> []) nd -> WF (apply_new R nd).
Proof.
  unfold apply_new. revert R. induction nd as [|[k v] r IH]; intros R HR Hnd; cbn [fold_left fst snd]; [assumption|].
  inversion Hnd; subst. apply IH; [|assumption]. apply route_insert_WF; assumption.
Qed.

Lemma perm_WF R R' : Permutation R' R -> WF R -> WF R'.
Proof.
  intros HP [Hnd Hne]. split.
  - eapply Permutation_NoDup; [|exact Hnd]. apply Permutation_map. now apply Permutation_sym.
  - rewrite Forall_forall in *. intros e He. apply Hne. eapply Permutation_in; eauto.
Qed.

(* applying the (arbitrarily ordered) new routes of a successful handler gives RoutesAfter *)
Lemma apply_new_spec R ins nd' :
  WF R -> Permutation nd' (new_dispatches ins) -> RoutesAfter R ins (apply_new R nd').
Proof.
  intros HR HP. pose proof (new_dispatches_WF ins) as Hnd. pose proof (perm_WF _ _ HP Hnd) as Hnd'.
  unfold RoutesAfter. set (insP := map (fun sh => (pattern_new (fst sh), snd sh)) ins).
  assert (HndR : NoDup (map fst (apply_new R nd'))).
  { apply apply_new_WF; [assumption|apply Hnd']. }
  split; [exact HndR|]. intros p h.
  rewrite <- (assoc_get_in pattern_eqb pattern_eqb_spec) by exact HndR.
  unfold apply_new, route_insert. rewrite (assoc_get_fold pattern_eqb pattern_eqb_spec).
  (* the last entry for p in nd' is the entry of p in new_dispatches = the last request for p *)
  assert (Hkey : lookup_last pattern_eqb nd' p = lookup_last pattern_eqb insP p).
  { destruct (lookup_last pattern_eqb nd' p) as [w|] eqn:E.
    - apply (lookup_last_in pattern_eqb pattern_eqb_spec) in E; [|apply Hnd'].
      apply (Permutation_in _ HP) in E.
      apply (assoc_get_in pattern_eqb pattern_eqb_spec) in E; [|apply Hnd].
      rewrite new_dispatches_eq in E. fold insP in E.
      rewrite (assoc_get_fold pattern_eqb pattern_eqb_spec) in E. cbn [assoc_get] in E.
      destruct (lookup_last pattern_eqb insP p); congruence.
    - apply (lookup_last_none pattern_eqb pattern_eqb_spec) in E.
      destruct (lookup_last pattern_eqb insP p) as [w|] eqn:E2; [|reflexivity].
      exfalso. apply E.
      assert (Hg : assoc_get pattern_eqb p (new_dispatches ins) = Some w).
      { rewrite new_dispatches_eq. fold insP. rewrite (assoc_get_fold pattern_eqb pattern_eqb_spec), E2. reflexivity. }
      apply (assoc_get_in pattern_eqb pattern_eqb_spec) in Hg; [|apply Hnd].
      apply Permutation_sym in HP. apply (Permutation_in _ HP) in Hg.
      apply in_map_iff. exists (p, w). auto. }
  rewrite Hkey. destruct (lookup_last pattern_eqb insP p) as [w|].
  - split; [intros H; left; assumption|]. intros [H|[H _]]; [assumption|discriminate].
  - rewrite (assoc_get_in pattern_eqb pattern_eqb_spec) by apply HR. split; [auto|].
    intros [H|[_ H]]; [discriminate|assumption].
Qed.

(* ================================================================= DispatchConn::run *)
Section RunProofs.
  Variable oracle : nat -> handler_id -> caps -> msg -> hres * list (str * N).
  Variable perm perm_new : nat -> routes -> routes.
  Hypothesis perm_ok : forall i l, Permutation (perm i l) l.
  Hypothesis perm_new_ok : forall i l, Permutation (perm_new i l) l.

  Lemma select_chosen i R m : WF R ->
    exists who c, select perm i R m = Ok (who, c) /\ Chosen R m who c.
  Proof.
    intros HR. unfold select, Chosen. destruct (dh_object (m_dh m)) as [obj|]; [|eauto].
    pose proof (perm_WF _ _ (perm_ok i R) HR) as [_ Hne].
    pose proof (get_match_in_spec (perm i R) obj Hne) as H.
    destruct (get_match_in (perm i R) obj) as [[[c h]|]| | | |]; try contradiction.
    - destruct H as (p & Hin & Hm). exists (HRoute h), c. split; [reflexivity|]. left.
      exists p, h. split; [reflexivity|]. split.
      + eapply Permutation_in; [apply perm_ok|exact Hin].
      + apply matches_sound; [|assumption]. rewrite Forall_forall in Hne. apply (Hne (p, h) Hin).
    - exists HDefault, []. split; [reflexivity|]. right. split; [reflexivity|]. split; [reflexivity|].
      intros p h Hin. assert (Hin' : In (p, h) (perm i R)).
      { eapply Permutation_in; [apply Permutation_sym, perm_ok|exact Hin]. }
      apply matches_none; [|eauto]. rewrite Forall_forall in Hne. apply (Hne (p, h) Hin').
  Qed.

  Theorem run_loop_spec msgs : forall i R, WF R ->
    exists log wr Rf e, run_loop oracle perm perm_new i msgs R = Ok (log, wr, Rf, e)
                        /\ RunSpec oracle i R msgs log wr Rf e /\ WF Rf.
  Proof.
    induction msgs as [|m rest IH]; intros i R HR; cbn [run_loop].
    - exists [], [], R, EndRecv. split; [reflexivity|]. split; [constructor|assumption].
    - destruct (select_chosen i R m HR) as (who & c & Hsel & Hch). rewrite Hsel. cbn [bind].
      destruct (oracle i who c m) as [res ins] eqn:Hor.
      set (R1 := apply_new R (perm_new i (new_dispatches ins))).
      assert (HR1 : WF R1).
      { apply apply_new_WF; [assumption|]. apply (perm_WF _ _ (perm_new_ok i _) (new_dispatches_WF ins)). }
      assert (HRA : RoutesAfter R ins R1) by (apply apply_new_spec; [assumption|apply perm_new_ok]).
      destruct res as [hr| |]; cbn [hres_ok].
      + destruct (IH (S i) R1 HR1) as (log & wr & Rf & e & Hrun & Hspec & HWF). fold R1. rewrite Hrun. cbn [bind].
        exists (mkEvent who c m :: log), (hr :: wr), Rf, e. split; [reflexivity|]. split; [|assumption].
        apply (RS_ok oracle i R m rest who c (HSome hr) ins hr R1 log wr Rf e); auto. discriminate.
      + destruct (IH (S i) R1 HR1) as (log & wr & Rf & e & Hrun & Hspec & HWF). fold R1. rewrite Hrun. cbn [bind].
        exists (mkEvent who c m :: log), (make_response (m_dh m) :: wr), Rf, e. split; [reflexivity|]. split; [|assumption].
        apply (RS_ok oracle i R m rest who c HNone ins (make_response (m_dh m)) R1 log wr Rf e); auto; [discriminate|].
        apply make_response_empty_reply.
      + exists [mkEvent who c m], [], R, EndHandlerErr. split; [reflexivity|]. split; [|assumption].
        eapply RS_err; eauto.
  Qed.
End RunProofs.

(* ================================================================= consequences of the specification *)
(* "when exactly one pattern matches, that handler is the one called" *)
Lemma chosen_singleton R m who c obj p0 h0 :
  NoDup (map fst R) ->
  dh_object (m_dh m) = Some obj ->
  Chosen R m who c ->
  In (p0, h0) R -> ~ NoMatch p0 obj ->
  (forall p h, In (p, h) R -> ~ NoMatch p obj -> p = p0) ->
  who = HRoute h0 /\ MatchesCaps p0 obj c.
Proof.
  intros Hnd Hobj Hch Hin Hm Huniq. unfold Chosen in Hch. rewrite Hobj in Hch.
  destruct Hch as [(p & h & -> & Hin' & Hmc)|(-> & -> & Hno)].
  - assert (p = p0).
    { apply (Huniq p h Hin'). intros Hn. destruct Hmc as (raw & Hr & _). exact (Hn raw Hr). }
    subst p. assert (h = h0).
    { apply (assoc_get_in pattern_eqb pattern_eqb_spec) in Hin, Hin'; try assumption. congruence. }
    subst. auto.
  - exfalso. apply Hm. eapply Hno; eauto.
Qed.

Section RunFacts.
  Variable oracle : nat -> handler_id -> caps -> msg -> hres * list (str * N).

  (* one invocation per processed message, in arrival order; one written message per success;
     the run stops at the first failing handler and only there (or when the connection closes) *)
  Lemma runspec_counts i R msgs log wr Rf e :
    RunSpec oracle i R msgs log wr Rf e ->
    map ev_msg log = firstn (length log) msgs
    /\ match e with
       | EndRecv => length log = length msgs /\ length wr = length msgs
       | EndHandlerErr => length log = S (length wr) /\ (length log <= length msgs)%nat
       end.
  Proof.
    induction 1 as [i R|i R m rest who c res ins r R1 log wr Rf e Hch Hor Hne Hw HRA Hrun IH|i R m rest who c ins Hch Hor].
    - split; [reflexivity|split; reflexivity].
    - destruct IH as [IH1 IH2]. cbn [map length firstn ev_msg]. split; [now rewrite IH1|].
      destruct e; cbn [length]; lia.
    - cbn. split; [reflexivity|]. split; [reflexivity|lia].
  Qed.

  (* every written message answers the call at the same position of the log: it is the handler's
     message or the empty reply to that call *)
  Lemma runspec_replies i R msgs log wr Rf e :
    RunSpec oracle i R msgs log wr Rf e ->
    Forall2 (fun ev r => exists j res ins, oracle j (ev_handler ev) (ev_caps ev) (ev_msg ev) = (res, ins)
                          /\ match res with HSome hr => r = hr | HNone => EmptyReplyTo (ev_msg ev) r | HErr => False end)
            (firstn (length wr) log) wr.
  Proof.
    induction 1 as [i R|i R m rest who c res ins r R1 log wr Rf e Hch Hor Hne Hw HRA Hrun IH|i R m rest who c ins Hch Hor].
    - constructor.
    - cbn [length firstn]. constructor; [|assumption]. exists i, res, ins. cbn [ev_handler ev_caps ev_msg].
      split; [assumption|]. destruct res; auto.
    - constructor.
  Qed.
End RunFacts.
