(** The part of a message that dispatching and the Peer interface look at.
    Mirrors rustbus/src/message_builder.rs: [MessageType], [DynamicHeader], [MarshalledMessage]
    (the body is kept abstractly as the list of string parameters pushed into it, which is all
    C19/C20 ever put there) and [DynamicHeader::make_response].  Strings are byte lists. *)
From RB Require Import Base.Prelude.

Definition str := list N.

(* ---------------------------------------------------------------- equality on strings *)
Fixpoint list_eqb {A} (eqb : A -> A -> bool) (a b : list A) : bool :=
  match a, b with
  | [], [] => true
  | x :: a', y :: b' => eqb x y && list_eqb eqb a' b'
  | _, _ => false
  end.

Lemma list_eqb_spec {A} (eqb : A -> A -> bool) :
  (forall x y, eqb x y = true <-> x = y) -> forall a b, list_eqb eqb a b = true <-> a = b.
Proof.
  intros He. induction a as [|x a IH]; destruct b as [|y b]; cbn [list_eqb]; try (split; [discriminate|discriminate]).
  - split; reflexivity.
  - rewrite andb_true_iff, He, IH. split.
    + intros [-> ->]. reflexivity.
    + intros H. inversion H. auto.
Qed.

(* String == / str::eq *)
Definition str_eqb (a b : str) : bool := list_eqb N.eqb a b.
Lemma str_eqb_spec a b : str_eqb a b = true <-> a = b.
Proof. apply list_eqb_spec. intros x y. apply N.eqb_eq. Qed.
Lemma str_eqb_refl a : str_eqb a a = true.
Proof. now apply str_eqb_spec. Qed.
Lemma str_eqb_neq a b : a <> b -> str_eqb a b = false.
Proof. intros H. destruct (str_eqb a b) eqn:E; [|reflexivity]. apply str_eqb_spec in E. contradiction. Qed.

(* ---------------------------------------------------------------- message_builder.rs *)
(* enum MessageType *)
Inductive msgtype := MSignal | MError | MCall | MReply | MInvalid.

(* struct DynamicHeader (serials are NonZeroU32 values, kept as numbers) *)
Record dynheader := mkDH {
  dh_interface : option str;
  dh_member : option str;
  dh_object : option str;
  dh_destination : option str;
  dh_serial : option N;
  dh_sender : option str;
  dh_signature : option str;
  dh_error_name : option str;
  dh_response_serial : option N;
  dh_num_fds : option N }.

(* struct MarshalledMessage; [m_body] = the string parameters pushed into the body *)
Record msg := mkMsg { m_typ : msgtype; m_dh : dynheader; m_flags : N; m_body : list str }.

(* DynamicHeader::make_response *)
Definition make_response (h : dynheader) : msg :=
  {| m_typ := MReply;
     m_dh := {| dh_interface := None; dh_member := None; dh_object := None;
                dh_destination := dh_sender h;
                dh_serial := None; dh_sender := None; dh_signature := None; dh_error_name := None;
                dh_response_serial := dh_serial h;
                dh_num_fds := None |};
     m_flags := 0;
     m_body := [] |}.

(* body.push_param(s) for a string s that the marshaller accepts *)
Definition push_str (s : str) (m : msg) : msg :=
  {| m_typ := m_typ m; m_dh := m_dh m; m_flags := m_flags m; m_body := m_body m ++ [s] |}.

(* ---------------------------------------------------------------- specification side *)
(** "a reply carrying the call's serial and addressed to its sender" *)
Definition ReplyTo (call r : msg) : Prop :=
  m_typ r = MReply
  /\ dh_response_serial (m_dh r) = dh_serial (m_dh call)
  /\ dh_destination (m_dh r) = dh_sender (m_dh call).

(** "an empty one": nothing but type, reply serial and destination *)
Definition EmptyReplyTo (call r : msg) : Prop :=
  ReplyTo call r /\ m_body r = [] /\ m_flags r = 0
  /\ dh_interface (m_dh r) = None /\ dh_member (m_dh r) = None /\ dh_object (m_dh r) = None
  /\ dh_serial (m_dh r) = None /\ dh_sender (m_dh r) = None /\ dh_signature (m_dh r) = None
  /\ dh_error_name (m_dh r) = None /\ dh_num_fds (m_dh r) = None.

Lemma make_response_empty_reply call : EmptyReplyTo call (make_response (m_dh call)).
Proof. unfold EmptyReplyTo, ReplyTo, make_response; cbn. intuition. Qed.

Lemma push_str_reply call s r : ReplyTo call r -> ReplyTo call (push_str s r).
Proof. unfold ReplyTo, push_str; cbn. auto. Qed.
