(** Model of rustbus/src/peer/peer_handling.rs, clause by clause: filter_peer,
    create_and_store_machine_uuid, get_machine_id, handle_peer_message, and of the formatting
    machinery of `format!("{:016X}{:08X}{:08X}", ..)` (core::fmt upper-case hex of an unsigned
    integer, zero-padded to a MINIMUM width).

    Environment made explicit: the 12 bytes read from /dev/urandom, the clock (seconds since the
    epoch), the name of the private temporary file, the outcomes of std::fs::write / hard_link /
    remove_file, and the file system as a partial map path -> bytes (returned after every call,
    also after a failed or panicking one). *)
From RB Require Import Base.Prelude Conn.DispatchMsg.

(* "org.freedesktop.DBus.Peer", "Ping", "GetMachineId", MACHINE_ID_FILE_PATH = "/tmp/dbus_machine_uuid" *)
Definition peer_iface : str :=
  [111;114;103;46;102;114;101;101;100;101;115;107;116;111;112;46;68;66;117;115;46;80;101;101;114].
Definition ping_name : str := [80;105;110;103].
Definition get_machine_id_name : str := [71;101;116;77;97;99;104;105;110;101;73;100].
Definition machine_id_path : str :=
  [47;116;109;112;47;100;98;117;115;95;109;97;99;104;105;110;101;95;117;117;105;100].

(* pub fn filter_peer(msg: &DynamicHeader) -> bool *)
Definition filter_peer (h : dynheader) : bool :=
  match dh_interface h with
  | Some interface =>
      if str_eqb interface peer_iface then
        match dh_member h with
        | Some member => str_eqb member ping_name || str_eqb member get_machine_id_name
        | None => false
        end
      else false
  | None => false
  end.

(* ---------------------------------------------------------------- core::fmt, {:0wX} *)
(* digit -> b'0'..b'9' | b'A'..b'F' *)
Definition hex_char (d : N) : N := if d <? 10 then 48 + d else 55 + d.

(* impl UpperHex: loop { d = x % 16; x /= 16; buf[curr] = digit(d); if x == 0 { break } } ; digits
   come out least significant first and are stored back to front *)
Fixpoint hex_loop (fuel : nat) (x : N) (acc : list N) : list N :=
  match fuel with
  | O => acc
  | S f => let acc' := hex_char (x mod 16) :: acc in
           if x / 16 =? 0 then acc' else hex_loop f (x / 16) acc'
  end.
Definition hex_digits (x : N) : list N := hex_loop (S (N.to_nat (N.log2 x))) x [].

(* Formatter::pad_integral with the `0` flag: the width is a minimum; longer numbers are not cut *)
Definition hex_min (w : N) (x : N) : list N :=
  let d := hex_digits x in repeat 48 (N.to_nat (w - len d)) ++ d.

(* format!("{:016X}{:08X}{:08X}", rand1, rand2, secs) *)
Definition format_uuid (rand1 rand2 secs : N) : str :=
  hex_min 16 rand1 ++ hex_min 8 rand2 ++ hex_min 8 secs.

(* ---------------------------------------------------------------- create_and_store_machine_uuid *)
Definition byte_at (rand : list N) (i : nat) : N := nth i rand 0.

(* let rand1 = rand[0] as u64 | ((rand[1] as u64) << 8) | ... | ((rand[7] as u64) << 56); *)
Definition rand1_of (rand : list N) : N :=
  N.lor (N.lor (N.lor (N.lor (N.lor (N.lor (N.lor
    (byte_at rand 0)
    (N.shiftl (byte_at rand 1) 8))
    (N.shiftl (byte_at rand 2) 16))
    (N.shiftl (byte_at rand 3) 24))
    (N.shiftl (byte_at rand 4) 32))
    (N.shiftl (byte_at rand 5) 40))
    (N.shiftl (byte_at rand 6) 48))
    (N.shiftl (byte_at rand 7) 56).

(* let rand2 = rand[8] as u32 | ((rand[9] as u32) << 8) | ((rand[1] as u32) << 16) | ((rand[11] as u32) << 24);
   (rand[1], not rand[10]: as in the source) *)
Definition rand2_of (rand : list N) : N :=
  N.lor (N.lor (N.lor
    (byte_at rand 8)
    (N.shiftl (byte_at rand 9) 8))
    (N.shiftl (byte_at rand 1) 16))
    (N.shiftl (byte_at rand 11) 24).

Definition fs := str -> option (list N).
Definition fs_write (path : str) (data : list N) (f : fs) : fs :=
  fun p => if str_eqb p path then Some data else f p.
Definition fs_remove (path : str) (f : fs) : fs :=
  fun p => if str_eqb p path then None else f p.

(* what std::fs::write (create + truncate + write) does: it completes, or it fails leaving the path as
   it was (could not be created) or holding [left] (created/truncated, then the write failed: ENOSPC) *)
Inductive wres := WriteDone | WriteFailed (left : option (list N)).
(* whether std::fs::hard_link can succeed when the target does not exist *)
Inductive lres := LinkDone | LinkFailed.

Record env := mkEnv {
  e_now : N;              (* SystemTime::now().duration_since(UNIX_EPOCH).as_secs() *)
  e_rand : list N;        (* the 12 bytes read_exact delivers from /dev/urandom *)
  e_tmp_tag : str;        (* the text "<pid>.<counter>" of the private temporary file *)
  e_write : wres;         (* outcome of std::fs::write(tmp_path, uuid) *)
  e_link : lres;          (* outcome of std::fs::hard_link(tmp_path, PATH) when PATH does not exist *)
  e_remove_ok : bool }.   (* std::fs::remove_file(tmp_path) succeeds (its result is ignored) *)

(* format!("{}.{}.{}.tmp", MACHINE_ID_FILE_PATH, process::id(), TMP_COUNTER.fetch_add(1)) *)
Definition tmp_path (e : env) : str := machine_id_path ++ 46 :: e_tmp_tag e ++ [46;116;109;112].

(* std::fs::write(path, data) *)
Definition do_write (w : wres) (path : str) (data : list N) (f : fs) : bool * fs :=
  match w with
  | WriteDone => (true, fs_write path data f)
  | WriteFailed None => (false, f)
  | WriteFailed (Some junk) => (false, fs_write path junk f)
  end.

(* std::fs::hard_link(src, dst): fails with AlreadyExists when dst exists, whatever else holds *)
Inductive link_result := LOk | LExists | LOther.
Definition do_link (l : lres) (src dst : str) (f : fs) : link_result * fs :=
  match f dst with
  | Some _ => (LExists, f)
  | None => match l, f src with
            | LinkDone, Some c => (LOk, fs_write dst c f)
            | _, _ => (LOther, f)
            end
  end.

(* fn create_and_store_machine_uuid() -> Result<(), io::Error>; the file system afterwards is returned
   in every case (Ok tt = Ok(()), Err = Err(io error), Panic = an unwrap/debug_assert fired) *)
Definition create_and_store_machine_uuid (e : env) (f : fs) : outcome unit * fs :=
  let secs := e_now e mod 2 ^ 32 in                         (* as_secs() as u32 *)
  if negb (len (e_rand e) =? 12) then (Panic, f)            (* read_exact(..).unwrap() *)
  else
    let uuid := format_uuid (rand1_of (e_rand e)) (rand2_of (e_rand e)) secs in
    if negb (len uuid =? 32) then (Panic, f)                (* debug_assert_eq!(32, uuid.chars().count()) *)
    else
      (* let res = fs::write(&tmp_path, uuid).and_then(|_| match fs::hard_link(&tmp_path, PATH) {
             Err(e) if e.kind() == AlreadyExists => Ok(()), other => other }); *)
      let (wok, f1) := do_write (e_write e) (tmp_path e) uuid f in
      let (res, f2) :=
        if wok then
          match do_link (e_link e) (tmp_path e) machine_id_path f1 with
          | (LOk, f') => (Ok tt, f')
          | (LExists, f') => (Ok tt, f')
          | (LOther, f') => (Err, f')
          end
        else (Err, f1) in
      (* let _ = fs::remove_file(&tmp_path); res *)
      (res, if e_remove_ok e then fs_remove (tmp_path e) f2 else f2).

Definition is_call (t : msgtype) : bool := match t with MCall => true | _ => false end.

Section WithUtf8.
  (* std::str::from_utf8 as a predicate (Section 4 of DESIGN.md); only ASCII validity is used *)
  Variable utf8_valid : list N -> bool.

  (* fn get_machine_id() -> Result<String, io::Error>, with the file system afterwards *)
  Definition get_machine_id (e : env) (f : fs) : outcome str * fs :=
    let (r, f1) := match f machine_id_path with        (* if !PathBuf::from(PATH).exists() *)
                   | None => create_and_store_machine_uuid e f
                   | Some _ => (Ok tt, f)
                   end in
    match r with
    | Ok _ =>
        match f1 machine_id_path with                 (* std::fs::read(PATH) *)
        | None => (Err, f1)
        | Some vec => if utf8_valid vec then (Ok vec, f1) else (Panic, f1)   (* String::from_utf8(vec).unwrap() *)
        end
    | Err => (Err, f1)                                (* create_and_store_machine_uuid()? *)
    | _ => (Panic, f1)
    end.

  (* pub fn handle_peer_message(msg, con) -> Result<bool, Error>: (handled, what was written to the
     connection), and the file system afterwards in every case.  Sending is assumed to succeed. *)
  Definition handle_peer_message (e : env) (f : fs) (m : msg) : outcome (bool * list msg) * fs :=
    (* if !matches!(msg.typ, MessageType::Call) { return Ok(false); } *)
    if negb (is_call (m_typ m)) then (Ok (false, []), f) else
    match dh_interface (m_dh m) with
    | Some interface =>
        if str_eqb interface peer_iface then
          match dh_member (m_dh m) with
          | Some member =>
              if str_eqb member ping_name then
                (Ok (true, [make_response (m_dh m)]), f)
              else if str_eqb member get_machine_id_name then
                match get_machine_id e f with
                | (Ok id, f1) =>
                    if existsb (N.eqb 0) id then (Panic, f1)   (* push_param(..).unwrap(): NUL is refused *)
                    else (Ok (true, [push_str id (make_response (m_dh m))]), f1)
                | (_, f1) => (Panic, f1)                       (* get_machine_id().unwrap() *)
                end
              else (Ok (false, []), f)
          | None => (Ok (false, []), f)
          end
        else (Ok (false, []), f)
    | None => (Ok (false, []), f)
    end.
End WithUtf8.

(* the instance used when the model is run: ASCII strings are UTF-8 *)
Definition ascii_only (l : list N) : bool := forallb (fun c => c <? 128) l.
