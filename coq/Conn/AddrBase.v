(** Shared small definitions for the connection-setup models (C17): ASCII literals as byte lists,
    byte-string equality, [str::starts_with], [str::split_once], [str::split] and the model of
    [std::str::from_utf8(..).is_ok()] (Unicode 15 table 3-7, "well-formed UTF-8 byte sequences";
    modelled, cross-checked against the real function by the harness, see DESIGN.md section 4). *)
From RB Require Import Base.Prelude.
From Coq Require Import String Ascii.

(* a Rust string literal as its UTF-8 bytes (ASCII only here) *)
Definition s2b (s : string) : list N := map N_of_ascii (list_ascii_of_string s).

(* == on byte strings *)
Fixpoint bytes_eqb (a b : list N) : bool :=
  match a, b with
  | [], [] => true
  | x :: a', y :: b' => (x =? y) && bytes_eqb a' b'
  | _, _ => false
  end.
Lemma bytes_eqb_spec a b : bytes_eqb a b = true <-> a = b.
Proof.
  revert b; induction a as [|x a IH]; intros [|y b]; cbn [bytes_eqb]; try (split; congruence).
  rewrite andb_true_iff, N.eqb_eq, IH. split; [intros [-> ->]; reflexivity|intros E; inversion E; auto].
Qed.
Lemma bytes_eqb_refl a : bytes_eqb a a = true.
Proof. now apply bytes_eqb_spec. Qed.
Lemma bytes_eqb_neq a b : a <> b -> bytes_eqb a b = false.
Proof. intros H. destruct (bytes_eqb a b) eqn:E; [apply bytes_eqb_spec in E; contradiction|reflexivity]. Qed.

(* str::starts_with(prefix) *)
Fixpoint starts_with (pfx s : list N) : bool :=
  match pfx, s with
  | [], _ => true
  | x :: p', y :: s' => (x =? y) && starts_with p' s'
  | _ :: _, [] => false
  end.
Lemma starts_with_spec pfx s : starts_with pfx s = true <-> exists rest, s = pfx ++ rest.
Proof.
  revert s; induction pfx as [|x p IH]; intros s; cbn [starts_with].
  - split; [intros _; now exists s|auto].
  - destruct s as [|y s].
    + split; [discriminate|intros [r E]; discriminate].
    + rewrite andb_true_iff, N.eqb_eq, IH. split.
      * intros [-> [r ->]]. now exists r.
      * intros [r E]. cbn in E. inversion E; subst. split; [reflexivity|now exists r].
Qed.

(* str::split_once(c): at the FIRST occurrence of c *)
Fixpoint split_once (c : N) (s : list N) : option (list N * list N) :=
  match s with
  | [] => None
  | x :: r =>
      if x =? c then Some ([], r)
      else match split_once c r with
           | Some (a, b) => Some (x :: a, b)
           | None => None
           end
  end.

(* str::split(c): the pieces between the separators; never empty (""  gives [""]) *)
Fixpoint split (c : N) (s : list N) : list (list N) :=
  match s with
  | [] => [[]]
  | x :: r =>
      if x =? c then [] :: split c r
      else match split c r with
           | p :: ps => (x :: p) :: ps
           | [] => [[x]]
           end
  end.

Lemma split_once_some c s a b : split_once c s = Some (a, b) <-> (s = a ++ c :: b /\ ~ In c a).
Proof.
  revert a; induction s as [|x r IH]; intros a; cbn [split_once].
  - split; [discriminate|]. intros [E _]. destruct a; discriminate.
  - destruct (N.eqb_spec x c) as [->|Hne].
    + split.
      * intros E; inversion E; subst. split; [reflexivity|intros []].
      * intros [E Hn]. destruct a as [|y a]; cbn in E; inversion E; subst; [reflexivity|].
        exfalso; apply Hn; now left.
    + destruct (split_once c r) as [[a' b']|] eqn:E'.
      * split.
        -- intros E; inversion E; subst. destruct (proj1 (IH a') eq_refl) as [-> Hn].
           split; [reflexivity|]. intros [H|H]; [congruence|contradiction].
        -- intros [E Hn]. destruct a as [|y a]; cbn in E; inversion E; subst; [congruence|].
           assert (H : Some (a', b') = Some (a, b)).
           { apply IH. split; [reflexivity|]. intros H; apply Hn; now right. }
           inversion H; subst; reflexivity.
      * split; [discriminate|]. intros [E Hn]. destruct a as [|y a]; cbn in E; inversion E; subst; [congruence|].
        assert (H : None = Some (a, b)).
        { apply IH. split; [reflexivity|]. intros H; apply Hn; now right. }
        discriminate.
Qed.
Lemma split_once_none c s : split_once c s = None <-> ~ In c s.
Proof.
  induction s as [|x r IH]; cbn [split_once].
  - split; [intros _ []|reflexivity].
  - destruct (N.eqb_spec x c) as [->|Hne].
    + split; [discriminate|]. intros H; exfalso; apply H; now left.
    + destruct (split_once c r) as [[a b]|].
      * split; [discriminate|]. intros H. assert (H' : ~ In c r) by (intros Hin; apply H; now right).
        apply IH in H'. discriminate.
      * split; [|reflexivity]. intros _ [H|H]; [congruence|]. now apply (proj1 IH).
Qed.

Lemma split_not_nil c s : split c s <> [].
Proof. destruct s as [|x r]; cbn [split]; [discriminate|]. destruct (x =? c); [discriminate|]. destruct (split c r); discriminate. Qed.
Lemma split_no_sep c s : ~ In c s -> split c s = [s].
Proof.
  induction s as [|x r IH]; intros H; cbn [split]; [reflexivity|].
  destruct (N.eqb_spec x c) as [->|Hne]; [exfalso; apply H; now left|].
  rewrite IH; [reflexivity|]. intros Hin; apply H; now right.
Qed.
Lemma split_app c a b : ~ In c a -> split c (a ++ c :: b) = a :: split c b.
Proof.
  induction a as [|x a IH]; intros H; cbn [split app].
  - now rewrite N.eqb_refl.
  - destruct (N.eqb_spec x c) as [->|Hne]; [exfalso; apply H; now left|].
    rewrite IH; [reflexivity|]. intros Hin; apply H; now right.
Qed.

(* joining pieces with a separator: the inverse of split *)
Fixpoint join (c : N) (ps : list (list N)) : list N :=
  match ps with
  | [] => []
  | [p] => p
  | p :: rest => p ++ c :: join c rest
  end.
Lemma join_cons c p q ps : join c (p :: q :: ps) = p ++ c :: join c (q :: ps).
Proof. reflexivity. Qed.
Lemma split_join c s : join c (split c s) = s /\ Forall (fun p => ~ In c p) (split c s).
Proof.
  induction s as [|x r IH]; cbn [split].
  - split; [reflexivity|]. constructor; [intros []|constructor].
  - destruct IH as [IH1 IH2]. destruct (N.eqb_spec x c) as [->|Hne].
    + pose proof (split_not_nil c r) as Hnn. destruct (split c r) as [|q qs] eqn:E; [congruence|].
      rewrite join_cons, IH1. split; [reflexivity|]. constructor; [intros []|assumption].
    + pose proof (split_not_nil c r) as Hnn. destruct (split c r) as [|q qs] eqn:E; [congruence|].
      pose proof (Forall_inv IH2) as Hq. pose proof (Forall_inv_tail IH2) as Hqs. cbv beta in Hq. split.
      * destruct qs as [|q2 qs]; cbn [join] in *; [now rewrite IH1|]. cbn [app]. now rewrite IH1.
      * constructor; [|assumption]. intros [H|H]; [congruence|contradiction].
Qed.

(* ------------------------------------------------------------------------------------------
   std::str::from_utf8(bytes).is_ok() *)
Definition inr (lo hi b : N) : bool := (lo <=? b) && (b <=? hi).
Definition cont (b : N) : bool := inr 128 191 b.

Fixpoint utf8_valid (l : list N) : bool :=
  match l with
  | [] => true
  | b0 :: r0 =>
      if b0 <? 128 then utf8_valid r0
      else if inr 194 223 b0 then
        match r0 with b1 :: r1 => cont b1 && utf8_valid r1 | _ => false end
      else if inr 224 239 b0 then
        match r0 with
        | b1 :: b2 :: r2 =>
            (if b0 =? 224 then inr 160 191 b1 else if b0 =? 237 then inr 128 159 b1 else cont b1)
            && cont b2 && utf8_valid r2
        | _ => false
        end
      else if inr 240 244 b0 then
        match r0 with
        | b1 :: b2 :: b3 :: r3 =>
            (if b0 =? 240 then inr 144 191 b1 else if b0 =? 244 then inr 128 143 b1 else cont b1)
            && cont b2 && cont b3 && utf8_valid r3
        | _ => false
        end
      else false
  end.

Lemma utf8_valid_ascii l : Forall (fun b => b < 128) l -> utf8_valid l = true.
Proof.
  induction 1 as [|b l Hb Hl IH]; cbn [utf8_valid]; [reflexivity|].
  destruct (N.ltb_spec b 128) as [_|H]; [exact IH|lia].
Qed.
