(** Non-vacuity for C17: the models compute on concrete inputs, and the hypotheses of the theorems in
    Conn/AddrProofs.v and Conn/AuthProofs.v are satisfiable. *)
From RB Require Import Base.Prelude Conn.AddrBase Conn.Addr Conn.AddrProofs Conn.Auth Conn.AuthProofs.
From Coq Require String.

Module Ex.
Import String.
Definition b (s : string) : list N := s2b s.

(* ---------------------------------------------------------------- addresses *)
Definition only (p : list N) : list N -> bool := fun q => bytes_eqb p q.

Example addr_path : parse_dbus_addr_str (only (b "/run/user/1000/bus")) (b "unix:path=/run/user/1000/bus,guid=0123abcd")
                    = Ok (Path (b "/run/user/1000/bus")).
Proof. vm_compute. reflexivity. Qed.
Example addr_path_missing : parse_dbus_addr_str (fun _ => false) (b "unix:path=/run/user/1000/bus") = Err.
Proof. vm_compute. reflexivity. Qed.
Example addr_abstract_after_keys : parse_dbus_addr_str (fun _ => false) (b "unix:guid=1,x=,abstract=/tmp/dbus-XYZ,=v,y=a=b:c")
                    = Ok (Abstract (b "/tmp/dbus-XYZ")).
Proof. vm_compute. reflexivity. Qed.
Example addr_errors :
  map (parse_dbus_addr_str (fun _ => true))
      [b ""; b "unix"; b "tcp:host=localhost,port=4"; b "unix:"; b "unix:guid=1"; b "unix:guid,path=/p"; b "Unix:path=/p";
       b "unix:path"; b " unix:path=/p"; b "unix: path=/p"]
  = [Err; Err; Err; Err; Err; Err; Err; Err; Err; Err].
Proof. vm_compute. reflexivity. Qed.
(* strings the parser used to accept and the property excludes: a piece without '=' after the socket pair,
   two socket keys, an empty socket value, a ';' (address list), a trailing comma *)
Example addr_formerly_lax :
  map (parse_dbus_addr_str (fun _ => true))
      [b "unix:abstract=k,garbage"; b "unix:path=sock,garbage"; b "unix:path=/a,abstract=b"; b "unix:abstract=b,path=/a";
       b "unix:path=/a,path=/a"; b "unix:abstract="; b "unix:path="; b "unix:abstract=a;tcp:host=h"; b "unix:path=/a;unix:path=/a";
       b "unix:guid=1;2,path=/a"; b "unix:path=/a,"]
  = [Err; Err; Err; Err; Err; Err; Err; Err; Err; Err; Err].
Proof. vm_compute. reflexivity. Qed.
(* still literal: '=' and ':' inside a value, percent signs *)
Example addr_literal_values :
  map (parse_dbus_addr_str (only (b "/a%20b")))
      [b "unix:abstract=a=b:c"; b "unix:path=/a%20b"; b "unix:path=/a b"]
  = [Ok (Abstract (b "a=b:c")); Ok (Path (b "/a%20b")); Err].
Proof. vm_compute. reflexivity. Qed.
(* sun_path has 108 bytes *)
Example addr_too_long :
  (parse_dbus_addr_str (fun _ => true) (b "unix:abstract=" ++ repeat 97 107),
   parse_dbus_addr_str (fun _ => true) (b "unix:abstract=" ++ repeat 97 108),
   parse_dbus_addr_str (fun _ => true) (b "unix:path=" ++ repeat 97 108))
  = (Ok (Abstract (repeat 97 107)), Err, Err).
Proof. vm_compute. reflexivity. Qed.
Example session_env : (get_session_bus_path (fun _ => true) None, get_session_bus_path (fun _ => true) (Some (b "unix:path=/x" ++ [255])),
                       get_session_bus_path (fun _ => true) (Some (b "unix:path=/x")))
                      = (Err, Err, Ok (Path (b "/x"))).
Proof. vm_compute. reflexivity. Qed.

(* the hypotheses of addr_path_resolves / addr_grammar are satisfiable *)
Example addr_theorem_instance :
  parse_dbus_addr_str (only (b "/p")) (unix_address ([(b "guid", b "1"); (b "x y", b "")] ++ (PATH, b "/p") :: [(b "z", b "k")]))
  = target (only (b "/p")) true (b "/p").
Proof.
  apply addr_path_resolves.
  - repeat constructor; cbv; intuition discriminate.
  - repeat constructor; cbv; intuition discriminate.
  - repeat constructor; cbv; intuition discriminate.
  - discriminate.
Qed.
Example addr_grammar_instance : addr_grammar (b "unix:guid=1,abstract=k") false (b "k").
Proof.
  exists [(b "guid", b "1"); (ABSTRACT, b "k")]. split; [reflexivity|]. split; [|split; [reflexivity|discriminate]].
  repeat constructor; cbv; intuition discriminate.
Qed.
Example addr_not_grammar : forall is_path v, ~ addr_grammar (b "unix:abstract=k,garbage") is_path v.
Proof.
  intros is_path v Hg. apply parse_pre_grammar in Hg.
  assert (E : parse_pre (b "unix:abstract=k,garbage") = PErr) by (vm_compute; reflexivity).
  rewrite E in Hg. destruct is_path; discriminate.
Qed.

(* ---------------------------------------------------------------- uid *)
Example uid_hex : (get_uid_as_hex 0, get_uid_as_hex 1000, get_uid_as_hex 4294967295)
                  = (Ok (b "30"), Ok (b "31303030"), Ok (b "34323934393637323935")).
Proof. vm_compute. reflexivity. Qed.
Example uid_decimal : decimal_of 1000 [1; 0; 0; 0] /\ hex_of_digits [1; 0; 0; 0] = b "31303030".
Proof. split; [|reflexivity]. repeat split; try reflexivity; [repeat constructor|right; exists 1, [0; 0; 0]; split; [reflexivity|discriminate]]. Qed.

(* ---------------------------------------------------------------- handshakes *)
Definition quiet : step := {| chunks := []; closes := false |}.
Definition say (cs : list (list N)) : step := {| chunks := cs; closes := false |}.
Definition say_close (cs : list (list N)) : step := {| chunks := cs; closes := true |}.
Definition run uid fd scr := let (res, s) := connect_to_bus uid fd scr in (res, sent (log s), unread s).
Definition full (hex : string) (fd : bool) := expected_bytes (b hex) fd.

(* which replies accept (specification) and what the code's test says: the same *)
Example accepts_ex :
  map (accepts OK_) [b "OK"; b "OK 1234deadbeef"; b "OK  x"; b "OK "; b "OKAY"; b "OKfoo"; b "OK" ++ [9] ++ b "x"; b "ok"; b " OK"; b "O"; b ""]
  = [true; true; true; true; false; false; false; false; false; false; false]
  /\ map (fun l => is_command l OK_) [b "OK"; b "OK 1234deadbeef"; b "OK  x"; b "OK "; b "OKAY"; b "OKfoo"; b "OK" ++ [9] ++ b "x"; b "ok"; b " OK"; b "O"; b ""]
  = [true; true; true; true; false; false; false; false; false; false; false]
  /\ map (accepts AGREE_UNIX_FD) [b "AGREE_UNIX_FD"; b "AGREE_UNIX_FD extra"; b "AGREE_UNIX_FDX"; b "AGREE_UNIX_F"; b "agree_unix_fd"]
  = [true; true; false; false; false].
Proof. vm_compute. auto. Qed.
Example hs_okay_rejected : run 0 false {| greeting := quiet; replies := [say [b "OKAY" ++ CRLF]] |}
                           = (CAuthFailed, [0] ++ b "AUTH EXTERNAL 30" ++ CRLF, []).
Proof. vm_compute. reflexivity. Qed.
Example hs_agree_x_rejected : run 0 true {| greeting := quiet; replies := [say [b "OK" ++ CRLF]; say [b "AGREE_UNIX_FDX" ++ CRLF]] |}
                           = (CFdFailed, [0] ++ b "AUTH EXTERNAL 30" ++ CRLF ++ b "NEGOTIATE_UNIX_FD" ++ CRLF, []).
Proof. vm_compute. reflexivity. Qed.

(* a well-behaved server, reply split over three reads *)
Example hs_ok : run 1000 true {| greeting := quiet; replies := [say [b "O"; b "K 1234"; [13]; [10]]; say [b "AGREE_UNIX_FD" ++ CRLF]; quiet] |}
                = (COk, full "31303030" true, []).
Proof. vm_compute. reflexivity. Qed.
Example hs_ok_bytes : full "31303030" true
  = [0] ++ b "AUTH EXTERNAL 31303030" ++ CRLF ++ b "NEGOTIATE_UNIX_FD" ++ CRLF ++ b "BEGIN" ++ CRLF.
Proof. vm_compute. reflexivity. Qed.
Example hs_rejected : run 0 false {| greeting := quiet; replies := [say [b "REJECTED EXTERNAL" ++ CRLF]] |}
                      = (CAuthFailed, [0] ++ b "AUTH EXTERNAL 30" ++ CRLF, []).
Proof. vm_compute. reflexivity. Qed.
Example hs_fd_refused : run 0 true {| greeting := quiet; replies := [say [b "OK x" ++ CRLF]; say [b "ERROR" ++ CRLF]] |}
                      = (CFdFailed, [0] ++ b "AUTH EXTERNAL 30" ++ CRLF ++ b "NEGOTIATE_UNIX_FD" ++ CRLF, []).
Proof. vm_compute. reflexivity. Qed.
(* the server closes in the middle of its reply: an error, not a spin (pinned tree: spun forever) *)
Example hs_eof : run 0 false {| greeting := quiet; replies := [say_close [b "OK 12"]] |}
                 = (CErr, [0] ++ b "AUTH EXTERNAL 30" ++ CRLF, []).
Proof. vm_compute. reflexivity. Qed.
(* a reply that is not UTF-8: an error, not a panic (pinned tree: unwrap panicked) *)
Example hs_not_utf8 : run 0 false {| greeting := quiet; replies := [say [[255; 254; 13; 10]]] |}
                      = (CErr, [0] ++ b "AUTH EXTERNAL 30" ++ CRLF, []).
Proof. vm_compute. reflexivity. Qed.
(* the server closed before anything was written *)
Example hs_no_peer : run 0 false {| greeting := say_close []; replies := [] |} = (CErr, [], []).
Proof. vm_compute. reflexivity. Qed.
(* a silent server with the socket open: the client waits in read() - the only way not to get a result *)
Example hs_blocked : run 0 false {| greeting := quiet; replies := [say [b "OK"]] |}
                     = (CBlocked, [0] ++ b "AUTH EXTERNAL 30" ++ CRLF, []).
Proof. vm_compute. reflexivity. Qed.
(* a pipelining server: the second line travels in the same read as the first and is dropped with
   read_message's local buffer; the client then waits for an answer that was already sent *)
Example hs_pipelined_lost : run 0 true {| greeting := quiet; replies := [say [b "OK x" ++ CRLF ++ b "AGREE_UNIX_FD" ++ CRLF]; quiet] |}
                     = (CBlocked, [0] ++ b "AUTH EXTERNAL 30" ++ CRLF ++ b "NEGOTIATE_UNIX_FD" ++ CRLF, []).
Proof. vm_compute. reflexivity. Qed.
(* ... but bytes that arrive in a later read stay in the socket: here the first message after BEGIN *)
Example hs_pipelined_kept : run 0 false {| greeting := quiet; replies := [say [b "OK x" ++ CRLF; b "l" ++ [1; 2; 1]]] |}
                     = (COk, full "30" false, b "l" ++ [1; 2; 1]).
Proof. vm_compute. reflexivity. Qed.
(* a line longer than the 512-byte read buffer *)
Example hs_long_line : run 0 false {| greeting := quiet; replies := [say [b "OK " ++ repeat 120 600 ++ CRLF]] |}
                       = (COk, full "30" false, []).
Proof. vm_compute. reflexivity. Qed.
(* the 16 KiB line limit (MAX_AUTH_LINE_LEN): a line is given up once more than 16384 bytes are buffered without
   CR LF - checked before each read, so what the reads deliver decides the exact boundary *)
Definition okx (n : nat) : list N := b "OK " ++ repeat 120 (n - 3).
Definition run_len uid fd scr := let (res, s) := connect_to_bus uid fd scr in (res, len (received (log s)), len (unread s), len (log s)).
(* 16384 bytes, then CR LF in the next read: still accepted *)
Example hs_limit_at : run_len 0 false {| greeting := quiet; replies := [say [okx 16384; CRLF]] |} = (COk, 16386, 0, 36).
Proof. vm_compute. reflexivity. Qed.
(* 16385 bytes without CR LF are in the buffer: error, the CR LF is never read *)
Example hs_limit_over : run_len 0 false {| greeting := quiet; replies := [say [okx 16385; CRLF]] |} = (CErr, 16385, 2, 35).
Proof. vm_compute. reflexivity. Qed.
(* byte-wise delivery: a 16383-byte line is the longest that is accepted, 16384 is not *)
Definition bytewise (l : list N) : list (list N) := map (fun x => [x]) l.
Example hs_limit_bytewise :
  (fst (connect_to_bus 0 false {| greeting := quiet; replies := [say (okx 15872 :: bytewise (repeat 120 511 ++ CRLF))] |}),
   fst (connect_to_bus 0 false {| greeting := quiet; replies := [say (okx 15872 :: bytewise (repeat 120 512 ++ CRLF))] |}))
  = (COk, CErr).
Proof. vm_compute. reflexivity. Qed.
(* a server that streams garbage: the client gives up after 33 reads of 512 bytes, whatever follows *)
Example hs_endless_garbage :
  run_len 0 true {| greeting := quiet; replies := [say [repeat 120 100000]] |} = (CErr, 16896, 83104, 35).
Proof. vm_compute. reflexivity. Qed.
Example wf_ex scr : wf (sock_init scr).
Proof. apply wf_init. Qed.

Example pieces_long : map (@List.length N) (pieces (repeat 120 1100)) = [512; 512; 76]%nat.
Proof. vm_compute. reflexivity. Qed.

(* hypotheses satisfiable: a responsive script; a conforming successful run and its conversation *)
Example responsive_ex : responsive true {| greeting := quiet; replies := [say [b "OK" ++ CRLF]; say_close []] |}.
Proof. split; [right; exists (b "OK"), []; reflexivity|]. intros _. left. reflexivity. Qed.
Example conversation_ex :
  segments (log (snd (connect_to_bus 0 false {| greeting := quiet; replies := [say [b "OK"; CRLF]] |})))
  = conversation (b "30") false (b "OK" ++ CRLF) [].
Proof. vm_compute. reflexivity. Qed.
Example first_line_ex : first_line (b "OK x" ++ CRLF ++ b "rest") (b "OK x") (b "rest").
Proof. split; [reflexivity|]. apply no_line_ending_spec. vm_compute. reflexivity. Qed.
End Ex.
