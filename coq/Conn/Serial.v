(** Model of the serial and header side of the send path (C13, shared with C10).

    rustbus/src/connection/ll_conn.rs : SendConn { header_buf, serial_counter }, alloc_serial,
                                        send_message (serial choice + header marshalling)
    rustbus/src/wire/marshal.rs       : marshal, marshal_header (fixed 16 byte part; the header
                                        field array is a parameter, it belongs to C05)
    rustbus/src/wire/util.rs          : write_u32, insert_u32, parse_u32, pad_to_align
    rustbus/src/message_builder.rs    : DynamicHeader::{make_response, make_error_response}
    rustbus/src/standard_messages.rs  : unknown_method, invalid_args

    Serials are NonZeroU32 values, modelled as N; usize is 64 bit. *)
From RB Require Import Base.Prelude.

Inductive endian := LE | BE.

(* ---------------------------------------------------------------- wire/util.rs *)

(* u32::to_le_bytes / the shifts of insert_u32: byte i is (val >> 8*i) as u8 *)
Definition le_bytes32 (v : N) : list N :=
  [v mod 256; (v / 2^8) mod 256; (v / 2^16) mod 256; (v / 2^24) mod 256].

(* the four bytes both write_u32 (to_le_bytes / to_be_bytes) and insert_u32 produce for [val] *)
Definition u32_bytes (bo : endian) (v : N) : list N :=
  match bo with LE => le_bytes32 v | BE => rev (le_bytes32 v) end.

(* util::write_u32(val, byteorder, buf): buf.extend_from_slice(..) *)
Definition write_u32 (v : N) (bo : endian) (buf : list N) : list N := buf ++ u32_bytes bo v.

(* util::insert_u32(byteorder, val, &mut buf[pos..pos+4]); the slice expression panics when the
   buffer is shorter than pos+4 *)
Definition insert_u32_at (bo : endian) (v : N) (pos : N) (buf : list N) : outcome (list N) :=
  if len buf <? pos + 4 then Panic
  else Ok (firstnN pos buf ++ u32_bytes bo v ++ skipnN (pos + 4) buf).

(* util::parse_u32(number, byteorder) *)
Definition parse_u32 (number : list N) (bo : endian) : outcome N :=
  match number with
  | b0 :: b1 :: b2 :: b3 :: _ =>
      match bo with
      | LE => Ok (b0 + b1 * 2^8 + b2 * 2^16 + b3 * 2^24)
      | BE => Ok (b3 + b2 * 2^8 + b1 * 2^16 + b0 * 2^24)
      end
  | _ => Err                                          (* number.len() < 4: NotEnoughBytes *)
  end.

(* util::pad_to_align(align_to, buf) *)
Definition pad_to_align (a : N) (buf : list N) : list N :=
  let padding_needed := a - (len buf mod a) in
  if padding_needed =? a then buf else buf ++ zeros padding_needed.

(* ---------------------------------------------------------------- message_builder.rs *)

Inductive mtype := MSignal | MError | MCall | MReply | MInvalid.

(* DynamicHeader; strings are byte strings *)
Record dynheader := {
  dh_interface : option (list N);
  dh_member : option (list N);
  dh_object : option (list N);
  dh_destination : option (list N);
  dh_serial : option N;                 (* Option<NonZeroU32> *)
  dh_sender : option (list N);
  dh_signature : option (list N);
  dh_error_name : option (list N);
  dh_response_serial : option N;        (* Option<NonZeroU32> *)
  dh_num_fds : option N }.

(* MarshalledMessage as far as the send path looks at it: msg_body is get_buf(), msg_raw_fds is
   body.get_raw_fds() (the descriptors still present in body.raw_fds, as identities) *)
Record message := {
  msg_typ : mtype;
  msg_flags : N;
  msg_dyn : dynheader;
  msg_bo : endian;                      (* body.byteorder() *)
  msg_body : list N;
  msg_raw_fds : list N }.

Definition dh_default : dynheader :=
  {| dh_interface := None; dh_member := None; dh_object := None; dh_destination := None;
     dh_serial := None; dh_sender := None; dh_signature := None; dh_error_name := None;
     dh_response_serial := None; dh_num_fds := None |}.

(* <&str as Marshal>::marshal on an empty little-endian body (MarshalledMessageBody::new() uses
   the native byte order; x86-64): NUL is refused, no padding at offset 0, write_string *)
Definition marshal_text (text : list N) : outcome (list N) :=
  if existsb (N.eqb 0) text then Err
  else Ok (u32_bytes LE (len text mod 2^32) ++ text ++ [0]).

(* DynamicHeader::make_response *)
Definition make_response (h : dynheader) : message :=
  {| msg_typ := MReply;
     msg_flags := 0;
     msg_dyn := {| dh_interface := None; dh_member := None; dh_object := None;
                   dh_destination := dh_sender h;
                   dh_serial := None; dh_sender := None; dh_signature := None;
                   dh_error_name := None;
                   dh_response_serial := dh_serial h;
                   dh_num_fds := None |};
     msg_bo := LE; msg_body := []; msg_raw_fds := [] |}.

(* DynamicHeader::make_error_response(error_name, error_msg); push_param(text).unwrap() *)
Definition make_error_response (h : dynheader) (error_name : list N) (error_msg : option (list N))
  : outcome message :=
  let dh := {| dh_interface := None; dh_member := None; dh_object := None;
               dh_destination := dh_sender h;
               dh_serial := None; dh_sender := None; dh_signature := None;
               dh_error_name := Some error_name;
               dh_response_serial := dh_serial h;
               dh_num_fds := None |} in
  match error_msg with
  | None => Ok {| msg_typ := MError; msg_flags := 0; msg_dyn := dh; msg_bo := LE;
                  msg_body := []; msg_raw_fds := [] |}
  | Some text =>
      match marshal_text text with
      | Ok b => Ok {| msg_typ := MError; msg_flags := 0; msg_dyn := dh; msg_bo := LE;
                      msg_body := b; msg_raw_fds := [] |}
      | _ => Panic                                    (* .unwrap() on Err *)
      end
  end.

Definition opt_str (o : option (list N)) : list N := match o with Some s => s | None => [] end.

(* "No calls to " "." " are accepted for object " *)
Definition s_no_calls_to : list N := [78;111;32;99;97;108;108;115;32;116;111;32].
Definition s_dot : list N := [46].
Definition s_accepted_for : list N :=
  [32;97;114;101;32;97;99;99;101;112;116;101;100;32;102;111;114;32;111;98;106;101;99;116;32].
(* "org.freedesktop.DBus.Error.UnknownMethod" *)
Definition s_unknown_method : list N :=
  [111;114;103;46;102;114;101;101;100;101;115;107;116;111;112;46;68;66;117;115;46;69;114;114;111;114;46;
   85;110;107;110;111;119;110;77;101;116;104;111;100].

(* standard_messages::unknown_method *)
Definition unknown_method (call : dynheader) : outcome message :=
  let text := s_no_calls_to ++ opt_str (dh_interface call) ++ s_dot ++ opt_str (dh_member call)
              ++ s_accepted_for ++ opt_str (dh_object call) in
  make_error_response call s_unknown_method (Some text).

(* "Invalid arguments for calls to " " on object " " " "expected signature: " *)
Definition s_invalid_args_for : list N :=
  [73;110;118;97;108;105;100;32;97;114;103;117;109;101;110;116;115;32;102;111;114;32;99;97;108;108;115;32;116;111;32].
Definition s_on_object : list N := [32;111;110;32;111;98;106;101;99;116;32].
Definition s_space : list N := [32].
Definition s_expected_sig : list N :=
  [101;120;112;101;99;116;101;100;32;115;105;103;110;97;116;117;114;101;58;32].
(* "org.freedesktop.DBus.Error.InvalidArgs" *)
Definition s_invalid_args : list N :=
  [111;114;103;46;102;114;101;101;100;101;115;107;116;111;112;46;68;66;117;115;46;69;114;114;111;114;46;
   73;110;118;97;108;105;100;65;114;103;115].

(* standard_messages::invalid_args *)
Definition invalid_args (call : dynheader) (sig : option (list N)) : outcome message :=
  let text := s_invalid_args_for ++ opt_str (dh_interface call) ++ s_dot ++ opt_str (dh_member call)
              ++ s_on_object ++ opt_str (dh_object call) ++ s_space
              ++ match sig with Some s => s_expected_sig ++ s | None => [] end in
  make_error_response call s_invalid_args (Some text).

(* ---------------------------------------------------------------- wire/marshal.rs *)

Definition bo_byte (bo : endian) : N := match bo with BE => 66 | LE => 108 end.   (* b'B' / b'l' *)

Definition typ_code (t : mtype) : option N :=
  match t with MInvalid => None | MCall => Some 1 | MReply => Some 2 | MError => Some 3 | MSignal => Some 4 end.

Definition MAX_MESSAGE_LEN : N := 2^27.
Definition MAX_ARRAY_LEN : N := 2^26.

(* util::check_marshalled_array_len(len): Err(ArrayTooLong) above the protocol limit, else len as u32 *)
Definition check_marshalled_array_len (l : N) : outcome N :=
  if MAX_ARRAY_LEN <? l then Err else Ok (l mod 2^32).

Section Marshal.
  (* The bytes the sequence of marshal_header_* calls appends to a buffer of length 16 (reply serial,
     interface, destination, sender, member, path, error name, signature, unix_fds, each 8-aligned),
     or None when one of the name validations fails or the message lacks a header field its type requires
     (the has_required_fields check at the top of marshal_header: InvalidHeaderFields; like every refusal it
     returns Err before the buffer is looked at again). Its contents are the subject of C05; nothing in
     C10/C13 depends on them, so the theorems hold for every such function. *)
  Variable hdr_fields : message -> option (list N).

  (* marshal_header(msg, chosen_serial, buf) *)
  Definition marshal_header (m : message) (chosen_serial : N) (buf : list N) : outcome (list N) :=
    let bo := msg_bo m in
    let buf := buf ++ [bo_byte bo] in
    match typ_code (msg_typ m) with
    | None => Err                                     (* InvalidMessageType *)
    | Some t =>
        let buf := buf ++ [t] in
        let buf := buf ++ [msg_flags m] in
        let buf := buf ++ [1] in
        let buf := buf ++ [0; 0; 0; 0] in
        let buf := write_u32 chosen_serial bo buf in
        let pos := len buf in
        let buf := buf ++ [0; 0; 0; 0] in
        match hdr_fields m with
        | None => Err                                 (* a marshal_header_* validation failed *)
        | Some fs =>
            let buf := buf ++ fs in
            let l := len buf - pos - 4 in
            do l <- check_marshalled_array_len l;     (* the header fields are an array *)
            insert_u32_at bo l pos buf
        end
    end.

  (* marshal(msg, chosen_serial, buf) *)
  Definition marshal (m : message) (chosen_serial : N) (buf : list N) : outcome (list N) :=
    do buf <- marshal_header m chosen_serial buf;
    let buf := pad_to_align 8 buf in
    if MAX_MESSAGE_LEN <? len buf + len (msg_body m) then Err     (* MessageTooLong *)
    else insert_u32_at (msg_bo m) (len (msg_body m) mod 2^32) 4 buf.

  (* ---------------------------------------------------------------- ll_conn.rs *)

  Record send_conn := { header_buf : list N; serial_counter : N }.

  (* connect_to_bus: header_buf: Vec::new(), serial_counter: NonZeroU32::MIN *)
  Definition conn_init : send_conn := {| header_buf := []; serial_counter := 1 |}.

  (* SendConn::alloc_serial: post-increment, checked_add(1).expect("run out of serials") *)
  Definition alloc_serial (c : send_conn) : outcome (N * send_conn) :=
    let serial := serial_counter c in
    if serial_counter c + 1 <? 2^32
    then Ok (serial, {| header_buf := header_buf c; serial_counter := serial_counter c + 1 |})
    else Panic.

  (* SendMessageState *)
  Record send_state := { bytes_sent : N; st_serial : N }.

  (* SendMessageContext { msg, conn, state } *)
  Record send_ctx := { cx_conn : send_conn; cx_msg : message; cx_state : send_state }.

  (* SendConn::send_message. Returns the connection as it is after the call and the context (which
     holds the &mut borrow of that connection) on success. When marshal fails the buffer holds a
     partial header that no public function reads before the next clear(); the model leaves it
     empty. The serial that was allocated for the failed message stays consumed. *)
  Definition send_message (c : send_conn) (m : message) : outcome (send_conn * option send_ctx) :=
    do sc <- match dh_serial (msg_dyn m) with
             | Some serial => Ok (serial, c)
             | None => alloc_serial c
             end;
    let '(serial, c) := sc in
    let c := {| header_buf := []; serial_counter := serial_counter c |} in          (* header_buf.clear() *)
    match marshal m serial (header_buf c) with
    | Ok hb =>
        let c := {| header_buf := hb; serial_counter := serial_counter c |} in
        Ok (c, Some {| cx_conn := c; cx_msg := m;
                       cx_state := {| bytes_sent := 0; st_serial := serial |} |})
    | Err => Ok (c, None)                             (* Err(e) returned, no context *)
    | Panic => Panic
    | UB => UB
    | OutOfFuel => OutOfFuel
    end.

  (* SendMessageContext::serial *)
  Definition ctx_serial (x : send_ctx) : N := st_serial (cx_state x).

  (* SendMessageContext::into_progress: copies the state, force_finish = mem::forget (no Drop) *)
  Definition into_progress (x : send_ctx) : send_state := cx_state x.

  (* SendMessageContext::resume(conn, msg, progress) *)
  Definition resume (c : send_conn) (m : message) (progress : send_state) : send_ctx :=
    {| cx_conn := c; cx_msg := m; cx_state := progress |}.

  (* ---------------------------------------------------------------- histories (C13) *)

  (* k calls of alloc_serial in a row *)
  Fixpoint alloc_n (k : nat) (c : send_conn) : outcome (send_conn * list N) :=
    match k with
    | O => Ok (c, [])
    | S k =>
        do sc <- alloc_serial c;
        let '(s, c) := sc in
        do r <- alloc_n k c;
        let '(c, ss) := r in
        Ok (c, s :: ss)
    end.

  (* OpSendResumed m k: send_message(m), some bytes written, into_progress; k calls of alloc_serial
     while the send is suspended (the only use of the connection that is allowed then: another
     send_message would overwrite header_buf); resume(conn, m, progress), written to the end.
     When send_message fails there is nothing to suspend; the k allocations still happen. *)
  (* How a send can end without being written to the end. None of these paths touches serial_counter:
     DroppedAtZero   - nothing was accepted (socket full: EAGAIN / time-out at zero bytes), the context is
                       dropped (Drop does nothing at zero bytes) or force_finish is called (send_hello on a time-out)
     ForceFinished   - force_finish / force_finish_on_error after a partial write
     IoError         - write / write_all / send_message_write_all fails with an I/O error (EBADF for a closed
                       attached descriptor, EPIPE when the peer is gone); force_finish_on_error forgets the context *)
  Inductive abandon := DroppedAtZero | ForceFinished | IoError.

  Inductive op := OpAlloc | OpSend (m : message) | OpSendResumed (m : message) (k : nat)
                | OpSendAbandoned (m : message) (how : abandon).

  (* what the caller and the peer observe *)
  Inductive event :=
  | EvAlloc (s : N)                                   (* alloc_serial returned s *)
  | EvSent (preset : option N) (reported : N) (hb : list N)   (* send_message -> ctx; ctx.serial(); header on the wire *)
  | EvSendErr (preset : option N) (between : list N)  (* send_message returned Err (then, for OpSendResumed, the k allocations) *)
  | EvAbandoned (preset : option N) (serial : N) (hb : list N)
      (* send_message -> ctx with ctx.serial() = serial and header hb in header_buf; the message was not completed *)
  | EvSentResumed (preset : option N) (between : list N) (reported : N) (hb : list N).
      (* as EvSent for a send that was suspended and resumed: the serials alloc_serial returned in
         between, the serial of the resumed context (what write() returns), the header it transmits *)

  Definition step (c : send_conn) (o : op) : outcome (send_conn * event) :=
    match o with
    | OpAlloc => do sc <- alloc_serial c; let '(s, c) := sc in Ok (c, EvAlloc s)
    | OpSend m =>
        do r <- send_message c m;
        let '(c, x) := r in
        match x with
        | Some x => Ok (c, EvSent (dh_serial (msg_dyn m)) (ctx_serial x) (header_buf (cx_conn x)))
        | None => Ok (c, EvSendErr (dh_serial (msg_dyn m)) [])
        end
    | OpSendAbandoned m _ =>
        do r <- send_message c m;
        let '(c, x) := r in
        match x with
        | Some x => Ok (c, EvAbandoned (dh_serial (msg_dyn m)) (ctx_serial x) (header_buf (cx_conn x)))
        | None => Ok (c, EvSendErr (dh_serial (msg_dyn m)) [])
        end
    | OpSendResumed m k =>
        do r <- send_message c m;
        let '(c, x) := r in
        let progress := option_map into_progress x in
        do a <- alloc_n k c;
        let '(c, between) := a in
        match progress with
        | Some progress =>
            let x := resume c m progress in
            Ok (c, EvSentResumed (dh_serial (msg_dyn m)) between (ctx_serial x) (header_buf (cx_conn x)))
        | None => Ok (c, EvSendErr (dh_serial (msg_dyn m)) between)
        end
    end.

  (* many allocations at once (the harness op x<n>): what k calls of alloc_serial leave behind and the
     last serial they return, without running them one by one; equal to alloc_n by alloc_many_spec *)
  Definition alloc_many (k : N) (c : send_conn) : outcome (send_conn * N) :=
    if serial_counter c + k <? 2^32
    then Ok ({| header_buf := header_buf c; serial_counter := serial_counter c + k |}, serial_counter c + k - 1)
    else Panic.

  (* DuplexConn::send_hello: `if resp.dynheader.response_serial != Some(serial) { return Err(AuthFailed) }` *)
  Definition hello_matches (serial : N) (resp : dynheader) : bool :=
    match dh_response_serial resp with Some s => s =? serial | None => false end.

  Fixpoint run_ops (ops : list op) (c : send_conn) : outcome (send_conn * list event) :=
    match ops with
    | [] => Ok (c, [])
    | o :: ops =>
        do ce <- step c o;
        let '(c, e) := ce in
        do r <- run_ops ops c;
        let '(c, es) := r in
        Ok (c, e :: es)
    end.
End Marshal.
