(** Non-vacuity for C10: the model computes; schedules with short writes, EAGAIN, a zero-byte accept,
    suspension and resumption; the hypotheses of the theorems are satisfiable. *)
From RB Require Import Base.Prelude Conn.Serial Conn.SerialProofs Conn.SerialExamples Conn.Send Conn.SendProofs.

(* a message with a 10 byte body and two descriptors (identities 7 and 9) *)
Definition ex_body : list N := [10; 11; 12; 13; 14; 15; 16; 17; 18; 19].
Definition ex_m : message :=
  {| msg_typ := MCall; msg_flags := 0; msg_dyn := ex_dyn None; msg_bo := LE; msg_body := ex_body; msg_raw_fds := [7; 9] |}.
Definition ex_hb : list N :=
  [108; 1; 0; 1; 10; 0; 0; 0; 1; 0; 0; 0; 11; 0; 0; 0; 3; 1; 115; 0; 2; 0; 0; 0; 65; 98; 0; 0; 0; 0; 0; 0].
Definition ex_conn1 : send_conn := {| header_buf := ex_hb; serial_counter := 2 |}.
Definition ex_ctx : send_ctx := {| cx_conn := ex_conn1; cx_msg := ex_m; cx_state := {| bytes_sent := 0; st_serial := 1 |} |}.

Example ex_send_message : send_message ex_fields conn_init ex_m = Ok (ex_conn1, Some ex_ctx).
Proof. vm_compute. reflexivity. Qed.
Example ex_hyps : conn_ok conn_init /\ op_wf (OpSend ex_m).
Proof. split; [apply conn_init_ok|]. cbn. intros p H. discriminate. Qed.

(* first the kernel takes nothing (descriptors stay), then 5 bytes (descriptors go), EAGAIN, 30 bytes
   (crossing the header/body boundary), suspend, kernel events while suspended are not ours, resume, the rest *)
Definition ex_sched : list wev := [Accept 0; Accept 5; Again; Accept 30; Suspend; Accept 4; Resume; Accept 1000; Accept 3].
Example ex_run_partial :
  let r := run_send ex_ctx world0 [Accept 0] in
  wire (r_world r) = [] /\ fds_delivered (r_world r) = [] /\ bytes_sent (r_state r) = 0 /\ r_completed r = false.
Proof. vm_compute. repeat split; reflexivity. Qed.
Example ex_run_partial2 :
  let r := run_send ex_ctx world0 [Accept 0; Accept 5; Again; Accept 30; Suspend; Accept 4] in
  wire (r_world r) = ex_hb ++ [10; 11; 12] /\ fds_delivered (r_world r) = [7; 9]
  /\ bytes_sent (r_state r) = 35 /\ r_completed r = false /\ r_reported r = None.
Proof. vm_compute. repeat split; reflexivity. Qed.
Example ex_run_full :
  let r := run_send ex_ctx world0 ex_sched in
  wire (r_world r) = ex_hb ++ ex_body /\ fds_delivered (r_world r) = [7; 9]
  /\ bytes_sent (r_state r) = 42 /\ r_completed r = true /\ r_reported r = Some 1 /\ r_panicked r = false.
Proof. vm_compute. repeat split; reflexivity. Qed.
Example ex_accepted_sum : accepted_sum true ex_sched = 1038.
Proof. vm_compute. reflexivity. Qed.
Example ex_run_spec : send_spec ex_hb ex_body [7; 9] 1 world0 (run_send ex_ctx world0 ex_sched).
Proof.
  pose proof (send_exactly_once ex_fields conn_init ex_m ex_conn1 ex_ctx world0 ex_sched
                (proj1 ex_hyps) (proj2 ex_hyps) ex_send_message) as H. exact H.
Qed.

(* write(): three short writes then EAGAIN: Err, the context comes back with 20 bytes sent; dropping
   it would panic, into_progress does not; write again to the end: Ok(serial) *)
Example ex_write_err :
  let '(x, w, r) := write ex_ctx world0 [WKernel (KAccept 7); WKernel (KAccept 6); WKernel (KAccept 7); WKernel KAgain; WKernel (KAccept 9)] in
  r = Err /\ bytes_sent (cx_state x) = 20 /\ wire w = firstnN 20 ex_hb /\ drop_ctx x = Panic
  /\ (let '(x2, w2, r2) := write (resume (cx_conn x) (cx_msg x) (into_progress x)) w [WTimedOut] in r2 = Err /\ w2 = w)
  /\ (let '(x3, w3, r3) := write x w [WKernel (KAccept 21); WKernel (KAccept 1); WKernel (KAccept 50)] in
      r3 = Ok 1 /\ wire w3 = ex_hb ++ ex_body /\ fds_delivered w3 = [7; 9] /\ drop_ctx x3 = Ok tt).
Proof. vm_compute. repeat split; reflexivity. Qed.
Example ex_write_blocked : let '(_, _, r) := write ex_ctx world0 [WKernel (KAccept 7)] in r = OutOfFuel.
Proof. vm_compute. reflexivity. Qed.

(* two messages one after the other on the same connection: in order, each once *)
Example ex_two_messages :
  let '(c1, w1, r1) := send_message_write_all ex_fields conn_init ex_m world0 [WKernel (KAccept 40); WKernel (KAccept 40)] in
  let '(c2, w2, r2) := send_message_write_all ex_fields c1 (ex_msg BE 0 (Some 16909060) []) w1 [WKernel (KAccept 100)] in
  r1 = Ok 1 /\ r2 = Ok 16909060 /\ serial_counter c2 = 2
  /\ wire w2 = (ex_hb ++ ex_body) ++ [66; 1; 0; 1; 0; 0; 0; 0; 1; 2; 3; 4; 0; 0; 0; 11; 3; 1; 115; 0; 2; 0; 0; 0; 65; 98; 0; 0; 0; 0; 0; 0]
  /\ fds_delivered w2 = [7; 9].
Proof. vm_compute. repeat split; reflexivity. Qed.

(* a message given up after EAGAIN at zero bytes (Drop does nothing), one given up after 20 bytes (Drop
   panics; force_finish does not), one refused by send_message: the message after each of them is on the
   wire as header ++ body right after what was there *)
Example ex_abandon :
  let r0 := run_send ex_ctx world0 [Again] in
  let r1 := run_send ex_ctx world0 [Accept 20] in
  drop_ctx ex_ctx = Ok tt /\ r_conn r0 = ex_conn1 /\ wire (r_world r0) = []
  /\ (match r_caller r1 with Active x => drop_ctx x = Panic | _ => False end)
  /\ (let '(c2, w2, res) := send_message_write_all ex_fields (r_conn r1) (ex_msg BE 0 None [1; 2]) (r_world r1) [WKernel (KAccept 100)] in
      res = Ok 2 /\ wire w2 = firstnN 20 ex_hb ++ [66; 1; 0; 1; 0; 0; 0; 2; 0; 0; 0; 2; 0; 0; 0; 11; 3; 1; 115; 0; 2; 0; 0; 0; 65; 98; 0; 0; 0; 0; 0; 0; 1; 2])
  /\ (exists c', send_message ex_fields ex_conn1 (ex_msg LE 255 None []) = Ok (c', None) /\ header_buf c' = [] /\ serial_counter c' = 3).
Proof. vm_compute. repeat split; try reflexivity. eexists. repeat split. Qed.

(* the invariant is satisfiable in a partial state *)
Example ex_inv : Inv ex_hb ex_body [7; 9] 1 world0 ex_ctx world0.
Proof. unfold Inv. vm_compute. repeat split; try reflexivity. discriminate. Qed.
