(** C04, step counting for the dynamic (Param) decoder: [unmarshal_ps] (Wire/StepsParam.v) projects to [unmarshal_p]
    and makes at most [step_weight (udepth c)] steps per byte left in the buffer, plus [step_weight (udepth c)], on EVERY
    input; a successful run at most [step_weight (udepth c)] steps per byte consumed. *)
From RB Require Import Base.Prelude Sig.Types Sig.Parser Sig.ParserProofs Sig.Validator Sig.ValidatorProofs
  Wire.Bytes Wire.Align Wire.Text Wire.Value Wire.SpecEnc Wire.Marshal Wire.MarshalProofs Wire.Decode Wire.Unmarshal.
From RB Require Import Wire.DecodeSoundLemmas Wire.DecodeTotal Wire.Steps Wire.StepsProofs Wire.StepsParam.

(** ** one equation per type constructor *)
Section PFieldLoopS.
  Variable one : ty -> uctx -> counted (val * uctx).
  Fixpoint p_fields_s (l : list ty) (c : uctx) (acc : list val) : counted (list val * uctx) :=
    match l with
    | [] => lift (Ok (rev acc, c))
    | f :: r => tick (dos x <- one f c; p_fields_s r (snd x) (fst x :: acc))
    end.
End PFieldLoopS.

Lemma unmarshal_ps_base_eq vf be b c : unmarshal_ps (S vf) be (TBase b) c = tick (lift (u_base be b c)).
Proof. reflexivity. Qed.
Lemma unmarshal_ps_array_eq vf be e c : unmarshal_ps (S vf) be (TArray e) c =
  tick (
  dos c <- lift (u_enter c);
  dos r <- (dos r <- lift (u_read_fixed be 4 c);
           dos n <- lift (check_array_len (fst r));
           dos c1 <- lift (u_align (align e) (snd r));
           dos s <- lift (u_sub n c1);
           dos vs <- sub_loop_s (unmarshal_ps (S vf) be e) (S (N.to_nat n)) (fst s) [];
           lift (Ok (VArray e vs, snd s)));
  lift (Ok (fst r, u_leave (snd r)))).
Proof. reflexivity. Qed.
Lemma unmarshal_ps_dict_eq vf be k v c : unmarshal_ps (S vf) be (TDict k v) c =
  tick (
  dos c <- lift (u_enter c);
  dos r <- (dos r <- lift (u_read_fixed be 4 c);
           dos n <- lift (check_array_len (fst r));
           dos c1 <- lift (u_align 8 (snd r));
           dos s <- lift (u_sub n c1);
           dos kvs <- sub_loop_s (fun c => dos c <- lift (u_align 8 c);
                                        dos kr <- tick (lift (u_base be k c));
                                        dos vr <- unmarshal_ps (S vf) be v (snd kr);
                                        lift (Ok ((fst kr, fst vr), snd vr)))
                              (S (N.to_nat n)) (fst s) [];
           lift (Ok (VDict k v kvs, snd s)));
  lift (Ok (fst r, u_leave (snd r)))).
Proof. reflexivity. Qed.
Lemma unmarshal_ps_struct_eq vf be ts c : unmarshal_ps (S vf) be (TStruct ts) c =
  tick (
  dos c <- lift (u_enter c);
  dos r <- (dos c <- lift (u_align 8 c);
           match ts with
           | [] => lift Err
           | _ => dos r <- p_fields_s (unmarshal_ps (S vf) be) ts c []; lift (Ok (VStruct (fst r), snd r))
           end);
  lift (Ok (fst r, u_leave (snd r)))).
Proof. reflexivity. Qed.
Lemma unmarshal_ps_variant_eq vf be c : unmarshal_ps (S vf) be TVariant c =
  tick (
  dos c <- lift (u_enter c);
  dos r <- (dos r <- lift (u_read_sig c);
           dos tys <- lift (parse_description (fst r));
           match tys with
           | [t'] => dos x <- unmarshal_ps vf be t' (snd r); lift (Ok (VVariant t' (fst x), snd x))
           | _ => lift Err
           end);
  lift (Ok (fst r, u_leave (snd r)))).
Proof. reflexivity. Qed.

(** ** projection *)
Lemma sub_loop_s_proj {A} (one_s : uctx -> counted (A * uctx)) one : (forall c, fst (one_s c) = one c) ->
  forall lf c acc, fst (sub_loop_s one_s lf c acc) = sub_loop one lf c acc.
Proof.
  intros H. induction lf as [|lf IH]; intros c acc; cbn [sub_loop_s sub_loop]; destruct (remainder_len c =? 0); try reflexivity.
  rewrite fst_tick, fst_bind_s, H. apply bind_ext. intros r _. apply IH.
Qed.
Lemma p_fields_s_proj one_s one : forall ts, (forall f c, In f ts -> fst (one_s f c) = one f c) ->
  forall c acc, fst (p_fields_s one_s ts c acc) = p_fields one ts c acc.
Proof.
  induction ts as [|f r IH]; intros H c acc; cbn [p_fields_s p_fields]; [reflexivity|].
  rewrite fst_tick, fst_bind_s, (H f _ (or_introl eq_refl)). apply bind_ext. intros x _. apply IH.
  intros f' c' Hin. apply H. now right.
Qed.

Theorem unmarshal_ps_proj be : forall vf t c, fst (unmarshal_ps vf be t c) = unmarshal_p vf be t c.
Proof.
  induction vf as [|vf IHvf]; [reflexivity|].
  induction t as [b|e IHe|ts IHts|kt vt IHv|] using ty_ind'; intros c.
  - reflexivity.
  - rewrite unmarshal_ps_array_eq, unmarshal_p_array_eq, fst_tick.
    rewrite fst_bind_s, fst_lift. apply bind_ext. intros c0 _.
    rewrite fst_bind_s. f_equal.
    rewrite fst_bind_s, fst_lift. apply bind_ext. intros r _.
    rewrite fst_bind_s, fst_lift. apply bind_ext. intros n _.
    rewrite fst_bind_s, fst_lift. apply bind_ext. intros c1 _.
    rewrite fst_bind_s, fst_lift. apply bind_ext. intros s _.
    rewrite fst_bind_s. rewrite (sub_loop_s_proj _ (unmarshal_p (S vf) be e)); [reflexivity|exact IHe].
  - rewrite unmarshal_ps_struct_eq, unmarshal_p_struct_eq, fst_tick.
    rewrite fst_bind_s, fst_lift. apply bind_ext. intros c0 _.
    rewrite fst_bind_s. f_equal.
    rewrite fst_bind_s, fst_lift. apply bind_ext. intros c1 _.
    destruct ts as [|t0 ts']; [reflexivity|].
    rewrite fst_bind_s. rewrite (p_fields_s_proj _ (unmarshal_p (S vf) be)); [reflexivity|].
    rewrite Forall_forall in IHts. intros f c' Hin. now apply IHts.
  - rewrite unmarshal_ps_dict_eq, unmarshal_p_dict_eq, fst_tick.
    rewrite fst_bind_s, fst_lift. apply bind_ext. intros c0 _.
    rewrite fst_bind_s. f_equal.
    rewrite fst_bind_s, fst_lift. apply bind_ext. intros r _.
    rewrite fst_bind_s, fst_lift. apply bind_ext. intros n _.
    rewrite fst_bind_s, fst_lift. apply bind_ext. intros c1 _.
    rewrite fst_bind_s, fst_lift. apply bind_ext. intros s _.
    rewrite fst_bind_s. erewrite sub_loop_s_proj; [reflexivity|].
    intros c'. cbv beta. rewrite fst_bind_s, fst_lift. apply bind_ext. intros c2 _.
    rewrite fst_bind_s, fst_tick, fst_lift. apply bind_ext. intros kr _.
    rewrite fst_bind_s, IHv. reflexivity.
  - rewrite unmarshal_ps_variant_eq, unmarshal_p_variant_eq, fst_tick.
    rewrite fst_bind_s, fst_lift. apply bind_ext. intros c0 _.
    rewrite fst_bind_s. f_equal.
    rewrite fst_bind_s, fst_lift. apply bind_ext. intros r _.
    rewrite fst_bind_s, fst_lift. apply bind_ext. intros tys _.
    destruct tys as [|t' [|]]; try reflexivity.
    rewrite fst_bind_s, IHvf. reflexivity.
Qed.
